#!/bin/bash
# thorough tier: all rules of the property (incl. SSA/call-graph ones), then the
# seeded-variant self-test of the property's rules on scratch copies of the tree.
set -u
export GOFLAGS=-mod=mod GOPROXY=off GOSUMDB=off GOTOOLCHAIN=local GOWORK=off
V=/verif
prop=$1
REPO=$2
"$V/bin/goatcheck" -repo "$REPO" -verif "$V" -prop "$prop" -tier thorough
rc=$?
[ $rc -ne 0 ] && exit $rc
# the same rules on the program as a 32-bit target sees it (covers what any build covers; evidence is not rewritten)
out386=$("$V/bin/goatcheck" -repo "$REPO" -verif "$V" -prop "$prop" -tier thorough -goarch 386 -no-evidence 2>&1)
if echo "$out386" | grep -q '^VIOLATION'; then echo "$out386" | grep -E 'finding:|^VIOLATION'; echo "(under GOARCH=386)"; exit 1; fi
if [ -x "$V/selftest/run.sh" ]; then
  "$V/selftest/run.sh" "$prop" "$REPO" || { echo "self-test of the checker failed (a seeded variant was not detected); the check is not trustworthy" >&2; exit 2; }
fi
exit 0
