#!/bin/bash
# Self-test of the checker: apply each seeded variant of the property's rules to a scratch
# copy of the tree (outside /repo and /verif), and require the named rule to fire there.
# A variant whose anchor text is no longer in the tree (the tree under test was edited) is skipped.
exec python3 /verif/selftest/run.py "$@"
