#!/usr/bin/env python3
import json, os, shutil, subprocess, sys, tempfile

prop, repo = sys.argv[1], sys.argv[2]
variants = [v for v in json.load(open('/verif/selftest/variants.json')) if v['property'] == prop]
env = dict(os.environ, GOFLAGS='-mod=mod', GOPROXY='off', GOSUMDB='off', GOTOOLCHAIN='local', GOWORK='off')
base = os.environ.get('TMPDIR', '/tmp')
ran = missed = skipped = 0
for v in variants:
    path = os.path.join(repo, v['file'])
    try:
        src = open(path).read()
    except OSError:
        skipped += 1
        continue
    if v['old'] not in src:
        skipped += 1
        print(f"selftest {v['name']}: skipped (anchor text not in this tree)")
        continue
    d = tempfile.mkdtemp(prefix='goatcheck_selftest_', dir=base)
    try:
        shutil.copytree(repo, d, dirs_exist_ok=True, ignore=shutil.ignore_patterns('.git'))
        open(os.path.join(d, v['file']), 'w').write(src.replace(v['old'], v['new'], 1))
        b = subprocess.run(['go', 'build', './...'], cwd=d, env=env, capture_output=True, text=True)
        if b.returncode != 0:
            skipped += 1
            print(f"selftest {v['name']}: skipped (variant does not compile on this tree)")
            continue
        p = subprocess.run(['/verif/bin/goatcheck', '-repo', d, '-verif', '/verif', '-prop', prop, '-tier', 'thorough', '-no-evidence', '-expect', v['expect']],
                           env=env, capture_output=True, text=True)
        ran += 1
        if p.returncode != 0:
            missed += 1
            print(f"selftest {v['name']}: MISSED — expected {v['expect']} to fire\n{p.stdout[-1500:]}")
        else:
            print(f"selftest {v['name']}: detected ({v['expect']})")
    finally:
        shutil.rmtree(d, ignore_errors=True)
print(f"selftest property={prop} variants={len(variants)} ran={ran} missed={missed} skipped={skipped}")
# record the self-test in the property's evidence (thorough tier)
try:
    ep = f'/verif/evidence/{prop}.json'
    ev = json.load(open(ep))
    ev['coverage']['selftest'] = {'variants': len(variants), 'ran': ran, 'detected': ran - missed, 'missed': missed, 'skipped_anchor_absent': skipped,
        'note': 'each variant is one edit applied to a scratch copy; the named rule must report it'}
    json.dump(ev, open(ep, 'w'), indent=1)
except Exception as e:
    print('could not record self-test in evidence:', e)
sys.exit(1 if missed else 0)
