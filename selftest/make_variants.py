#!/usr/bin/env python3
"""Seeded variants for the checker's self-test: one textual edit each (old -> new in file),
the rule (and a substring of the construct) that must fire. Regenerates variants.json."""
import json
V = []
def v(prop, name, file, old, new, expect):
    V.append(dict(property=prop, name=name, file=file, old=old, new=new, expect=expect))

# C01
v("C01", "shim-crosswired", "builtins.go", "set1f(v, math.Floor(a))", "set1f(v, math.Ceil(a))", "TAB-SHIM:name math.Floor")
v("C01", "shim-args-swapped", "builtins.go", "set1f(v, math.Atan2(a, b))", "set1f(v, math.Atan2(b, a))", "TAB-SHIM:args math.Atan2")
v("C01", "opcode-unhandled", "do.go", "\t\tcase codeBitXor:", "\t\tcase codeTODO:", "TAB-EXHAUST:handled codeBitXor")
v("C01", "convmap-uint8", "compiler.go", '"uint8":   TypeUint8,', '"uint8":   TypeInt8,', "TAB-BASICNAMES:convMap uint8")
# C02
v("C02", "localsub-swapped", "do.go", "v.stack = append(v.stack, a.opSub(b))", "v.stack = append(v.stack, b.opSub(a))", "HND-AGREE:LocalSub")
v("C02", "side-condition-dropped", "compiler.go", " && in[n].A == in[n+2].A:", ":", "HND-AGREE:LocalIncDec")
v("C02", "unmeasured-segment", "compiler.go", "thenI := c.optimize(c.compile(tok.Tokens[ifThen]))", "thenI := c.compile(tok.Tokens[ifThen])", "PEEP-MEASURED:if JumpFalse.A")
v("C02", "glue-window", "compiler.go", "\t\tcase n < len(in) && in[n].Code == codeJump && in[n].A == 0:",
  "\t\tcase n < len(in)-1 && in[n].Code == codeLocalGet && in[n+1].Code == codeEq:\n\t\t\tout = append(out, instruction{Pos: in[n+1].Pos, Code: codeTODO, A: in[n].A})\n\t\t\tn += 1\n\t\tcase n < len(in) && in[n].Code == codeJump && in[n].A == 0:",
  "PEEP-GLUE:=>TODO")
v("C02", "single-pass", "compiler.go", "return c.doOptimize(c.doOptimize(in))", "return c.doOptimize(in)", "PEEP-DEPTH:chain-depth")
v("C02", "window-skip", "compiler.go", "out = append(out, instruction{Pos: in[n+1].Pos, Code: codeFastGetAttr, A: in[n].A, B: in[n+1].A})\n\t\t\tn += 1", "out = append(out, instruction{Pos: in[n+1].Pos, Code: codeFastGetAttr, A: in[n].A, B: in[n+1].A})\n\t\t\tn += 2", "PEEP-BOUND:FastGetAttr")
# C03
v("C03", "compile-no-descent", "compiler.go", '\tcase "...":\n\t\tres = append(res, c.compile(tok.Tokens[0])...)', '\tcase "...":\n\t\tres = append(res, c.compile(tok)...)', "TERM-LOOPS:recursion compiler.compile")
v("C03", "unguarded-slice", "vm.go", "\tv.treeDump(config.treeDump, pkgs)", "\tv.treeDump(config.treeDump, pkgs[1:])", "PAN-SITE:VM.Load|slice")
v("C03", "parser-no-advance", "symbol.go", '\t\t\tif p.Token.Symbol == ";" { // HACK: for tests\n\t\t\t\tp.Advance(";")\n\t\t\t\tcontinue\n\t\t\t}\n\t\t\tname := p.Advance("(name)")', '\t\t\tif p.Token.Symbol == ";" { // HACK: for tests\n\t\t\t\tcontinue\n\t\t\t}\n\t\t\tname := p.Advance("(name)")', "PAR-ADVANCE:cycles getType")
v("C03", "guard-removed", "compiler.go", "\tdefer func() {\n\t\tif r := recover(); r != nil {\n\t\t\tif c.cur == nil {", "\tfunc() {\n\t\tif r := recover(); r != nil {\n\t\t\tif c.cur == nil {", "PAN-REGION:guards compiler.run")
v("C03", "handler-unclamped", "vm.go", "\tif n >= 0 && n < len(v.frame.Codes) {", "\tif n >= 0 {", "PAN-HANDLER:VM.btErr|index")
v("C03", "stage-prefix", "vm.go", 'return fmt.Errorf("error in compile: %w", err)\n\t}\n\tv.codeDump(config.codeDump, codes)', 'return err\n\t}\n\tv.codeDump(config.codeDump, codes)', "PAN-PREFIX:VM.Load")
v("C03", "empty-tree-kept", "load.go", "\t\tif len(tok.Tokens) == 0 {\n\t\t\ttok = &token{", "\t\tif len(tok.Tokens) == 0 && pkg == \"\" {\n\t\t\ttok = &token{", "PAN-SITE:VM.treeDump")
# C04
v("C04", "rsh-signed", "value.go", "float64(uint32(v.num) >> uint32(b.num))", "float64(int32(v.num) >> uint32(b.num))", "OPS-ARITH:opBitRsh case TypeUint32")
v("C04", "sub-pasted-add", "value.go", "float64(int8(v.num) - int8(b.num))", "float64(int8(v.num) + int8(b.num))", "OPS-ARITH:opSub case TypeInt8")
v("C04", "gte-not-flipped", "do.go", "v.stack[len(v.stack)-1] = b.opLte(a)", "v.stack[len(v.stack)-1] = a.opLte(b)", "TAB-OPCHAIN:chain >=")
v("C04", "assign-uint32", "value.go", "\t\tcase TypeUint32:\n\t\t\treturn Value{t: t, num: float64(uint32(v.num))}", "\t\tcase TypeUint32:\n\t\t\treturn Value{t: t, num: float64(int32(v.num))}", "OPS-ASSIGN:untyped->TypeUint32")
v("C04", "typed-immediate", "do.go", "v.stack[len(v.stack)-1] = a.opAdd(newUntypedInt(int(i.A)))", "v.stack[len(v.stack)-1] = a.opAdd(Int(int(i.A)))", "OPS-IMM:codeIncDec")
v("C04", "cast-list", "compiler.go", "[]Type{TypeUint8, TypeInt8, TypeUint32, TypeInt32, TypeFloat64}", "[]Type{TypeUint8, TypeInt8, TypeInt32, TypeFloat64}", "TAB-CAST:cast TypeUint32")
v("C04", "shift-mixed-tag", "value.go", "func (v Value) opBitLsh(b Value) Value {\n\tt := v.t // a shift keeps the type of its left operand", "func (v Value) opBitLsh(b Value) Value {\n\tt := mixType(v.t, b.t)", "OPS-SHIFT:opBitLsh")
v("C04", "untyped-store", "value.go", "\ts.data[k.Int()] = v.assign(s.valueType)", "\ts.data[k.Int()] = v", "REP-TYPEDSTORE:sliceT.Set")
# C05
v("C05", "shift-level", "symbol.go", '"<<": {Lbp: 120, Led: ledInfix},', '"<<": {Lbp: 100, Led: ledInfix},', "TAB-PREC:\"<<\"")
v("C05", "right-assoc-loop", "parse.go", "for rbp < getSymbol(p.Token).Lbp &&", "for rbp <= getSymbol(p.Token).Lbp &&", "TAB-ASSOC:loop")
v("C05", "not-low-power", "symbol.go", "expr := p.doExpression(130) // unary binds tighter than any binary operator", "expr := p.doExpression(getSymbol(t).Lbp)", "TAB-UNARY:nud !")
v("C05", "operands-swapped", "symbol.go", "\tt.Append(left)\n\tt.Append(p.doExpression(getSymbol(t).Lbp))\n\treturn t", "\tright := p.doExpression(getSymbol(t).Lbp)\n\tt.Append(right)\n\tt.Append(left)\n\treturn t", "TAB-ASSOC:order")
# C06
v("C06", "if-else-offset", "compiler.go", "A: reg(len(thenI) + 1)})", "A: reg(len(thenI))})", "LAY-TARGET:if")
v("C06", "for-continue-offset", "compiler.go", "block[n].Code, block[n].A = codeJump, reg(len(block)-n-1)\n\t\t\t}\n\t\t}\n\t\tres = append(res, block...)\n\t\tres = append(res, post...)", "block[n].Code, block[n].A = codeJump, reg(len(block)-n)\n\t\t\t}\n\t\t}\n\t\tres = append(res, block...)\n\t\tres = append(res, post...)", "LAY-REWRITE:for block Continue")
v("C06", "default-not-rewritten", "compiler.go", "\t\tfor n, ins := range defBlock {\n\t\t\tswitch ins.Code {\n\t\t\tcase codeBreak:\n\t\t\t\tdefBlock[n].Code, defBlock[n].A = codeJump, reg(len(defBlock)-n-1)\n\t\t\t}\n\t\t}\n", "", "LAY-REWRITE:switch default Break")
v("C06", "jumptrue-polarity", "do.go", "\t\tcase codeJumpTrue:\n\t\t\ta := v.stack[len(v.stack)-1]\n\t\t\tv.stack = v.stack[:len(v.stack)-1]\n\t\t\tif !a.Bool() {", "\t\tcase codeJumpTrue:\n\t\t\ta := v.stack[len(v.stack)-1]\n\t\t\tv.stack = v.stack[:len(v.stack)-1]\n\t\t\tif a.Bool() {", "HND-BRANCH:codeJumpTrue")
v("C06", "range-break-offset", "compiler.go", "block[n].Code, block[n].A = codeJump, reg(len(block)-n)\n\t\t\tcase codeContinue:", "block[n].Code, block[n].A = codeJump, reg(len(block)-n-1)\n\t\t\tcase codeContinue:", "LAY-REWRITE:range block Break")
v("C06", "switch-case-skip", "compiler.go", "chunk = append(chunk, instruction{Code: codeJumpFalse, A: reg(len(csBlock) + 1)})", "chunk = append(chunk, instruction{Code: codeJumpFalse, A: reg(len(csBlock))})", "LAY-TARGET:switch/iteration")
# C07
v("C07", "for-post-expression", "symbol.go", '\tt.Append(asStatement(p.Expression(0, "{")))\n\tt.Append(p.Block("block", "{", "}"))\n\treturn t\n}', '\tt.Append(p.Expression(0, "{"))\n\tt.Append(p.Block("block", "{", "}"))\n\treturn t\n}', "PAR-ROLE:forNud: post")
v("C07", "case-as-statement", "symbol.go", "exprs := plural(p.Expression(0))", "exprs := plural(p.Statement())", "PAR-RESIZE:case slot expr")
v("C07", "basen-late", "vm.go", "\t\t\tBaseN: len(v.stack) - args,", "\t\t\tBaseN: len(v.stack),", "FRM-PAIR:BaseN")
v("C07", "splice-off-by-one", "vm.go", "v.stack = append(v.stack[:v.frame.BaseN], v.stack[topN:]...)", "v.stack = append(v.stack[:v.frame.BaseN+1], v.stack[topN:]...)", "FRM-PAIR:result-splice")
v("C07", "absolute-slot", "do.go", "\t\tcase codeLocalZero:\n\t\t\ti := &codes[v.frame.N]\n\t\t\tv.stack[baseN+int(i.A)] = newZero(Type(i.B))", "\t\tcase codeLocalZero:\n\t\t\ti := &codes[v.frame.N]\n\t\t\tv.stack[int(i.A)] = newZero(Type(i.B))", "HND-LOCALBASE:codeLocalZero")
v("C07", "local-op-global-index", "compiler.go", "\t\t\tif c.Locals.Exists(key) {\n\t\t\t\tgetter = codeLocalGet\n\t\t\t\tsetter = codeLocalSet\n\t\t\t\tlookup = c.Locals\n\t\t\t} else {", "\t\t\tif c.Locals.Exists(key) {\n\t\t\t\tgetter = codeLocalGet\n\t\t\t\tsetter = codeLocalSet\n\t\t\t} else {", "FRM-ADDR:LocalGet <- c.Globals")
v("C07", "fastcallattr-unpacked", "compiler.go", "C: joinParams(in[n+2].A, in[n+2].B)})", "C: in[n+2].A})", "HND-FIELDS:codeFastCallAttr.C")
# C08
v("C08", "else-scope-open", "compiler.go", "\t\t\telseI = c.optimize(c.compile(tok.Tokens[ifElse]))\n\t\t\tc.End()", "\t\t\telseI = c.optimize(c.compile(tok.Tokens[ifElse]))", "SCO-PAIR:compiler.compile")
v("C08", "const-not-shadowed", "compiler.go", "\t\t\t\tcode = codeLocalSet\n\t\t\t\tidx = c.Shadow(key)\n\t\t\t} else {\n\t\t\t\tlookup := c.Globals", "\t\t\t\tcode = codeLocalSet\n\t\t\t\tidx = c.Locals.Index(key)\n\t\t\t} else {\n\t\t\t\tlookup := c.Globals", "SCO-DECL:const Index")
v("C08", "global-before-local", "compiler.go", "\t\t} else if c.Locals.Exists(tok.Text) {\n\t\t\tres = append(res, instruction{Code: codeLocalGet, A: reg(c.Locals.Index(tok.Text))})\n\t\t} else if c.Globals.Exists(key) {\n\t\t\tres = append(res, instruction{Code: codeGlobalGet, A: reg(c.Globals.Index(key))})", "\t\t} else if c.Globals.Exists(key) {\n\t\t\tres = append(res, instruction{Code: codeGlobalGet, A: reg(c.Globals.Index(key))})\n\t\t} else if c.Locals.Exists(tok.Text) {\n\t\t\tres = append(res, instruction{Code: codeLocalGet, A: reg(c.Locals.Index(tok.Text))})", "SCO-ORDER:global-after-local")
v("C08", "locals-not-restored", "compiler.go", "\t\tc.End()\n\t\tc.Locals = tmp", "\t\tc.End()\n\t\tc.Locals, tmp = c.Locals, tmp", "SCO-SWAP:func path")
v("C08", "range-index-reused", "compiler.go", "k := c.Shadow(tok.Tokens[rangeKey].Text)", "k := c.Locals.Index(tok.Tokens[rangeKey].Text)", "SCO-DECL:range Index")
# C09
v("C09", "variadic-count", "vm.go", "\txArgs = xArgs - len(varArgs) + 1", "\txArgs = xArgs - len(varArgs)", "FRM-VARIADIC:variadic-count")
v("C09", "func-skip", "do.go", "\t\t\tv.frame.N += int(nargs + rets + jump)", "\t\t\tv.frame.N += int(nargs + rets + jump - 1)", "LAY-FUNC:reader span")
v("C09", "results-not-trimmed", "vm.go", "\t} else if fRets > xRets {\n\t\tv.stack = v.stack[:top+xRets]\n\t}", "\t}", "FRM-CHECKS:many-results")
v("C09", "args-unchecked", "vm.go", "\tif xArgs != ft.Args {\n\t\tpanic(\"incorrect args\")\n\t}\n", "", "FRM-CHECKS:args-check")
v("C09", "direct-invoke", "do.go", "\t\t\tv.stack = v.stack[:len(v.stack)-1]\n\t\t\tcallReady(v, f, int(i.A), int(i.B))", "\t\t\tv.stack = v.stack[:len(v.stack)-1]\n\t\t\t_ = i\n\t\t\tf.Value(v)", "FRM-INVOKE:")
v("C09", "param-untyped", "vm.go", "v.stack[len(v.stack)-args+i] = v.stack[len(v.stack)-args+i].assign(Type(tokens[i].A))", "v.stack[len(v.stack)-args+i] = v.stack[len(v.stack)-args+i]", "REP-TYPEDSTORE:mkFunc Type(tokens[i].A)")
# C10
v("C10", "miss-zero-of-key", "value.go", "\tv, ok := m.data[k.num]\n\tif !ok {\n\t\treturn newZero(m.valueType), false\n\t}", "\tv, ok := m.data[k.num]\n\tif !ok {\n\t\treturn newZero(m.keyType), false\n\t}", "REP-MAPGET:numericMap.Get miss")
v("C10", "stale-keys", "value.go", "\t\tif len(m.keys) != len(m.data) {\n\t\t\t// drop keys deleted since the last compaction, so a re-inserted key is listed once\n\t\t\tkeys := make([]string, 0, len(m.data)+1)", "\t\tif false {\n\t\t\t// drop keys deleted since the last compaction, so a re-inserted key is listed once\n\t\t\tkeys := make([]string, 0, len(m.data)+1)", "REP-MAPKEYS:stringMap stale-keys")
v("C10", "range-no-recheck", "value.go", "\t\t\tk := r[n]\n\t\t\tv, ok := m.data[k]\n\t\t\tn++\n\t\t\tif ok {\n\t\t\t\treturn String(k), v, true\n\t\t\t}", "\t\t\tk := r[n]\n\t\t\tv := m.data[k]\n\t\t\tn++\n\t\t\treturn String(k), v, true", "REP-MAPKEYS:stringMap Range recheck")
v("C10", "range-live-keys", "value.go", "func (m *numericMap) Range() func() (Value, Value, bool) {\n\tr := m.keys\n\tn := 0\n\treturn func() (Value, Value, bool) {\n\t\tfor n < len(r) {\n\t\t\tk := r[n]", "func (m *numericMap) Range() func() (Value, Value, bool) {\n\tn := 0\n\treturn func() (Value, Value, bool) {\n\t\tr := m.keys\n\t\tfor n < len(r) {\n\t\t\tk := r[n]", "REP-MAPKEYS:numericMap Range snapshot")
# C11
v("C11", "slice-copies", "value.go", "return newSlice(s.valueType, s.data[i:j])", "return newSlice(s.valueType, append([]Value(nil), s.data[i:j]...))", "REP-SLICE:Slice")
v("C11", "stack-view-retained", "do.go", "\t\t\t\tvsCopy := make([]Value, len(vs))\n\t\t\t\tcopy(vsCopy, vs)\n\t\t\t\tv.stack[len(v.stack)-1] = NewSlice(s.t.value(), vsCopy)", "\t\t\t\tv.stack[len(v.stack)-1] = NewSlice(s.t.value(), vs)", "REP-STACKESCAPE:VM.exec -> NewSlice")
v("C11", "nil-len", "value.go", "func (v Value) Len() int {\n\tif v.value != nil {\n\t\treturn v.value.Len()\n\t} else {\n\t\treturn 0\n\t}\n}", "func (v Value) Len() int {\n\treturn v.value.Len()\n}", "REP-SLICE:Value.Len nil-guard")
# C12
v("C12", "fields-shared", "value.go", "lookup, order, fields, methods := b.Lookup, b.Order, b.Fields.Copy(), b.Methods\n\ts := newStruct(b.TypeN, lookup, order, fields, methods)\n\tst := s.value.(*structT)\n\tfor n := 0; n < len(data); n += 2 {\n\t\tst.SetIndex", "lookup, order, fields, methods := b.Lookup, b.Order, b.Fields, b.Methods\n\ts := newStruct(b.TypeN, lookup, order, fields, methods)\n\tst := s.value.(*structT)\n\tfor n := 0; n < len(data); n += 2 {\n\t\tst.SetIndex", "REP-STRUCT:newStructByIndex ownership")
v("C12", "copy-aliases-pairs", "intmap.go", "\tpairs := make([]intMapPair, len(m.pairs))\n\tcopy(pairs, m.pairs)", "\tpairs := m.pairs", "REP-STRUCT:intMap.Copy")
v("C12", "assign-untyped", "intmap.go", "m.pairs[i].value = value.assign(m.pairs[i].value.t)", "m.pairs[i].value = value", "REP-STRUCT:intMap.Assign")
# C13
v("C13", "index-int32", "value.go", "return Byte(s[a.Int()]), true", "return Int(int(s[a.Int()])), true", "REP-STRING:Get")
v("C13", "range-rune-count", "value.go", "k, v := Int(o[n]), r[n]", "k, v := Int(n), r[n]", "REP-STRING:Range")
v("C13", "compare-by-length", "value.go", "return Bool(v.value.(stringT) < b.value.(stringT))", "return Bool(len(v.value.(stringT)) < len(b.value.(stringT)))", "REP-STRING:Value.opLt string")
v("C13", "char-error-dropped", "token.go", "\tvalue, _, _, err := strconv.UnquoteChar(t.Text[1:len(t.Text)-1], '\\'')\n\tif err != nil {\n\t\tpanicf(\"error parsing char: %v\", err)\n\t}\n\treturn value", "\tvalue, _, _, _ := strconv.UnquoteChar(t.Text[1:len(t.Text)-1], '\\'')\n\treturn value", "PAN-ERRDROP-LIT:token.Char")
# C14
v("C14", "guard-removed", "value.go", "\t\tif !v.t.isSafeStr() {\n\t\t\treturn \"[...]\"\n\t\t}\n\t\tp = append(p, v.safeStr())", "\t\tp = append(p, v.safeStr())", "REP-PRINT:sliceT.SafeStr")
v("C14", "struct-safe", "value.go", "\tcase TypeSlice, TypeMap, TypeStruct:\n\t\treturn false", "\tcase TypeSlice, TypeMap:\n\t\treturn false", "REP-PRINT:isSafeStr")
v("C14", "two-spaces", "builtins.go", 'return strings.Join(res, " ")', 'return strings.Join(res, "  ")', "REP-PRINT:vaSprint")
v("C14", "uint-render", "value.go", "\tcase TypeInt32, TypeUint32, TypeInt8, TypeUint8, untypedInt:\n\t\treturn fmt.Sprint(int(v.num))", "\tcase TypeInt32, TypeInt8, TypeUint8, untypedInt:\n\t\treturn fmt.Sprint(int(v.num))\n\tcase TypeUint32:\n\t\treturn fmt.Sprint(int32(v.num))", "REP-PRINT:String TypeUint32")
# C15
v("C15", "test-files-loaded", "load.go", '\t\t\t\tif strings.HasSuffix(f, "_test.go") {\n\t\t\t\t\tcontinue\n\t\t\t\t}\n', "", "LOAD-FILTER:_test.go")
v("C15", "constraint-unchecked", "load.go", "tree, err := rawLoadFile(sys, fname, true)", "tree, err := rawLoadFile(sys, fname, false)", "LOAD-FILTER:checkBC")
v("C15", "cycle-unchecked", "load.go", "\t\tif !found {\n\t\t\treturn nil, fmt.Errorf(\"import cycle not allowed: %v\", keys)\n\t\t}\n", "\t\t_ = found\n", "LOAD-CYCLE:selection")
v("C15", "deps-not-cleared", "load.go", "\t\tfor _, d := range deps {\n\t\t\tdelete(d, pkg)\n\t\t}\n", "", "LOAD-KAHN:K3")
v("C15", "select-nonempty", "load.go", "\t\t\tif len(deps[k]) > 0 {\n\t\t\t\tcontinue\n\t\t\t}\n\t\t\tpkg, found = k, true", "\t\t\tpkg, found = k, true", "LOAD-KAHN:K2")
# C16
v("C16", "unstable-sort", "tree.go", "sort.SliceStable(tt,", "sort.Slice(tt,", "TAB-PRIORITY:sort")
v("C16", "type-after-func", "tree.go", '"type":     80,', '"type":     40,', "TAB-PRIORITY:order type")
v("C16", "method-not-hoisted", "tree.go", '\t\t"method":   60,\n', "", "TAB-PRIORITY:hoist method")
v("C16", "join-keeps-clause", "load.go", "tok.Tokens = append(tok.Tokens, t.Tokens[1:]...)", "tok.Tokens = append(tok.Tokens, t.Tokens[0:]...)", "JOIN:later-files")
# C17
v("C17", "func-replaced", "do.go", "\t\t\tif fnc := v.globals.Read(idx); !fnc.IsNil() {\n\t\t\t\t*fnc.value.(*funcT) = *val.value.(*funcT)\n\t\t\t\tbreak\n\t\t\t}\n", "", "RELOAD-INPLACE:GLOBALFUNC existing")
v("C17", "zero-always", "do.go", "\t\t\tif a.IsNil() {\n\t\t\t\tv.globals.Assign(int(i.A), newZero(Type(i.B)))\n\t\t\t}", "\t\t\t_ = a\n\t\t\tv.globals.Assign(int(i.A), newZero(Type(i.B)))", "RELOAD-INPLACE:GLOBALZERO")
v("C17", "struct-overwritten", "do.go", "\t\t\t\tprev.syncFields(cur)", "\t\t\t\tv.globals.Write(int(i.A), cur)", "RELOAD-INPLACE:GLOBALSTRUCT existing")
# C19
v("C19", "adapter-no-truncate", "value.go", "\t\t\ti := len(vm.stack) - argc\n\t\t\ta := vm.stack[i:]\n\t\t\tvm.stack = vm.stack[:i]\n\t\t\tvm.stack = append(vm.stack, f(vm, a))", "\t\t\ti := len(vm.stack) - argc\n\t\t\ta := vm.stack[i:]\n\t\t\tvm.stack = append(vm.stack, f(vm, a))", "API-ADAPT:adapter func(v *VM, args []Value) Value")
v("C19", "accessor-type", "value.go", "func (v Value) Int8() int8       { return int8(v.num) }", "func (v Value) Int8() int8       { return int8(uint8(v.num)) }", "API-ACCESSOR:Int8")
v("C19", "sort-error-dropped", "builtins.go", "\t\t\trets, err := g.Func(args[1], 1, a, b)\n\t\t\tif err != nil {\n\t\t\t\tpanic(err)\n\t\t\t}\n\t\t\treturn rets[0].Bool()\n\t\t})\n\t}))\n\tg.Set(\"golang.org/x/exp/slices.SortFunc\"", "\t\t\trets, _ := g.Func(args[1], 1, a, b)\n\t\t\treturn len(rets) > 0 && rets[0].Bool()\n\t\t})\n\t}))\n\tg.Set(\"golang.org/x/exp/slices.SortFunc\"", "PAN-ERRDROP:-> VM.Func")
# C20
v("C20", "pos-first-component", "compiler.go", "out = append(out, instruction{Pos: in[n+1].Pos, Code: codeFastCall,", "out = append(out, instruction{Pos: in[n].Pos, Code: codeFastCall,", "POS-FUSED:FastCall")
v("C20", "early-return", "compiler.go", '\tcase "break":\n\t\tres = append(res, instruction{Code: codeBreak})', '\tcase "break":\n\t\treturn []instruction{{Code: codeBreak}}', "POS-STAMP:no-early-return")
v("C20", "backtrace-ascending", "vm.go", "\tfor n := len(bt) - 1; n >= 0; n-- {", "\tfor n := 0; n < len(bt); n++ {", "BT-ORDER:innermost-first")

# variants added for rules that came out of the seeded changes
v("C02", "case-expr-unmeasured", "compiler.go", "csStmt := c.optimize(c.compile(cs.Tokens[caseStmt]))", "csStmt := c.compile(cs.Tokens[caseStmt])", "PEEP-MEASURED:switch spanned caseExpr")
v("C03", "pos-unmasked", "compiler.go", "pos(line&0xffff)<<16", "pos(line)<<16", "PAN-HANDLER:pos.info")
v("C07", "decl-not-resized", "symbol.go", "\t\tright := p.Expression(0)\n\t\tdecl.Append(right)\n\t\tassignResize(left, right)\n\t\treturn decl\n\t}\n\tright := symAtPos", "\t\tright := p.Expression(0)\n\t\tdecl.Append(right)\n\t\treturn decl\n\t}\n\tright := symAtPos", "PAR-RESIZE:getDecl")
v("C07", "return-patch-unguarded", "compiler.go", "if last := &returns[len(returns)-1]; last.Code == codeCall || last.Code == codeCallVariadic {\n\t\t\t\tlast.B = reg(c.Returns[len(c.Returns)-1])\n\t\t\t}", "returns[len(returns)-1].B = reg(c.Returns[len(c.Returns)-1])", "INS-PATCH:compiler.compile")
v("C07", "case-list-one-clause", "symbol.go", "\t\t\tfor _, e := range exprs.Tokens {\n\t\t\t\tcc := symAtPos(c.Pos, \"case\")\n\t\t\t\tcc.Append(e)\n\t\t\t\tcc.Append(body)\n\t\t\t\tcases.Append(cc)\n\t\t\t}", "\t\t\tc.Append(exprs)\n\t\t\tc.Append(body)\n\t\t\tcases.Append(c)", "PAR-RESIZE:case slot")
v("C08", "scope-closed-late", "compiler.go", "\t\tc.End()\n\t\tc.Locals = tmp", "\t\tc.Locals = tmp\n\t\tc.End()", "SCO-SWAP:scope")
v("C10", "keys-compacted-in-place", "value.go", "keys := make([]string, 0, len(m.data)+1)", "keys := m.keys[:0]", "REP-MAPKEYS:stringMap.Set keys-not-rewritten")
v("C10", "literal-duplicates", "value.go", "\t\tk, v := in[i].num, in[i+1]\n\t\tif _, ok := m.data[k]; !ok {\n\t\t\tm.keys = append(m.keys, k)\n\t\t}", "\t\tk, v := in[i].num, in[i+1]\n\t\tm.keys = append(m.keys, k)", "REP-MAPKEYS:newNumericMap literal-dedupe")
v("C11", "variadic-raw-slice", "vm.go", "v.stack = append(v.stack, NewSlice(ft.VariadicType.value(), varArgs))", "v.stack = append(v.stack, newSlice(ft.VariadicType.value(), varArgs))", "REP-RAWSLICE:newSlice in call")
v("C13", "char-via-unquote", "token.go", "\tvalue, _, _, err := strconv.UnquoteChar(t.Text[1:len(t.Text)-1], '\\'')\n\tif err != nil {\n\t\tpanicf(\"error parsing char: %v\", err)\n\t}\n\treturn value", "\ts, err := strconv.Unquote(t.Text)\n\tif err != nil {\n\t\tpanicf(\"error parsing char: %v\", err)\n\t}\n\treturn []rune(s)[0]", "LIT-DELEGATE:token.Char")
v("C15", "scan-stops-early", "load.go", "\t\t\tif t.Symbol != \"import\" {\n\t\t\t\tcontinue\n\t\t\t}", "\t\t\tif t.Symbol != \"import\" {\n\t\t\t\tbreak\n\t\t\t}", "LOAD-KAHN:K0")
v("C15", "constraint-not-trimmed", "load.go", 'line := strings.Split(strings.TrimSpace(s), "\\n")[0]', 'line := strings.Split(s, "\\n")[0]', "LOAD-FILTER:constraint line")
v("C16", "imports-not-sorted", "load.go", "\t\t\tp = treeSort(p)\n\t\t}\n\t\tpackages[pkg] = p", "\t\t}\n\t\tpackages[pkg] = p", "LOAD-SORT:loadImports")
v("C19", "nested-stack-aliased", "vm.go", "\t\tstack:   append(params, fnc),", "\t\tstack:   append(append(v.stack[len(v.stack):], params...), fnc),", "FUNC-ISOLATED:VM.Func")
v("C20", "lambda-funcname-reset", "compiler.go", "\t\tres = append(res, c.compile(tok.Tokens[0])...)\n\t\tc.FuncName = tmp", "\t\tres = append(res, c.compile(tok.Tokens[0])...)\n\t\tc.FuncName = \"\"\n\t\t_ = tmp", "SCO-SWAP:lambda FuncName")

# wave-2 rules
v("C08", "for-body-unscoped", "compiler.go", "\t\tc.Begin()\n\t\tblock := c.optimize(c.compile(tok.Tokens[forBlock]))\n\t\tc.End()", "\t\tblock := c.optimize(c.compile(tok.Tokens[forBlock]))", "SCO-BLOCK:for block")
v("C08", "unshadow-clobbers", "lookup.go", "\t\tl.unshadow(\"~\" + key)\n\t}\n}", "\t\tl.unshadow(\"~\" + key)\n\t\tdelete(l.keyToIndex, \"~\"+key)\n\t}\n}", "SCO-CHAIN:unshadow clobber")
v("C08", "drop-after-unshadow", "lookup.go", "\t\tdelete(l.keyToIndex, key)\n\t\tl.indexToKey[n] = \"\"\n\t\tl.unshadow(key)", "\t\tl.indexToKey[n] = \"\"\n\t\tl.unshadow(key)\n\t\tdelete(l.keyToIndex, key)", "SCO-CHAIN:drop order")
v("C09", "redefine-body-only", "do.go", "\t\t\t\t*fnc.value.(*funcT) = *val.value.(*funcT)", "\t\t\t\tfnc.getFunc().Value = val.getFunc().Value", "FRM-REDEFINE:GlobalFunc")
v("C09", "local-as-global-index", "compiler.go", "\t\t\tif len(fnc) == 1 && fnc[0].Code == codeGlobalGet {", "\t\t\tif len(fnc) == 1 {", "PAR-GLOBALIDX:compile(call)")
v("C12", "probe-no-wrap", "intmap.go", "func (m *intMap) Get(key int) (Value, bool) {\n\ti := intMapHash(key)\n\tfor {\n\t\ti &= m.mask\n", "func (m *intMap) Get(key int) (Value, bool) {\n\ti := intMapHash(key) & m.mask\n\tfor {\n", "REP-INTMAP:probe intMap.Get")
v("C12", "table-fills", "intmap.go", "\tm.max = size * 3 / 4", "\tm.max = size", "REP-INTMAP:geometry max")
v("C12", "delete-stop", "intmap.go", "\t\t\t\tif m.pairs[i].distance <= 1 {", "\t\t\t\tif m.pairs[i].distance == 0 {", "REP-INTMAP:delete stop")
v("C12", "probe-step-two", "intmap.go", "\t\t\treturn m.pairs[i].value, true\n\t\t}\n\t\ti++", "\t\t\treturn m.pairs[i].value, true\n\t\t}\n\t\ti += 2", "REP-INTMAP:step Get")
v("C12", "qualified-alias-as-struct", "compiler.go", "\t\tif typ.t == typeType {\n\t\t\treturn Type(typ.Int())\n\t\t}\n\t\treturn structType", "\t\tif typ.t == typeType && tok.Symbol == \"(name)\" {\n\t\t\treturn Type(typ.Int())\n\t\t}\n\t\treturn structType", "REP-DEFTYPE:struct-type")
v("C13", "literal-key-normalised", "compiler.go", "\t\tc.Globals.Set(tok.Text, String(tok.Unquote()))\n\t\tres = append(res, instruction{Code: codeConst, A: reg(c.Globals.Index(tok.Text))})", "\t\tkey := strings.ToLower(tok.Text)\n\t\tc.Globals.Set(key, String(tok.Unquote()))\n\t\tres = append(res, instruction{Code: codeConst, A: reg(c.Globals.Index(key))})", "LIT-CONSTKEY:key (string)")
v("C14", "order-from-map", "value.go", "\tfor _, key := range cur.Order {\n\t\tidx := cur.Lookup[key]\n", "\tfor key, idx := range cur.Lookup {\n", "REP-ORDER:order loop")
v("C15", "locals-per-package", "compiler.go", "\t\t\tLocals:   locals,", "\t\t\tLocals:   func() *lookup { _ = locals; return newLookup() }(),", "LOAD-SLOTS:slots compilePkgs")
v("C19", "recover-shadows-err", "vm.go", "\t\tif r := recover(); r != nil {\n\t\t\terr = vm.btErr(r)\n\t\t}", "\t\tif r := recover(); r != nil {\n\t\t\terr := vm.btErr(r)\n\t\t\t_ = err\n\t\t}", "PAN-CONVERT:convert VM.run")

v("C09", "params-share-slot", "compiler.go", "\t\t\tc.Locals.Shadow(arg.Text) // a slot per parameter, also for repeated blank names", "\t\t\tc.Locals.Index(arg.Text)", "FRM-PARAMSLOT:param slot")
v("C09", "method-variadic-type-lost", "value.go", "\tm.getFunc().VariadicType = f.VariadicType\n", "", "FRM-METHOD:variadic element type")

json.dump(V, open('/verif/selftest/variants.json', 'w'), indent=1)
print(len(V), "variants")
