#!/bin/bash
# usage: run.sh <Cnn> <quick|thorough>      decide one property from /repo's working tree
#        run.sh explain <violations.json>   re-run the rules named in a violation file
set -u
export GOFLAGS=-mod=mod GOPROXY=off GOSUMDB=off GOTOOLCHAIN=local GOWORK=off
V=/verif
REPO=${VERIF_REPO:-/repo}
cd "$V" || exit 2

build() {
  local need=0
  [ -x "$V/bin/goatcheck" ] || need=1
  if [ $need = 0 ] && [ -n "$(find "$V/checker" -name '*.go' -newer "$V/bin/goatcheck" -print -quit)" ]; then need=1; fi
  if [ $need = 1 ]; then
    mkdir -p "$V/bin"
    (cd "$V/checker" && go build -o "$V/bin/goatcheck.tmp.$$" . && mv "$V/bin/goatcheck.tmp.$$" "$V/bin/goatcheck") || { echo "cannot build goatcheck" >&2; exit 2; }
  fi
}
build

if [ "${1:-}" = explain ]; then
  f=${2:?path}
  prop=$(python3 -c "import json,sys;print(json.load(open(sys.argv[1]))['property_id'])" "$f")
  exec "$V/bin/goatcheck" -repo "$REPO" -verif "$V" -prop "$prop" -tier thorough -no-evidence
fi

prop=${1:?property id}
tier=${2:-${VERIF_TIER:-quick}}
if [ "$tier" = quick ]; then
  exec "$V/bin/goatcheck" -repo "$REPO" -verif "$V" -prop "$prop" -tier quick
fi
exec "$V/thorough.sh" "$prop" "$REPO"
