#!/bin/bash
# usage: tools/store_seed.sh <prop> <out-dir> <n> "<needs>"   — keep a confirmed sub-agent change under /verif/seeded/
prop=$1; out=$2; n=$3; needs=$4
d=/verif/seeded/$prop-${SEEDNO:-$n}
mkdir -p $d
cp $out/patch$n.diff $d/patch.diff
cp $out/demo${n}_test.go $d/demo_test.go.txt
[ -f $out/notes.md ] && cp $out/notes.md $d/agent_notes.md
python3 - "$d" "$prop" "$n" "$needs" <<'PY'
import json,sys
d,prop,n,needs=sys.argv[1:5]
json.dump({"breaks_property":prop,"source":"independent sub-agent given only the property text and a scratch worktree","needs_to_manifest":needs,
 "confirmed":"tools/eval_seed.sh: patch applies to /repo HEAD in a scratch copy; unedited suite passes with it; demo test fails with it and passes without it",
 "demo":"demo_test.go.txt (rename to *_test.go in the package directory to run)"}, open(d+"/meta.json","w"), indent=1)
PY
