#!/bin/bash
# Apply each behaviour-preserving refactoring to a scratch copy and run all checks: every alarm is a false alarm.
export GOFLAGS=-mod=mod GOPROXY=off GOSUMDB=off GOTOOLCHAIN=local GOWORK=off
one() {
  f=$1
  S=$(mktemp -d /tmp/ev_ref.XXXXXX)
  cp -r /repo/. $S/ && rm -rf $S/.git
  if ! (cd $S && patch -p1 --quiet < $f >/dev/null 2>&1); then echo "$f: DOES NOT APPLY"; rm -rf $S; return; fi
  if ! (cd $S && go build ./... >/dev/null 2>&1 && go test -vet=off -count=1 . >/dev/null 2>&1); then echo "$f: build/test fails"; rm -rf $S; return; fi
  out=""
  for p in C01 C02 C03 C04 C05 C06 C07 C08 C09 C10 C11 C12 C13 C14 C15 C16 C17 C19 C20; do
    o=$(/verif/bin/goatcheck -repo $S -verif /verif -prop $p -no-evidence 2>&1)
    if echo "$o" | grep -q "^VIOLATION"; then out="$out\n  [$p] $(echo "$o" | grep 'finding:' | cut -c1-260 | head -3 | tr '\n' '|')"; fi
  done
  if [ -z "$out" ]; then echo "$f: silent"; else echo -e "$f: FALSE ALARM$out"; fi
  rm -rf $S
}
export -f one
ls ${1:-/verif/benign}/*.diff | xargs -P 8 -I{} bash -c 'one {}' 
