#!/bin/bash
# usage: tools/eval_seed.sh <prop> <out-dir> <n>   — confirm a sub-agent's change and run every check against it
# Confirms (in a scratch copy): patch applies; suite passes with it; demo fails with it and passes without.
# Then runs all properties' quick checks on the patched copy and prints which fire.
export GOFLAGS=-mod=mod GOPROXY=off GOSUMDB=off GOTOOLCHAIN=local GOWORK=off
prop=$1; out=$2; n=$3
S=$(mktemp -d /tmp/ev_seed.XXXXXX)
cp -r /repo/. $S/ && rm -rf $S/.git $S/_out
cd $S
res_apply=ok; patch -p1 --quiet < $out/patch$n.diff || res_apply=FAIL
suite=$(go test -vet=off -count=1 ./... 2>&1 | grep -E "^(ok|FAIL|---)" | grep -v "no test files" | head -3 | tr '\n' ' ')
cp $out/demo${n}_test.go $S/zz_demo${n}_test.go
demo_with=$(go test -vet=off -count=1 -run 'Demo|demo' . 2>&1 | tail -1)
patch -p1 -R --quiet < $out/patch$n.diff
demo_without=$(go test -vet=off -count=1 -run 'Demo|demo' . 2>&1 | tail -1)
rm -f $S/zz_demo${n}_test.go
patch -p1 --quiet < $out/patch$n.diff
echo "apply=$res_apply | suite: $suite| demo with change: $demo_with | demo without: $demo_without"
fired=""
for p in C01 C02 C03 C04 C05 C06 C07 C08 C09 C10 C11 C12 C13 C14 C15 C16 C17 C19 C20; do
  o=$(/verif/bin/goatcheck -repo $S -verif /verif -prop $p -no-evidence 2>&1)
  if echo "$o" | grep -q "^VIOLATION"; then fired="$fired $p"; echo "$o" | grep "finding:" | cut -c1-330 | head -4; fi
done
echo "FIRED:$fired (target $prop)"
cd /; rm -rf $S
