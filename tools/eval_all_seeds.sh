#!/bin/bash
# Apply every kept seeded change (seeded/*/patch.diff) to a scratch copy of /repo and run all checks (in parallel).
export GOFLAGS=-mod=mod GOPROXY=off GOSUMDB=off GOTOOLCHAIN=local GOWORK=off
one() {
  d=$1; id=$(basename $d); target=${id%%-*}
  S=$(mktemp -d /tmp/ev_seed.XXXXXX)
  cp -r /repo/. $S/ && rm -rf $S/.git
  if ! (cd $S && patch -p1 --quiet < $d/patch.diff >/dev/null 2>&1); then echo "$id: PATCH DOES NOT APPLY to current /repo"; rm -rf $S; return; fi
  if ! (cd $S && go build ./... >/dev/null 2>&1); then echo "$id: does not build"; rm -rf $S; return; fi
  fired=""
  for p in C01 C02 C03 C04 C05 C06 C07 C08 C09 C10 C11 C12 C13 C14 C15 C16 C17 C19 C20; do
    if /verif/bin/goatcheck -repo $S -verif /verif -prop $p -no-evidence 2>&1 | grep -q "^VIOLATION"; then fired="$fired $p"; fi
  done
  hit=MISSED; case " $fired " in *" $target "*) hit=caught;; esac
  echo "$id: target $hit; fired:$fired"
  rm -rf $S
}
export -f one
ls -d /verif/seeded/*/ | xargs -P 8 -I{} bash -c 'one {}' | sort
