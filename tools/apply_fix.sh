#!/bin/bash
# usage: apply_fix.sh <outdir> <n>   — applies fixN.diff to /repo (uncommitted), runs demo, suite, all quick checks
export GOFLAGS=-mod=mod GOPROXY=off GOSUMDB=off GOTOOLCHAIN=local GOWORK=off
out=$1; n=$2
cd /repo || exit 2
cp $out/defect${n}_test.go zz_defect_test.go
T="$(grep -o 'func Test[A-Za-z0-9_]*' zz_defect_test.go | sed 's/func //' | paste -sd'|')"
echo "== demo before:"; go test -vet=off -count=1 -run "$T" -timeout 120s . 2>&1 | tail -3 | cut -c1-200
git apply $out/fix$n.diff || { patch -p1 -F3 < $out/fix$n.diff || { rm zz_defect_test.go; exit 2; }; }
echo "== demo after:"; go test -vet=off -count=1 -timeout 120s -run "$(grep -o 'func Test[A-Za-z0-9_]*' zz_defect_test.go | sed 's/func //' | paste -sd'|')" . 2>&1 | tail -3 | cut -c1-200
rm zz_defect_test.go
echo "== suite:"; go test -vet=off -count=1 ./... 2>&1 | tail -2
echo "== checks:"
cd /verif
for p in 01 02 03 04 05 06 07 08 09 10 11 12 13 14 15 16 17 19 20; do ./bin/goatcheck -prop C$p -no-evidence 2>&1 | grep "VIOL\|finding" | cut -c1-260; done
git -C /repo diff --stat | tail -1
