#!/usr/bin/env python3
"""Regenerate /verif/MANIFEST.json from the table below (kept in one place so that
claimed / not-applicable stay consistent)."""
import json, sys

CLAIMED = {
 # id: (technique, level text, level note, design ref)
}
def claim(pid, technique, text, note):
    CLAIMED[pid] = (technique, text, note, "DESIGN.md §4 " + pid)

exec(open('/verif/tools/claims.py').read())

NOT_APPLICABLE = {}
exec(open('/verif/tools/not_applicable.py').read())

props = [json.loads(l)['id'] for l in open('/verif/properties.jsonl')]
checks = []
for pid in props:
    if pid not in CLAIMED:
        continue
    technique, text, note, ref = CLAIMED[pid]
    checks.append({
        "property_id": pid,
        "quick_cmd": f"./run.sh {pid} quick",
        "thorough_cmd": f"./run.sh {pid} thorough",
        "evidence_file": f"/verif/evidence/{pid}.json",
        "replay_cmd_template": "./run.sh explain {path}",
        "engine": "goatcheck",
        "level_claimed": {"category": "other", "text": text, "design_ref": ref},
        "level_note": note,
        "technique": technique,
    })
na = [{"property_id": p, "reason": NOT_APPLICABLE.get(p, "no check built for this property yet")} for p in props if p not in CLAIMED]
m = {
 "version": 1,
 "setup_cmd": "cd /verif/checker && GOFLAGS=-mod=mod GOPROXY=off GOSUMDB=off GOTOOLCHAIN=local GOWORK=off go build -o /verif/bin/goatcheck .",
 "hooks": {
   "guard": "verif",
   "enable": "none needed: the checks are static analyses of the source; no instrumentation is compiled into /repo",
   "baseline_off_cmd": "cd /repo && go test -vet=off -count=1 ./...",
   "source_commits": [],
   "add_only": True,
 },
 "engines": [{
   "name": "goatcheck",
   "path": "/verif/checker",
   "serves_properties": sorted(CLAIMED),
   "kind_free_text": "repository-specific static analyser (go/packages typed AST, go/cfg, go/ssa + VTA call graph; table extraction, symbolic handler summaries, layout interpreter, panic-containment and termination rules); never executes /repo",
 }],
 "checks": checks,
 "not_applicable": na,
 "notes": "Technique family: static analysis only. Every claimed property is claimed at level 'other': named structural necessary conditions decided for every table row / path / site from /repo's current source; the behavioural remainder is listed per property in DESIGN.md. Genuine defects found by the rules were repaired in /repo by 'fix:' commits and are listed in /verif/KNOWN_FINDINGS.txt.",
}
json.dump(m, open('/verif/MANIFEST.json', 'w'), indent=1)
print("claimed:", sorted(CLAIMED), "n/a:", [x['property_id'] for x in na])
