#!/bin/bash
# usage: tools/try.sh <prop> <file> <python-replace-old> <python-replace-new>   — run one property on a scratch copy with one textual edit
export GOFLAGS=-mod=mod GOPROXY=off GOSUMDB=off GOTOOLCHAIN=local GOWORK=off
S=$(mktemp -d /tmp/gc_try.XXXXXX)
cp -r /repo/. $S/ && rm -rf $S/.git
python3 - "$S/$2" "$3" "$4" <<'PY'
import sys
p,old,new=sys.argv[1:4]
s=open(p).read()
if old not in s: print("PATTERN NOT FOUND"); sys.exit(3)
open(p,'w').write(s.replace(old,new,1))
PY
[ $? = 3 ] && { rm -rf $S; exit 3; }
(cd $S && go build ./... 2>&1 | head -5)
if [ "${TRY_TEST:-0}" = 1 ]; then (cd $S && go test -vet=off -count=1 . 2>&1 | tail -3); fi
/verif/bin/goatcheck -repo $S -verif /verif -prop $1 -no-evidence | grep -v "^rule" | cut -c1-400
cd /; rm -rf $S
