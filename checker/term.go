package main

// Symbolic terms with a canonical string form.  Equality of terms is equality
// of canonical strings; integer arithmetic is kept in a linear normal form.

import (
	"fmt"
	"go/ast"
	"go/types"
	"sort"
	"strings"
)

type T struct {
	Op   string // int str const nil var field index slice call conv bin un lit kv assert lin proj func opaque addr deref zero stack seq mval tuple
	Name string
	Args []*T
	K    int64
	Lin  map[string]int64 // Op=="lin": atom key -> coefficient
	Atom map[string]*T    // Op=="lin": atom key -> atom term
	Obj  types.Object
	Aux  any
	Node ast.Node

	str string
}

func tInt(k int64) *T       { return &T{Op: "int", K: k} }
func tStr(s string) *T      { return &T{Op: "str", Name: s} }
func tNil() *T              { return &T{Op: "nil"} }
func tConst(s string) *T    { return &T{Op: "const", Name: s} }
func tOpaque(s string) *T   { return &T{Op: "opaque", Name: s} }
func tVar(o types.Object, name string) *T {
	return &T{Op: "var", Name: name, Obj: o}
}
func tField(x *T, f string) *T {
	if x.Op == "addr" {
		x = x.Args[0]
	}
	if x.Op == "lit" { // field of a known literal
		for _, kv := range x.Args {
			if kv.Op == "kv" && kv.Name == f {
				return kv.Args[0]
			}
		}
	}
	return &T{Op: "field", Name: f, Args: []*T{x}}
}
func tIndex(x, i *T) *T           { return &T{Op: "index", Args: []*T{x, i}} }
func tCall(name string, a ...*T) *T { return &T{Op: "call", Name: name, Args: a} }
func tConv(typ string, x *T) *T   { return &T{Op: "conv", Name: typ, Args: []*T{x}} }
func tBin(op string, a, b *T) *T  { return &T{Op: "bin", Name: op, Args: []*T{a, b}} }
func tUn(op string, a *T) *T      { return &T{Op: "un", Name: op, Args: []*T{a}} }

func (t *T) String() string {
	if t == nil {
		return "_"
	}
	if t.str != "" {
		return t.str
	}
	var s string
	switch t.Op {
	case "int":
		s = fmt.Sprint(t.K)
	case "str":
		s = fmt.Sprintf("%q", t.Name)
	case "const":
		s = t.Name
	case "nil":
		s = "nil"
	case "var":
		s = t.Name
	case "opaque":
		s = "?" + t.Name
	case "field":
		s = t.Args[0].String() + "." + t.Name
	case "index":
		s = t.Args[0].String() + "[" + t.Args[1].String() + "]"
	case "slice":
		s = t.Args[0].String() + "[" + t.Args[1].String() + ":" + t.Args[2].String()
		if len(t.Args) > 3 && t.Args[3] != nil {
			s += ":" + t.Args[3].String()
		}
		s += "]"
	case "call", "lit", "tuple":
		var a []string
		for _, x := range t.Args {
			a = append(a, x.String())
		}
		open, close := "(", ")"
		if t.Op == "lit" {
			open, close = "{", "}"
		}
		s = t.Name + open + strings.Join(a, ", ") + close
	case "kv":
		s = t.Name + ": " + t.Args[0].String()
	case "conv":
		s = t.Name + "(" + t.Args[0].String() + ")"
	case "bin":
		s = "(" + t.Args[0].String() + " " + t.Name + " " + t.Args[1].String() + ")"
	case "un":
		s = t.Name + t.Args[0].String()
	case "addr":
		s = "&" + t.Args[0].String()
	case "deref":
		s = "*" + t.Args[0].String()
	case "assert":
		s = t.Args[0].String() + ".(" + t.Name + ")"
	case "proj":
		s = fmt.Sprintf("%s#%d", t.Args[0].String(), t.K)
	case "func":
		s = "func@" + t.Name
	case "zero":
		s = "zero(" + t.Name + ")"
	case "mval":
		s = t.Args[0].String() + ".method:" + t.Name
	case "lin":
		var keys []string
		for k := range t.Lin {
			keys = append(keys, k)
		}
		sort.Strings(keys)
		var parts []string
		for _, k := range keys {
			c := t.Lin[k]
			switch c {
			case 1:
				parts = append(parts, "+"+k)
			case -1:
				parts = append(parts, "-"+k)
			default:
				parts = append(parts, fmt.Sprintf("%+d*%s", c, k))
			}
		}
		if t.K != 0 || len(parts) == 0 {
			parts = append(parts, fmt.Sprintf("%+d", t.K))
		}
		s = "<" + strings.Join(parts, " ") + ">"
	default:
		if str, ok := t.Aux.(fmt.Stringer); ok {
			s = str.String()
		} else {
			s = t.Op + ":" + t.Name
		}
	}
	if t.Op != "stack" && t.Op != "seq" {
		t.str = s
	}
	return s
}

func (t *T) Eq(u *T) bool { return t.String() == u.String() }

// ---- linear forms ----

type linForm struct {
	K    int64
	Coef map[string]int64
	Atom map[string]*T
}

func newLin() *linForm { return &linForm{Coef: map[string]int64{}, Atom: map[string]*T{}} }

// toLin views an integer-valued term as a linear form (any other term is one atom).
func toLin(t *T) *linForm {
	l := newLin()
	switch t.Op {
	case "int":
		l.K = t.K
	case "lin":
		l.K = t.K
		for k, c := range t.Lin {
			l.Coef[k] = c
			l.Atom[k] = t.Atom[k]
		}
	default:
		k := t.String()
		l.Coef[k] = 1
		l.Atom[k] = t
	}
	return l
}

func (l *linForm) add(m *linForm, sign int64) *linForm {
	r := newLin()
	r.K = l.K + sign*m.K
	for k, c := range l.Coef {
		r.Coef[k] = c
		r.Atom[k] = l.Atom[k]
	}
	for k, c := range m.Coef {
		r.Coef[k] += sign * c
		r.Atom[k] = m.Atom[k]
	}
	for k, c := range r.Coef {
		if c == 0 {
			delete(r.Coef, k)
			delete(r.Atom, k)
		}
	}
	return r
}

func (l *linForm) scale(f int64) *linForm {
	r := newLin()
	if f == 0 {
		return r
	}
	r.K = l.K * f
	for k, c := range l.Coef {
		r.Coef[k] = c * f
		r.Atom[k] = l.Atom[k]
	}
	return r
}

func (l *linForm) term() *T {
	if len(l.Coef) == 0 {
		return tInt(l.K)
	}
	if l.K == 0 && len(l.Coef) == 1 {
		for k, c := range l.Coef {
			if c == 1 {
				return l.Atom[k]
			}
		}
	}
	return &T{Op: "lin", K: l.K, Lin: l.Coef, Atom: l.Atom}
}

func (l *linForm) isConst() (int64, bool) {
	if len(l.Coef) == 0 {
		return l.K, true
	}
	return 0, false
}

func (l *linForm) String() string { return l.term().String() }

// subst replaces atom key k by the linear form m.
func (l *linForm) subst(k string, m *linForm) *linForm {
	c, ok := l.Coef[k]
	if !ok {
		return l
	}
	r := newLin()
	r.K = l.K
	for kk, cc := range l.Coef {
		if kk != k {
			r.Coef[kk] = cc
			r.Atom[kk] = l.Atom[kk]
		}
	}
	return r.add(m.scale(c), 1)
}

// stripIntConv removes integer-to-integer conversions at the root.
func stripIntConv(t *T) *T {
	for t != nil && t.Op == "conv" && isIntTypeName(t.Name) {
		t = t.Args[0]
	}
	return t
}

func isIntTypeName(n string) bool {
	switch n {
	case "int", "int8", "int16", "int32", "int64", "uint", "uint8", "uint16", "uint32", "uint64", "byte", "rune", "reg", "code", "Type", "pos", "uintptr":
		return true
	}
	return false
}

// deepStripIntConv removes integer conversions everywhere inside linear structure.
func linOf(t *T) *linForm {
	t = stripIntConv(t)
	switch t.Op {
	case "int":
		return toLin(t)
	case "lin":
		r := newLin()
		r.K = t.K
		for k, c := range t.Lin {
			r = r.add(linOf(t.Atom[k]).scale(c), 1)
		}
		return r
	case "un":
		if t.Name == "-" {
			return linOf(t.Args[0]).scale(-1)
		}
	}
	return toLin(t)
}

// walkT visits every subterm.
func walkT(t *T, f func(*T)) {
	if t == nil {
		return
	}
	f(t)
	for _, a := range t.Args {
		walkT(a, f)
	}
	if t.Op == "lin" {
		for _, a := range t.Atom {
			walkT(a, f)
		}
	}
}

func containsT(t *T, pred func(*T) bool) bool {
	found := false
	walkT(t, func(x *T) {
		if pred(x) {
			found = true
		}
	})
	return found
}
