package main

// C02 — the bytecode optimiser is observationally transparent.

import (
	"fmt"
	"math"
	"sort"
	"strings"
)

func init() {
	register(&propDef{
		ID: "C02",
		Explanation: "The peephole optimiser is a finite rewrite system written out case by case, and the handlers it relates are straight-line code. HND-AGREE symbolically executes, for every rewrite, the handlers of the window's opcodes in sequence and the handler of the fused opcode under the rewrite's operand mapping (and side conditions), from the same symbolic stack/locals, and requires identical final stack terms, local stores, ordered impure calls and program-counter change. PEEP-BOUND checks each rewrite consumes exactly its window and guards the window's indexes. PEEP-DEPTH checks the longest produce→consume chain among rewrites does not exceed the number of doOptimize passes composed in optimize (so a block measured for a jump operand is at a fixpoint). PEEP-SPLIT checks no window can straddle two self-contained segments (every proper suffix underflows an empty operand stack). PEEP-GLUE checks the literal glue instructions of control-flow layouts cannot complete a length-reducing window inside a region spanned by an already computed jump. PEEP-MEASURED checks every segment whose length enters a jump operand is the result of c.optimize. Not decided: the three normalisation axioms (assign after op on a Local is transparent; opSub(x,k)=opAdd(x,-k); immediate constructor irrelevant for container keys), handlers outside the stack idiom (opaque), value-level equality.",
		Assumptions: []string{
			"N1: locals subject to arithmetic hold typed numeric values, so assign(op(Local..), Local.t) returns its receiver",
			"N2: x - k == x + (-k) for every fixed-width type on this platform (float→unsigned conversion of negatives is platform defined)",
			"N3: containers read integer keys through Int()/num only, so the constructor of an immediate key is irrelevant",
		},
		Quick: []ruleDef{
			{"HND-AGREE", 15, ruleHndAgree},
			{"PEEP-BOUND", 12, rulePeepBound},
			{"PEEP-NEGZERO", 1, rulePeepNegZero},
			{"PEEP-DEPTH", 1, rulePeepDepth},
			{"PEEP-SPLIT", 20, rulePeepSplit},
			{"PEEP-GLUE", 255, rulePeepGlue},
			{"PEEP-MEASURED", 23, rulePeepMeasured},
			{"JOINSPLIT", 100, ruleJoinSplit},
		},
	})
}

// insTerms builds the current-instruction terms I0..Ik of a window with the
// rewrite's side conditions substituted.
func insTerms(rw *rewrite) []*T {
	n := len(rw.Window)
	out := make([]*T, n)
	fieldOf := func(i int, f string) *T { return tField(tVar(nil, fmt.Sprintf("I%d", i)), f) }
	subst := map[string]*T{}
	for _, z := range rw.SideZero {
		subst[z.String()] = tInt(0)
	}
	for _, eq := range rw.SideEq {
		a, b := eq[0], eq[1]
		// replace the later one by the earlier one
		if a.String() > b.String() {
			a, b = b, a
		}
		subst[b.String()] = a
	}
	for i := 0; i < n; i++ {
		lit := &T{Op: "lit", Name: "instruction"}
		for _, f := range []string{"A", "B", "C", "Pos"} {
			v := fieldOf(i, f)
			if s, ok := subst[v.String()]; ok {
				v = s
			}
			lit.Args = append(lit.Args, &T{Op: "kv", Name: f, Args: []*T{v}})
		}
		lit.Args = append(lit.Args, &T{Op: "kv", Name: "Code", Args: []*T{tConst(rw.Window[i])}})
		out[i] = lit
	}
	return out
}

func fusedIns(rw *rewrite, ins []*T) *T {
	lit := &T{Op: "lit", Name: "instruction"}
	have := map[string]bool{}
	for _, kv := range rw.Lit.Args {
		if kv.Op != "kv" {
			continue
		}
		v := substIns(kv.Args[0], ins)
		lit.Args = append(lit.Args, &T{Op: "kv", Name: kv.Name, Args: []*T{v}})
		have[kv.Name] = true
	}
	for _, f := range []string{"A", "B", "C"} {
		if !have[f] {
			lit.Args = append(lit.Args, &T{Op: "kv", Name: f, Args: []*T{tInt(0)}})
		}
	}
	return lit
}

// substIns replaces Ik.F inside t by the (side-condition substituted) field of ins[k].
func substIns(t *T, ins []*T) *T {
	if t == nil {
		return nil
	}
	if t.Op == "field" && t.Args[0].Op == "var" && strings.HasPrefix(t.Args[0].Name, "I") {
		var k int
		if _, err := fmt.Sscanf(t.Args[0].Name, "I%d", &k); err == nil && k < len(ins) {
			return tField(ins[k], t.Name)
		}
	}
	if t.Op == "lin" {
		l := newLin()
		l.K = t.K
		for key, c := range t.Lin {
			l = l.add(toLin(substIns(t.Atom[key], ins)).scale(c), 1)
		}
		return l.term()
	}
	if len(t.Args) == 0 {
		return t
	}
	n := *t
	n.str = ""
	n.Args = make([]*T, len(t.Args))
	for i, a := range t.Args {
		n.Args[i] = substIns(a, ins)
	}
	return &n
}

func pathSetString(ps []*hndPath) string {
	var s []string
	for _, p := range ps {
		s = append(s, p.String())
	}
	sort.Strings(s)
	return strings.Join(s, " || ")
}

func ruleHndAgree(c *Ctx, r *R) {
	m, err := newHndMachine(c)
	if err != nil {
		r.undecided("exec", "-", err.Error())
		return
	}
	p, err := c.peephole()
	if err != nil {
		r.undecided("doOptimize", "-", err.Error())
		return
	}
	for _, pr := range p.Problems {
		r.undecided("extract", c.Pos(p.Fn), pr)
	}
	for _, rw := range p.Rewrites {
		key := rw.Key()
		pos := c.Pos(rw.Clause)
		if rw.Produces == "" {
			r.undecided(key, pos, "the rewrite's literal has no constant Code")
			continue
		}
		ins := insTerms(rw)
		seq, err1 := m.runSeq(rw.Window, ins)
		fused, err2 := m.runSeq([]string{rw.Produces}, []*T{fusedIns(rw, ins)})
		if err1 != nil || err2 != nil {
			r.undecided(key, pos, fmt.Sprintf("cannot summarise handlers: %v %v", err1, err2))
			continue
		}
		a, b := pathSetString(seq), pathSetString(fused)
		var flags []string
		for _, ps := range [][]*hndPath{seq, fused} {
			for _, q := range ps {
				flags = append(flags, q.Flags...)
			}
		}
		if len(flags) > 0 {
			r.undecided(key, pos, "handler uses constructs outside the summariser: "+strings.Join(flags, ","))
			continue
		}
		r.check(a == b, key, pos, "sequence ≡ fused: "+b,
			fmt.Sprintf("the fused handler of %s does not do what the sequence %v does under the rewrite's operand mapping.\n      sequence: %s\n      fused   : %s", rw.Produces, rw.Window, a, b))
	}
}

func rulePeepBound(c *Ctx, r *R) {
	p, err := c.peephole()
	if err != nil {
		r.undecided("doOptimize", "-", err.Error())
		return
	}
	for _, rw := range p.Rewrites {
		key := rw.Key()
		k := int64(len(rw.Window) - 1)
		okSkip := rw.Skip == k
		okBound := rw.HasBound && rw.Bound >= k
		r.check(okSkip && okBound, key, c.Pos(rw.Clause),
			fmt.Sprintf("window %d, n += %d, guard n < len(in)-%d", k+1, rw.Skip, rw.Bound),
			fmt.Sprintf("rewrite consumes n += %d for a window of %d instructions and guards n < len(in)-%d (present=%v): an instruction is dropped, duplicated, or indexed out of range", rw.Skip, k+1, rw.Bound, rw.HasBound))
	}
}

func rulePeepDepth(c *Ctx, r *R) {
	p, err := c.peephole()
	if err != nil {
		r.undecided("doOptimize", "-", err.Error())
		return
	}
	if p.Passes == 0 {
		r.undecided("passes", c.Pos(p.Fn), "compiler.optimize does not return a composition of doOptimize applications")
		return
	}
	// longest chain r1 -> r2 where r1.Produces is in r2.Window
	n := len(p.Rewrites)
	memo := make([]int, n)
	state := make([]int, n)
	cyc := false
	var chainOf func(i int) int
	next := make([]int, n)
	chainOf = func(i int) int {
		if state[i] == 1 {
			cyc = true
			return 1
		}
		if state[i] == 2 {
			return memo[i]
		}
		state[i] = 1
		best := 1
		next[i] = -1
		for j, rw := range p.Rewrites {
			for _, op := range rw.Window {
				if op == p.Rewrites[i].Produces {
					if d := 1 + chainOf(j); d > best {
						best = d
						next[i] = j
					}
				}
			}
		}
		state[i] = 2
		memo[i] = best
		return best
	}
	depth, start := 0, -1
	for i := range p.Rewrites {
		if d := chainOf(i); d > depth {
			depth, start = d, i
		}
	}
	var chain []string
	for i := start; i >= 0; i = next[i] {
		chain = append(chain, p.Rewrites[i].Key())
		if len(chain) > n {
			break
		}
	}
	r.check(!cyc && depth <= p.Passes, "chain-depth", c.Pos(p.Fn),
		fmt.Sprintf("longest produce→consume chain %d (%s) ≤ %d passes", depth, strings.Join(chain, " → "), p.Passes),
		fmt.Sprintf("the longest produce→consume chain among rewrites is %d (%s, cyclic=%v) but optimize applies doOptimize only %d times: a block is not at a fixpoint when its length is baked into a jump operand, and the enclosing block's optimisation shortens it under that jump", depth, strings.Join(chain, " → "), cyc, p.Passes))
}

func rulePeepSplit(c *Ctx, r *R) {
	m, err := newHndMachine(c)
	if err != nil {
		r.undecided("exec", "-", err.Error())
		return
	}
	p, err := c.peephole()
	if err != nil {
		r.undecided("doOptimize", "-", err.Error())
		return
	}
	for _, rw := range p.Rewrites {
		for s := 1; s < len(rw.Window); s++ {
			suffix := rw.Window[s:]
			key := fmt.Sprintf("%s split@%d", rw.Key(), s)
			var ins []*T
			for i := range suffix {
				ins = append(ins, tVar(nil, fmt.Sprintf("I%d", s+i)))
			}
			ps, err := m.runSeq(suffix, ins)
			if err != nil {
				r.undecided(key, c.Pos(rw.Clause), err.Error())
				continue
			}
			under := len(ps) > 0
			for _, q := range ps {
				if q.Need < 1 {
					under = false
				}
			}
			r.check(under, key, c.Pos(rw.Clause), fmt.Sprintf("suffix %v needs %d stack entries it did not push", suffix, ps[0].Need),
				fmt.Sprintf("the suffix %v of window %v runs on an empty operand stack, so it can be the head of a self-contained segment: re-optimising an enclosing block can fuse across a jump target / segment boundary and change a distance a jump already spans", suffix, rw.Window))
		}
	}
}

// JOINSPLIT: splitParams inverts joinParams on the 16-bit signed range (axiom N4 of HND-AGREE).
func ruleJoinSplit(c *Ctx, r *R) {
	j, s := c.Func("joinParams"), c.Func("splitParams")
	if j == nil || s == nil {
		r.undecided("joinParams/splitParams", "-", "helpers not found")
		return
	}
	pts := []int64{-32768, -32767, -256, -2, -1, 0, 1, 2, 255, 256, 32766, 32767}
	for _, a := range pts {
		for _, b := range pts {
			key := fmt.Sprintf("(%d,%d)", a, b)
			jv, err := c.intEvalFunc(j, []int64{a, b})
			if err != nil || len(jv) != 1 {
				r.undecided(key, c.Pos(j), fmt.Sprint("cannot fold joinParams: ", err))
				return
			}
			sv, err := c.intEvalFunc(s, jv)
			if err != nil || len(sv) != 2 {
				r.undecided(key, c.Pos(s), fmt.Sprint("cannot fold splitParams: ", err))
				return
			}
			r.check(sv[0] == a && sv[1] == b, key, c.Pos(s), "round-trips",
				fmt.Sprintf("splitParams(joinParams(%d,%d)) = (%d,%d): packed operands (FUNC.A, ITER.B, FASTCALLATTR.C) are unpacked to different values", a, b, sv[0], sv[1]))
		}
	}
}

func rulePeepMeasured(c *Ctx, r *R) {
	jf, _, err := c.jumpFields()
	if err != nil {
		r.undecided("exec", "-", err.Error())
		return
	}
	jf["Func"] = "C"
	constructs := append(append([]string{}, controlConstructs...), "func")
	ly, err := c.buildLayouts(constructs)
	if err != nil {
		r.undecided("compile", "-", err.Error())
		return
	}
	cs, _ := c.compileSwitch()
	for _, k := range constructs {
		pos := "-"
		if sc := cs.ByLabel[k]; sc != nil {
			pos = c.Pos(sc.Clause)
		}
		if e := ly.Errs[k]; e != nil {
			r.undecided(k, pos, e.Error())
			continue
		}
		segs := map[string]*segment{}
		for _, v := range ly.Views[k] {
			for _, a := range v.Atoms {
				if a.A.Seg != nil {
					segs[a.A.Seg.lenKey()] = a.A.Seg
				}
			}
		}
		seen := map[string]bool{}
		checkOperand := func(what string, t *T) {
			l := linOf(t)
			for key := range l.Coef {
				if !strings.HasPrefix(key, "|") {
					continue
				}
				ck := k + " " + what + " " + key
				if seen[ck] {
					continue
				}
				seen[ck] = true
				s := segs[key]
				if s == nil {
					r.undecided(ck, pos, "operand mentions the length of a segment that is not in the layout")
					continue
				}
				ok := s.Optimized || s.Kind == "loop-entry" || s.Kind == "loop-result"
				r.check(ok, ck, pos, "length measured after c.optimize",
					fmt.Sprintf("the %s operand of %s uses the length of segment %s, which is not the result of c.optimize: the enclosing block's later optimisation can shorten it under the already computed jump", what, k, key))
			}
		}
		for _, v := range ly.Views[k] {
			sp := ly.spanned(v, jf)
			for i, a := range v.Atoms {
				if a.A.Seg == nil || !sp[i] || a.A.Seg.Kind != "call" {
					continue
				}
				ck := k + " spanned " + a.Role
				if seen[ck+v.shape()] {
					continue
				}
				seen[ck+v.shape()] = true
				r.check(a.A.Seg.Optimized, ck, pos, "a segment inside a jump's span is at its optimised length",
					fmt.Sprintf("in the %s layout `%s` the %s segment lies inside a region an already computed jump spans but is not the result of c.optimize: the enclosing block's later optimisation shortens it and the jump over it lands late", v.Label, v.shape(), a.Role))
			}
		}
		for _, v := range ly.Views[k] {
			for _, a := range v.Atoms {
				if a.A.Seg != nil {
					for _, rule := range ly.m.ls(v.Path.St).rew[a.A.Seg.ID] {
						checkOperand(strings.TrimPrefix(rule.From, "code")+"-rewrite", rule.A)
					}
					continue
				}
				if f, ok := jf[a.Role]; ok && !strings.HasPrefix(f, "?") {
					if o := litField(a.A.Ins, f); o != nil {
						checkOperand(a.Role+"."+f, o)
					}
				}
			}
		}
	}
}

// PEEP-GLUE: literal glue instructions of control-flow layouts cannot complete a
// length-reducing window inside a region that a jump of the construct already spans.
func rulePeepGlue(c *Ctx, r *R) {
	p, err := c.peephole()
	if err != nil {
		r.undecided("doOptimize", "-", err.Error())
		return
	}
	jf, _, err := c.jumpFields()
	if err != nil {
		r.undecided("exec", "-", err.Error())
		return
	}
	ly, err := c.buildLayouts(controlConstructs)
	if err != nil {
		r.undecided("compile", "-", err.Error())
		return
	}
	cs, _ := c.compileSwitch()
	for _, k := range controlConstructs {
		pos := "-"
		if sc := cs.ByLabel[k]; sc != nil {
			pos = c.Pos(sc.Clause)
		}
		seen := map[string]bool{}
		for _, v := range ly.Views[k] {
			n := len(v.Atoms)
			spanned := ly.spanned(v, jf)
			// glue runs
			for s := 0; s < n; {
				if v.Atoms[s].A.Seg != nil {
					s++
					continue
				}
				e := s
				for e < n && v.Atoms[e].A.Seg == nil {
					e++
				}
				run := v.Atoms[s:e]
				for _, rw := range p.Rewrites {
					w := len(rw.Window)
					if w < 2 {
						continue
					}
					for off := -(w - 1); off < len(run); off++ {
						match, touches, inSpan := true, false, false
						for q := 0; q < w; q++ {
							gi := off + q
							switch {
							case gi < 0:
								// position falls into the atom preceding the run (a segment's tail: any opcode)
								if s > 0 && spanned[s-1] {
									inSpan = true
								}
							case gi >= len(run):
								if e < n && spanned[e] {
									inSpan = true
								}
							default:
								touches = true
								if "code"+run[gi].Role != rw.Window[q] {
									match = false
								}
								if spanned[s+gi] {
									inSpan = true
								}
							}
						}
						if !touches {
							continue
						}
						key := fmt.Sprintf("%s run[%s] × %s @%d", v.Label, runString(run), rw.Key(), off)
						if seen[key] {
							continue
						}
						seen[key] = true
						r.check(!(match && inSpan), key, pos, "cannot fuse",
							fmt.Sprintf("in the %s layout `%s` the glue instructions [%s] can complete the window %s (offset %d) inside a region an already computed jump spans: the enclosing block's optimisation shortens that region and the jump lands one instruction late", v.Label, v.shape(), runString(run), rw.Key(), off))
					}
				}
				s = e
			}
		}
	}
}

func runString(run []layAtomInfo) string {
	var s []string
	for _, a := range run {
		s = append(s, a.Role)
	}
	return strings.Join(s, ",")
}

// spanned[i]: atom i lies between some jump of the construct and its landing
// boundary (for iteration layouts everything is spanned by the earlier chunks' jumps).
func (ly *layouts) spanned(v *layView, jf map[string]string) []bool {
	n := len(v.Atoms)
	spanned := make([]bool, n)
	if v.AllSpanned {
		for i := range spanned {
			spanned[i] = true
		}
	}
	for i, a := range v.Atoms {
		if a.A.Seg != nil {
			continue
		}
		f, ok := jf[a.Role]
		if !ok || strings.HasPrefix(f, "?") {
			continue
		}
		land, ok := ly.landing(v, i, f)
		if !ok {
			continue
		}
		b := -1
		for j := 0; j <= n; j++ {
			if v.Starts[j].String() == land.String() {
				b = j
				break
			}
		}
		if b < 0 {
			continue // reported by LAY-TARGET
		}
		lo, hi := i+1, b
		if b <= i {
			lo, hi = b, i
		}
		for j := lo; j < hi && j < n; j++ {
			spanned[j] = true
		}
	}
	return spanned
}

// PEEP-NEGZERO: a rewrite that replaces `x OP c` by the opposite operation with -c (SUB c by
// an increment of -c) is an identity of integers and of non-zero c only: c is an integer
// literal, and the integer -0 is +0, so for c = 0 the rewritten code adds +0 where the
// original subtracted 0 — for a float x = -0.0 that is +0.0 instead of -0.0 (and 1/x flips
// from -Inf to +Inf) with the optimiser on only. Such a rewrite must exclude c = 0.
func rulePeepNegZero(c *Ctx, r *R) {
	p, err := c.peephole()
	if err != nil {
		r.undecided("doOptimize", "-", err.Error())
		return
	}
	n := 0
	for _, rw := range p.Rewrites {
		if rw.Lit == nil {
			continue
		}
		for _, f := range []string{"A", "B", "C"} {
			v := litField(rw.Lit, f)
			if v == nil || !strings.HasPrefix(v.String(), "<-") {
				continue
			}
			// the negated operand: <-I0.A>
			src := strings.TrimSuffix(strings.TrimPrefix(v.String(), "<-"), ">")
			n++
			excl, exclMin := false, false
			for _, nr := range rw.Narrow {
				if nr == src+" != 0" || nr == "0 != "+src {
					excl = true
				}
				// X != -X: the operand is not its own negation (0, the smallest integer)
				if nr == src+" != <-"+src+">" || nr == "<-"+src+"> != "+src {
					excl, exclMin = true, true
				}
				if nr == fmt.Sprintf("%s != %d", src, int64(math.MinInt64)) || nr == fmt.Sprintf("%d != %s", int64(math.MinInt64), src) {
					exclMin = true
				}
			}
			r.check(exclMin, rw.Key()+" "+f+" min", c.Pos(rw.Clause), "the smallest integer (its own negation) is excluded from the fold",
				fmt.Sprintf("the window %v is folded into %s with the negated operand -%s also for the smallest integer, whose negation overflows back to itself: `func f(x float64) float64 { return x - -9223372036854775808 }` adds -2^63 with the optimiser on and subtracts it with the optimiser off", rw.Window, strings.TrimPrefix(rw.Produces, "code"), src))
			r.check(excl, rw.Key()+" "+f, c.Pos(rw.Clause), "the operand "+src+" = 0 is excluded from the fold",
				fmt.Sprintf("the window %v is folded into %s with the negated operand -%s also for %s = 0: `z := 0.0; z = -z; w := z - 0` gives -0 with the optimiser off and 0 with it on (1/w: -Inf and +Inf)", rw.Window, strings.TrimPrefix(rw.Produces, "code"), src, src))
		}
	}
	if n == 0 {
		r.ok("negated operands", "no rewrite negates an operand")
	}
}
