package main

// C06 — break, continue and return reach the target Go specifies.
// Jump operands are linear expressions in segment lengths; the layout
// interpreter decides landing == intended boundary for all lengths at once.

import (
	"fmt"
	"go/ast"
	"go/constant"
	"go/token"
	"go/types"
	"regexp"
	"sort"
	"strings"
)

func init() {
	register(&propDef{
		ID:          "C06",
		Explanation: "The compile-cases for if / switch / for / range / && / || are executed symbolically over sequences of opaque segments (symbolic lengths) and literal instructions. LAY-SHAPE checks each construct's emitted layout is one of the templates Go's semantics allows (e.g. `init cond JUMPFALSE then JUMP else`). LAY-TARGET checks, for every jump-class literal instruction, position+1+operand equals the intended boundary (spec table from the Go specification) as an identity of linear expressions in the segment lengths. LAY-REWRITE checks every body segment of a break/continue target has its placeholders rewritten to jumps landing on the intended boundary for every index n, that switch bodies (including the default body) rewrite break and leave continue to the enclosing loop, and that non-targets rewrite nothing. HND-BRANCH checks the branch handlers' polarity, pops and operand field (which field is added to the program counter) from their symbolic summaries. Not decided: `return` (a bare opcode), correctness of the opaque segments themselves (induction over nesting), that the parser builds children in the order the compile-case reads them (role table frozen from the Nud functions).",
		Assumptions: []string{"child-index roles: if [init,cond,then,else]; for [init,cond,post,body]; range [key,value,item,body]; switch [tag,cases,default]; case [expr,body] — as built by ifNud/forNud/switchNud", "the dispatch loop adds 1 to the program counter after every handler"},
		Quick: []ruleDef{
			{"HND-BRANCH", 7, ruleHndBranch},
			{"LAY-SHAPE", 8, ruleLayShape},
			{"LAY-TARGET", 12, ruleLayTarget},
			{"LAY-REWRITE", 27, ruleLayRewrite},
			{"PAR-FORCLAUSE", 1, ruleParForClause},
			{"HND-RANGEINT", 1, ruleHndRangeInt},
			{"PAR-RETURNLINE", 1, ruleParReturnLine},
			{"PAR-LINEBREAK", 1, ruleParLineBreak},
			{"PAR-IFCHAIN", 1, ruleParIfChain},
		},
	})
}

var roleTable = map[string]map[string]string{
	"if":     {"0": "init", "1": "cond", "2": "then", "3": "else"},
	"for":    {"0": "init", "1": "cond", "2": "post", "3": "block"},
	"range":  {"2": "item", "3": "block"},
	"&&":     {"0": "left", "1": "right"},
	"||":     {"0": "left", "1": "right"},
	"switch": {"0": "tag", "2/*": "default", "1/i/0": "caseExpr", "1/i/1/*": "caseBody"},
	"func":   {"2": "block"},
}

type layAtomInfo struct {
	A    *atom
	Role string // segment role, or opcode name (without "code") for literal instructions
}

type layView struct {
	Construct  string
	Label      string
	Path       *layoutPath
	Atoms      []layAtomInfo
	Starts     []*linForm
	Iter       *loopIter
	Tail       *linForm // for iteration layouts: what follows the loop result in the final layout
	AllSpanned bool
}

func (v *layView) shape() string {
	var s []string
	for _, a := range v.Atoms {
		s = append(s, a.Role)
	}
	return strings.Join(s, " ")
}

func (v *layView) indexOfRole(role string, nth int) int {
	n := 0
	for i, a := range v.Atoms {
		if a.Role == role {
			if n == nth {
				return i
			}
			n++
		}
	}
	return -1
}

func (v *layView) end() *linForm { return v.Starts[len(v.Atoms)] }

func opName(ins *T) string {
	c := litField(ins, "Code")
	if c == nil || c.Op != "const" {
		return "?"
	}
	return strings.TrimPrefix(c.Name, "code")
}

func roleOf(construct string, a *atom) string {
	if a.Seg == nil {
		return opName(a.Ins)
	}
	switch a.Seg.Kind {
	case "loop-entry", "loop-result":
		return a.Seg.Name
	}
	p := childPath(a.Seg.Src)
	if r, ok := roleTable[construct][strings.Join(p, "/")]; ok {
		return r
	}
	return "seg(" + a.Seg.Src.String() + ")"
}

type layouts struct {
	m     *layMachine
	Views map[string][]*layView // by construct
	Flags map[string][]string
	Errs  map[string]error
}

var controlConstructs = []string{"if", "for", "range", "&&", "||", "switch"}

func (c *Ctx) buildLayouts(constructs []string) (*layouts, error) {
	cs, err := c.compileSwitch()
	if err != nil {
		return nil, err
	}
	out := &layouts{Views: map[string][]*layView{}, Flags: map[string][]string{}, Errs: map[string]error{}}
	for _, k := range constructs {
		m := newLayMachine(c)
		out.m = m
		cl, err := m.runCase(cs, k)
		if err != nil {
			out.Errs[k] = err
			continue
		}
		out.Flags[k] = cl.Flags
		mk := func(p *layoutPath, it *loopIter) *layView {
			v := &layView{Construct: k, Label: k, Path: p, Iter: it}
			atoms := m.live(p)
			for _, a := range atoms {
				v.Atoms = append(v.Atoms, layAtomInfo{A: a, Role: roleOf(k, a)})
			}
			v.Starts = m.starts(p, atoms)
			return v
		}
		var finals []*layView
		for _, p := range cl.Paths {
			v := mk(p, nil)
			finals = append(finals, v)
			out.Views[k] = append(out.Views[k], v)
		}
		for _, it := range cl.Iters {
			// tail: what follows the loop result in the final layouts (must agree on every path)
			var tail *linForm
			tailOK := true
			for _, f := range finals {
				idx := -1
				for i, a := range f.Atoms {
					if a.A.Seg == it.Result {
						idx = i
					}
				}
				if idx < 0 {
					continue
				}
				t := f.end().add(f.Starts[idx+1], -1)
				if tail == nil {
					tail = t
				} else if tail.String() != t.String() {
					// a path where a trailing segment is known empty: compare after substitution
					tailOK = tailOK && m.applyZero(f.Path.St, tail).String() == t.String()
				}
			}
			for _, ex := range it.Exits {
				v := mk(ex, it)
				v.Label = k + "/iteration(" + it.Var + ")"
				v.AllSpanned = true
				if tail != nil && tailOK {
					v.Tail = m.applyZero(ex.St, tail)
				}
				out.Views[k] = append(out.Views[k], v)
			}
		}
	}
	return out, nil
}

var allowedShapes = map[string][]string{
	"if":     {"init cond JumpFalse then", "init cond JumpFalse then Jump else"},
	"for":    {"init Jump block post cond JumpTrue", "init block post Jump"},
	"range":  {"item Range block Iter"},
	"&&":     {"left And right"},
	"||":     {"left Or right"},
	"switch": {"tag LocalSet out* default", "out* default", "tag LocalSet out*", "out*"},
	"switch/iteration(out)": {"caseExpr LocalGet Eq JumpFalse caseBody Jump out@entry", "caseExpr JumpFalse caseBody Jump out@entry",
		"caseExpr LocalGet Eq JumpFalse Jump out@entry", "caseExpr JumpFalse Jump out@entry"},
}

func ruleLayShape(c *Ctx, r *R) {
	ly, err := c.buildLayouts(controlConstructs)
	if err != nil {
		r.undecided("compile", "-", err.Error())
		return
	}
	cs, _ := c.compileSwitch()
	for _, k := range controlConstructs {
		pos := "-"
		if sc := cs.ByLabel[k]; sc != nil {
			pos = c.Pos(sc.Clause)
		}
		if e := ly.Errs[k]; e != nil {
			r.undecided(k, pos, e.Error())
			continue
		}
		for _, f := range ly.Flags[k] {
			r.undecided(k+" flags", pos, "compile-case uses a construct outside the layout interpreter: "+f)
		}
		seen := map[string]bool{}
		for _, v := range ly.Views[k] {
			sh := v.shape()
			key := v.Label + ": " + sh
			if seen[key] {
				continue
			}
			seen[key] = true
			ok := false
			for _, a := range allowedShapes[v.Label] {
				if a == sh {
					ok = true
				}
			}
			// an empty optional body is fine: shapes are matched after dropping segments known to be empty
			r.check(ok, key, pos, "is an allowed layout",
				fmt.Sprintf("the %s compile-case can emit the layout `%s`, which is none of the layouts Go's semantics allows (%s): a branch, body or jump is missing, duplicated or out of order", v.Label, sh, strings.Join(allowedShapes[v.Label], " | ")))
		}
		if len(ly.Views[k]) == 0 {
			r.undecided(k, pos, "no layout could be derived")
		}
	}
}

// jumpFields derives, from the handler summaries, which operand each
// jump-class opcode adds to the program counter.
func (c *Ctx) jumpFields() (map[string]string, *hndMachine, error) {
	m, err := newHndMachine(c)
	if err != nil {
		return nil, nil, err
	}
	out := map[string]string{}
	for _, sc := range m.sw.Cases {
		for _, op := range sc.Labels {
			ps, err := m.single(op)
			if err != nil {
				continue
			}
			for _, p := range ps {
				if p.Jump == nil {
					continue
				}
				l := linOf(p.Jump)
				if len(l.Coef) == 1 && l.K == 0 {
					for k, cf := range l.Coef {
						if cf == 1 && strings.HasPrefix(k, "I.") && len(k) == 3 {
							out[strings.TrimPrefix(op, "code")] = k[2:]
						}
					}
				}
				if _, ok := out[strings.TrimPrefix(op, "code")]; !ok {
					out[strings.TrimPrefix(op, "code")] = "?" + p.Jump.String()
				}
			}
		}
	}
	return out, m, nil
}

func ruleHndBranch(c *Ctx, r *R) {
	_, m, err := c.jumpFields()
	if err != nil {
		r.undecided("exec", "-", err.Error())
		return
	}
	// expected: per path (condition on Bool(Top1): T/F/-) -> pops, jump field
	type exp struct {
		cond string
		pop  int
		push int
		jump string
	}
	table := map[string][]exp{
		"codeJump":      {{"-", 0, 0, "A"}},
		"codeJumpFalse": {{"T", 1, 0, ""}, {"F", 1, 0, "A"}},
		"codeJumpTrue":  {{"T", 1, 0, "A"}, {"F", 1, 0, ""}},
		"codeAnd":       {{"T", 1, 0, ""}, {"F", 0, 0, "A"}},
		"codeOr":        {{"T", 0, 0, "A"}, {"F", 1, 0, ""}},
	}
	for _, op := range sortedKeys(table) {
		sc := m.sw.ByLabel[op]
		if sc == nil {
			r.fail(op, "-", "no handler for "+op)
			continue
		}
		ps, err := m.single(op)
		if err != nil {
			r.undecided(op, c.Pos(sc.Clause), err.Error())
			continue
		}
		got := map[string]string{}
		for _, p := range ps {
			cond := "-"
			for _, cs := range p.Conds {
				switch cs {
				case "Value.Bool(Top1)":
					cond = "T"
				case "!Value.Bool(Top1)":
					cond = "F"
				default:
					cond = "?" + cs
				}
			}
			j := ""
			if p.Jump != nil {
				l := linOf(p.Jump)
				j = "?" + p.Jump.String()
				if len(l.Coef) == 1 && l.K == 0 {
					for k, cf := range l.Coef {
						if cf == 1 && strings.HasPrefix(k, "I.") {
							j = k[2:]
						}
					}
				}
			}
			got[cond] = fmt.Sprintf("pop%d push%d jump[%s]", p.Pop, len(p.Push), j)
		}
		want := map[string]string{}
		for _, e := range table[op] {
			want[e.cond] = fmt.Sprintf("pop%d push%d jump[%s]", e.pop, e.push, e.jump)
		}
		r.check(fmt.Sprint(got) == fmt.Sprint(want), op, c.Pos(sc.Clause), fmt.Sprint(got),
			fmt.Sprintf("branch handler %s behaves as %v, Go's control flow needs %v (keys: T/F = truth of the popped/peeked condition; pops; operand added to the program counter)", op, got, want))
	}
	// RANGE and ITER: which operand is the jump, and that the non-jumping ITER path falls through
	for op, want := range map[string]string{"codeRange": "B", "codeIter": "C"} {
		sc := m.sw.ByLabel[op]
		if sc == nil {
			r.fail(op, "-", "no handler for "+op)
			continue
		}
		ps, err := m.single(op)
		if err != nil || len(ps) == 0 {
			r.undecided(op, c.Pos(sc.Clause), fmt.Sprint("cannot summarise: ", err))
			continue
		}
		jumps, falls := 0, 0
		okField := true
		for _, p := range ps {
			if p.Jump == nil {
				falls++
				continue
			}
			jumps++
			if p.Jump.String() != "int(I."+want+")" && stripIntConv(p.Jump).String() != "I."+want {
				okField = false
			}
		}
		good := okField && jumps > 0
		if op == "codeRange" {
			good = good && falls == 0
		} else {
			good = good && falls > 0
		}
		r.check(good, op, c.Pos(sc.Clause), fmt.Sprintf("%d jumping path(s) via %s, %d fall-through", jumps, want, falls),
			fmt.Sprintf("%s: expected the program counter to move by operand %s (RANGE always, ITER only while the iterator yields); got %d jumping / %d falling paths", op, want, jumps, falls))
	}
}

// landing computes position+1+operand for the literal instruction at atom index i.
func (ly *layouts) landing(v *layView, i int, field string) (*linForm, bool) {
	opnd := litField(v.Atoms[i].A.Ins, field)
	if opnd == nil {
		return nil, false
	}
	l := ly.m.applyZero(v.Path.St, linOf(opnd))
	one := newLin()
	one.K = 1
	return v.Starts[i].add(one, 1).add(l, 1), true
}

func ruleLayTarget(c *Ctx, r *R) {
	jf, _, err := c.jumpFields()
	if err != nil {
		r.undecided("exec", "-", err.Error())
		return
	}
	ly, err := c.buildLayouts(controlConstructs)
	if err != nil {
		r.undecided("compile", "-", err.Error())
		return
	}
	cs, _ := c.compileSwitch()
	for _, k := range controlConstructs {
		pos := "-"
		if sc := cs.ByLabel[k]; sc != nil {
			pos = c.Pos(sc.Clause)
		}
		seen := map[string]bool{}
		for _, v := range ly.Views[k] {
			occ := map[string]int{}
			for i, a := range v.Atoms {
				if a.A.Seg != nil {
					continue
				}
				op := a.Role
				field, isJump := jf[op]
				if !isJump || op == "Func" {
					continue
				}
				nth := occ[op]
				occ[op]++
				key := fmt.Sprintf("%s [%s] %s#%d", v.Label, v.shape(), op, nth)
				if seen[key] {
					continue
				}
				seen[key] = true
				if strings.HasPrefix(field, "?") {
					r.undecided(key, pos, "cannot tell which operand "+op+" adds to the program counter: "+field)
					continue
				}
				land, ok := ly.landing(v, i, field)
				if !ok {
					r.fail(key, pos, op+" is emitted without its jump operand "+field)
					continue
				}
				want, what := expectedLanding(v, i, op, nth)
				if want == nil {
					r.fail(key, pos, fmt.Sprintf("unexpected %s in the %s layout `%s`: %s", op, v.Label, v.shape(), what))
					continue
				}
				r.check(land.String() == want.String(), key, pos, fmt.Sprintf("lands at %s = %s", land, what),
					fmt.Sprintf("%s in the %s layout `%s` lands at %s, but must land at %s (%s): the jump distance is wrong for some segment lengths", op, v.Label, v.shape(), land, want, what))
			}
		}
	}
}

// expectedLanding is the spec table: where Go's semantics needs each jump to land.
func expectedLanding(v *layView, i int, op string, nth int) (*linForm, string) {
	startOf := func(role string) (*linForm, bool) {
		j := v.indexOfRole(role, 0)
		if j < 0 {
			return nil, false
		}
		return v.Starts[j], true
	}
	end := v.end()
	switch v.Label {
	case "if":
		switch op {
		case "JumpFalse":
			if s, ok := startOf("else"); ok {
				return s, "start of the else branch"
			}
			return end, "end of the if statement"
		case "Jump":
			return end, "end of the if statement"
		}
	case "for":
		switch op {
		case "Jump":
			if _, hasCond := startOf("cond"); hasCond && nth == 0 && i < v.indexOfRole("block", 0) {
				s, _ := startOf("cond")
				return s, "the loop condition"
			}
			if s, ok := startOf("block"); ok {
				return s, "start of the loop body"
			}
			if s, ok := startOf("post"); ok {
				return s, "start of the loop (post statement; empty body)"
			}
			return v.Starts[i], "the jump itself (empty loop)"
		case "JumpTrue":
			for _, role := range []string{"block", "post", "cond"} {
				if s, ok := startOf(role); ok {
					return s, "start of the loop body (" + role + ")"
				}
			}
		}
	case "range":
		switch op {
		case "Range":
			if s, ok := startOf("Iter"); ok {
				return s, "the ITER instruction"
			}
		case "Iter":
			if s, ok := startOf("block"); ok {
				return s, "start of the loop body"
			}
			return v.Starts[i], "the ITER instruction (empty body)"
		}
	case "&&", "||":
		if op == "And" || op == "Or" {
			return end, "after the right operand"
		}
	case "switch/iteration(out)":
		switch op {
		case "JumpFalse":
			if s, ok := startOf("out@entry"); ok {
				return s, "the next case's test (or the default body)"
			}
		case "Jump":
			if v.Tail == nil {
				return nil, "cannot determine what follows the case chunks in the final layout"
			}
			return end.add(v.Tail, 1), "end of the switch statement"
		}
	}
	return nil, "no such jump in Go's layout for this construct"
}

func ruleLayRewrite(c *Ctx, r *R) {
	jf, _, err := c.jumpFields()
	if err != nil {
		r.undecided("exec", "-", err.Error())
		return
	}
	ly, err := c.buildLayouts(controlConstructs)
	if err != nil {
		r.undecided("compile", "-", err.Error())
		return
	}
	cs, _ := c.compileSwitch()
	// which placeholders each body role must / must not rewrite, and where to
	type want struct{ brk, cont string }
	spec := map[string]map[string]want{
		"for":                   {"block": {"end", "after-body"}},
		"range":                 {"block": {"end", "Iter"}},
		"switch":                {"default": {"end", "none"}},
		"switch/iteration(out)": {"caseBody": {"end+tail", "none"}},
	}
	for _, k := range controlConstructs {
		pos := "-"
		if sc := cs.ByLabel[k]; sc != nil {
			pos = c.Pos(sc.Clause)
		}
		seen := map[string]bool{}
		for _, v := range ly.Views[k] {
			lsx := ly.m.ls(v.Path.St)
			for i, a := range v.Atoms {
				if a.A.Seg == nil {
					continue
				}
				rules := lsx.rew[a.A.Seg.ID]
				w, isBody := spec[v.Label][a.Role]
				for _, ph := range []string{"codeBreak", "codeContinue"} {
					key := fmt.Sprintf("%s %s %s", v.Label, a.Role, strings.TrimPrefix(ph, "code"))
					sk := key + "|" + v.shape()
					if seen[sk] {
						continue
					}
					seen[sk] = true
					rule := rules[ph]
					target := "none"
					if isBody {
						if ph == "codeBreak" {
							target = w.brk
						} else {
							target = w.cont
						}
					}
					if target == "none" {
						if a.A.Seg.Kind == "loop-entry" || a.A.Seg.Kind == "loop-result" {
							continue
						}
						r.check(rule == nil, key, pos, "left for the enclosing construct",
							fmt.Sprintf("the %s compile-case rewrites %s placeholders in its %s segment, but %s is not a %s target there: the statement would not reach the enclosing loop", v.Label, strings.TrimPrefix(ph, "code"), a.Role, v.Label, strings.ToLower(strings.TrimPrefix(ph, "code"))))
						continue
					}
					if rule == nil {
						r.fail(key, pos, fmt.Sprintf("the %s compile-case appends its %s segment without rewriting %s placeholders: a `%s` inside it is caught by the enclosing loop instead (or reaches the VM as an unknown opcode)", v.Label, a.Role, strings.TrimPrefix(ph, "code"), strings.ToLower(strings.TrimPrefix(ph, "code"))))
						continue
					}
					field, isJump := jf[strings.TrimPrefix(rule.To, "code")]
					if !isJump || field != "A" {
						r.fail(key, pos, fmt.Sprintf("placeholder is rewritten to %s, which does not jump by operand A", rule.To))
						continue
					}
					var wantPos *linForm
					what := ""
					switch target {
					case "end":
						wantPos, what = v.end(), "end of the construct"
					case "end+tail":
						if v.Tail == nil {
							r.undecided(key, pos, "cannot determine what follows the case chunks")
							continue
						}
						wantPos, what = v.end().add(v.Tail, 1), "end of the switch statement"
					case "after-body":
						wantPos, what = v.Starts[i+1], "the post statement (right after the body)"
					case "Iter":
						j := v.indexOfRole("Iter", 0)
						if j < 0 {
							r.fail(key, pos, "no ITER in the range layout")
							continue
						}
						wantPos, what = v.Starts[j], "the ITER instruction"
					}
					n := newLin()
					n.Coef["n"] = 1
					n.Atom["n"] = tVar(nil, "n")
					one := newLin()
					one.K = 1
					land := v.Starts[i].add(n, 1).add(one, 1).add(ly.m.applyZero(v.Path.St, linOf(rule.A)), 1)
					r.check(land.String() == wantPos.String(), key, c.Pos(rule.Node), fmt.Sprintf("lands at %s = %s for every n", land, what),
						fmt.Sprintf("a %s at index n of the %s segment of %s is rewritten to a jump landing at %s, but must land at %s (%s)", strings.ToLower(strings.TrimPrefix(ph, "code")), a.Role, v.Label, land, wantPos, what))
				}
			}
		}
	}
}

// LAY-ONCE: an operand is evaluated once.  In the code a compile-case emits, on every
// path, no child of the node is compiled into the output twice (two segments with the same
// source, or the same segment appended twice): Go evaluates each operand expression of a
// statement exactly once, so a call or other side effect inside it must not be repeated.
func ruleLayOnce(c *Ctx, r *R) {
	cs, err := c.compileSwitch()
	if err != nil {
		r.undecided("compile", "-", err.Error())
		return
	}
	nCases := 0
	for _, sc := range cs.Cases {
		if len(sc.Labels) == 0 {
			continue
		}
		label := sc.Labels[0]
		m := newLayMachine(c)
		cl, err := m.runCase(cs, label)
		if err != nil || cl == nil {
			continue // constructs the layout machine cannot run are judged by the LAY-* rules
		}
		nCases++
		var paths []*layoutPath
		paths = append(paths, cl.Paths...)
		for _, it := range cl.Iters {
			paths = append(paths, it.Exits...)
		}
		reported := map[string]bool{}
		for _, p := range paths {
			seenSrc := map[string]*atom{}
			seenID := map[int]bool{}
			for _, a := range m.live(p) {
				if a.Seg == nil || a.Seg.Kind != "call" || a.Seg.Src == nil {
					continue
				}
				src := a.Seg.Src
				for src.Op == "call" && src.Name == "compiler.optimize" && len(src.Args) == 1 {
					src = src.Args[0]
				}
				if src.Op != "call" || (src.Name != "compiler.compile" && src.Name != "compiler.compileAll") {
					continue
				}
				child := src.Args[len(src.Args)-1].String()
				key := "once " + label + " " + child
				dup := seenID[a.Seg.ID]
				if _, ok := seenSrc[child]; ok {
					dup = true
				}
				seenID[a.Seg.ID] = true
				seenSrc[child] = a
				if dup && !reported[key] {
					reported[key] = true
					r.fail(key, c.Pos(a.Node), "compile(\""+label+"\") emits the code of "+child+" twice on one path: the operand is evaluated twice, so a call or other side effect inside it happens twice (Go evaluates the operands of a statement once) — e.g. `xs[next()] += 1` calls next() twice")
				}
			}
		}
		if len(reported) == 0 {
			r.ok("once "+label, "no child compiled twice")
		}
		// ... and at least once: a child that one path of the case compiles is an operand; a path
		// that emits code without compiling it must have looked at that child (it is absent, or
		// of a kind that needs no code) — otherwise an operand with side effects is silently
		// dropped (`make(map[int]int, size())` never called size)
		if why, skip := everyExempt[label]; skip {
			r.note("every %s: not judged (%s)", label, why)
			continue
		}
		compiled := map[string]bool{}
		perPath := make([]map[string]bool, len(paths))
		for i, p := range paths {
			perPath[i] = map[string]bool{}
			for _, a := range m.live(p) {
				if a.Seg == nil || a.Seg.Kind != "call" || a.Seg.Src == nil {
					continue
				}
				src := a.Seg.Src
				for src.Op == "call" && src.Name == "compiler.optimize" && len(src.Args) == 1 {
					src = src.Args[0]
				}
				if src.Op != "call" || (src.Name != "compiler.compile" && src.Name != "compiler.compileAll") {
					continue
				}
				child := src.Args[len(src.Args)-1].String()
				if strings.HasPrefix(child, "tok.Tokens[") && !strings.Contains(child, "<") {
					compiled[child] = true
					perPath[i][child] = true
				}
			}
		}
		var kids []string
		for k := range compiled {
			kids = append(kids, k)
		}
		sort.Strings(kids)
		for _, child := range kids {
			bad := ""
			for i, p := range paths {
				if perPath[i][child] || len(m.live(p)) == 0 {
					continue
				}
				conds := condStrings(p.St)
				// the path knows something about the child itself, or about how many children there are
				if strings.Contains(conds, child) || strings.Contains(conds, "len(tok.Tokens)") || strings.Contains(conds, "|tok.Tokens|") {
					continue
				}
				bad = conds
				break
			}
			key := "every " + label + " " + child
			if bad != "" {
				r.fail(key, c.Pos(sc.Clause), "compile(\""+label+"\") compiles the operand "+child+" on some paths but emits code without it on a path that never looked at it ("+bad+"): the operand is not evaluated there, so a call inside it never happens (Go evaluates every operand, e.g. the size of make(map[K]V, size()))")
			} else {
				r.ok(key, "compiled on every path that does not establish its absence")
			}
		}
	}
	if nCases < 30 {
		r.undecided("once", "-", fmt.Sprintf("only %d compile-cases could be laid out", nCases))
	}
}

// everyExempt: compile-cases whose paths legitimately differ in the children they compile
// for a reason the path conditions do not spell out in terms of the child.
var everyExempt = map[string]string{
	"|=":     "the imported-global path takes tok.Tokens[0] as pkg.Name: its children are a package and a name, not operands",
	".":      "the imported-global path takes the selector as pkg.Name: its left side is a package name, not an operand",
	"const":  "a single value is compiled as tok.Tokens[1], several as its children",
	"switch": "the tag and the clauses are compiled into variables whose emptiness the paths test",
	"for":    "an absent condition compiles to no code, which the paths test",
}

// PAR-FORCLAUSE: in `for init; cond; post {` each clause may be left out. forNud therefore
// looks at the token where a clause would start (`;` or `{`) before it parses an expression
// there: a clause parsed unconditionally turns `for ; i < 3; i++ {` into a nil-pointer parse
// error and `for i := 0; i < 5; {` into a body read as a composite literal.
func ruleParForClause(c *Ctx, r *R) {
	fd := c.Func("forNud")
	if fd == nil {
		r.undecided("forNud", "-", "not found")
		return
	}
	n, bare := 0, 0
	for _, hfd := range c.withHelpers(fd) {
		hfd := hfd
		ast.Inspect(hfd.Body, func(m ast.Node) bool {
			call, ok := m.(*ast.CallExpr)
			if !ok || c.CalleeName(call) != "parser.Expression" {
				return true
			}
			guarded, rangeOperand := false, false
			// a preceding terminating `if p.Token.Symbol == end { return ~ }` guards what follows it
			if blk, ok := c.Parent(c.Parent(call)).(*ast.BlockStmt); ok {
				for _, st := range blk.List {
					if st.Pos() >= call.Pos() {
						break
					}
					if ifs, ok := st.(*ast.IfStmt); ok && terminating(ifs.Body) && strings.Contains(nosp(c.Src(ifs.Cond)), "p.Token.Symbol") {
						guarded = true
					}
				}
			}
			for p := c.Parent(call); p != nil && p != ast.Node(hfd.Body); p = c.Parent(p) {
				if ifs, ok := p.(*ast.IfStmt); ok {
					if strings.Contains(nosp(c.Src(ifs.Cond)), "p.Token.Symbol") {
						guarded = true
					}
					if strings.Contains(c.Src(ifs.Cond), `"range"`) {
						rangeOperand = true // the operand of range is not optional
					}
				}
			}
			if rangeOperand {
				return true
			}
			n++
			if !guarded {
				bare++
				r.fail(fmt.Sprintf("clause #%d", n), c.Pos(call), "forNud parses a for clause without first looking whether it is there: `for ; i < 3; i++ {`, `for i := 0; i < 5; {` or `for ; ; {` (valid Go) fail with a nil-pointer parse error or read the body as a composite literal")
			} else {
				r.ok(fmt.Sprintf("clause #%d", n), "parsed only when the next token does not end the clause")
			}
			return true
		})
	}
	if n == 0 {
		r.undecided("forNud", c.Pos(fd), "no clause expression found")
	}
}

// HND-RANGEINT: `for i := range n` over an integer counts 0..n-1 (Go 1.22). The RANGE
// handler tells its operands apart by kind; a number has no object (value == nil) and must
// not be mistaken for a nil container, whose loop body never runs. Decided: the handler
// builds an iterator from the operand itself on a path other than operand.Range() — the
// counting iterator — besides the nil-container iterator.
func ruleHndRangeInt(c *Ctx, r *R) {
	sw, err := c.execSwitch()
	if err != nil {
		r.undecided("exec", "-", err.Error())
		return
	}
	sc := sw.ByLabel["codeRange"]
	if sc == nil {
		r.undecided("codeRange", "-", "no handler")
		return
	}
	nIter, counting := 0, false
	var countingCall *ast.CallExpr
	isIter := func(t types.Type) bool {
		sig, ok := t.Underlying().(*types.Signature)
		return ok && sig.Params().Len() == 0 && sig.Results().Len() == 3
	}
	ast.Inspect(sc.Clause, func(n ast.Node) bool {
		call, ok := n.(*ast.CallExpr)
		if !ok {
			return true
		}
		t := c.TypeOf(call)
		if t == nil || !isIter(t) {
			return true
		}
		nIter++
		// a plain function (not the operand's Range method) that receives the operand
		if sel, ok := unparen(call.Fun).(*ast.SelectorExpr); ok && c.Info.Selections[sel] != nil {
			return true
		}
		for _, a := range call.Args {
			if isNamed(c.TypeOf(a), "Value") {
				counting = true
				countingCall = call
			}
		}
		return true
	})
	if nIter == 0 {
		r.undecided("codeRange", c.Pos(sc.Clause), "no iterator construction found")
		return
	}
	r.check(counting, "range over an integer", c.Pos(sc.Clause), "an integer operand gets a counting iterator",
		"the RANGE handler treats every operand without an object as a nil container: `for i := range 3 { .. }` (and `for range n`) loads, runs and silently executes the body zero times")
	// ... for every integer tag, the untyped constant's included (for i := range 6), and not for floats
	if countingCall != nil {
		var conds []ast.Expr
		var child ast.Node = countingCall
		for p := c.Parent(countingCall); p != nil && p != ast.Node(sc.Clause); child, p = p, c.Parent(p) {
			switch x := p.(type) {
			case *ast.IfStmt:
				if x.Body == child {
					conds = append(conds, x.Cond)
				}
			case *ast.CaseClause:
				if len(x.List) == 1 {
					if sw, ok := c.Parent(c.Parent(x)).(*ast.SwitchStmt); ok && sw.Tag == nil {
						conds = append(conds, x.List[0])
					}
				}
			}
		}
		tags := c.typeTags()
		ut, okUT := c.constByName("untypedInt")
		if okUT {
			tags["untypedInt"] = ut
		}
		old := evalEnv
		defer func() { evalEnv = old }()
		for _, tag := range []string{"untypedInt", "TypeUint8", "TypeInt8", "TypeUint32", "TypeInt32", "TypeFloat64"} {
			tv, has := tags[tag]
			if !has {
				continue
			}
			evalEnv = map[types.Object]constant.Value{tagOfOperand: constant.MakeInt64(tv)}
			taken, decided := true, false
			for _, cd := range conds {
				for _, cj := range conjuncts(cd) {
					if !strings.Contains(nosp(c.Src(cj)), ".t") {
						continue
					}
					v, ok := c.evalWith(cj, nil, nil)
					if !ok || v.Kind() != constant.Bool {
						continue
					}
					decided = true
					if !constant.BoolVal(v) {
						taken = false
					}
				}
			}
			if !decided {
				continue
			}
			want := tag != "TypeFloat64"
			r.check(taken == want, "range over an integer "+tag, c.Pos(countingCall), "the counting iterator is chosen exactly for the integer tags",
				fmt.Sprintf("the RANGE handler's test for an integer operand is %v for the tag %s: `for i := range 6` (an untyped constant) or a typed integer gets the nil iterator and the body never runs, or a float is counted", taken, tag))
		}
	}
}

// PAR-RETURNLINE: there is no semicolon insertion in this parser, but a `return` followed
// by a line break is a bare return in Go (that is where Go inserts the semicolon). returnNud
// therefore takes operands only when the next token is on the keyword's line; otherwise the
// statement after a bare return is parsed as its operand and executed before returning.
func ruleParReturnLine(c *Ctx, r *R) {
	fd := c.Func("returnNud")
	if fd == nil {
		r.undecided("returnNud", "-", "not found")
		return
	}
	firstParse := token.NoPos
	for _, pc := range c.callsTo(fd.Body, "parser.doExpression", "parser.Expression") {
		if !firstParse.IsValid() || pc.Pos() < firstParse {
			firstParse = pc.Pos()
		}
	}
	if !firstParse.IsValid() {
		r.undecided("returnNud", c.Pos(fd), "no operand parse found")
		return
	}
	ok := false
	for _, st := range fd.Body.List {
		ifs, isIf := st.(*ast.IfStmt)
		if !isIf || ifs.Pos() > firstParse || !terminating(ifs.Body) {
			continue
		}
		be, isBin := unparen(ifs.Cond).(*ast.BinaryExpr)
		if !isBin || (be.Op != token.NEQ && be.Op != token.GTR && be.Op != token.LSS) {
			continue
		}
		l, rr := nosp(c.Src(be.X)), nosp(c.Src(be.Y))
		if strings.HasSuffix(l, ".Pos.Line") && strings.HasSuffix(rr, ".Pos.Line") && l != rr &&
			(strings.Contains(l, "p.Token") || strings.Contains(rr, "p.Token")) {
			ok = true
		}
	}
	r.check(ok, "bare return ends at the line break", c.Pos(fd), "operands are taken only from the keyword's line",
		"returnNud reads operands across a line break: `return⏎ note(\"x\")` in a function without results parses the next statement as the operand — the statement Go never reaches runs before the function returns (and RETURN 1 is emitted in a function with no results)")
}

// PAR-IFCHAIN: an `else if` is the else-branch of the if it follows: ifNud appends the nested
// `if` node to the node it is currently filling and then moves on to fill that nested node.
// The node an else-if is appended to must be the same variable that is then re-pointed to it
// (`t.Append(x); t = x`): appended anywhere else (the first if of the chain), the third and
// later conditions of a chain, their bodies and the final else are never compiled.
func ruleParIfChain(c *Ctx, r *R) {
	fd := c.Func("ifNud")
	if fd == nil {
		r.undecided("ifNud", "-", "not found")
		return
	}
	n := 0
	ast.Inspect(fd.Body, func(m ast.Node) bool {
		blk, ok := m.(*ast.BlockStmt)
		if !ok {
			return true
		}
		for i := 0; i+1 < len(blk.List); i++ {
			es, ok := blk.List[i].(*ast.ExprStmt)
			if !ok {
				continue
			}
			call, ok := unparen(es.X).(*ast.CallExpr)
			if !ok || c.CalleeName(call) != "token.Append" || len(call.Args) != 1 {
				continue
			}
			as, ok := blk.List[i+1].(*ast.AssignStmt)
			if !ok || len(as.Lhs) != 1 || len(as.Rhs) != 1 || as.Tok != token.ASSIGN {
				continue
			}
			if nosp(c.Src(as.Rhs[0])) != nosp(c.Src(call.Args[0])) {
				continue
			}
			// x.Append(y); z = y  — the chain step
			sel, ok := unparen(call.Fun).(*ast.SelectorExpr)
			if !ok {
				continue
			}
			n++
			r.check(nosp(c.Src(sel.X)) == nosp(c.Src(as.Lhs[0])), fmt.Sprintf("else-if step #%d", n), c.Pos(es), "the nested if is appended to the node being filled, which then becomes the nested if",
				"ifNud appends the `if` of an else-if to "+c.Src(sel.X)+" but goes on filling "+c.Src(as.Lhs[0])+": from the third condition of an if / else if / else if chain on, the conditions, their bodies and the final else hang off the wrong node and are never compiled (grade chains fall through to nothing; a `break` in a later branch is lost)")
		}
		return true
	})
	if n == 0 {
		r.undecided("ifNud", c.Pos(fd), "no else-if chain step (x.Append(y); x = y) found")
	}
}

// PAR-LINEBREAK: a statement ends at a line break the way Go's semicolon rule says: when the
// last token of a line can end a statement (identifier, literal, break/continue/return, ++, --,
// ), ] or }), the next line's first token is not an operator, call or index applied to it.
// The precedence-climbing loop of doExpression therefore has a conjunct that stops it at such
// a line break.  Decided on the helper the loop condition calls: every path on which it
// answers "stop" compares the line of the current token with the previous token's, and the
// previous-token symbols it stops after include every operand-final symbol.
var strLitRe = regexp.MustCompile(`"((?:[^"\\]|\\.)*)"`)

var stmtFinalSymbols = []string{"(name)", "(int)", "(float)", "(char)", "(string)", ")", "]", "}", "++", "--", "break", "continue", "return", "true", "false", "nil"}

func ruleParLineBreak(c *Ctx, r *R) {
	fd := c.Func("parser.doExpression")
	if fd == nil {
		r.undecided("loop", "-", "parser.doExpression not found")
		return
	}
	var loop *ast.ForStmt
	ast.Inspect(fd.Body, func(n ast.Node) bool {
		f, ok := n.(*ast.ForStmt)
		if !ok || f.Cond == nil || loop != nil {
			return true
		}
		if strings.Contains(c.Src(f.Cond), ".Lbp") {
			loop = f
		}
		return true
	})
	if loop == nil {
		r.undecided("loop", c.Pos(fd), "no precedence-climbing loop found in doExpression")
		return
	}
	var best *ast.FuncDecl
	var bestMissing []string
	bestBad := ""
	for _, call := range lineBreakGuards(loop) {
		h := c.DeclOf(c.Callee(call))
		if h == nil || h.Body == nil {
			continue
		}
		in := newInterp(c)
		in.Inline = func(o types.Object) bool { return c.isNewHelper(o) }
		states := in.ExecFunc(h, nil)
		if in.Overflow {
			continue
		}
		seen := map[string]bool{}
		bad := ""
		stops := 0
		for _, st := range states {
			if st.Done == "panic" || len(st.Ret) != 1 {
				continue
			}
			if st.Ret[0].Op == "const" && st.Ret[0].Name == "false" {
				continue
			}
			stops++
			// the answer may be a lookup of the previous token's symbol in a package-level set
			// (map[string]bool literal that is never written): its true keys are the symbols
			if rt := st.Ret[0]; rt.Op == "index" && len(rt.Args) == 2 && rt.Args[0].Op == "var" && strings.HasSuffix(rt.Args[1].String(), ".Symbol") {
				if v, ok := rt.Args[0].Obj.(*types.Var); ok && v.Parent() == c.Types.Scope() && !c.mapMutated(v) {
					if cl := c.mapLit(v.Name()); cl != nil {
						vals, _ := c.stringKeyed(cl)
						for k, ve := range vals {
							if id, ok := unparen(ve).(*ast.Ident); ok && id.Name == "true" {
								seen[k] = true
							}
						}
					}
				}
			}
			lineCmp := false
			for _, cd := range st.Conds {
				s := cd.String()
				if strings.Count(s, "Pos.Line") >= 2 && strings.Contains(s, "Token.Pos.Line") {
					lineCmp = true
				}
				if strings.Contains(s, "Symbol") && !strings.HasPrefix(s, "!") && !strings.HasPrefix(s, "not") {
					for _, m := range strLitRe.FindAllStringSubmatch(s, -1) {
						seen[m[1]] = true
					}
				}
			}
			if !lineCmp {
				bad = "a path of " + h.Name.Name + " ends the expression without comparing the current token's line with the previous token's"
			}
		}
		if stops == 0 {
			continue
		}
		var missing []string
		for _, s := range stmtFinalSymbols {
			if !seen[s] {
				missing = append(missing, s)
			}
		}
		if best == nil || len(missing) < len(bestMissing) {
			best, bestMissing, bestBad = h, missing, bad
		}
	}
	if best == nil {
		r.fail("line break ends the expression", c.Pos(loop), "the precedence-climbing loop of doExpression has no line-break condition: a line starting with ( [ or an operator is glued to the statement before it — `x := y` then `(p).f()` parses as the call y(p).f()")
		return
	}
	r.check(bestBad == "", "line break only", c.Pos(best), best.Name.Name+" stops the loop only when the current token starts a later line", bestBad+": an expression is cut in the middle of a line")
	r.check(len(bestMissing) == 0, "statement-final tokens", c.Pos(best), best.Name.Name+" stops after every token that can end a statement",
		best.Name.Name+" does not end the expression at a line break after "+strings.Join(bestMissing, " ")+": the next line's ( [ or operator is applied to the previous statement")
}

// lineBreakGuards: the calls that can stop the climbing loop before an operator is consumed —
// a conjunct `!h(..)` of the loop condition, or a leading `if h(..) { break }` of its body
// (the two spellings of the same test).
func lineBreakGuards(loop *ast.ForStmt) []*ast.CallExpr {
	var out []*ast.CallExpr
	for _, cj := range conjuncts(loop.Cond) {
		if un, ok := unparen(cj).(*ast.UnaryExpr); ok && un.Op == token.NOT {
			if call, ok := unparen(un.X).(*ast.CallExpr); ok {
				out = append(out, call)
			}
		}
	}
	for _, st := range loop.Body.List {
		ifs, ok := st.(*ast.IfStmt)
		if !ok || ifs.Init != nil || ifs.Else != nil || len(ifs.Body.List) != 1 {
			break
		}
		br, ok := ifs.Body.List[0].(*ast.BranchStmt)
		if !ok || br.Tok != token.BREAK || br.Label != nil {
			break
		}
		call, ok := unparen(ifs.Cond).(*ast.CallExpr)
		if !ok {
			break
		}
		out = append(out, call)
	}
	return out
}

// isLineBreakGuardBreak: the break statement is the body of a leading `if h(..) { break }`.
func isLineBreakGuardBreak(loop *ast.ForStmt, br *ast.BranchStmt) bool {
	for _, st := range loop.Body.List {
		ifs, ok := st.(*ast.IfStmt)
		if !ok || ifs.Init != nil || ifs.Else != nil || len(ifs.Body.List) != 1 {
			return false
		}
		if _, ok := unparen(ifs.Cond).(*ast.CallExpr); !ok {
			return false
		}
		if ifs.Body.List[0] == ast.Stmt(br) {
			return true
		}
	}
	return false
}
