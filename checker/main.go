package main

// goatcheck: repository-specific static analyser for philhassey/goatlang.
// One invocation decides one property (C01..C20) from the source in -repo.

import (
	"flag"
	"go/ast"
	"fmt"
	"os"
	"path/filepath"
	"runtime/debug"
	"sort"
	"strconv"
	"strings"
	"time"
)

type propDef struct {
	ID          string
	Explanation string
	Assumptions []string
	Trusted     []string
	Quick       []ruleDef
	Thorough    []ruleDef // additional rules in the thorough tier
}

type ruleDef struct {
	Name  string
	Floor int
	Fn    func(*Ctx, *R)
}

var registry = map[string]*propDef{}

func register(p *propDef) { registry[p.ID] = p }

var baseTrusted = []string{
	"go/types type checker and go/constant evaluation (x/tools v0.29.0 go/packages loader)",
	"goatcheck's own term normaliser (syntactic equality of symbolic terms, linear-expression normal form)",
}

func main() {
	repo := flag.String("repo", "/repo", "repository working tree to analyse")
	verif := flag.String("verif", "/verif", "verification directory (evidence, triage, known findings)")
	prop := flag.String("prop", "", "property id, e.g. C05")
	tier := flag.String("tier", "quick", "quick|thorough")
	list := flag.Bool("list", false, "list properties and rules")
	listFuncs := flag.Bool("listfuncs", false, "print the declared functions of the package (to regenerate triage/known_functions.txt)")
	noEvidence := flag.Bool("no-evidence", false, "do not write evidence files (used by the self-test on scratch copies)")
	expect := flag.String("expect", "", "self-test: comma separated rule[:construct-substring] that must fire; exit 0 iff all fire")
	only := flag.String("only", "", "run only this rule of the property (replay)")
	goarch := flag.String("goarch", "", "load the repository for this GOARCH (thorough tier re-checks under 386)")
	dumpfn := flag.String("dumpfn", "", "debug: print the symbolic paths of a function (Recv.Name)")
	dumphnd := flag.String("dumphnd", "", "debug: print the handler summary of an opcode constant")
	dumpnets := flag.Bool("dumpnets", false, "debug: print the net stack effect of every handler")
	dumpcase := flag.String("dumpcase", "", "debug: print the layouts of a compile-case label (or 'all')")
	flag.Parse()
	if *listFuncs {
		ctx, err := loadRepo(*repo, nil)
		if err != nil {
			fmt.Println(err)
			os.Exit(2)
		}
		for _, n := range ctx.FuncNames() {
			fmt.Println(n)
		}
		return
	}
	triageDir = filepath.Join(*verif, "triage")
	if *dumpfn != "" || *dumphnd != "" || *dumpcase != "" || *dumpnets {
		ctx, err := loadRepo(*repo, nil)
		if err != nil {
			fmt.Println(err)
			os.Exit(2)
		}
		if *dumpnets {
			debugNets(ctx)
			return
		}
		if *dumpcase != "" {
			cs, err := ctx.compileSwitch()
			if err != nil {
				fmt.Println(err)
				os.Exit(2)
			}
			for _, sc := range cs.Cases {
				if len(sc.Labels) == 0 || (*dumpcase != "all" && sc.Labels[0] != *dumpcase) {
					continue
				}
				m := newLayMachine(ctx)
				cl, err := m.runCase(cs, sc.Labels[0])
				fmt.Printf("== %q err=%v", sc.Labels[0], err)
				if cl == nil {
					fmt.Println()
					continue
				}
				fmt.Printf(" paths=%d iters=%d flags=%v\n", len(cl.Paths), len(cl.Iters), cl.Flags)
				if *dumpcase != "all" {
					for i, p := range cl.Paths {
						var as []string
						for _, a := range p.Atoms {
							as = append(as, a.String())
							if a.Seg != nil && a.Seg.Src != nil {
								as = append(as, "<"+a.Seg.Kind+":"+a.Seg.Src.String()+">")
							}
						}
						fmt.Printf("  path %d [%s]\n     %s\n", i, condStrings(p.St), strings.Join(as, " "))
					}
					for i, it := range cl.Iters {
						for j, ex := range it.Exits {
							var as []string
							for _, a := range ex.Atoms {
								as = append(as, a.String())
								if a.Seg != nil && a.Seg.Src != nil {
									as = append(as, "<"+a.Seg.Kind+":"+a.Seg.Src.String()+">")
								}
							}
							fmt.Printf("  iter %d exit %d [%s]\n     %s\n", i, j, condStrings(ex.St), strings.Join(as, " "))
						}
					}
				}
			}
			return
		}
		if *dumphnd != "" {
			m, err := newHndMachine(ctx)
			if err != nil {
				fmt.Println(err)
				os.Exit(2)
			}
			ps, err := m.single(*dumphnd)
			fmt.Println(err)
			for _, p := range ps {
				fmt.Println(" ", p.String())
			}
			return
		}
		debugDump(ctx, *dumpfn)
		return
	}

	if *list {
		var ids []string
		for id := range registry {
			ids = append(ids, id)
		}
		sort.Strings(ids)
		for _, id := range ids {
			fmt.Println(id, len(registry[id].Quick), "+", len(registry[id].Thorough), "rules")
		}
		return
	}
	pd := registry[*prop]
	if pd != nil {
		pd = withShared(pd)
	}
	if pd == nil {
		fmt.Fprintf(os.Stderr, "unknown property %q\n", *prop)
		os.Exit(2)
	}
	seed := 0
	if s := os.Getenv("VERIF_SEED"); s != "" {
		seed, _ = strconv.Atoi(s)
	}
	start := time.Now()
	triageDir = filepath.Join(*verif, "triage")

	violPath := filepath.Join(*verif, "evidence", "violations", pd.ID+".json")
	evPath := filepath.Join(*verif, "evidence", pd.ID+".json")

	var loadEnv []string
	if *goarch != "" {
		loadEnv = append(loadEnv, "GOARCH="+*goarch)
	}
	ctx, err := loadRepo(*repo, loadEnv)
	var rules []*R
	if err != nil {
		r := newR("LOAD", 0)
		r.undecided("load", *repo, "cannot load/type-check the repository: "+err.Error())
		rules = append(rules, r)
	} else {
		fns := append([]ruleDef{}, pd.Quick...)
		if *tier == "thorough" {
			fns = append(fns, pd.Thorough...)
		}
		for _, fn := range fns {
			if *only != "" && fn.Name != *only {
				continue
			}
			rules = append(rules, runRule(ctx, fn))
		}
	}

	known, _, kerr := readKnown(filepath.Join(*verif, "KNOWN_FINDINGS.txt"))
	if kerr != nil {
		fmt.Fprintln(os.Stderr, "cannot read KNOWN_FINDINGS.txt:", kerr)
	}

	obligations, discharged := 0, 0
	distinct := map[string]bool{}
	var samples []string
	var violations, knownHits []Finding
	perRule := map[string]any{}
	for _, r := range rules {
		if r.N < r.Floor {
			r.Findings = append(r.Findings, Finding{Rule: r.Rule, Construct: "floor", Pos: "-", Undecided: true,
				Msg: fmt.Sprintf("UNDECIDED: only %d instances analysed, floor is %d (anchor lost or idiom changed; the rule would pass vacuously)", r.N, r.Floor)})
		}
		obligations += r.N
		discharged += r.OK
		for k := range r.seen {
			distinct[r.Rule+":"+k] = true
		}
		for i, s := range r.Samples {
			if i < 4 {
				samples = append(samples, s)
			}
		}
		dedup := map[string]bool{}
		for _, f := range r.Findings {
			if dedup[f.Key()+f.Msg] {
				continue
			}
			dedup[f.Key()+f.Msg] = true
			isKnown := false
			for _, k := range known {
				if k.Prop == pd.ID && k.Rule == f.Rule && k.Construct == f.Construct && !f.Undecided {
					isKnown = true
				}
			}
			if isKnown {
				f.Known = true
				knownHits = append(knownHits, f)
			} else {
				violations = append(violations, f)
			}
		}
		perRule[r.Rule] = map[string]any{"instances": r.N, "discharged": r.OK, "floor": r.Floor, "findings": len(r.Findings), "notes": r.Notes}
	}

	// self-test mode: succeed iff every expected rule fires
	if *expect != "" {
		okAll := true
		for _, want := range strings.Split(*expect, ";;") {
			rule, sub, _ := strings.Cut(want, ":")
			hit := false
			for _, f := range append(violations, knownHits...) {
				if f.Rule == rule && strings.Contains(f.Construct, sub) {
					hit = true
				}
			}
			if !hit {
				okAll = false
				fmt.Printf("SELFTEST-MISS expected %s did not fire\n", want)
			}
		}
		for _, f := range violations {
			fmt.Printf("  fired: %s [%s] %s: %s\n", f.Rule, f.Construct, f.Pos, f.Msg)
		}
		if okAll {
			os.Exit(0)
		}
		os.Exit(1)
	}

	for _, r := range rules {
		fmt.Printf("rule %-16s instances=%-4d discharged=%-4d floor=%d\n", r.Rule, r.N, r.OK, r.Floor)
	}
	for _, f := range knownHits {
		fmt.Printf("KNOWN-FINDING: property=%s %s [%s] %s: %s\n", pd.ID, f.Rule, f.Construct, f.Pos, f.Msg)
	}
	for _, f := range violations {
		fmt.Printf("  finding: %s [%s] %s: %s\n", f.Rule, f.Construct, f.Pos, f.Msg)
	}

	if !*noEvidence {
		if len(samples) == 0 {
			samples = []string{"(no obligation could be formed)"}
		}
		ev := evidence{
			PropertyID: pd.ID, Tier: *tier, Seed: seed, Level: "other",
			Coverage: map[string]any{
				"explanation":         pd.Explanation,
				"obligations":         obligations,
				"discharged":          discharged,
				"evaluations":         obligations,
				"distinct_nontrivial": len(distinct),
				"rule":                "an obligation is one rule instance (table row, operator pair, handler, rewrite window, jump, call site, may-panic site, loop); distinct = distinct rule:construct keys, every one derived from the current source",
				"samples":             samples,
				"per_rule":            perRule,
				"checker_cmd":         strings.Join(os.Args, " "),
				"trusted_base":        append(append([]string{}, baseTrusted...), pd.Trusted...),
				"known_findings":      len(knownHits),
				"exhaustive":          true,
			},
			Assumptions: append([]string{"the structural clauses are necessary conditions of the property; the behavioural remainder listed in DESIGN.md is not decided"}, pd.Assumptions...),
			WallS:       time.Since(start).Seconds(),
			Violations:  len(violations),
		}
		if err := writeJSON(evPath, ev); err != nil {
			fmt.Fprintln(os.Stderr, "cannot write evidence:", err)
			os.Exit(2)
		}
		if len(violations) > 0 {
			_ = writeJSON(violPath, map[string]any{"property_id": pd.ID, "tier": *tier, "repo": *repo, "findings": violations})
		} else {
			_ = os.Remove(violPath)
		}
	}
	if len(violations) > 0 {
		fmt.Printf("VIOLATION property=%s replay=%s\n", pd.ID, violPath)
		os.Exit(1)
	}
	fmt.Printf("OK property=%s tier=%s obligations=%d discharged=%d known=%d wall=%.1fs\n", pd.ID, *tier, obligations, discharged, len(knownHits), time.Since(start).Seconds())
}

func runRule(ctx *Ctx, fn ruleDef) (r *R) {
	r = newR(fn.Name, fn.Floor)
	defer func() {
		if p := recover(); p != nil {
			st := string(debug.Stack())
			if len(st) > 1500 {
				st = st[:1500]
			}
			r.undecided("checker-panic", "-", fmt.Sprintf("the rule's analysis panicked: %v\n%s", p, st))
		}
	}()
	fn.Fn(ctx, r)
	return r
}

var triageDir string

func debugDump(c *Ctx, name string) {
	fd := c.Func(name)
	if fd == nil {
		fmt.Println("no such function")
		return
	}
	in := newInterp(c)
	in.NoLin = false
	dumpPaths(c, in, in.ExecFunc(fd, nil), 0)
}

func dumpPaths(c *Ctx, in *Interp, paths []*State, depth int) {
	ind := strings.Repeat("  ", depth)
	for i, p := range paths {
		fmt.Printf("%spath %d [%s] done=%s\n", ind, i, condStrings(p), p.Done)
		for _, e := range p.Eff {
			fmt.Printf("%s   eff %s\n", ind, e.String())
		}
		for _, r := range p.Ret {
			fmt.Printf("%s   ret %s\n", ind, r.String())
			if r.Op == "func" && depth < 2 {
				fl := r.Aux.(*ast.FuncLit)
				st := p.Clone()
				st.Done, st.Ret, st.Eff = "", nil, nil
				dumpPaths(c, in, in.ExecLit(fl, st, nil), depth+1)
			}
		}
	}
}

// sharedRules: rules registered under another property that are also necessary
// conditions of this one ("P/*" = all quick rules of P, "P/RULE" = one rule).
var sharedRules = map[string][]string{
	// subset programs behave as under the Go toolchain only if every semantic clause below holds
	"C01": {"C04/*", "C05/*", "C06/*", "C07/PAR-ROLE", "C07/PAR-RESIZE", "C07/PAR-GLOBALIDX", "C07/LAY-DEPTH", "C08/*", "C09/*", "C10/*", "C11/*", "C12/*", "C13/*", "C14/*", "C16/*", "C02/HND-AGREE", "C02/PEEP-DEPTH", "C02/PEEP-MEASURED", "C02/PEEP-GLUE", "C02/PEEP-SPLIT", "C02/PEEP-BOUND", "C07/INS-PATCH", "C07/FRM-PAIR", "C13/GLOBAL-STATE"},
	"C02": {"C04/OPS-IMM", "C20/POS-FUSED", "C09/LAY-EVALORDER", "C04/OPS-ARITH", "C20/POS-LAYOUT"},
	"C03": {"C14/REP-PRINT"},
	"C04": {"C02/HND-AGREE", "C11/REP-RAWSLICE", "C11/REP-SLICE", "C12/REP-DEFTYPE", "C12/REP-DEFCONV", "C07/FRM-PAIR", "C16/TAB-PRIORITY", "C16/LOAD-TYPEDEPS", "C17/RELOAD-INPLACE", "C05/TAB-UNARY"},
	"C05": {"C02/HND-AGREE", "C06/LAY-SHAPE", "C06/LAY-TARGET", "C07/INS-PATCH", "C06/PAR-LINEBREAK"},
	"C06": {"C07/PAR-ROLE", "C08/SCO-BLOCK", "C08/SCO-PAIR", "C07/PAR-RESIZE", "C02/PEEP-DEPTH", "C02/PEEP-SPLIT", "C02/PEEP-GLUE", "C02/PEEP-MEASURED", "C02/PEEP-BOUND", "C02/HND-AGREE"},
	"C07": {"C06/LAY-SHAPE", "C06/LAY-TARGET", "C06/LAY-REWRITE", "C02/PEEP-MEASURED", "C02/PEEP-DEPTH", "C09/FRM-CHECKS", "C09/FRM-VARIADIC", "C09/LAY-FUNC", "C09/FRM-INVOKE", "C09/FRM-PARAMSLOT", "C09/FRM-METHOD", "C15/LOAD-SLOTS", "C06/PAR-LINEBREAK", "C13/GLOBAL-STATE"},
	"C09": {"C02/HND-AGREE", "C07/PAR-RESIZE", "C07/FRM-PAIR", "C07/INS-PATCH", "C07/PAR-GLOBALIDX", "C07/LAY-DEPTH", "C07/PAR-ROLE", "C08/SCO-DECL"},
	// comma-ok lookups and `range m` are compiled by the shared declaration / range cases
	"C10": {"C02/HND-AGREE", "C16/LOAD-TYPEDEPS", "C07/PAR-RESIZE", "C08/SCO-RHSFIRST", "C06/LAY-REWRITE", "C13/GLOBAL-STATE"},
	"C11": {"C04/REP-TYPEDSTORE", "C02/HND-AGREE", "C07/LAY-DEPTH", "C08/SCO-RHSFIRST", "C04/TAB-CAST", "C13/GLOBAL-STATE"},
	// the slicing wrapper and the operand checks are shared between slices and strings
	"C13": {"C11/REP-SLICE"},
	// what is printed is the value the arithmetic produced (negative zero, untyped results)
	"C14": {"C04/OPS-UNARY", "C04/OPS-ARITH", "C04/OPS-IMM", "C13/GLOBAL-STATE"},
	// field keys are global name indices handed out in declaration order: the field table's correctness
	// under index collisions is part of what makes layout unobservable
	"C16": {"C15/LOAD-SORT", "C08/SCO-ORDER", "C12/REP-INTMAP", "C08/SCO-KEYS"},
	// natives are reached through the same call sequence as script functions: operand order and the hidden callee slot
	"C19": {"C12/REP-STRUCT", "C11/REP-STACKESCAPE", "C03/PAN-CONVERT", "C20/BT-ORDER", "C09/LAY-EVALORDER", "C08/SCO-DECL", "C02/HND-AGREE", "C09/FRM-PARAMSLOT", "C12/REP-INTMAP", "C07/PAR-RESIZE", "C13/GLOBAL-STATE", "C03/PAN-PREFIX", "C07/PAR-ROLE"},
	"C20": {"C08/SCO-SWAP", "C19/FUNC-ISOLATED"},
	"C15": {"C16/ALIAS-EXPAND"},
	// what a declaration in a loop body re-executes must survive the optimiser
	"C08": {"C09/FRM-PARAMSLOT", "C02/HND-AGREE"},
	"C17": {"C08/SCO-ORDER", "C09/FRM-METHOD", "C12/REP-STRUCT", "C02/HND-AGREE", "C19/API-ACCESSOR"},
	"C12": {"C04/REP-TYPEDSTORE", "C02/HND-AGREE", "C08/SCO-ORDER", "C16/LOAD-TYPEDEPS", "C16/TAB-PRIORITY", "C08/SCO-KEYS", "C13/GLOBAL-STATE"},
}

func withShared(pd *propDef) *propDef {
	refs := sharedRules[pd.ID]
	if len(refs) == 0 {
		return pd
	}
	n := *pd
	n.Quick = append([]ruleDef{}, pd.Quick...)
	have := map[string]bool{}
	for _, r := range n.Quick {
		have[r.Name] = true
	}
	var from []string
	for _, ref := range refs {
		p, name, _ := strings.Cut(ref, "/")
		src := registry[p]
		if src == nil {
			continue
		}
		for _, r := range src.Quick {
			if (name == "*" || r.Name == name) && !have[r.Name] {
				have[r.Name] = true
				n.Quick = append(n.Quick, r)
			}
		}
		from = append(from, ref)
	}
	n.Explanation += " Shared necessary conditions also run for this property: " + strings.Join(from, ", ") + " (see those properties' explanations)."
	return &n
}
