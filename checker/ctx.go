package main

// Loading of /repo and the shared views (typed AST, SSA, call graph) that the
// rules work on.  Everything is re-loaded from the working tree on every run.

import (
	"bytes"
	"fmt"
	"go/ast"
	"go/constant"
	"go/printer"
	"go/token"
	"go/types"
	"os"
	"path/filepath"
	"sort"
	"strings"

	"golang.org/x/tools/go/callgraph"
	"golang.org/x/tools/go/callgraph/cha"
	"golang.org/x/tools/go/callgraph/vta"
	"golang.org/x/tools/go/packages"
	"golang.org/x/tools/go/ssa"
	"golang.org/x/tools/go/ssa/ssautil"
)

const modPath = "github.com/philhassey/goatlang"

type Ctx struct {
	Repo  string
	Fset  *token.FileSet
	All   []*packages.Package
	Pkg   *packages.Package // the goatlang package itself
	Info  *types.Info
	Types *types.Package

	funcs   map[string]*ast.FuncDecl // "Name" or "Recv.Name"
	declOf  map[types.Object]*ast.FuncDecl
	parents map[ast.Node]ast.Node

	// lazily built
	prog   *ssa.Program
	ssaPkg *ssa.Package
	cg     *callgraph.Graph
}

func loadRepo(repo string, env []string) (*Ctx, error) {
	cfg := &packages.Config{
		Mode: packages.NeedName | packages.NeedFiles | packages.NeedCompiledGoFiles | packages.NeedImports |
			packages.NeedDeps | packages.NeedTypes | packages.NeedSyntax | packages.NeedTypesInfo | packages.NeedTypesSizes | packages.NeedModule,
		Dir:   repo,
		Tests: false,
		Env:   append(append(os.Environ(), "GOWORK=off", "GOFLAGS=-mod=mod", "GOPROXY=off", "GOSUMDB=off", "GOTOOLCHAIN=local"), env...),
	}
	pkgs, err := packages.Load(cfg, ".", "./cli")
	if err != nil {
		return nil, fmt.Errorf("packages.Load: %w", err)
	}
	if len(pkgs) == 0 {
		return nil, fmt.Errorf("no packages loaded from %s", repo)
	}
	var errs []string
	packages.Visit(pkgs, nil, func(p *packages.Package) {
		for _, e := range p.Errors {
			errs = append(errs, e.Error())
		}
	})
	if len(errs) > 0 {
		return nil, fmt.Errorf("type/load errors (%d): %s", len(errs), strings.Join(errs[:min(len(errs), 5)], "; "))
	}
	c := &Ctx{Repo: repo, All: pkgs}
	for _, p := range pkgs {
		if p.PkgPath == modPath {
			c.Pkg = p
		}
	}
	if c.Pkg == nil {
		return nil, fmt.Errorf("package %s not found among loaded packages", modPath)
	}
	c.Fset = c.Pkg.Fset
	c.Info = c.Pkg.TypesInfo
	c.Types = c.Pkg.Types
	c.funcs = map[string]*ast.FuncDecl{}
	c.declOf = map[types.Object]*ast.FuncDecl{}
	c.parents = map[ast.Node]ast.Node{}
	for _, f := range c.Pkg.Syntax {
		for _, d := range f.Decls {
			if fd, ok := d.(*ast.FuncDecl); ok {
				name := fd.Name.Name
				if fd.Recv != nil && len(fd.Recv.List) == 1 {
					name = recvTypeName(fd.Recv.List[0].Type) + "." + name
				}
				c.funcs[name] = fd
				if o := c.Info.Defs[fd.Name]; o != nil {
					c.declOf[o] = fd
				}
			}
		}
		var stack []ast.Node
		ast.Inspect(f, func(n ast.Node) bool {
			if n == nil {
				stack = stack[:len(stack)-1]
				return true
			}
			if len(stack) > 0 {
				c.parents[n] = stack[len(stack)-1]
			}
			stack = append(stack, n)
			return true
		})
	}
	return c, nil
}

func recvTypeName(e ast.Expr) string {
	switch t := e.(type) {
	case *ast.StarExpr:
		return recvTypeName(t.X)
	case *ast.Ident:
		return t.Name
	case *ast.IndexExpr:
		return recvTypeName(t.X)
	}
	return "?"
}

// Func returns the declaration of a function ("name") or method ("Type.name").
func (c *Ctx) Func(name string) *ast.FuncDecl { return c.funcs[name] }

func (c *Ctx) FuncNames() []string {
	var out []string
	for k := range c.funcs {
		out = append(out, k)
	}
	sort.Strings(out)
	return out
}

// DeclOf maps a *types.Func (or any object) to its declaration in the package.
func (c *Ctx) DeclOf(o types.Object) *ast.FuncDecl { return c.declOf[o] }

func (c *Ctx) Parent(n ast.Node) ast.Node { return c.parents[n] }

// EnclosingFunc returns the FuncDecl containing n.
func (c *Ctx) EnclosingFunc(n ast.Node) *ast.FuncDecl {
	for n != nil {
		if fd, ok := n.(*ast.FuncDecl); ok {
			return fd
		}
		n = c.parents[n]
	}
	return nil
}

func (c *Ctx) Pos(n ast.Node) string {
	if n == nil {
		return "?"
	}
	p := c.Fset.Position(n.Pos())
	return fmt.Sprintf("%s:%d", filepath.Base(p.Filename), p.Line)
}

func (c *Ctx) PosP(p token.Pos) string {
	q := c.Fset.Position(p)
	return fmt.Sprintf("%s:%d", filepath.Base(q.Filename), q.Line)
}

// Src renders an expression compactly (types.ExprString elides literals' bodies).
func (c *Ctx) Src(e ast.Node) string {
	if e == nil {
		return "<nil>"
	}
	if x, ok := e.(ast.Expr); ok {
		return types.ExprString(x)
	}
	return fmt.Sprintf("%T@%s", e, c.Pos(e))
}

// FullSrc renders a node with go/printer: composite literal bodies are kept.
func (c *Ctx) FullSrc(n ast.Node) string {
	var b bytes.Buffer
	if err := printer.Fprint(&b, c.Pkg.Fset, n); err != nil {
		return c.Src(n)
	}
	return b.String()
}

// ConstOf evaluates a constant expression through go/types.
func (c *Ctx) ConstOf(e ast.Expr) (constant.Value, bool) {
	tv, ok := c.Info.Types[e]
	if !ok || tv.Value == nil {
		return nil, false
	}
	return tv.Value, true
}

func (c *Ctx) ConstInt(e ast.Expr) (int64, bool) {
	v, ok := c.ConstOf(e)
	if !ok {
		return 0, false
	}
	if v.Kind() != constant.Int {
		v = constant.ToInt(v)
		if v.Kind() != constant.Int {
			return 0, false
		}
	}
	i, ok := constant.Int64Val(v)
	return i, ok
}

func (c *Ctx) ConstString(e ast.Expr) (string, bool) {
	v, ok := c.ConstOf(e)
	if !ok || v.Kind() != constant.String {
		return "", false
	}
	return constant.StringVal(v), true
}

// Obj resolves an identifier or selector to its object.
func (c *Ctx) Obj(e ast.Expr) types.Object {
	switch x := e.(type) {
	case *ast.Ident:
		if o := c.Info.Uses[x]; o != nil {
			return o
		}
		return c.Info.Defs[x]
	case *ast.SelectorExpr:
		if s := c.Info.Selections[x]; s != nil {
			return s.Obj()
		}
		return c.Info.Uses[x.Sel]
	case *ast.ParenExpr:
		return c.Obj(x.X)
	}
	return nil
}

// Callee resolves the static callee of a call (function, method or builtin).
func (c *Ctx) Callee(call *ast.CallExpr) types.Object {
	fun := ast.Unparen(call.Fun)
	switch f := fun.(type) {
	case *ast.IndexExpr: // generic instantiation
		return c.Obj(f.X)
	case *ast.IndexListExpr:
		return c.Obj(f.X)
	}
	return c.Obj(fun)
}

// CalleeName gives "pkgpath.Name" for package-level functions, "Recv.Name" for
// methods of this package, "builtin.name" for builtins.
func (c *Ctx) CalleeName(call *ast.CallExpr) string {
	o := c.Callee(call)
	return objName(o)
}

func objName(o types.Object) string {
	switch f := o.(type) {
	case *types.Func:
		sig := f.Type().(*types.Signature)
		if r := sig.Recv(); r != nil {
			t := r.Type()
			if p, ok := t.(*types.Pointer); ok {
				t = p.Elem()
			}
			if n, ok := t.(*types.Named); ok {
				if n.Obj().Pkg() != nil && n.Obj().Pkg().Path() != modPath {
					return n.Obj().Pkg().Path() + "." + n.Obj().Name() + "." + f.Name()
				}
				return n.Obj().Name() + "." + f.Name()
			}
			return "?." + f.Name()
		}
		if f.Pkg() != nil && f.Pkg().Path() != modPath {
			return f.Pkg().Path() + "." + f.Name()
		}
		return f.Name()
	case *types.Builtin:
		return "builtin." + f.Name()
	case *types.Var:
		if f.IsField() {
			return "field." + f.Name()
		}
		return "var." + f.Name()
	case *types.TypeName:
		return "type." + f.Name()
	case *types.Const:
		return f.Name()
	case nil:
		return ""
	}
	return o.Name()
}

// IsConversion reports whether call is a type conversion and returns the target type.
func (c *Ctx) IsConversion(call *ast.CallExpr) (types.Type, bool) {
	tv, ok := c.Info.Types[call.Fun]
	if ok && tv.IsType() {
		return tv.Type, true
	}
	return nil, false
}

func (c *Ctx) TypeOf(e ast.Expr) types.Type { return c.Info.TypeOf(e) }

// NamedType returns the package-level named type with that name.
func (c *Ctx) NamedType(name string) *types.Named {
	o := c.Types.Scope().Lookup(name)
	if o == nil {
		return nil
	}
	n, _ := o.Type().(*types.Named)
	return n
}

// isNamed reports whether t (after pointer deref) is the package's named type name.
func isNamed(t types.Type, name string) bool {
	if t == nil {
		return false
	}
	if p, ok := t.(*types.Pointer); ok {
		t = p.Elem()
	}
	n, ok := t.(*types.Named)
	return ok && n.Obj().Name() == name && n.Obj().Pkg() != nil && n.Obj().Pkg().Path() == modPath
}

// ---- SSA / call graph (lazy) ----

func (c *Ctx) SSA() (*ssa.Program, *ssa.Package) {
	if c.prog != nil {
		return c.prog, c.ssaPkg
	}
	prog, pkgs := ssautil.AllPackages(c.All, ssa.InstantiateGenerics)
	prog.Build()
	c.prog = prog
	for i, p := range c.All {
		if p == c.Pkg {
			c.ssaPkg = pkgs[i]
		}
	}
	return c.prog, c.ssaPkg
}

func (c *Ctx) CallGraph() *callgraph.Graph {
	if c.cg != nil {
		return c.cg
	}
	prog, _ := c.SSA()
	c.cg = vta.CallGraph(ssautil.AllFunctions(prog), cha.CallGraph(prog))
	return c.cg
}

// SSAFunc finds the ssa function for a declaration name ("Recv.Name" / "Name").
func (c *Ctx) SSAFunc(name string) *ssa.Function {
	_, pkg := c.SSA()
	if i := strings.Index(name, "."); i >= 0 {
		recv, m := name[:i], name[i+1:]
		tn, _ := pkg.Pkg.Scope().Lookup(recv).(*types.TypeName)
		if tn == nil {
			return nil
		}
		for _, t := range []types.Type{tn.Type(), types.NewPointer(tn.Type())} {
			ms := c.prog.MethodSets.MethodSet(t)
			for j := 0; j < ms.Len(); j++ {
				if ms.At(j).Obj().Name() == m {
					return c.prog.MethodValue(ms.At(j))
				}
			}
		}
		return nil
	}
	return pkg.Func(name)
}

// ---- small AST helpers ----

func unparen(e ast.Expr) ast.Expr { return ast.Unparen(e) }

// walkSkipFuncLit visits nodes of n but does not descend into function literals
// unless descend is true.
func inspect(n ast.Node, descendLits bool, f func(ast.Node) bool) {
	ast.Inspect(n, func(m ast.Node) bool {
		if m == nil {
			return true
		}
		if _, ok := m.(*ast.FuncLit); ok && !descendLits && m != n {
			return false
		}
		return f(m)
	})
}

func isIdent(e ast.Expr, name string) bool {
	id, ok := unparen(e).(*ast.Ident)
	return ok && id.Name == name
}

// ---- vocabulary ----

var knownFuncsCache map[string]bool

// isNewHelper: a function declared in the package that is not part of the
// vocabulary frozen in triage/known_functions.txt (the functions of the tree the
// rules were written against).  Such helpers (typically extracted by a refactoring)
// are executed in place by the symbolic interpreter instead of being kept as opaque calls.
func (c *Ctx) isNewHelper(o types.Object) bool {
	fn, ok := o.(*types.Func)
	if !ok || fn.Pkg() == nil || fn.Pkg().Path() != modPath {
		return false
	}
	if knownFuncsCache == nil {
		knownFuncsCache = map[string]bool{}
		if b, err := os.ReadFile(filepath.Join(triageDir, "known_functions.txt")); err == nil {
			for _, l := range strings.Split(string(b), "\n") {
				if l = strings.TrimSpace(l); l != "" && !strings.HasPrefix(l, "#") {
					knownFuncsCache[l] = true
				}
			}
		}
	}
	if len(knownFuncsCache) == 0 {
		return false
	}
	return !knownFuncsCache[objName(fn)]
}

// withHelpers returns the declaration itself plus the new (non-vocabulary) helper
// functions it calls, transitively: AST-level rules look for their constructs in all of them.
func (c *Ctx) withHelpers(fd *ast.FuncDecl) []*ast.FuncDecl {
	out := []*ast.FuncDecl{fd}
	seen := map[*ast.FuncDecl]bool{fd: true}
	for i := 0; i < len(out) && i < 12; i++ {
		if out[i].Body == nil {
			continue
		}
		ast.Inspect(out[i].Body, func(n ast.Node) bool {
			if call, ok := n.(*ast.CallExpr); ok {
				o := c.Callee(call)
				if o != nil && c.isNewHelper(o) {
					if h := c.DeclOf(o); h != nil && !seen[h] {
						seen[h] = true
						out = append(out, h)
					}
				}
			}
			return true
		})
	}
	return out
}
