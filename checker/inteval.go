package main

// Constant folding of one-line integer helper functions (joinParams/splitParams)
// at chosen boundary points: an evaluator for + - * & | ^ << >> over int64.

import (
	"fmt"
	"go/ast"
	"go/token"
)

func (c *Ctx) intEvalFunc(fd *ast.FuncDecl, args []int64) ([]int64, error) {
	env := map[string]int64{}
	i := 0
	for _, f := range fd.Type.Params.List {
		for _, n := range f.Names {
			if i >= len(args) {
				return nil, fmt.Errorf("too few arguments")
			}
			env[n.Name] = args[i]
			i++
		}
	}
	if len(fd.Body.List) != 1 {
		return nil, fmt.Errorf("%s is not a single return statement", fd.Name.Name)
	}
	rs, ok := fd.Body.List[0].(*ast.ReturnStmt)
	if !ok {
		return nil, fmt.Errorf("%s is not a single return statement", fd.Name.Name)
	}
	var out []int64
	for _, e := range rs.Results {
		v, err := c.intEval(e, env)
		if err != nil {
			return nil, err
		}
		out = append(out, v)
	}
	return out, nil
}

func (c *Ctx) intEval(e ast.Expr, env map[string]int64) (int64, error) {
	switch x := unparen(e).(type) {
	case *ast.BasicLit:
		if v, ok := c.ConstInt(x); ok {
			return v, nil
		}
	case *ast.Ident:
		if v, ok := env[x.Name]; ok {
			return v, nil
		}
		if v, ok := c.ConstInt(x); ok {
			return v, nil
		}
	case *ast.UnaryExpr:
		v, err := c.intEval(x.X, env)
		if err != nil {
			return 0, err
		}
		switch x.Op {
		case token.SUB:
			return -v, nil
		case token.ADD:
			return v, nil
		case token.XOR:
			return ^v, nil
		}
	case *ast.CallExpr:
		if _, ok := c.IsConversion(x); ok && len(x.Args) == 1 {
			return c.intEval(x.Args[0], env)
		}
	case *ast.BinaryExpr:
		a, err := c.intEval(x.X, env)
		if err != nil {
			return 0, err
		}
		b, err := c.intEval(x.Y, env)
		if err != nil {
			return 0, err
		}
		switch x.Op {
		case token.ADD:
			return a + b, nil
		case token.SUB:
			return a - b, nil
		case token.MUL:
			return a * b, nil
		case token.AND:
			return a & b, nil
		case token.OR:
			return a | b, nil
		case token.XOR:
			return a ^ b, nil
		case token.SHL:
			return a << uint(b), nil
		case token.SHR:
			return a >> uint(b), nil
		case token.QUO:
			if b != 0 {
				return a / b, nil
			}
		case token.REM:
			if b != 0 {
				return a % b, nil
			}
		}
	}
	return 0, fmt.Errorf("cannot fold %s", c.Src(e))
}
