package main

// C08 — names resolve by Go's lexical block scoping.

import (
	"fmt"
	"go/ast"
	"go/token"
	"go/types"
	"regexp"
	"strings"

	"golang.org/x/tools/go/cfg"
)

func init() {
	register(&propDef{
		ID:          "C08",
		Explanation: "Shadowing is implemented by paired Begin/End calls and by Shadow at declaration sites. SCO-PAIR: a depth dataflow over go/cfg of every function that opens scopes: on every path Begin/End are balanced and properly nested (depth agrees at every merge, is never negative, and is zero at every exit, including the breaks that leave a case early). SCO-SWAP: in case func the locals table is saved, replaced by a fresh one before the body is compiled and restored afterwards on every path; c.Returns is pushed and popped; the cases that set c.FuncName restore it. SCO-DECL: a slot of c.Locals keyed by a token's text is obtained with lookup.Index only (a) inside compiler.Shadow, (b) on a path where c.Locals.Exists(key) was tested true (a use), (c) in the freshly installed table of a function (parameters), or with a hidden key built from a position; any other such call declares a script variable without shadowing. SCO-ORDER: name resolution tests function-local type, local, package global, builtin in that order, and import aliases are resolved only when no local of that name exists. Not decided: correctness of lookup.shadow/unshadow/Drop renaming for every depth and order (an algorithmic invariant); 'fresh on every iteration'. SCO-BLOCK: every body block (then/else, for/range body, case/default body) is compiled between its own Begin and End. SCO-CHAIN: order facts that make the ~-chain of lookup.shadow/unshadow/Drop a stack (recurse-then-store in shadow; store-then-recurse, no clobber of ~key after the recursion in unshadow; delete-then-unshadow in Drop).",
		Quick: []ruleDef{
			{"SCO-PAIR", 1, ruleScoPair},
			{"SCO-SWAP", 6, ruleScoSwap},
			{"SCO-DECL", 4, ruleScoDecl},
			{"SCO-ORDER", 4, ruleScoOrder},
			{"SCO-BLOCK", 6, ruleScoBlock},
			{"SCO-CHAIN", 6, ruleScoChain},
			{"SCO-IMPORTSET", 2, ruleScoImportSet},
			{"SCO-RHSFIRST", 3, ruleScoRhsFirst},
			{"SCO-SIGTYPES", 1, ruleScoSigTypes},
			{"HND-LOCALZERO", 1, ruleHndLocalZero},
			{"SCO-KEYS", 1, ruleScoKeys},
		},
	})
}

func ruleScoPair(c *Ctx, r *R) {
	n := 0
	for _, name := range c.FuncNames() {
		fd := c.funcs[name]
		if fd.Body == nil {
			continue
		}
		uses := false
		ast.Inspect(fd.Body, func(m ast.Node) bool {
			if call, ok := m.(*ast.CallExpr); ok {
				cn := c.CalleeName(call)
				if cn == "compiler.Begin" || cn == "compiler.End" {
					uses = true
				}
			}
			return true
		})
		if !uses {
			continue
		}
		n++
		noret := c.noReturnFuncs()
		g := cfg.New(fd.Body, func(call *ast.CallExpr) bool {
			o := c.Callee(call)
			if o == nil {
				return true
			}
			if objName(o) == "builtin.panic" {
				return false
			}
			return !noret[o]
		})
		delta := func(b *cfg.Block) (int, int, int) { // net, min prefix, count
			d, lo, cnt := 0, 0, 0
			for _, nd := range b.Nodes {
				ast.Inspect(nd, func(m ast.Node) bool {
					if _, ok := m.(*ast.FuncLit); ok {
						return false
					}
					if call, ok := m.(*ast.CallExpr); ok {
						switch c.CalleeName(call) {
						case "compiler.Begin":
							d++
							cnt++
						case "compiler.End":
							d--
							cnt++
							if d < lo {
								lo = d
							}
						}
					}
					return true
				})
			}
			return d, lo, cnt
		}
		depth := map[*cfg.Block]int{}
		known := map[*cfg.Block]bool{}
		if len(g.Blocks) == 0 {
			continue
		}
		known[g.Blocks[0]] = true
		work := []*cfg.Block{g.Blocks[0]}
		bad := false
		pairs := 0
		for len(work) > 0 {
			b := work[len(work)-1]
			work = work[:len(work)-1]
			d, lo, cnt := delta(b)
			pairs += cnt
			if depth[b]+lo < 0 {
				bad = true
				r.fail(name+" underflow", c.Pos(firstNode(b, fd)), name+": c.End() can run without a matching c.Begin() on some path")
			}
			out := depth[b] + d
			if len(b.Succs) == 0 && b.Live {
				// exit: normal return or panic; only normal exits must be balanced
				if !endsInPanic(c, b, noret) && out != 0 {
					bad = true
					r.fail(name+" exit", c.Pos(firstNode(b, fd)), fmt.Sprintf("%s: a path returns with %d scope(s) still open: names declared inside stay visible (or outer names stay hidden) after the block", name, out))
				}
			}
			for _, s := range b.Succs {
				if !known[s] {
					known[s] = true
					depth[s] = out
					work = append(work, s)
				} else if depth[s] != out {
					bad = true
					r.fail(name+" merge", c.Pos(firstNode(s, fd)), fmt.Sprintf("%s: two paths reach the same point with %d and %d open scopes: a Begin/End pair is unbalanced on one branch (e.g. around an early break)", name, depth[s], out))
				}
			}
		}
		if !bad {
			r.ok(name, fmt.Sprintf("%d Begin/End calls balanced over %d blocks", pairs, len(g.Blocks)))
		}
	}
	if n == 0 {
		r.undecided("scopes", "-", "no function calls compiler.Begin/End")
	}
}

func firstNode(b *cfg.Block, fd *ast.FuncDecl) ast.Node {
	if len(b.Nodes) > 0 {
		return b.Nodes[0]
	}
	if b.Stmt != nil {
		return b.Stmt
	}
	return fd
}

func endsInPanic(c *Ctx, b *cfg.Block, noret map[types.Object]bool) bool {
	if len(b.Nodes) == 0 {
		return false
	}
	var call *ast.CallExpr
	switch x := b.Nodes[len(b.Nodes)-1].(type) {
	case *ast.ExprStmt:
		call, _ = x.X.(*ast.CallExpr)
	case *ast.CallExpr:
		call = x
	}
	if call == nil {
		return false
	}
	o := c.Callee(call)
	return o != nil && (objName(o) == "builtin.panic" || noret[o])
}

func ruleScoSwap(c *Ctx, r *R) {
	cs, err := c.compileSwitch()
	if err != nil {
		r.undecided("compile", "-", err.Error())
		return
	}
	run := func(label string) ([]*State, *ast.CaseClause) {
		sc := cs.ByLabel[label]
		if sc == nil {
			return nil, nil
		}
		m := newLayMachine(c)
		cl, err := m.runCase(cs, label)
		if err != nil {
			return nil, sc.Clause
		}
		var out []*State
		for _, p := range cl.Paths {
			out = append(out, p.St)
		}
		return out, sc.Clause
	}
	// func: locals table swapped around the body
	paths, clause := run("func")
	if len(paths) == 0 {
		r.undecided("func", "-", "cannot execute the func case")
	}
	for i, p := range paths {
		key := fmt.Sprintf("func path#%d", i)
		final, has := p.Mem["c.Locals"]
		restored := has && final.String() == "c.Locals"
		// order: fresh table installed before the body is compiled
		fresh, body, rest := -1, -1, -1
		for j, e := range p.Eff {
			if e.Kind == "store" && e.Target.String() == "c.Locals" {
				if e.Value.Op == "call" && e.Value.Name == "newLookup" && fresh < 0 {
					fresh = j
				} else if e.Value.String() == "c.Locals" {
					rest = j
				}
			}
			if e.Kind == "call" && e.Value != nil && e.Value.Name == "compiler.compile" && strings.Contains(e.Value.String(), "Tokens[2]") {
				body = j
			}
		}
		begin, end := -1, -1
		for j, e := range p.Eff {
			if e.Kind == "call" && e.Value != nil {
				if e.Value.Name == "compiler.Begin" && begin < 0 && j > fresh {
					begin = j
				}
				if e.Value.Name == "compiler.End" {
					end = j
				}
			}
		}
		r.check(begin > fresh && begin < body && end > body && end < rest, key+" scope", c.Pos(clause), "the function's scope is opened after the fresh table is installed and closed before the caller's table is restored",
			"the func case opens or closes the function's scope against the wrong locals table (Begin before the fresh table is installed, or End after the caller's table is restored): End then drops the enclosing function's names, so its locals stop shadowing globals and imports")
		r.check(restored && fresh >= 0 && body > fresh && rest > body, key+" locals", c.Pos(clause), "c.Locals: saved, fresh table before the body, restored after",
			"the func case does not compile the body against a fresh locals table and restore the caller's table afterwards: the function's locals collide with the enclosing function's slots, or the enclosing function loses its names")
		// Returns pushed then popped
		ret := p.Mem["c.Returns"]
		okRet := ret != nil && ret.Op == "slice" && strings.Contains(ret.String(), "builtin.append(c.Returns,")
		r.check(okRet, key+" returns", c.Pos(clause), "c.Returns pushed and popped", "the func case does not pop the result count it pushed on c.Returns: `return f()` in the enclosing function requests the inner function's result count")
	}
	// FuncName restored / reset
	for _, lb := range []string{"lambda", "function", "method", "init"} {
		paths, clause := run(lb)
		if len(paths) == 0 {
			r.undecided(lb, "-", "cannot execute the case")
			continue
		}
		for _, p := range paths {
			final := p.Mem["c.FuncName"]
			want := `""`
			if lb == "lambda" {
				want = "c.FuncName"
			}
			r.check(final != nil && final.String() == want, lb+" FuncName", c.Pos(clause), "FuncName is "+want+" afterwards",
				fmt.Sprintf("compile(%q) leaves c.FuncName = %v afterwards: positions and function-local type names of the following code carry the wrong function", lb, final))
		}
	}
}

func ruleScoDecl(c *Ctx, r *R) {
	cs, err := c.compileSwitch()
	if err != nil {
		r.undecided("compile", "-", err.Error())
		return
	}
	// Shadow itself
	if fd := c.Func("compiler.Shadow"); fd != nil {
		uses := 0
		ast.Inspect(fd.Body, func(n ast.Node) bool {
			if call, ok := n.(*ast.CallExpr); ok {
				switch c.CalleeName(call) {
				case "lookup.Shadow", "lookup.Index":
					uses++
				}
			}
			return true
		})
		r.check(uses >= 2, "compiler.Shadow", c.Pos(fd), "renames an outer name or reuses a same-scope slot", "compiler.Shadow no longer chooses between lookup.Shadow and lookup.Index")
	} else {
		r.undecided("compiler.Shadow", "-", "not found")
	}
	seen := map[string]bool{}
	observed := map[ast.Node]bool{}
	defer func() {
		// call sites never reached by the symbolic paths (inside summarised loops)
		ast.Inspect(cs.Fn.Body, func(n ast.Node) bool {
			call, ok := n.(*ast.CallExpr)
			if !ok || c.CalleeName(call) != "lookup.Index" || observed[call] {
				return true
			}
			sel, ok := unparen(call.Fun).(*ast.SelectorExpr)
			if !ok || nosp(c.Src(sel.X)) != "c.Locals" {
				return true
			}
			k := "unvisited Index(c.Locals, " + c.Src(call.Args[0]) + ")"
			// parameters: after `c.Locals = newLookup()` in the func case
			if fsc := cs.ByLabel["func"]; fsc != nil && call.Pos() > fsc.Clause.Pos() && call.End() < fsc.Clause.End() {
				fresh := false
				ast.Inspect(fsc.Clause, func(m ast.Node) bool {
					if as, ok := m.(*ast.AssignStmt); ok && as.End() < call.Pos() && len(as.Lhs) == 1 && nosp(c.Src(as.Lhs[0])) == "c.Locals" {
						if nc, ok := unparen(as.Rhs[0]).(*ast.CallExpr); ok && c.CalleeName(nc) == "newLookup" {
							fresh = true
						}
					}
					return true
				})
				if fresh {
					r.ok(k, "parameter registration: judged by C09/FRM-PARAMSLOT")
					return true
				}
			}
			if ks := nosp(c.Src(call.Args[0])); strings.Contains(ks, ".Pos.String()") {
				r.ok(k, "hidden temporary keyed by a position (not a script name)")
				return true
			}
			r.undecided(k, c.Pos(call), "a c.Locals.Index call the path analysis did not reach")
			return true
		})
	}()
	for _, sc := range cs.Cases {
		label := sc.Labels[0]
		m := newLayMachine(c)
		cl, err := m.runCase(cs, label)
		if err != nil {
			r.undecided(label, c.Pos(sc.Clause), err.Error())
			continue
		}
		var states []*State
		for _, p := range cl.Paths {
			states = append(states, p.St)
		}
		for _, it := range cl.Iters {
			for _, ex := range it.Exits {
				states = append(states, ex.St)
			}
		}
		for _, f := range cl.Flags {
			if strings.Contains(f, "overflow") {
				r.undecided(label, c.Pos(sc.Clause), f)
			}
		}
		for _, st := range states {
			for _, e := range st.Eff {
				if e.Kind != "call" || e.Value == nil || e.Value.Name != "lookup.Index" || len(e.Value.Args) != 2 {
					continue
				}
				recv, key := e.Value.Args[0], e.Value.Args[1]
				rs := recv.String()
				observed[e.Node] = true
				if rs != "c.Locals" && !strings.HasPrefix(rs, "newLookup(") {
					continue
				}
				ks := key.String()
				how := ""
				switch {
				case strings.HasPrefix(rs, "newLookup("):
					how = "parameter of the freshly installed table"
				case strings.Contains(ks, "Position.String") || strings.Contains(ks, ".Pos.String") || strings.Contains(ks, ".Pos)"):
					how = "hidden temporary keyed by a position"
				default:
					for _, cd := range st.Conds[:min(e.NConds, len(st.Conds))] {
						if cd.String() == "lookup.Exists(c.Locals, "+ks+")" {
							how = "use: c.Locals.Exists(key) holds on this path"
						}
					}
				}
				k := fmt.Sprintf("%s Index(c.Locals, %s)", label, ks)
				if how != "" {
					if !seen[k+how] {
						seen[k+how] = true
						r.ok(k, how)
					}
					continue
				}
				if seen[k] {
					continue
				}
				seen[k] = true
				r.fail(k, c.Pos(e.Node), fmt.Sprintf("compile(%q) obtains a locals slot for the script name %s with lookup.Index outside compiler.Shadow and without a preceding Exists test: the declaration reuses an outer variable's slot instead of shadowing it (after the block the outer variable has the inner value)", label, ks))
			}
		}
	}
}

func ruleScoOrder(c *Ctx, r *R) {
	cs, err := c.compileSwitch()
	if err != nil {
		r.undecided("compile", "-", err.Error())
		return
	}
	sc := cs.ByLabel["(name)"]
	if sc == nil {
		r.undecided("(name)", "-", "no case")
		return
	}
	m := newLayMachine(c)
	cl, err := m.runCase(cs, "(name)")
	if err != nil {
		r.undecided("(name)", c.Pos(sc.Clause), err.Error())
		return
	}
	pos := c.Pos(sc.Clause)
	find := func(op string, inA string) *layoutPath {
		for _, p := range cl.Paths {
			for _, a := range p.Atoms {
				if a.Ins != nil && opName(a.Ins) == op && strings.Contains(fmt.Sprint(litField(a.Ins, "A")), inA) {
					// the most specific path: last condition is positive
					if n := len(p.St.Conds); n > 0 && !(p.St.Conds[n-1].Op == "un" && p.St.Conds[n-1].Name == "!") {
						return p
					}
				}
			}
		}
		return nil
	}
	conds := func(p *layoutPath) string { return condStrings(p.St) }
	local := find("LocalGet", "c.Locals")
	if local == nil {
		r.fail("local", pos, "no path resolves a name to a local slot under c.Locals.Exists")
	} else {
		cs := conds(local)
		r.check(strings.Contains(cs, "lookup.Exists(c.Locals, tok.Text)"), "local", pos, "locals are tested before package globals", "a name is resolved to a local without testing c.Locals.Exists: "+cs)
		scoLocalTypes(c, r, sc.Clause, cs, pos)
	}
	// every way a plain name becomes a global access is one of: `$`, a function-local type, the
	// package-level name under its export prefix, a builtin. A further fallback (e.g. the bare
	// name, which is where field and method names are interned) binds forward references to
	// unrelated slots, depending on what was compiled before
	for _, p := range cl.Paths {
		for _, a := range p.Atoms {
			if a.Ins == nil || opName(a.Ins) != "GlobalGet" {
				continue
			}
			av := litField(a.Ins, "A")
			if av == nil {
				continue
			}
			as := av.String()
			known := strings.Contains(as, "compiler.expPrefix(c, tok.Text)") || strings.Contains(as, `"builtin."`) || strings.Contains(as, `"$"`) ||
				strings.Contains(as, "localTypeIndex") || strings.Contains(as, "c.FuncName")
			if !known && !strings.Contains(as, "lookup.Index(c.Globals") {
				known = true // not a table lookup by name (an index computed elsewhere): judged by the other rules
			}
			r.check(known, "global key "+as, pos, "a name resolves to `$`, a local type, the export-prefixed package name or a builtin",
				"compile(\"(name)\") resolves a name to the globals slot "+as+" — neither the export-prefixed package-level name nor a builtin ("+condStrings(p.St)+"): the table also interns field and method names under their bare names, so a forward reference to a helper function called like a field (`count`, `area`) binds to that empty slot and fails at call time, while a backward reference works — declaration and file order change behaviour")
		}
	}
	global := find("GlobalGet", "compiler.expPrefix(c, tok.Text)")
	if global == nil {
		r.fail("global", pos, "no path resolves a name to a package global under c.Globals.Exists(key)")
	} else {
		cs := conds(global)
		r.check(strings.Contains(cs, "!lookup.Exists(c.Locals, tok.Text)"), "global-after-local", pos, "a package global is used only when no local of that name exists", "a package global can be chosen although a local of that name exists (locals must shadow globals): "+cs)
	}
	builtin := find("GlobalGet", `"builtin."`)
	if builtin == nil {
		r.fail("builtin", pos, "no path resolves a name to a builtin")
	} else {
		cs := conds(builtin)
		r.check(strings.Contains(cs, "!lookup.Exists(c.Locals, tok.Text)") && strings.Contains(cs, "!lookup.Exists(c.Globals, compiler.expPrefix(c, tok.Text))"), "builtin-last", pos, "builtins are used only when neither a local nor a package global exists", "a builtin can be chosen although a local or package global of that name exists: "+cs)
	}
	// import alias resolution
	if dsc := cs.ByLabel["."]; dsc != nil {
		m2 := newLayMachine(c)
		cl2, err := m2.runCase(cs, ".")
		if err != nil {
			r.undecided("import-alias", c.Pos(dsc.Clause), err.Error())
			return
		}
		n := 0
		for _, p := range cl2.Paths {
			for _, a := range p.Atoms {
				if a.Ins != nil && opName(a.Ins) == "GlobalGet" {
					n++
					cs := condStrings(p.St)
					// the decision may have been taken inside a new helper that returns (index, ok):
					// then every ok-path of the helper must carry the test
					if m := regexp.MustCompile(`compiler\.(\w+)\(c, [^#]*\)#1`).FindStringSubmatch(cs); m != nil && !strings.Contains(cs, "!lookup.Exists(c.Locals,") {
						if hfd := c.Func("compiler." + m[1]); hfd != nil {
							if ho := c.Info.Defs[hfd.Name]; ho != nil && c.isNewHelper(ho) {
								all, nOK := true, 0
								for _, hp := range c.pathsOf("compiler."+m[1], func(in *Interp) {
									in.NoReturn = func(o types.Object) bool { return o.Name() == "panicf" }
								}) {
									if hp.Done == "return" && len(hp.Ret) == 2 && hp.Ret[1].Op == "const" && hp.Ret[1].Name == "true" {
										nOK++
										if !strings.Contains(condStrings(hp), "!lookup.Exists(c.Locals,") {
											all = false
										}
									}
								}
								if all && nOK > 0 {
									cs += " && !lookup.Exists(c.Locals, <in " + m[1] + ">)"
								}
							}
						}
					}
					r.check(strings.Contains(cs, "!lookup.Exists(c.Locals,"), "import-alias", c.Pos(dsc.Clause), "an alias is resolved only when no local of that name exists", "pkg.Name is resolved through the import table although a local variable named like the alias exists (locals must shadow imported package names): "+cs)
				}
			}
		}
		if n == 0 {
			r.undecided("import-alias", c.Pos(dsc.Clause), "no path resolves an import alias")
		}
	}
}

// SCO-BLOCK: every body block of a control construct is compiled in a scope of its
// own: the compilation of a then/else branch, a loop body, a case body or the default
// body is immediately bracketed by Begin ... End, with no other segment compiled inside
// the bracket.  (A function body shares the function block with its parameters, as in Go.)
func ruleScoBlock(c *Ctx, r *R) {
	cs, err := c.compileSwitch()
	if err != nil {
		r.undecided("compile", "-", err.Error())
		return
	}
	bodyRoles := map[string]map[string]bool{
		"if":     {"then": true, "else": true},
		"for":    {"block": true},
		"range":  {"block": true},
		"switch": {"caseBody": true, "default": true},
	}
	for _, k := range []string{"if", "for", "range", "switch"} {
		sc := cs.ByLabel[k]
		if sc == nil {
			r.undecided(k, "-", "no compile-case")
			continue
		}
		m := newLayMachine(c)
		cl, err := m.runCase(cs, k)
		if err != nil {
			r.undecided(k, c.Pos(sc.Clause), err.Error())
			continue
		}
		var states []*State
		for _, p := range cl.Paths {
			states = append(states, p.St)
		}
		for _, it := range cl.Iters {
			for _, ex := range it.Exits {
				states = append(states, ex.St)
			}
		}
		seen := map[string]bool{}
		for _, st := range states {
			type ev struct {
				kind, role string
				node       ast.Node
			}
			var evs []ev
			for _, e := range st.Eff {
				if e.Kind != "call" || e.Value == nil {
					continue
				}
				switch e.Value.Name {
				case "compiler.Begin":
					evs = append(evs, ev{"B", "", e.Node})
				case "compiler.End":
					evs = append(evs, ev{"E", "", e.Node})
				case "compiler.compile", "compiler.compileAll":
					role := ""
					if p := childPath(e.Value); p != nil {
						role = roleTable[k][strings.Join(p, "/")]
					}
					evs = append(evs, ev{"C", role, e.Node})
				}
			}
			for i, e := range evs {
				if e.kind != "C" || !bodyRoles[k][e.role] {
					continue
				}
				key := k + " " + e.role
				ok := i > 0 && evs[i-1].kind == "B" && i+1 < len(evs) && evs[i+1].kind == "E"
				if seen[key] && ok {
					continue
				}
				seen[key] = true
				r.check(ok, key, c.Pos(e.node), "compiled in its own scope (Begin immediately before, End immediately after)",
					fmt.Sprintf("compile(%q) compiles its %s block without a scope of its own: a := or var in that block reuses (or keeps visible) a name of the enclosing header or of a sibling block instead of shadowing it until the block ends (e.g. `for i := 0; i < 3; i++ { i := 10 }` overwrites the loop variable)", k, e.role))
			}
		}
		for role := range bodyRoles[k] {
			if !seen[k+" "+role] {
				r.undecided(k+" "+role, c.Pos(sc.Clause), "the compilation of this block was not found on any path")
			}
		}
	}
}

// SCO-CHAIN: the shadow chain of a name (key, "~"+key, "~~"+key, ...) is a stack kept in
// the map itself.  shadow pushes (every entry moves one "~" deeper, deepest first);
// unshadow pops (every entry moves one "~" up, shallowest first).  The recursive call on
// "~"+key rewrites the entry "~"+key, so the order of the map operations around it is
// what makes the chain a stack:
//
//	shadow:   recurse on "~"+key, THEN store map["~"+key] = old map[key], and vacate key;
//	unshadow: store map[key] = map["~"+key], THEN recurse on "~"+key; nothing may delete
//	          or overwrite "~"+key after that recursion (it holds the next binding), and
//	          nothing may delete key after the store;
//	Drop:     delete the dropped key BEFORE unshadow(key) restores the outer binding.
func ruleScoChain(c *Ctx, r *R) {
	type ev struct {
		kind string // store delete rec
		key  string
		node ast.Node
	}
	events := func(p *State, self string) []ev {
		var out []ev
		for _, e := range p.Eff {
			switch e.Kind {
			case "store":
				if e.Target != nil && e.Target.Op == "index" && strings.HasSuffix(e.Target.Args[0].String(), ".keyToIndex") {
					out = append(out, ev{"store", e.Target.Args[1].String(), e.Node})
				}
			case "call":
				if e.Value == nil {
					continue
				}
				switch e.Value.Name {
				case "builtin.delete":
					if len(e.Value.Args) == 2 && strings.HasSuffix(e.Value.Args[0].String(), ".keyToIndex") {
						out = append(out, ev{"delete", e.Value.Args[1].String(), e.Node})
					}
				case self:
					out = append(out, ev{"rec", e.Value.Args[len(e.Value.Args)-1].String(), e.Node})
				case "lookup.unshadow", "lookup.shadow":
					out = append(out, ev{"call:" + e.Value.Name, e.Value.Args[len(e.Value.Args)-1].String(), e.Node})
				}
			}
		}
		return out
	}
	const deep = `("~" + key)`
	idx := func(evs []ev, kind, key string) int {
		for i, e := range evs {
			if e.kind == kind && e.key == key {
				return i
			}
		}
		return -1
	}
	// ---- shadow ----
	if fd := c.Func("lookup.shadow"); fd != nil {
		ps := c.pathsOf("lookup.shadow")
		found := false
		for _, p := range ps {
			cs := condStrings(p)
			evs := events(p, "lookup.shadow")
			if strings.HasPrefix(cs, "!") || cs == "" {
				r.check(len(evs) == 0 || cs == "", "shadow absent", c.Pos(fd), "no effect when the name is not bound", "lookup.shadow changes the table although the name is not bound")
				continue
			}
			found = true
			rec, st, del := idx(evs, "rec", deep), idx(evs, "store", deep), idx(evs, "delete", "key")
			r.check(rec >= 0 && st >= 0 && rec < st, "shadow push-order", c.Pos(fd), "recurse on \"~\"+key, then store map[\"~\"+key]",
				"lookup.shadow does not move the deeper bindings out of the way (recursive call on \"~\"+key) before it stores the current binding under \"~\"+key: with two or more live shadowings the middle binding is overwritten and the wrong variable is visible after the inner block ends")
			r.check(del >= 0, "shadow vacate", c.Pos(fd), "the plain key is vacated", "lookup.shadow leaves the old binding under the plain name: the new declaration reuses the outer variable's slot instead of getting its own")
			for i, e := range evs {
				if i != rec && i != st && i != del {
					r.fail("shadow extra", c.Pos(e.node), "lookup.shadow performs an additional table operation ("+e.kind+" "+e.key+") outside the push protocol")
				}
			}
		}
		if !found {
			r.undecided("shadow", c.Pos(fd), "no path on which the name is bound")
		}
	} else {
		r.undecided("shadow", "-", "lookup.shadow not found")
	}
	// ---- unshadow ----
	if fd := c.Func("lookup.unshadow"); fd != nil {
		ps := c.pathsOf("lookup.unshadow")
		// the iterative form — for { alias := "~"+key; n, ok := m[alias]; if !ok { return };
		// m[key] = n; delete(m, alias); key = alias } — is the recursive form with the tail call
		// spelled as `key = alias` + the back edge: its body is read as the function body, and a
		// continuing iteration contributes a "rec" event on the value key is left with
		loopRec := map[*State]string{}
		var loop *ast.ForStmt
		for _, st := range fd.Body.List {
			if f, ok := st.(*ast.ForStmt); ok && f.Cond == nil && f.Init == nil && f.Post == nil {
				loop = f
			}
		}
		if loop != nil {
			var keyObj types.Object
			for _, f := range fd.Type.Params.List {
				for _, nm := range f.Names {
					keyObj = c.Info.Defs[nm]
				}
			}
			lin := newInterp(c)
			lst := newState()
			lin.bindParams(lst, fd.Recv, fd.Type, nil)
			ps = nil
			for _, p := range lin.execStmts(loop.Body.List, []*State{lst}) {
				if p.Done == "" || p.Done == "continue" {
					if nk := p.Vars[keyObj]; nk != nil {
						loopRec[p] = nk.String()
					}
				}
				ps = append(ps, p)
			}
		}
		found := false
		for _, p := range ps {
			cs := condStrings(p)
			evs := events(p, "lookup.unshadow")
			if rk, ok := loopRec[p]; ok {
				evs = append(evs, ev{"rec", rk, loop})
			}
			if strings.HasPrefix(cs, "!") || cs == "" {
				bad := idx(evs, "store", "key") >= 0
				r.check(!bad, "unshadow absent", c.Pos(fd), "nothing restored when there is no outer binding", "lookup.unshadow stores a binding for the name although no outer binding exists")
				continue
			}
			found = true
			st, rec := idx(evs, "store", "key"), idx(evs, "rec", deep)
			// the alias that was moved up must be vacated before the recursion refills it (or not):
			// a "~key" left behind survives the whole chain and re-creates key, pointing at a
			// dead slot, when the outermost declaration is dropped later
			vac := -1
			for i, e := range evs {
				if e.kind == "delete" && e.key == deep && (rec < 0 || i < rec) {
					vac = i
				}
			}
			r.check(vac >= 0, "unshadow vacate", c.Pos(fd), "\"~\"+key is deleted once its binding has moved up", "lookup.unshadow copies map[\"~\"+key] to map[key] but never deletes \"~\"+key: the deepest alias survives, and when the outer variable's own block ends Drop/unshadow re-creates the name from it, pointing at a dead slot — after `if c { x := 1; if c { x := 2 } }` a later `x` in the same function is that dead local instead of the package-level x (or the imported package of that name)")
			r.check(st >= 0 && rec >= 0 && st < rec, "unshadow pop-order", c.Pos(fd), "store map[key] = map[\"~\"+key], then recurse on \"~\"+key",
				"lookup.unshadow does not restore the outer binding (map[key] = map[\"~\"+key]) before moving the deeper ones up: the binding it restores is the wrong one")
			for i, e := range evs {
				if i == st || i == rec {
					continue
				}
				switch {
				case (e.kind == "delete" || e.kind == "store") && e.key == deep && rec >= 0 && i > rec:
					r.fail("unshadow clobber", c.Pos(e.node), "lookup.unshadow "+e.kind+"s the entry \"~\"+key after the recursive call that has just moved the next outer binding into it: with a name shadowed twice (three live bindings) the middle binding is lost when the innermost block ends, and after the middle block ends the name is unbound or refers to the wrong slot")
				case e.kind == "delete" && e.key == "key" && st >= 0 && i > st:
					r.fail("unshadow clobber", c.Pos(e.node), "lookup.unshadow deletes the binding it has just restored")
				case e.kind == "store" && e.key == "key" && i != st:
					r.fail("unshadow clobber", c.Pos(e.node), "lookup.unshadow stores the plain name twice")
				}
			}
		}
		if !found {
			r.undecided("unshadow", c.Pos(fd), "no path on which an outer binding exists")
		}
	} else {
		r.undecided("unshadow", "-", "lookup.unshadow not found")
	}
	// ---- Drop ----
	if fd := c.Func("lookup.Drop"); fd != nil {
		ps := c.pathsOf("lookup.Drop", bodyOnce)
		good, seen := true, false
		for _, p := range ps {
			evs := events(p, "-")
			un := -1
			for i, e := range evs {
				if e.kind == "call:lookup.unshadow" {
					un = i
				}
			}
			if un < 0 {
				continue
			}
			seen = true
			del := -1
			for i, e := range evs {
				if e.kind == "delete" && e.key == evs[un].key {
					del = i
				}
			}
			if del < 0 || del > un {
				good = false
			}
		}
		if !seen {
			r.undecided("drop order", c.Pos(fd), "no path of lookup.Drop calls unshadow")
		} else {
			r.check(good, "drop order", c.Pos(fd), "the dropped name is deleted before unshadow restores the outer binding",
				"lookup.Drop deletes the dropped name after (or without) unshadow: the outer binding that unshadow has just restored is removed, so after a block ends the shadowed outer variable is undefined")
		}
	} else {
		r.undecided("drop order", "-", "lookup.Drop not found")
	}
}

// SCO-IMPORTSET: pkg.Name means the same as an assignment target as it does when read.
// Reading consults the import table (compile(".") emits GLOBALGET for an alias that no local
// shadows); the assignment cases must consult it too before they treat `a.b = v` as a
// field store — otherwise `reg.Count++` or `reg.Order = append(reg.Order, x)` on an
// imported package's variable compiles `reg` as an undefined global and SETATTR fails.
func ruleScoImportSet(c *Ctx, r *R) {
	cs, err := c.compileSwitch()
	if err != nil {
		r.undecided("compile", "-", err.Error())
		return
	}
	consults := func(conds []*T) bool {
		for _, cd := range conds {
			s := cd.String()
			if strings.Contains(s, "c.Imports[") {
				return true
			}
			if m := regexp.MustCompile(`compiler\.(\w+)\(c, [^#]*\)#1`).FindStringSubmatch(s); m != nil {
				for _, hp := range c.pathsOf("compiler."+m[1], func(in *Interp) {
					in.NoReturn = func(o types.Object) bool { return o.Name() == "panicf" }
				}) {
					if strings.Contains(condStrings(hp), "c.Imports[") {
						return true
					}
				}
			}
		}
		return false
	}
	n := 0
	for _, label := range []string{"=", "|="} {
		sc := cs.ByLabel[label]
		if sc == nil {
			r.undecided("target "+label, "-", "no compile-case")
			continue
		}
		m := newLayMachine(c)
		cl, err := m.runCase(cs, label)
		if err != nil {
			r.undecided("target "+label, c.Pos(sc.Clause), err.Error())
			continue
		}
		var paths []*layoutPath
		paths = append(paths, cl.Paths...)
		for _, it := range cl.Iters {
			paths = append(paths, it.Exits...)
		}
		for _, p := range paths {
			sets := false
			for _, a := range p.Atoms {
				if a.Ins != nil && opName(a.Ins) == "SetAttr" {
					sets = true
				}
			}
			if !sets {
				continue
			}
			n++
			r.check(consults(p.St.Conds), "target "+label, c.Pos(sc.Clause), "a selector target is a field store only after the import table was consulted",
				"compile(\""+label+"\") treats every `a.b` target as a field store without consulting the import table (path: "+condStrings(p.St)+"): assigning to a variable of an imported package (`reg.Count++`, `reg.Order = append(reg.Order, x)`) compiles the package name as an undefined global and the load aborts with a nil dereference in SETATTR")
		}
	}
	if n == 0 {
		r.undecided("target", "-", "no assignment path emits SETATTR")
	}
}

// SCO-RHSFIRST: in a declaration the names being declared are not yet in scope in the
// expressions that initialise them (`for _, x := range x`, `n := n + 1`, `const k = k0`): the
// compile-case compiles the operand / right-hand side *before* it enters the names into the
// local table.  Checked as an order of effects on every path of the declaring compile-cases.
func ruleScoRhsFirst(c *Ctx, r *R) {
	cs, err := c.compileSwitch()
	if err != nil {
		r.undecided("compile", "-", err.Error())
		return
	}
	isDeclare := func(e Effect) bool {
		if e.Kind != "call" || e.Value == nil {
			return false
		}
		switch e.Value.Name {
		case "compiler.Shadow":
			return true
		case "lookup.Shadow":
			return len(e.Value.Args) > 0 && strings.HasSuffix(e.Value.Args[0].String(), ".Locals")
		}
		return false
	}
	isCompile := func(e Effect) bool {
		return e.Kind == "call" && e.Value != nil && (e.Value.Name == "compiler.compile" || e.Value.Name == "compiler.compileAll")
	}
	n := 0
	for _, label := range []string{"range", ":=", "const"} {
		sc := cs.ByLabel[label]
		if sc == nil {
			r.undecided("rhs-first "+label, "-", "no compile-case")
			continue
		}
		m := newLayMachine(c)
		cl, err := m.runCase(cs, label)
		if err != nil {
			r.undecided("rhs-first "+label, c.Pos(sc.Clause), err.Error())
			continue
		}
		var states []*State
		for _, p := range cl.Paths {
			states = append(states, p.St)
		}
		for _, it := range cl.Iters {
			for _, ex := range it.Exits {
				states = append(states, ex.St)
			}
		}
		bad := ""
		sawBoth := false
		for _, st := range states {
			firstDecl := -1
			for i, e := range st.Eff {
				if isDeclare(e) && firstDecl < 0 {
					firstDecl = i
				}
				if isCompile(e) && firstDecl >= 0 {
					// compiled after a declaration: only the loop body of range (role block) may be
					role := ""
					if p := childPath(e.Value); p != nil {
						role = roleTable[label][strings.Join(p, "/")]
					}
					if role == "block" {
						continue
					}
					if bad == "" {
						bad = e.Value.String()
					}
				}
				if isCompile(e) && firstDecl < 0 {
					sawBoth = true
				}
			}
		}
		n++
		r.check(bad == "" && sawBoth, "rhs-first "+label, c.Pos(sc.Clause), "operands are compiled before the declared names enter the scope",
			"compile(\""+label+"\") compiles "+bad+" after it has declared the statement's variables: a name in that expression that equals a variable being declared binds to the new, still empty variable instead of the outer one — `for _, x := range x`, `for _, node := range node.Kids` or `n := n + 1` read nil / run zero times")
	}
	if n == 0 {
		r.undecided("rhs-first", "-", "no declaring compile-case analysed")
	}
}

// SCO-SIGTYPES: the types of a function's signature (parameters and results) are resolved
// before the parameters — and later the body's locals — are in scope. A result type
// resolved after the body was compiled sees a parameter or local of the same name instead
// of the type: `func mk() *node { node := &node{}; return node }` fails to compile.
func ruleScoSigTypes(c *Ctx, r *R) {
	cs, err := c.compileSwitch()
	if err != nil {
		r.undecided("compile", "-", err.Error())
		return
	}
	for _, lab := range []string{"func", "var"} {
		scoTypesFirst(c, r, cs, lab)
	}
}

func scoTypesFirst(c *Ctx, r *R, cs *bigSwitch, lab string) {
	fsc := cs.ByLabel[lab]
	if fsc == nil {
		r.undecided(lab, "-", "no compile-case")
		return
	}
	what := map[string]string{
		"func": "a parameter, receiver or body local named like the type shadows it — `func mk() *node { node := &node{}; return node }` or `func next(node *node) *node` fail with `invalid type`",
		"var":  "the variable being declared (or an earlier one of the same declaration) shadows its own type — `var node *node = head` or `var list, node *node` fail with `invalid type`",
	}[lab]
	// what a statement does, through new helpers
	var effects func(n ast.Node, depth int) (resolves, declares bool)
	effects = func(n ast.Node, depth int) (resolves, declares bool) {
		ast.Inspect(n, func(m ast.Node) bool {
			call, ok := m.(*ast.CallExpr)
			if !ok {
				return true
			}
			switch nm := c.CalleeName(call); nm {
			case "compiler.toType", "compiler.typeFromToken", "typeFromToken":
				resolves = true
			case "lookup.Shadow", "lookup.Index", "lookup.Assign":
				if sel, ok := unparen(call.Fun).(*ast.SelectorExpr); ok && strings.HasSuffix(nosp(c.Src(sel.X)), ".Locals") {
					declares = true
				}
			case "compiler.Shadow":
				declares = true
			case "compiler.compile", "compiler.compileAll":
				// compiling the body declares its locals; the right-hand side of a var declares nothing
				if lab == "func" {
					declares = true
				}
			default:
				if o := c.Callee(call); o != nil && c.isNewHelper(o) && depth < 3 {
					if h := c.DeclOf(o); h != nil && h.Body != nil {
						a, b := effects(h.Body, depth+1)
						resolves = resolves || a
						declares = declares || b
					}
				}
			}
			return true
		})
		return
	}
	declared := ""
	nRes := 0
	for _, st := range fsc.Clause.Body {
		res, dec := effects(st, 0)
		if res {
			nRes++
			if declared != "" {
				r.fail(lab+" types first", c.Pos(st), "compile(\""+lab+"\") resolves a declared type at "+c.Pos(st)+" after names were brought into scope at "+declared+": "+what)
				return
			}
		}
		if dec && declared == "" {
			declared = c.Pos(st)
		}
	}
	if nRes == 0 || declared == "" {
		r.undecided(lab+" types first", c.Pos(fsc.Clause), "type resolution / declaration not found in compile(\""+lab+"\")")
		return
	}
	r.ok(lab+" types first", fmt.Sprintf("%d statements resolve declared types, all before the names are declared at %s", nRes, declared))
}

// scoLocalTypes: inside a function a name may stand for a type declared in that function.
// Whether it does is decided by a table of the declarations seen in the open blocks of this
// compilation — not by the global slot `<func>.<name>`, which outlives the compilation (after
// a reload the slot of a type the new body no longer declares captures a local variable of
// that name) and knows nothing of order (a variable declared after the type must shadow it).
func scoLocalTypes(c *Ctx, r *R, clause *ast.CaseClause, conds string, pos string) {
	stale := strings.Contains(conds, "lookup.Exists(c.Globals") && strings.Contains(conds, "c.FuncName")
	r.check(!stale, "local type table", pos, "a function-local type is not looked up in the VM-wide global table",
		"compile(\"(name)\") decides that a name is a function-local type by c.Globals.Exists(<func>.<name>) before looking at the locals: that slot survives a reload (func total() { acc := 0; .. } returns &{n:0} after a version that declared `type acc struct{n int}`) and a variable declared after the type (`for _, item := range items` after `type item struct{..}`) never shadows it: "+conds)
	// the resolver used by the case
	var resolver *ast.FuncDecl
	ast.Inspect(clause, func(n ast.Node) bool {
		call, ok := n.(*ast.CallExpr)
		if !ok || resolver != nil {
			return true
		}
		fd := c.DeclOf(c.Callee(call))
		if fd == nil || fd.Body == nil || fd.Recv == nil {
			return true
		}
		uses := false
		ast.Inspect(fd.Body, func(m ast.Node) bool {
			if sel, ok := m.(*ast.SelectorExpr); ok && sel.Sel.Name == "localTypes" {
				uses = true
			}
			return true
		})
		if uses && len(call.Args) == 1 && nosp(c.Src(call.Args[0])) == "tok.Text" {
			resolver = fd
		}
		return true
	})
	if resolver == nil {
		if !stale {
			r.undecided("local type table", pos, "the resolver of function-local type names was not found")
		}
		return
	}
	r.check(strings.Contains(conds, "!compiler."+resolver.Name.Name+"(") || strings.Contains(conds, "!("+"compiler."+resolver.Name.Name), "local-after-functype", pos, "the local-type table is consulted before the locals",
		"a name is resolved to a local variable without consulting the table of function-local types first: "+conds)
	// the resolver lets a later variable shadow the type: it compares the variable's slot with
	// the slot count recorded at the type declaration
	shadow := false
	for _, rfd := range c.withHelpers(resolver) {
		rfd := rfd
		// the slot of the variable: c.Locals.Index(name), or a temporary read from the locals table
		isSlot := func(e ast.Expr) bool {
			src := nosp(c.Src(e))
			if strings.Contains(src, ".Locals.Index(") || strings.Contains(src, ".Locals.keyToIndex[") {
				return true
			}
			id, ok := unparen(e).(*ast.Ident)
			if !ok {
				return false
			}
			found := false
			ast.Inspect(rfd.Body, func(k ast.Node) bool {
				as, ok := k.(*ast.AssignStmt)
				if !ok {
					return true
				}
				for i, l := range as.Lhs {
					if lid, ok := l.(*ast.Ident); ok && c.Obj(lid) == c.Obj(id) {
						rhs := as.Rhs[0]
						if len(as.Rhs) == len(as.Lhs) {
							rhs = as.Rhs[i]
						}
						rs := nosp(c.Src(rhs))
						if i == 0 && (strings.Contains(rs, ".Locals.Index(") || strings.Contains(rs, ".Locals.keyToIndex[")) {
							found = true
						}
					}
				}
				return true
			})
			return found
		}
		ast.Inspect(rfd.Body, func(n ast.Node) bool {
			be, ok := n.(*ast.BinaryExpr)
			if !ok {
				return true
			}
			switch be.Op {
			case token.GEQ, token.GTR, token.LSS, token.LEQ:
			default:
				return true
			}
			l, rr := nosp(c.Src(be.X)), nosp(c.Src(be.Y))
			if isSlot(be.X) && strings.Contains(rr, ".slots") || isSlot(be.Y) && strings.Contains(l, ".slots") {
				shadow = true
			}
			return true
		})
	}
	// a type declared in a function is also in scope in that function's func literals (a type is
	// not a captured variable: it lives in a global): the resolver does not skip the entries of an
	// enclosing function, it answers them (unless the literal has a name of its own that hides it)
	enclosing := false
	ast.Inspect(resolver.Body, func(n ast.Node) bool {
		ifs, ok := n.(*ast.IfStmt)
		if !ok {
			return true
		}
		cs := nosp(c.Src(ifs.Cond))
		if !strings.Contains(cs, ".locals!=") && !strings.Contains(cs, ".locals==") {
			return true
		}
		if strings.Contains(cs, "||") {
			return true // lumped with the name test: the entry is just skipped
		}
		ast.Inspect(ifs, func(m ast.Node) bool {
			if rs, ok := m.(*ast.ReturnStmt); ok && len(rs.Results) == 2 && isIdent(rs.Results[1], "true") {
				enclosing = true
			}
			return true
		})
		return true
	})
	if !enclosing {
		// the owner test may live in a new predicate helper ("does a variable hide this entry"):
		// then no entry is skipped on its owner anywhere, and the resolver answers the entry the
		// predicate lets through
		skipsOnOwner, ownerTested, answers := false, false, false
		for _, rfd := range c.withHelpers(resolver) {
			ast.Inspect(rfd.Body, func(n ast.Node) bool {
				switch x := n.(type) {
				case *ast.IfStmt:
					cs := nosp(c.Src(x.Cond))
					if strings.Contains(cs, ".locals!=") || strings.Contains(cs, ".locals==") {
						ownerTested = true
						for _, st := range x.Body.List {
							if br, ok := st.(*ast.BranchStmt); ok && br.Tok == token.CONTINUE {
								skipsOnOwner = true
							}
						}
					}
				case *ast.ReturnStmt:
					if rfd == resolver && len(x.Results) == 2 && isIdent(x.Results[1], "true") && strings.HasSuffix(nosp(c.Src(x.Results[0])), ".global") {
						answers = true
					}
				}
				return true
			})
		}
		enclosing = ownerTested && !skipsOnOwner && answers && len(c.withHelpers(resolver)) > 1
	}
	r.check(enclosing, "local type visible in func literals", c.Pos(resolver), "a type of an enclosing function resolves inside a func literal",
		resolver.Name.Name+" skips the local types of enclosing functions: inside `mk := func() *T { return &T{n: 1} }` a function-local T resolves at package level — silently the package's T (0 instead of 0.5, a foreign field), or NEWSTRUCT fails with `Object is nil` when there is none")
	r.check(shadow, "variable shadows local type", c.Pos(resolver), "a variable declared after the type wins",
		resolver.Name.Name+" no longer compares the variable's slot with the slots in use at the type declaration: a variable declared after a function-local type of the same name does not shadow it (reads see the type's prototype)")
	// the table is block scoped: End() drops the entries of the closing block
	pops := false
	if end := c.Func("compiler.End"); end != nil {
		ast.Inspect(end.Body, func(n ast.Node) bool {
			if as, ok := n.(*ast.AssignStmt); ok && len(as.Lhs) == 1 && strings.HasSuffix(nosp(c.Src(as.Lhs[0])), ".localTypes") {
				if _, ok := unparen(as.Rhs[0]).(*ast.SliceExpr); ok {
					pops = true
				}
			}
			return true
		})
	}
	// ... on every path: End has no return ahead of the trimming (a fast exit "back at package
	// level" leaves the function's body-level types in the table for every later function)
	if end := c.Func("compiler.End"); end != nil && pops {
		var trimPos token.Pos
		ast.Inspect(end.Body, func(n ast.Node) bool {
			if as, ok := n.(*ast.AssignStmt); ok && len(as.Lhs) == 1 && strings.HasSuffix(nosp(c.Src(as.Lhs[0])), ".localTypes") && !trimPos.IsValid() {
				trimPos = as.Pos()
			}
			return true
		})
		early := false
		ast.Inspect(end.Body, func(n ast.Node) bool {
			if _, isLit := n.(*ast.FuncLit); isLit {
				return false
			}
			if ret, ok := n.(*ast.ReturnStmt); ok && trimPos.IsValid() && ret.Pos() < trimPos {
				early = true
			}
			return true
		})
		r.check(!early, "local types end with their block (every path)", c.Pos(end), "no return ahead of the trimming",
			"compiler.End returns before it has dropped the local types of the closing block on some path: the body-level types of a function stay in the table, and every function compiled later resolves that name to the leaked local type instead of the package-level one — the result depends on which function is declared (or which file sorts) first")
	}
	r.check(pops, "local types end with their block", pos, "compiler.End drops the local types of the closing block",
		"compiler.End no longer drops the entries of the closing block from the local-type table: a type declared in an inner block keeps capturing the name for the rest of the function")
	// the declaration records the entry
	records := false
	for _, lab := range []string{"type", "struct"} {
		if tsc := c.mustSwitch().ByLabel[lab]; tsc != nil {
			roots := []ast.Node{tsc.Clause}
			ast.Inspect(tsc.Clause, func(n ast.Node) bool {
				if call, ok := n.(*ast.CallExpr); ok {
					if o := c.Callee(call); o != nil && c.isNewHelper(o) {
						if h := c.DeclOf(o); h != nil && h.Body != nil {
							roots = append(roots, h.Body)
						}
					}
				}
				return true
			})
			for _, root := range roots {
				ast.Inspect(root, func(n ast.Node) bool {
					if as, ok := n.(*ast.AssignStmt); ok && len(as.Lhs) == 1 && strings.HasSuffix(nosp(c.Src(as.Lhs[0])), ".localTypes") {
						if call, ok := unparen(as.Rhs[0]).(*ast.CallExpr); ok && c.CalleeName(call) == "builtin.append" {
							records = true
						}
					}
					return true
				})
			}
		}
	}
	r.check(records, "local type recorded", pos, "a function-local type declaration enters the table", "no compile-case records a function-local type declaration in the local-type table: the name is never resolved to the type")
}

func (c *Ctx) mustSwitch() *bigSwitch {
	cs, err := c.compileSwitch()
	if err != nil {
		return &bigSwitch{ByLabel: map[string]*switchCase{}}
	}
	return cs
}

// HND-LOCALZERO: `var x T` without an initialiser, in a loop body, starts from the zero value
// on every iteration: the LOCALZERO handler stores the zero value on every path — unlike
// GLOBALZERO, which (for live reload) leaves a variable that already has a value alone.
func ruleHndLocalZero(c *Ctx, r *R) {
	hm, err := newHndMachine(c)
	if err != nil || hm == nil {
		r.undecided("LOCALZERO", "-", "handlers could not be summarised")
		return
	}
	ps, err := hm.single("codeLocalZero")
	if err != nil || len(ps) == 0 {
		r.undecided("LOCALZERO", "-", "no summary of the LOCALZERO handler")
		return
	}
	sw, _ := c.execSwitch()
	pos := "-"
	if sw != nil && sw.ByLabel["codeLocalZero"] != nil {
		pos = c.Pos(sw.ByLabel["codeLocalZero"].Clause)
	}
	bad := ""
	for _, p := range ps {
		stored := false
		for _, s := range p.Stores {
			if strings.HasPrefix(s, "Local(I.A) = newZero(") {
				stored = true
			}
		}
		if !stored && p.Done != "panic" {
			bad = strings.Join(p.Conds, " && ")
		}
	}
	r.check(bad == "", "LOCALZERO unconditional", pos, "every path stores newZero(type) into the slot",
		"the LOCALZERO handler leaves the slot alone on a path ("+bad+"): `var n int` in a loop body is not reset and carries the previous iteration's value (only package variables keep their value, for reload)")
}

// SCO-KEYS: package-level names live in the globals table under their *export* prefix
// (expPrefix: the import path). pkgPrefix (the package name) only builds display names
// (c.FuncName). A key looked up in c.Globals that was built with pkgPrefix names another
// slot whenever a package's import path differs from its name (import "example.com/geo/shape",
// package shape): a method is attached to a fresh nil global instead of its type.
func ruleScoKeys(c *Ctx, r *R) {
	n := 0
	for _, name := range c.FuncNames() {
		fd := c.Func(name)
		if fd.Body == nil {
			continue
		}
		taint := map[types.Object]bool{}
		mentions := func(e ast.Expr) bool {
			found := false
			ast.Inspect(e, func(m ast.Node) bool {
				switch x := m.(type) {
				case *ast.CallExpr:
					if c.CalleeName(x) == "compiler.pkgPrefix" {
						found = true
					}
				case *ast.Ident:
					if taint[c.Obj(x)] {
						found = true
					}
				}
				return true
			})
			return found
		}
		for changed := true; changed; {
			changed = false
			ast.Inspect(fd.Body, func(m ast.Node) bool {
				if as, ok := m.(*ast.AssignStmt); ok && len(as.Lhs) == len(as.Rhs) {
					for i, l := range as.Lhs {
						if id, ok := l.(*ast.Ident); ok && c.Obj(id) != nil && !taint[c.Obj(id)] && mentions(as.Rhs[i]) {
							taint[c.Obj(id)] = true
							changed = true
						}
					}
				}
				return true
			})
		}
		ast.Inspect(fd.Body, func(m ast.Node) bool {
			call, ok := m.(*ast.CallExpr)
			if !ok || !strings.HasPrefix(c.CalleeName(call), "lookup.") || len(call.Args) == 0 {
				return true
			}
			sel, ok := unparen(call.Fun).(*ast.SelectorExpr)
			if !ok || !strings.HasSuffix(nosp(c.Src(sel.X)), ".Globals") {
				return true
			}
			n++
			// c.FuncName is a display name (package *name* + function): not a key either
			usesFuncName := false
			ast.Inspect(call.Args[0], func(q ast.Node) bool {
				if sel, ok := q.(*ast.SelectorExpr); ok && sel.Sel.Name == "FuncName" {
					usesFuncName = true
				}
				if id, ok := q.(*ast.Ident); ok && c.Obj(id) != nil {
					// ... through a local: the nearest assignment to it ahead of the lookup, in the same block
					if blk, ok := c.Parent(c.Parent(call)).(*ast.BlockStmt); ok || true {
						_ = blk
						var last ast.Expr
						for p := c.Parent(call); p != nil && last == nil; p = c.Parent(p) {
							b, isB := p.(*ast.BlockStmt)
							if !isB {
								continue
							}
							for _, st := range b.List {
								if st.Pos() >= call.Pos() {
									break
								}
								if as, ok := st.(*ast.AssignStmt); ok {
									for k, l := range as.Lhs {
										if li, ok := unparen(l).(*ast.Ident); ok && c.Obj(li) == c.Obj(id) && k < len(as.Rhs) {
											last = as.Rhs[k]
										}
									}
								}
							}
						}
						if last != nil && strings.Contains(nosp(c.Src(last)), ".FuncName") {
							usesFuncName = true
						}
					}
				}
				return true
			})
			if usesFuncName {
				r.fail("globals key from FuncName in "+name, c.Pos(call), name+" keys a global by c.FuncName (`"+c.Src(call.Args[0])+"`), which is built from the package *name*: function-local types of two packages named alike (net/util and text/util, both `package util`) — or of two init functions of one package, all called <pkg>.init — share one slot: their fields are merged, or the load fails in GLOBALSTRUCT")
			}
			if mentions(call.Args[0]) {
				r.fail("globals key in "+name, c.Pos(call), name+" looks up `"+c.Src(call.Args[0])+"` in c.Globals, a key built with pkgPrefix (the package *name*): package-level names are stored under expPrefix (the import path), so for a package whose path differs from its name — import \"example.com/geo/shape\" — the method's receiver type is a fresh nil global and the load fails in SETMETHOD (or the method is lost)")
			}
			return true
		})
	}
	if n == 0 {
		r.undecided("globals keys", "-", "no lookup in c.Globals found")
		return
	}
	r.ok("globals keys", fmt.Sprintf("%d lookups in c.Globals, none keyed by pkgPrefix", n))
	// the scope string function-local types are keyed by (the string field of the compiler that
	// is not FuncName and is saved/restored around function literals) is built from expPrefix —
	// the import path — never from pkgPrefix or from FuncName, and for a function literal from
	// the literal's full position (file included): two literals at the same line:column of two
	// files are two scopes
	if cs, err := c.compileSwitch(); err == nil {
		var scopeAssigns int
		expandRHS := func(e ast.Expr, fd *ast.FuncDecl) string {
			out := nosp(c.FullSrc(e))
			seen := map[types.Object]bool{}
			var grow func(e ast.Expr, depth int)
			grow = func(e ast.Expr, depth int) {
				if depth > 3 {
					return
				}
				ast.Inspect(e, func(k ast.Node) bool {
					id, ok := k.(*ast.Ident)
					if !ok {
						return true
					}
					v, ok := c.Obj(id).(*types.Var)
					if !ok || v.IsField() || seen[v] {
						return true
					}
					seen[v] = true
					ast.Inspect(fd.Body, func(m ast.Node) bool {
						as, ok := m.(*ast.AssignStmt)
						if !ok || len(as.Lhs) != len(as.Rhs) {
							return true
						}
						for i, l := range as.Lhs {
							if lid, ok := unparen(l).(*ast.Ident); ok && c.Obj(lid) == types.Object(v) && as.Pos() < e.Pos() {
								out += " " + nosp(c.FullSrc(as.Rhs[i]))
								grow(as.Rhs[i], depth+1)
							}
						}
						return true
					})
					return true
				})
			}
			grow(e, 0)
			return out
		}
		for _, lab := range []string{"function", "method", "lambda", "init"} {
			sc := cs.ByLabel[lab]
			if sc == nil {
				continue
			}
			// assignments to the scope: direct, or through a new setter helper
			// (c.setFunc(name, scope) with `c.typeScope = scope` in its body)
			type scopeSet struct {
				rhs ast.Expr
				at  ast.Node
			}
			var sets []scopeSet
			ast.Inspect(sc.Clause, func(q ast.Node) bool {
				switch x := q.(type) {
				case *ast.AssignStmt:
					if len(x.Lhs) != len(x.Rhs) || (x.Tok != token.ASSIGN && x.Tok != token.DEFINE) {
						return true // (scope += suffix only extends a scope that was judged where it was set)
					}
					for i, l := range x.Lhs {
						if sel, ok := unparen(l).(*ast.SelectorExpr); ok && sel.Sel.Name == "typeScope" {
							sets = append(sets, scopeSet{x.Rhs[i], x})
						}
					}
				case *ast.CallExpr:
					o := c.Callee(x)
					h := c.DeclOf(o)
					if o == nil || h == nil || h.Body == nil || !c.isNewHelper(o) {
						return true
					}
					k := 0
					for _, f := range h.Type.Params.List {
						for _, nm := range f.Names {
							po := c.Info.Defs[nm]
							ast.Inspect(h.Body, func(m ast.Node) bool {
								as, ok := m.(*ast.AssignStmt)
								if !ok || len(as.Lhs) != len(as.Rhs) {
									return true
								}
								for i, l := range as.Lhs {
									if sel, ok := unparen(l).(*ast.SelectorExpr); ok && sel.Sel.Name == "typeScope" {
										if id, ok := unparen(as.Rhs[i]).(*ast.Ident); ok && c.Obj(id) == po && k < len(x.Args) {
											sets = append(sets, scopeSet{x.Args[k], x})
										}
									}
								}
								return true
							})
							k++
						}
					}
				}
				return true
			})
			for _, ss := range sets {
				as := ss.at
				{
					rhs := ss.rhs
					if v, isConst := c.ConstString(rhs); isConst && v == "" {
						continue // cleared after the declaration
					}
					if id, ok := unparen(rhs).(*ast.Ident); ok {
						// restoring a saved scope: tmp := c.typeScope ... c.typeScope = tmp
						if def := c.singleDef(id); def != nil && strings.HasSuffix(nosp(c.Src(def)), ".typeScope") {
							continue
						}
					}
					scopeAssigns++
					src := expandRHS(rhs, cs.Fn)
					fromPath := strings.Contains(src, "expPrefix(") && !strings.Contains(src, "pkgPrefix(") && !strings.Contains(src, ".FuncName")
					r.check(fromPath, "type scope from the import path ("+lab+")", c.Pos(as), "the scope of function-local types is built with expPrefix",
						"compile(\""+lab+"\") builds the scope that keys function-local types from the package *name* (pkgPrefix / FuncName): local types of net/codec.New and disk/codec.New (both `package codec`) share one global — their fields are merged (a struct declared {path; id} prints &{id:1 host: ready:false path:/tmp/x})")
					if lab == "method" {
						perMethod := strings.Contains(src, "Tokens[methodName]") || strings.Contains(src, "Tokens[1]")
						r.check(perMethod, "method scope names the method", c.Pos(as), "each method is a scope of its own",
							"compile(\"method\") keys the local types of every method of a receiver type by the type alone: two methods that each declare a local `type rec ..` share one global — the declarations are merged (instances gain the other type's fields, a shared field name takes the zero value and type of whichever ran last)")
					}
					if lab == "lambda" {
						full := strings.Contains(src, ".Pos.String()") || strings.Contains(src, ".Filename")
						r.check(full, "literal scope from the full position", c.Pos(as), "a function literal's scope includes the file it is written in",
							"compile(\"lambda\") names a function literal's type scope by line and column only: two literals that start at the same line:column in two files of a package share their local types — same-named local structs are merged, so moving a literal to another file changes what the program prints")
					}
				}
			}
		}
		if scopeAssigns == 0 {
			r.undecided("type scope", "-", "no assignment to the compiler's type scope found in the function / method / lambda / init cases")
		}
	}
	// a package may have several init functions: the scope their local types are keyed by
	// differs from one init to the next (it involves a counter), it is not the constant <pkg>.init
	if cs, err := c.compileSwitch(); err == nil {
		if sc := cs.ByLabel["init"]; sc != nil {
			counted := false
			ast.Inspect(sc.Clause, func(q ast.Node) bool {
				as, ok := q.(*ast.AssignStmt)
				if !ok {
					return true
				}
				for i, l := range as.Lhs {
					if sel, ok := unparen(l).(*ast.SelectorExpr); ok && sel.Sel.Name == "FuncName" {
						continue
					}
					if i >= len(as.Rhs) {
						continue
					}
					if _, isSel := unparen(l).(*ast.SelectorExpr); !isSel {
						if _, isId := unparen(l).(*ast.Ident); !isId {
							continue
						}
					}
					if b, ok := c.TypeOf(l).Underlying().(*types.Basic); !ok || b.Kind() != types.String {
						continue
					}
					ast.Inspect(as.Rhs[i], func(k ast.Node) bool {
						if e, ok := k.(ast.Expr); ok {
							if bt, ok := c.TypeOf(e).(*types.Basic); ok && bt.Info()&types.IsInteger != 0 {
								if _, isConst := c.ConstOf(e); !isConst {
									counted = true
								}
							}
						}
						return true
					})
				}
				return true
			})
			r.check(counted, "init scopes distinct", c.Pos(sc.Clause), "each init function gets a type scope of its own (numbered)",
				"compile(\"init\") gives every init function of a package the same scope name: two init functions that each declare a local `type rec ..` share one global slot — fields merged, or GLOBALSTRUCT fails and every importer with it")
		}
	}
}
