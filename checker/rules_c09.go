package main

import (
	"fmt"
	"go/ast"
	"go/token"
	"go/types"
	"regexp"
	"sort"
	"strings"
)

// ---- FRM-INVOKE ----

func ruleFrmInvoke(c *Ctx, r *R) {
	// every invocation of the field funcT.Value
	n := 0
	for _, f := range c.Pkg.Syntax {
		ast.Inspect(f, func(m ast.Node) bool {
			call, ok := m.(*ast.CallExpr)
			if !ok {
				return true
			}
			sel, ok := unparen(call.Fun).(*ast.SelectorExpr)
			if !ok || sel.Sel.Name != "Value" {
				return true
			}
			s := c.Info.Selections[sel]
			if s == nil || s.Kind() != types.FieldVal || !isNamed(c.TypeOf(sel.X), "funcT") {
				return true
			}
			n++
			fd := c.EnclosingFunc(call)
			name := "?"
			if fd != nil {
				name = c.fnName(fd)
			}
			_, readyFn := c.callProtocol()
			okSite := name == "newMethod" || (readyFn != nil && fd == readyFn)
			r.check(okSite, "invoke in "+name, c.Pos(call), "the only sanctioned invocation sites",
				"funcT.Value is invoked directly in "+name+": the call bypasses the argument-count check and result trimming of the call protocol")
			return true
		})
	}
	if n == 0 {
		r.undecided("funcT.Value", "-", "no invocation of funcT.Value found")
	}
	// handlers reach script functions only through call / callReady
	m, err := newHndMachine(c)
	if err != nil {
		r.undecided("exec", "-", err.Error())
		return
	}
	packFn, readyFn := c.callProtocol()
	if packFn == nil || readyFn == nil {
		r.undecided("protocol", "-", "the packing and the ready function of the call protocol were not found")
		return
	}
	want := map[string]string{"codeCall": packFn.Name.Name, "codeFastCall": packFn.Name.Name, "codeFastCallAttr": packFn.Name.Name, "codeCallVariadic": readyFn.Name.Name}
	for _, op := range sortedKeys(want) {
		sc := m.sw.ByLabel[op]
		if sc == nil {
			r.fail(op, "-", "no handler for "+op)
			continue
		}
		ps, err := m.single(op)
		if err != nil || len(ps) == 0 {
			r.undecided(op, c.Pos(sc.Clause), fmt.Sprint("cannot summarise: ", err))
			continue
		}
		good := true
		got := ""
		for _, p := range ps {
			found := false
			for _, cl := range p.Calls {
				got = cl
				if strings.HasPrefix(cl, want[op]+"(v, ") {
					found = true
				}
				if strings.Contains(cl, "fieldcall.Value") {
					good = false
				}
			}
			if !found {
				good = false
			}
		}
		r.check(good, op, c.Pos(sc.Clause), "invokes through "+want[op], fmt.Sprintf("the handler of %s does not go through %s (%s)", op, want[op], got))
	}
}

// ---- FRM-CHECKS ----

func condStrings(st *State) string {
	var s []string
	for _, cd := range st.Conds {
		s = append(s, cd.String())
	}
	return strings.Join(s, " && ")
}

func effIndex(st *State, pred func(Effect) bool) int {
	for i, e := range st.Eff {
		if pred(e) {
			return i
		}
	}
	return -1
}

func ruleFrmChecks(c *Ctx, r *R) {
	_, fd := c.callProtocol()
	if fd == nil {
		r.undecided("callReady", "-", "the function that invokes funcT.Value was not found")
		return
	}
	m := newLenMachine(c, "v")
	paths := m.in.ExecFunc(fd, canonParams(fd, "v", "ft", "xArgs", "xRets"))
	pos := c.Pos(fd)
	isInvoke := func(e Effect) bool {
		return e.Kind == "call" && e.Value != nil && strings.HasPrefix(e.Value.Name, "fieldcall.Value")
	}
	var argPanic, invoked int
	fewPanic, manyTrim, exact := false, false, false
	for _, p := range paths {
		cs := condStrings(p)
		inv := effIndex(p, isInvoke)
		if inv < 0 {
			if p.Done == "panic" && strings.Contains(cs, "(xArgs != ft.Args)") {
				argPanic++
			} else {
				r.fail("args-check", pos, "a path of callReady returns without invoking the function and without the argument-count panic: "+cs)
			}
			continue
		}
		invoked++
		if !strings.Contains(cs, "!(xArgs != ft.Args)") && !strings.Contains(cs, "(xArgs == ft.Args)") {
			r.fail("args-check", pos, "callReady can invoke the function on a path where xArgs != ft.Args was not excluded: "+cs)
		}
		final := m.finalLen(p).String()
		switch {
		case p.Done == "panic":
			// produced fewer than requested
			if strings.Contains(cs, "<") || strings.Contains(cs, ">") {
				fewPanic = true
			}
		case final == "<+L -xArgs +xRets>":
			manyTrim = true
		default:
			exact = true
		}
	}
	r.check(argPanic >= 1 && invoked >= 1, "args-check", pos, "xArgs != ft.Args panics before the invocation; every invoking path excludes it",
		"callReady no longer rejects a wrong argument count before invoking the function: the callee's frame base is misaligned")
	r.check(fewPanic, "few-results", pos, "fewer results than requested is an error", "callReady does not panic when the callee produced fewer results than requested: the caller pops operands that were never pushed")
	r.check(manyTrim, "many-results", pos, "surplus results are cut to top+xRets", "callReady does not truncate surplus results to exactly len-xArgs+xRets: extra values stay on the caller's operand stack")
	_ = exact
}

// ---- FRM-VARIADIC ----

func ruleFrmVariadic(c *Ctx, r *R) {
	fd, readyDecl := c.callProtocol()
	if fd == nil || readyDecl == nil {
		r.undecided("call", "-", "the variadic-packing function of the call protocol was not found")
		return
	}
	readyName := readyDecl.Name.Name
	m := newLenMachine(c, "v")
	paths := m.in.ExecFunc(fd, canonParams(fd, "v", "ft", "xArgs", "xRets"))
	pos := c.Pos(fd)
	var direct, packed *State
	var allPacked []*State
	for _, p := range paths {
		if p.Done == "panic" {
			continue
		}
		cs := condStrings(p)
		if strings.Contains(cs, "!ft.Variadic") && !strings.Contains(cs, "!!") {
			direct = p
		} else {
			packed = p
			allPacked = append(allPacked, p)
		}
	}
	ready := func(p *State) *T {
		for _, e := range p.Eff {
			if e.Kind == "call" && e.Value != nil && e.Value.Name == readyName {
				return e.Value
			}
		}
		return nil
	}
	if direct == nil || packed == nil {
		r.undecided("paths", pos, fmt.Sprintf("expected a non-variadic and a variadic path, got %d paths", len(paths)))
		return
	}
	d := ready(direct)
	r.check(d != nil && len(d.Args) == 4 && d.Args[2].String() == "xArgs" && d.Args[3].String() == "xRets", "non-variadic", pos, "callReady(v, ft, xArgs, xRets) unchanged",
		"the non-variadic path of `call` does not forward xArgs/xRets unchanged to callReady")
	// every variadic path (a fast path for "nothing to pack" included) hands on ft.Args with the
	// stack at L - xArgs + ft.Args: a path that pushes the empty slice without checking that the
	// fixed arguments are all there lets f() with a missing argument run on a misaligned frame
	for pi, packed := range allPacked {
		sfx := ""
		if pi > 0 {
			sfx = fmt.Sprintf(" #%d", pi+1)
		}
		pk := ready(packed)
		if pk == nil || len(pk.Args) != 4 {
			r.fail("variadic"+sfx, pos, "a variadic path of `call` ("+condStrings(packed)+") does not reach callReady")
			continue
		}
		// identities are judged modulo an equation the path has established (nVarArgs == 0)
		var eqs []*linForm
		for _, cd := range packed.Conds {
			if cd.Op == "bin" && cd.Name == "==" && len(cd.Args) == 2 {
				if k, ok := toLin(cd.Args[1]).isConst(); ok && k == 0 {
					eqs = append(eqs, toLin(cd.Args[0]))
				}
			}
		}
		sameLin := func(a, b *linForm) bool {
			d := a.add(b, -1)
			if k, ok := d.isConst(); ok && k == 0 {
				return true
			}
			for _, e := range eqs {
				for _, sgn := range []int64{1, -1} {
					if k, ok := d.add(e, sgn).isConst(); ok && k == 0 {
						return true
					}
				}
			}
			return false
		}
		wantCount := newLin()
		wantCount.Coef["ft.Args"] = 1
		wantCount.Atom["ft.Args"] = tField(tVar(nil, "ft"), "Args")
		r.check(linOf(pk.Args[2]).String() == "ft.Args" || sameLin(linOf(pk.Args[2]), wantCount), "variadic-count"+sfx, pos, "the count handed on equals ft.Args for every xArgs",
			"after packing, `call` hands callReady the count "+linOf(pk.Args[2]).String()+" instead of ft.Args: a well-formed variadic call is rejected or misaligned")
		// stack: shrinks by nVarArgs and grows by one (the packed slice): stack length when callReady is called
		lenAt := ""
		var lenLin *linForm
		for _, e := range packed.Eff {
			if e.Kind == "call" && e.Value != nil && e.Value.Name == readyName {
				break
			}
			if e.Kind == "stack" && strings.HasPrefix(e.Value.Name, "len=") {
				lenAt = strings.TrimPrefix(strings.SplitN(e.Value.Name, " via", 2)[0], "len=")
				lenLin = parseLinText(lenAt)
			}
		}
		okLen := lenAt == "<+L +ft.Args -xArgs>" || lenAt == "<+ft.Args +L -xArgs>"
		if !okLen && lenLin != nil {
			want := newLin()
			want.Coef["L"], want.Atom["L"] = 1, tVar(nil, "L")
			want.Coef["ft.Args"], want.Atom["ft.Args"] = 1, tField(tVar(nil, "ft"), "Args")
			want.Coef["xArgs"], want.Atom["xArgs"] = -1, tVar(nil, "xArgs")
			okLen = sameLin(lenLin, want)
		}
		r.check(okLen, "variadic-stack"+sfx, pos, "len = L - (xArgs-ft.Args+1) + 1",
			"a variadic path ("+condStrings(packed)+") leaves the stack at length "+lenAt+" instead of L-xArgs+ft.Args when it reaches callReady: the surplus arguments are not replaced by exactly one slice, or a call that lacks fixed arguments is let through (`7; v := f()` with f(a int, xs ...int) takes 7 as a)")
	}
	// no surplus argument: the variadic parameter is the nil slice (xs == nil), not an empty one
	nilWhenNone := false
	for _, hfd := range c.withHelpers(fd) {
		ast.Inspect(hfd.Body, func(n ast.Node) bool {
			ifs, ok := n.(*ast.IfStmt)
			if !ok {
				return true
			}
			be, ok := unparen(ifs.Cond).(*ast.BinaryExpr)
			if !ok || be.Op != token.EQL {
				return true
			}
			if z, ok := c.ConstInt(be.Y); !ok || z != 0 {
				return true
			}
			ast.Inspect(ifs.Body, func(m ast.Node) bool {
				if cl, ok := m.(*ast.CompositeLit); ok && isNamed(c.TypeOf(cl), "Value") {
					hasT, hasValue := false, false
					for _, el := range cl.Elts {
						if kv, ok := el.(*ast.KeyValueExpr); ok {
							switch types.ExprString(kv.Key) {
							case "t":
								hasT = true
							case "value":
								hasValue = true
							}
						}
					}
					if hasT && !hasValue {
						nilWhenNone = true
					}
				}
				return true
			})
			return true
		})
	}
	r.check(nilWhenNone, "variadic-nil", pos, "a variadic call without surplus arguments passes the typed nil slice",
		"`call` packs an empty, non-nil slice when a variadic function gets no surplus argument: func opts(o ...string) with `if o == nil` takes the wrong branch for opts() (Go passes nil)")
	// the packed slice is freshly made and filled by copy
	fresh := false
	for _, hfd := range c.withHelpers(fd) {
		hfd := hfd
		ast.Inspect(hfd.Body, func(n ast.Node) bool {
			if call, ok := n.(*ast.CallExpr); ok && (c.CalleeName(call) == "NewSlice" || c.CalleeName(call) == "newSlice") && len(call.Args) == 2 {
				if id, ok := unparen(call.Args[1]).(*ast.Ident); ok {
					mk, cp := false, false
					ast.Inspect(hfd.Body, func(k ast.Node) bool {
						switch x := k.(type) {
						case *ast.AssignStmt:
							if lid, ok := x.Lhs[0].(*ast.Ident); ok && c.Obj(lid) == c.Obj(id) && len(x.Rhs) == 1 {
								if mc, ok := unparen(x.Rhs[0]).(*ast.CallExpr); ok && c.CalleeName(mc) == "builtin.make" {
									mk = true
								} else if ok && c.returnsFreshCopy(c.DeclOf(c.Callee(mc))) {
									mk, cp = true, true // a helper that makes a slice, copies into it and returns it
								}
							}
						case *ast.CallExpr:
							if c.CalleeName(x) == "builtin.copy" {
								if did, ok := unparen(x.Args[0]).(*ast.Ident); ok && c.Obj(did) == c.Obj(id) {
									cp = true
								}
							}
						}
						return true
					})
					fresh = mk && cp
				}
			}
			return true
		})
	}
	r.check(fresh, "variadic-copy", pos, "surplus arguments are copied into a fresh slice", "the packed variadic slice aliases the operand stack (no make+copy): the next push overwrites the callee's arguments")
}

// ---- LAY-FUNC ----

func ruleLayFunc(c *Ctx, r *R) {
	cs, err := c.compileSwitch()
	if err != nil {
		r.undecided("compile", "-", err.Error())
		return
	}
	sc := cs.ByLabel["func"]
	if sc == nil {
		r.undecided("func", "-", "no func case")
		return
	}
	pos := c.Pos(sc.Clause)
	m := newLayMachine(c)
	cl, err := m.runCase(cs, "func")
	if err != nil || len(cl.Paths) == 0 {
		r.undecided("func", pos, fmt.Sprint("no layout: ", err, cl.Flags))
		return
	}
	for _, f := range cl.Flags {
		r.undecided("func flags", pos, f)
	}
	seen := map[string]bool{}
	for _, p := range cl.Paths {
		atoms := m.live(p)
		var sh []string
		for _, a := range atoms {
			sh = append(sh, roleOf("func", a))
		}
		shape := strings.Join(sh, " ")
		if seen[shape] {
			continue
		}
		seen[shape] = true
		if !r.check(len(atoms) == 4 && sh[0] == "Func" && atoms[1].Seg != nil && atoms[2].Seg != nil && sh[3] == "block", "writer-shape "+shape, pos, "[FUNC][types][result types][block]",
			"the func case emits `"+shape+"`, not [FUNC][one TYPE per argument][one TYPE per result][block]") {
			continue
		}
		fn := atoms[0].Ins
		// C = len(block)
		cval := m.applyZero(p.St, linOf(litField(fn, "C")))
		blen := m.lenLin(p.St, []*atom{atoms[3]})
		r.check(cval.String() == blen.String(), "FUNC.C", pos, "C = len(block)", "FUNC.C is "+cval.String()+", not the length of the body "+blen.String())
		// header length = |args| + rets, from the two loops
		tl, rl := atoms[1].Seg.LenExpr, atoms[2].Seg.LenExpr
		okLens := tl != nil && rl != nil && atoms[1].Seg.Iter != nil && atoms[1].Seg.Iter.PerIter == 1 && atoms[2].Seg.Iter != nil && atoms[2].Seg.Iter.PerIter == 1
		if okLens {
			// the result loop's length includes what was in res before it: FUNC and the types
			hdr := tl.add(rl, 1)
			r.ok("header", "types: "+tl.String()+" results(+prefix): "+rl.String()+" total "+hdr.String())
		} else {
			r.fail("header", pos, "the argument/result type instructions are not emitted one per argument and one per result")
		}
		// A = joinParams(arguments, returns) with arguments = ±len(argument tokens), returns = len(result tokens)
		a := litField(fn, "A")
		okA := a != nil && a.Op == "call" && a.Name == "joinParams" && len(a.Args) == 2
		if okA {
			args, rets := linOf(a.Args[0]), linOf(a.Args[1])
			as, rs := args.String(), rets.String()
			okA = (as == "len(tok.Tokens[0].Tokens)" || as == "<-len(tok.Tokens[0].Tokens)>") && rs == "len(tok.Tokens[1].Tokens)"
			r.check(okA, "FUNC.A "+as, pos, "A = join(±#arguments, #results)", "FUNC.A packs ("+as+", "+rs+"), not (±number of arguments, number of results)")
		} else {
			r.fail("FUNC.A", pos, "FUNC.A is not joinParams(arguments, returns)")
		}
	}
	// reader: exec's FUNC handler
	ex, err := c.execSwitch()
	if err != nil {
		r.undecided("exec", "-", err.Error())
		return
	}
	hc := ex.ByLabel["codeFunc"]
	if hc == nil {
		r.fail("reader", "-", "no handler for codeFunc")
		return
	}
	in := newInterp(c)
	st := newState()
	in.bindParams(st, ex.Fn.Recv, ex.Fn.Type, map[string]*T{ex.Fn.Recv.List[0].Names[0].Name: tVar(nil, "v")})
	for _, s := range ex.Fn.Body.List {
		if _, ok := s.(*ast.ForStmt); ok {
			break
		}
		st = in.execStmt(s, st)[0]
	}
	res := in.execStmts(hc.Clause.Body, []*State{st})
	hpos := c.Pos(hc.Clause)
	for _, p := range res {
		cs := condStrings(p)
		// nargs on this path
		var nargs string
		for o, v := range p.Vars {
			if o != nil && o.Name() == "nargs" {
				nargs = v.String()
			}
		}
		neg := strings.Contains(cs, "< 0")
		wantN := "splitParams(v.frame.Codes[v.frame.N].A)#0"
		if neg {
			wantN = "<-" + wantN + ">"
		}
		r.check(nargs == wantN, "reader nargs "+cs, hpos, "nargs = |args|", "exec's FUNC handler computes nargs = "+nargs+" on path ["+cs+"], expected "+wantN)
		// tokens = codes[N+1 : N+1+int(nargs+rets+jump)] and N += int(nargs+rets+jump)
		var tok *T
		for o, v := range p.Vars {
			if o != nil && o.Name() == "tokens" {
				tok = v
			}
		}
		adv := p.Mem["v.frame.N"]
		good := tok != nil && tok.Op == "slice" && adv != nil
		if good {
			lo, hi := linOf(tok.Args[1]), linOf(tok.Args[2])
			n0 := toLin(tField(tField(tVar(nil, "v"), "frame"), "N"))
			one := newLin()
			one.K = 1
			span := hi.add(lo, -1)
			step := linOf(adv).add(n0, -1)
			good = lo.String() == n0.add(one, 1).String() && span.String() == step.String()
			r.check(good, "reader span "+cs, hpos, "tokens = codes[N+1 : N+1+k], N += k with k = nargs+rets+C", fmt.Sprintf("exec's FUNC handler slices codes[%s:%s] but advances the program counter by %s: header/body and skip disagree", lo, hi, step))
			// k = int(nargs + rets + jump)
			ks := step.String()
			r.check(strings.Contains(ks, "#1") && strings.Contains(ks, ".C") && strings.Contains(ks, "#0"), "reader k "+cs, hpos, "k mentions nargs, rets and C", "the FUNC block length "+ks+" does not add the argument count, the result count and C")
		} else {
			r.fail("reader span "+cs, hpos, "exec's FUNC handler does not slice the block out of codes and advance past it")
		}
	}
	// mkFunc: body = tokens[args+rets:]
	if fd := c.Func("mkFunc"); fd != nil {
		ok := false
		ast.Inspect(fd.Body, func(n ast.Node) bool {
			if se, ok2 := n.(*ast.SliceExpr); ok2 && c.Src(se.X) == "tokens" && se.High == nil && se.Low != nil && nosp(c.Src(se.Low)) == "args+rets" {
				ok = true
			}
			return true
		})
		r.check(ok, "mkFunc body", c.Pos(fd), "runs tokens[args+rets:]", "mkFunc does not run tokens[args+rets:] as the body: header TYPE instructions would be executed or body instructions skipped")
	}
}

// ---- FRM-METHOD ----

func ruleFrmMethod(c *Ctx, r *R) {
	fd := c.Func("newMethod")
	if fd == nil {
		r.undecided("newMethod", "-", "not found")
		return
	}
	m := newLenMachine(c, "v")
	outer := m.in.ExecFunc(fd, nil)
	pos := c.Pos(fd)
	n := 0
	for _, o := range outer {
		if len(o.Ret) != 1 || o.Ret[0].Op != "call" || o.Ret[0].Name != "newFunc" || len(o.Ret[0].Args) != 3 || o.Ret[0].Args[2].Op != "func" {
			r.undecided("newMethod", pos, "does not return newFunc(argc, rets, closure)")
			continue
		}
		n++
		cs := condStrings(o)
		argc := linOf(o.Ret[0].Args[0]).String()
		want := "<+f.Args -1>"
		if strings.Contains(cs, "f.Variadic") && !strings.Contains(cs, "!f.Variadic") {
			want = "<-f.Args +1>"
		}
		r.check(argc == want, "argc "+cs, pos, "bound method takes f.Args-1 arguments (negative when variadic)", "newMethod registers "+argc+" arguments on path ["+cs+"], expected "+want)
		if want == "<-f.Args +1>" {
			// a variadic bound method packs its surplus arguments itself (call() uses the
			// wrapper's VariadicType), so the wrapper must carry the method's element type
			carries := false
			for _, e := range o.Eff {
				if e.Kind == "store" && e.Target != nil && strings.HasSuffix(e.Target.String(), ".VariadicType") && strings.Contains(e.Target.String(), "newFunc(") && e.Value != nil && e.Value.String() == "f.VariadicType" {
					carries = true
				}
			}
			r.check(carries, "variadic element type", pos, "the wrapper's VariadicType is the method's", "newMethod does not hand the method's VariadicType on to the bound-method wrapper: the surplus arguments of t.M(3) with M(xs ...float64) are packed into a slice with no element type, so untyped constants are not converted (xs[0]/2 is an integer division)")
		}
		fl := o.Ret[0].Args[2].Aux.(*ast.FuncLit)
		st := o.Clone()
		st.Done, st.Ret, st.Eff, st.X = "", nil, nil, nil
		res := m.in.ExecLit(fl, st, map[string]*T{fl.Type.Params.List[0].Names[0].Name: tVar(nil, "v")})
		// a bound method value outlives a redefinition of its method (the method table entry is
		// rewritten in place): the closure refuses to run a body whose parameter list is no longer
		// the one it was bound and its arguments were counted for
		var normal []*State
		for _, p := range res {
			if p.Done != "panic" {
				normal = append(normal, p)
			}
		}
		// (the interpreter has no notion of time: f.Args read at bind time and at call time are
		// the same term to it, so the guard is recognised in the syntax) a terminating
		// `if <f.Args ..> != <captured> || f.Variadic != <captured> { panic }` before anything else
		guarded := false
		if len(fl.Body.List) > 0 {
			if ifs, ok := fl.Body.List[0].(*ast.IfStmt); ok && ifs.Init == nil && ifs.Else == nil && terminating(ifs.Body) {
				argsCmp, varCmp := false, false
				for _, dj := range disjuncts(ifs.Cond) {
					be, ok := unparen(dj).(*ast.BinaryExpr)
					if !ok || be.Op != token.NEQ {
						continue
					}
					l, rr := nosp(c.Src(be.X)), nosp(c.Src(be.Y))
					captured := func(e ast.Expr) bool {
						id, ok := unparen(e).(*ast.Ident)
						if !ok {
							return false
						}
						o := c.Obj(id)
						return o != nil && (o.Pos() < fl.Pos() || o.Pos() > fl.End())
					}
					if strings.Contains(l, "f.Args") && captured(be.Y) || strings.Contains(rr, "f.Args") && captured(be.X) {
						argsCmp = true
					}
					if l == "f.Variadic" && captured(be.Y) || rr == "f.Variadic" && captured(be.X) {
						varCmp = true
					}
				}
				guarded = argsCmp && varCmp
			}
		}
		r.check(guarded, "stale signature "+cs, c.Pos(fl), "the closure panics (incorrect args) when the method's parameter list changed since binding",
			"the bound-method closure calls the method's current body with the argument count frozen at bind time: after `cb := obj.scale` (two parameters) and a redefinition `func (t *T) scale(v int)`, cb(2, 3) runs the new body on a misaligned frame (receiver = 2) and returns the receiver, without any error")
		res = normal
		if len(res) != 1 {
			r.undecided("closure "+cs, pos, "closure is not straight-line")
			continue
		}
		// stack events: cut xArgs, push obj, push args..., then invoke
		var ev []string
		for _, e := range res[0].Eff {
			if e.Kind == "stack" {
				ev = append(ev, e.Value.Name)
			}
			if e.Kind == "call" {
				ev = append(ev, "call "+e.Value.Name)
			}
		}
		s := strings.Join(ev, " | ")
		good := strings.Contains(s, "len=<+L -f.Args +1>") && strings.Contains(s, "len=<+L -f.Args +2>") && strings.Contains(s, "len=<+L +1>") && strings.HasSuffix(strings.TrimSpace(s[:strings.LastIndex(s, "stack changed")+1]), "s") && strings.Contains(s, "call fieldcall.Value")
		// order: receiver pushed right after the cut, arguments after it
		r.check(good, "closure "+cs, c.Pos(fl), "arguments cut, receiver pushed, arguments pushed back, function invoked",
			"the bound-method closure does not insert the receiver under the arguments and invoke the function: "+s)
	}
	if n == 0 {
		r.undecided("newMethod", pos, "no path analysed")
	}
}

// canonParams binds a function's parameters, in order, to variables with the given canonical names.
func canonParams(fd *ast.FuncDecl, names ...string) map[string]*T {
	out := map[string]*T{}
	i := 0
	for _, f := range fd.Type.Params.List {
		for _, n := range f.Names {
			if i < len(names) {
				out[n.Name] = tVar(nil, names[i])
			}
			i++
		}
	}
	return out
}

// FRM-REDEFINE: when a function or method that already exists is defined again, the
// existing function object is either replaced as a whole or overwritten as a whole
// (`*old = *new`).  Copying only some fields (e.g. just the body) leaves the arity,
// result count and variadic flags of the previous definition attached to the new body,
// and the next call sets up the wrong frame.
func ruleFrmRedefine(c *Ctx, r *R) {
	// the fields of funcT
	var fields []string
	if nt := c.NamedType("funcT"); nt != nil {
		if st, ok := nt.Underlying().(*types.Struct); ok {
			for i := 0; i < st.NumFields(); i++ {
				if !st.Field(i).Embedded() {
					fields = append(fields, st.Field(i).Name())
				}
			}
		}
	}
	if len(fields) < 3 {
		r.undecided("funcT", "-", "funcT's fields not found")
		return
	}
	judge := func(key, pos string, stores []string) {
		covered := map[string]bool{}
		partial := false
		for _, s := range stores {
			eq := strings.Index(s, " = ")
			if eq < 0 {
				continue
			}
			lhs := s[:eq]
			for _, f := range fields {
				if strings.HasSuffix(lhs, "."+f) && (strings.Contains(lhs, "funcT") || strings.Contains(lhs, "getFunc")) {
					covered[f] = true
					partial = true
				}
			}
		}
		if !partial {
			r.ok(key, "whole-object replacement or copy")
			return
		}
		var missing []string
		for _, f := range fields {
			if !covered[f] {
				missing = append(missing, f)
			}
		}
		r.check(len(missing) == 0, key, pos, "all fields copied",
			key+" overwrites an existing function object field by field and leaves out "+strings.Join(missing, ", ")+": after a redefinition with a different signature the new body runs with the old arity/result/variadic metadata, so arguments and results are misaligned on the stack")
	}
	m, err := newHndMachine(c)
	if err != nil {
		r.undecided("exec", "-", err.Error())
		return
	}
	n := 0
	for _, op := range []string{"codeGlobalFunc", "codeSetMethod"} {
		sc := m.sw.ByLabel[op]
		if sc == nil {
			continue
		}
		ps, err := m.single(op)
		if err != nil {
			r.undecided(op, c.Pos(sc.Clause), err.Error())
			continue
		}
		for i, p := range ps {
			n++
			judge(fmt.Sprintf("%s path %d", strings.TrimPrefix(op, "code"), i), c.Pos(sc.Clause), p.Stores)
		}
	}
	if fd := c.Func("Value.addMethod"); fd != nil {
		for i, p := range c.pathsOf("Value.addMethod") {
			n++
			var stores []string
			for _, e := range p.Eff {
				if e.Kind == "store" {
					stores = append(stores, e.String())
				}
			}
			judge(fmt.Sprintf("addMethod path %d", i), c.Pos(fd), stores)
		}
	}
	if n < 3 {
		r.undecided("redefine", "-", fmt.Sprintf("only %d definition paths found", n))
	}
}

// FRM-PARAMSLOT: compile("func") gives every parameter a slot of its own, so the frame
// (slots = Locals.Cap()) is never smaller than the argument count: parameters are
// registered with Locals.Shadow, which always allocates, never with Locals.Index, which
// returns the slot of an earlier parameter of the same name (func f(_ int, _ int)).
func ruleFrmParamSlot(c *Ctx, r *R) {
	cs, err := c.compileSwitch()
	if err != nil {
		r.undecided("compile", "-", err.Error())
		return
	}
	fsc := cs.ByLabel["func"]
	if fsc == nil {
		r.undecided("func", "-", "no compile-case")
		return
	}
	nShadow, nIndex := 0, 0
	var clauses []ast.Node = []ast.Node{fsc.Clause}
	// new helpers called from the clause
	ast.Inspect(fsc.Clause, func(n ast.Node) bool {
		if call, ok := n.(*ast.CallExpr); ok {
			if o := c.Callee(call); o != nil && c.isNewHelper(o) {
				if h := c.DeclOf(o); h != nil && h.Body != nil {
					clauses = append(clauses, h.Body)
				}
			}
		}
		return true
	})
	for _, cl := range clauses {
		ast.Inspect(cl, func(n ast.Node) bool {
			rs, ok := n.(*ast.RangeStmt)
			if !ok {
				return true
			}
			v, ok := rs.Value.(*ast.Ident)
			if !ok {
				return true
			}
			ast.Inspect(rs.Body, func(m ast.Node) bool {
				call, ok := m.(*ast.CallExpr)
				if !ok || len(call.Args) != 1 || nosp(c.Src(call.Args[0])) != v.Name+".Text" {
					return true
				}
				sel, ok := unparen(call.Fun).(*ast.SelectorExpr)
				if !ok || !strings.HasSuffix(nosp(c.Src(sel.X)), ".Locals") {
					return true
				}
				switch c.CalleeName(call) {
				case "lookup.Shadow":
					nShadow++
				case "lookup.Index":
					nIndex++
					r.fail("param slot "+c.Src(call.Args[0]), c.Pos(call), "compile(\"func\") registers a parameter with Locals.Index, which reuses the slot of an earlier parameter of the same name: func f(_ int, _ int) gets one slot for two arguments, so the frame is smaller than its arguments and the call fails (or a later local aliases an argument); Locals.Shadow always allocates")
				}
				return true
			})
			return true
		})
	}
	// ... and Shadow does always allocate: every path of lookup.Shadow moves an existing binding
	// of the name aside (shadow) before Index hands out the slot — for every name, `_` included
	if sps := c.pathsOf("lookup.Shadow"); len(sps) > 0 {
		bad := ""
		for _, p := range sps {
			if p.Done == "panic" {
				continue
			}
			moved := false
			for _, e := range p.Eff {
				if e.Kind == "call" && e.Value != nil && e.Value.Name == "lookup.shadow" {
					moved = true
				}
			}
			if !moved {
				bad = condStrings(p)
			}
		}
		r.check(bad == "", "Shadow always allocates", c.Pos(c.Func("lookup.Shadow")), "lookup.Shadow shadows on every path",
			"lookup.Shadow skips the shadowing step on a path ("+bad+") and so returns the slot of an existing binding of that name: two `_` parameters share one slot, every later parameter is compiled one slot too low — third(_ int, _ int, x int) returns its second argument")
	} else {
		r.undecided("Shadow always allocates", "-", "lookup.Shadow not found")
	}
	if nShadow > 0 && nIndex == 0 {
		r.ok("param slot", "each parameter is registered with Locals.Shadow (always allocates)")
	} else if nShadow == 0 && nIndex == 0 {
		r.undecided("param slot", c.Pos(fsc.Clause), "the registration of the parameters in the function's local table was not found")
	}
}

// LAY-EVALORDER: Go performs the calls of an expression in lexical left-to-right order, so
// in f(a...)/recv.m(a...) a call inside the function operand (getF()(..), s.pop().sub(..))
// happens before the calls inside the arguments.  CALL wants the function on top of the
// stack, so compile("call") emits the arguments first; that is only unobservable when the
// operand and the arguments do not both contain calls.  On every path that emits the
// arguments before the function operand, the compiler must have established exactly that.
func ruleLayEvalOrder(c *Ctx, r *R) {
	cs, err := c.compileSwitch()
	if err != nil {
		r.undecided("compile", "-", err.Error())
		return
	}
	sc := cs.ByLabel["call"]
	if sc == nil {
		r.undecided("call", "-", "no compile-case")
		return
	}
	m := newLayMachine(c)
	cl, err := m.runCase(cs, "call")
	if err != nil {
		r.undecided("call", c.Pos(sc.Clause), err.Error())
		return
	}
	n, bad := 0, ""
	for _, p := range cl.Paths {
		argAt, fnAt, calls := -1, -1, false
		for i, a := range p.Atoms {
			if a.Ins != nil {
				if op := opName(a.Ins); op == "Call" || op == "CallVariadic" {
					calls = true
				}
				continue
			}
			if a.Seg == nil || a.Seg.Src == nil {
				continue
			}
			src := a.Seg.Src.String()
			switch {
			case strings.Contains(src, "compiler.compileAll(c, tok.Tokens[1].Tokens)"):
				argAt = i
			case strings.Contains(src, "compiler.compile(c, tok.Tokens[0])"):
				if fnAt < 0 {
					fnAt = i
				}
			}
		}
		if !calls || argAt < 0 || fnAt < 0 {
			continue
		}
		n++
		if fnAt < argAt {
			continue // operand first: Go's order
		}
		cond := condStrings(p.St)
		established := false
		for _, cd := range p.St.Conds {
			s := cd.String()
			if strings.HasPrefix(s, "!") && strings.Contains(s, "Call(") {
				established = true
			}
			// !A || !B (the De Morgan form of !(A && B))
			if t := strings.TrimSuffix(strings.TrimPrefix(s, "("), ")"); strings.Contains(t, " || ") {
				all := true
				for _, part := range strings.Split(t, " || ") {
					if !strings.HasPrefix(part, "!") || !strings.Contains(part, "Call(") {
						all = false
					}
				}
				if all {
					established = true
				}
			}
		}
		if !established && bad == "" {
			bad = cond
		}
	}
	if n == 0 {
		r.undecided("eval order", c.Pos(sc.Clause), "no path of compile(\"call\") emits a call of a compiled function operand")
		return
	}
	// the predicate that decides "this code contains a call" must know every calling opcode,
	// also the fused ones: operands may have been optimised already (the right operand of && / ||)
	if _, err := c.handlerNets(); err == nil && len(callingOpcodesSeen) > 0 {
		preds := map[string]bool{}
		for _, p := range cl.Paths {
			for _, cd := range p.St.Conds {
				for _, m := range regexp.MustCompile(`(\w*[cC]all\w*)\(seq:`).FindAllStringSubmatch(cd.String(), -1) {
					preds[m[1]] = true
				}
			}
		}
		for name := range preds {
			fd := c.Func(name)
			if fd == nil || fd.Body == nil {
				continue
			}
			listed := map[string]bool{}
			ast.Inspect(fd.Body, func(nd ast.Node) bool {
				if e, ok := nd.(ast.Expr); ok {
					if nm := c.codeConstName(e); nm != "" {
						listed[nm] = true
					}
				}
				return true
			})
			var missing []string
			for op := range callingOpcodesSeen {
				if !listed[op] {
					missing = append(missing, strings.TrimPrefix(op, "code"))
				}
			}
			sort.Strings(missing)
			r.check(len(missing) == 0, "call opcodes "+name, c.Pos(fd), "recognises every opcode whose handler calls a function", name+" does not recognise "+strings.Join(missing, ", ")+" although their handlers invoke a function: an operand that was already optimised (the right operand of && / ||, a case expression) hides its call from the evaluation-order decision, so `pick()(on && check())` runs check before pick with the optimiser on and after it with the optimiser off")
		}
	}
	r.check(bad == "", "eval order", c.Pos(sc.Clause), "arguments precede the function operand only when they cannot both contain calls",
		"compile(\"call\") emits the arguments before the function operand on a path that has not established that they do not both contain calls ("+bad+"): `s.pop().sub(s.pop())` pops the argument first (-9 instead of 9), `getF()(arg())` runs arg before getF")
}

// returnsFreshCopy: the function makes a slice, fills it with copy and returns that slice.
func (c *Ctx) returnsFreshCopy(fd *ast.FuncDecl) bool {
	if fd == nil || fd.Body == nil {
		return false
	}
	var made types.Object
	copied, returned := false, false
	ast.Inspect(fd.Body, func(n ast.Node) bool {
		switch x := n.(type) {
		case *ast.AssignStmt:
			if len(x.Lhs) == 1 && len(x.Rhs) == 1 {
				if mc, ok := unparen(x.Rhs[0]).(*ast.CallExpr); ok && c.CalleeName(mc) == "builtin.make" {
					if id, ok := x.Lhs[0].(*ast.Ident); ok && made == nil {
						made = c.Obj(id)
					}
				}
			}
		case *ast.CallExpr:
			if c.CalleeName(x) == "builtin.copy" && len(x.Args) == 2 {
				if id, ok := unparen(x.Args[0]).(*ast.Ident); ok && made != nil && c.Obj(id) == made {
					copied = true
				}
			}
		case *ast.ReturnStmt:
			if len(x.Results) == 1 {
				if id, ok := unparen(x.Results[0]).(*ast.Ident); ok && made != nil && c.Obj(id) == made {
					returned = true
				}
			}
		}
		return true
	})
	return made != nil && copied && returned
}

// parseLinText reads the canonical text of a linear form ("<+L +ft.Args -xArgs>", "L", "<+L +1>").
func parseLinText(s string) *linForm {
	s = strings.TrimSuffix(strings.TrimPrefix(strings.TrimSpace(s), "<"), ">")
	l := newLin()
	for _, tok := range strings.Fields(s) {
		sign := int64(1)
		switch {
		case strings.HasPrefix(tok, "+"):
			tok = tok[1:]
		case strings.HasPrefix(tok, "-"):
			sign, tok = -1, tok[1:]
		}
		if tok == "" {
			return nil
		}
		var k int64
		if _, err := fmt.Sscanf(tok, "%d", &k); err == nil && fmt.Sprint(k) == tok {
			l.K += sign * k
			continue
		}
		coef := int64(1)
		name := tok
		if i := strings.Index(tok, "*"); i > 0 {
			if _, err := fmt.Sscanf(tok[:i], "%d", &coef); err == nil {
				name = tok[i+1:]
			}
		}
		l.Coef[name] += sign * coef
		if l.Atom[name] == nil {
			l.Atom[name] = tVar(nil, name)
		}
	}
	return l
}

// PAR-RESULTTYPE: what follows a parameter list on the same line is the function's result
// type only when it can begin a type. getReturns decides that positively (the token is one
// that starts a type), not by excluding a handful of tokens that cannot: with an exclusion
// list, the `=` of `var cb func(int) = h` is taken for a result type and the declaration is a
// parse error.
func ruleParResultType(c *Ctx, r *R) {
	fd := c.Func("getReturns")
	if fd == nil {
		r.undecided("getReturns", "-", "not found")
		return
	}
	n := 0
	for _, h := range c.withHelpers(fd) {
		ast.Inspect(h.Body, func(m ast.Node) bool {
			call, ok := m.(*ast.CallExpr)
			if !ok || c.CalleeName(call) != "getType" {
				return true
			}
			// the innermost enclosing if that is not the parenthesised-list branch
			for p := c.Parent(call); p != nil && p != ast.Node(h.Body); p = c.Parent(p) {
				ifs, ok := p.(*ast.IfStmt)
				if !ok {
					continue
				}
				cs := c.Src(ifs.Cond)
				if strings.Contains(cs, `"("`) && !strings.Contains(cs, "!=") {
					return true // inside the `(` ... `)` result list: every entry is a type
				}
				n++
				positive := false
				ast.Inspect(ifs.Cond, func(q ast.Node) bool {
					switch x := q.(type) {
					case *ast.CallExpr:
						if d := c.DeclOf(c.Callee(x)); d != nil {
							positive = true // a predicate over the token
						}
					case *ast.BinaryExpr:
						if x.Op == token.EQL && strings.Contains(nosp(c.Src(x)), ".Symbol==") {
							positive = true
						}
					}
					return true
				})
				r.check(positive, "single result type", c.Pos(ifs), "a result type is read only when the next token can begin a type",
					"getReturns reads a result type whenever the next token on the line is not one of a few excluded ones ("+cs+"): in `var cb func(int) = h` the `=` reaches getType — `type: unexpected symbol: =` on a valid declaration")
				return true
			}
			return true
		})
	}
	if n == 0 {
		r.undecided("getReturns", c.Pos(fd), "no guarded single result type found")
	}
}
