package main

// A constant folder for pure string predicates (strings.HasPrefix / HasSuffix / Contains,
// path.Base, ==, &&, ||, !) with variables bound to sample constants, following new helper
// functions.  Used by LOAD-FILTER to decide which file names the package loader keeps: the
// rule states what must be kept and dropped, and the filter's spelling (inline test,
// predicate helper, positive or negative form) is left to the code.

import (
	"go/ast"
	"go/constant"
	"go/token"
	"go/types"
	"path"
	"strings"
)

type strEnv map[types.Object]constant.Value

func (c *Ctx) strEval(e ast.Expr, env strEnv, depth int) (constant.Value, bool) {
	e = unparen(e)
	if v, ok := c.ConstOf(e); ok {
		return v, true
	}
	switch x := e.(type) {
	case *ast.Ident:
		if v, ok := env[c.Obj(x)]; ok {
			return v, true
		}
	case *ast.UnaryExpr:
		if x.Op == token.NOT {
			if v, ok := c.strEval(x.X, env, depth); ok && v.Kind() == constant.Bool {
				return constant.MakeBool(!constant.BoolVal(v)), true
			}
		}
	case *ast.BinaryExpr:
		a, ok1 := c.strEval(x.X, env, depth)
		switch x.Op {
		case token.LAND:
			if ok1 && a.Kind() == constant.Bool && !constant.BoolVal(a) {
				return a, true
			}
		case token.LOR:
			if ok1 && a.Kind() == constant.Bool && constant.BoolVal(a) {
				return a, true
			}
		}
		b, ok2 := c.strEval(x.Y, env, depth)
		if !ok1 || !ok2 {
			return nil, false
		}
		switch x.Op {
		case token.LAND:
			return constant.MakeBool(constant.BoolVal(a) && constant.BoolVal(b)), true
		case token.LOR:
			return constant.MakeBool(constant.BoolVal(a) || constant.BoolVal(b)), true
		case token.EQL, token.NEQ, token.LSS, token.LEQ, token.GTR, token.GEQ:
			if a.Kind() != b.Kind() {
				return nil, false
			}
			return constant.MakeBool(constant.Compare(a, x.Op, b)), true
		case token.ADD:
			if a.Kind() == constant.String && b.Kind() == constant.String {
				return constant.MakeString(constant.StringVal(a) + constant.StringVal(b)), true
			}
		}
	case *ast.IndexExpr:
		// s[i] of a constant string
		s, ok1 := c.strEval(x.X, env, depth)
		i, ok2 := c.strEval(x.Index, env, depth)
		if ok1 && ok2 && s.Kind() == constant.String && i.Kind() == constant.Int {
			str := constant.StringVal(s)
			if k, ok := constant.Int64Val(i); ok && k >= 0 && int(k) < len(str) {
				return constant.MakeInt64(int64(str[k])), true
			}
		}
	case *ast.CallExpr:
		name := c.CalleeName(x)
		var args []constant.Value
		for _, a := range x.Args {
			v, ok := c.strEval(a, env, depth)
			if !ok {
				return nil, false
			}
			args = append(args, v)
		}
		str := func(i int) string { return constant.StringVal(args[i]) }
		allStr := true
		for _, a := range args {
			if a.Kind() != constant.String {
				allStr = false
			}
		}
		switch {
		case name == "strings.HasPrefix" && len(args) == 2 && allStr:
			return constant.MakeBool(strings.HasPrefix(str(0), str(1))), true
		case name == "strings.HasSuffix" && len(args) == 2 && allStr:
			return constant.MakeBool(strings.HasSuffix(str(0), str(1))), true
		case name == "strings.Contains" && len(args) == 2 && allStr:
			return constant.MakeBool(strings.Contains(str(0), str(1))), true
		case (name == "path.Base" || name == "filepath.Base" || name == "path/filepath.Base") && len(args) == 1 && allStr:
			return constant.MakeString(path.Base(str(0))), true
		case name == "builtin.len" && len(args) == 1 && allStr:
			return constant.MakeInt64(int64(len(str(0)))), true
		}
		if o := c.Callee(x); o != nil && c.isNewHelper(o) && depth < 4 {
			if h := c.DeclOf(o); h != nil && h.Body != nil && h.Recv == nil {
				henv := strEnv{}
				k := 0
				for _, f := range h.Type.Params.List {
					for _, nm := range f.Names {
						if k < len(args) {
							henv[c.Info.Defs[nm]] = args[k]
						}
						k++
					}
				}
				out, v, ok := c.strExec(h.Body.List, henv, depth+1)
				if ok && out == "return" && v != nil {
					return v, true
				}
			}
		}
	}
	return nil, false
}

// strExec runs a statement list under env.  outcome: "" (fell through), "return", "continue",
// "break"; appended (in env under the nil key marker) is tracked by the caller through onAppend.
func (c *Ctx) strExec(list []ast.Stmt, env strEnv, depth int) (outcome string, ret constant.Value, ok bool) {
	for _, st := range list {
		switch x := st.(type) {
		case *ast.ReturnStmt:
			if len(x.Results) == 1 {
				if v, ok := c.strEval(x.Results[0], env, depth); ok {
					return "return", v, true
				}
			}
			return "return", nil, len(x.Results) == 0
		case *ast.BranchStmt:
			switch x.Tok {
			case token.CONTINUE:
				return "continue", nil, true
			case token.BREAK:
				return "break", nil, true
			}
			return "", nil, false
		case *ast.AssignStmt:
			if len(x.Lhs) != 1 || len(x.Rhs) != 1 {
				return "", nil, false
			}
			id, isId := x.Lhs[0].(*ast.Ident)
			if !isId {
				return "", nil, false
			}
			// kept = append(kept, elem): recorded as a hit on the appended-to variable
			if call, isCall := unparen(x.Rhs[0]).(*ast.CallExpr); isCall && c.CalleeName(call) == "builtin.append" && len(call.Args) == 2 {
				if v, ok := c.strEval(call.Args[1], env, depth); ok {
					env[appendMarker] = v
					env[appendTarget] = constant.MakeString(id.Name)
					continue
				}
				return "", nil, false
			}
			v, ok := c.strEval(x.Rhs[0], env, depth)
			if !ok {
				return "", nil, false
			}
			o := c.Info.Defs[id]
			if o == nil {
				o = c.Info.Uses[id]
			}
			env[o] = v
		case *ast.IfStmt:
			if x.Init != nil {
				if out, _, ok := c.strExec([]ast.Stmt{x.Init}, env, depth); !ok || out != "" {
					return "", nil, false
				}
			}
			cv, ok := c.strEval(x.Cond, env, depth)
			if !ok || cv.Kind() != constant.Bool {
				return "", nil, false
			}
			var branch []ast.Stmt
			if constant.BoolVal(cv) {
				branch = x.Body.List
			} else if x.Else != nil {
				switch e := x.Else.(type) {
				case *ast.BlockStmt:
					branch = e.List
				case *ast.IfStmt:
					branch = []ast.Stmt{e}
				}
			}
			out, v, ok := c.strExec(branch, env, depth)
			if !ok {
				return "", nil, false
			}
			if out != "" {
				return out, v, true
			}
		case *ast.SwitchStmt:
			if x.Init != nil || x.Tag != nil {
				return "", nil, false
			}
			var chosen, def *ast.CaseClause
			for _, cc := range x.Body.List {
				cl := cc.(*ast.CaseClause)
				if cl.List == nil {
					def = cl
					continue
				}
				for _, e := range cl.List {
					v, ok := c.strEval(e, env, depth)
					if !ok || v.Kind() != constant.Bool {
						return "", nil, false
					}
					if constant.BoolVal(v) {
						chosen = cl
					}
				}
				if chosen != nil {
					break
				}
			}
			if chosen == nil {
				chosen = def
			}
			if chosen != nil {
				out, v, ok := c.strExec(chosen.Body, env, depth)
				if !ok {
					return "", nil, false
				}
				if out == "break" {
					out = ""
				}
				if out != "" {
					return out, v, true
				}
			}
		default:
			return "", nil, false
		}
	}
	return "", nil, true
}

// marker objects for the append bookkeeping of strExec
var (
	appendMarker = types.NewVar(token.NoPos, nil, "#appended", types.Typ[types.String])
	appendTarget = types.NewVar(token.NoPos, nil, "#appendTarget", types.Typ[types.String])
)

// keepsElement: running one iteration of the range loop with its value variable bound to
// name appends that name to a slice (kept, with the slice's name) or does not (dropped).
func (c *Ctx) keepsElement(rs *ast.RangeStmt, name string) (kept bool, target string, ok bool) {
	vid, isId := rs.Value.(*ast.Ident)
	if !isId || vid.Name == "_" {
		return false, "", false
	}
	env := strEnv{c.Info.Defs[vid]: constant.MakeString(name)}
	if env[c.Info.Defs[vid]] == nil || c.Info.Defs[vid] == nil {
		return false, "", false
	}
	out, _, ok := c.strExec(rs.Body.List, env, 0)
	if !ok || out == "return" {
		return false, "", false
	}
	if v, hit := env[appendMarker]; hit && v.Kind() == constant.String && constant.StringVal(v) == name {
		return true, constant.StringVal(env[appendTarget]), true
	}
	return false, "", true
}
