package main

// Extraction of the peephole rewrite system from (*compiler).doOptimize:
// window opcodes, side conditions, the produced instruction literal.

import (
	"fmt"
	"go/ast"
	"go/token"
	"go/types"
	"strings"
)

type rewrite struct {
	Clause   *ast.CaseClause
	Window   []string          // opcode constant names by offset
	Side     []string          // side conditions as terms over I0.., e.g. "I0.A == I2.A"
	SideEq   [][2]*T           // equalities between instruction fields
	SideZero []*T              // fields required to be zero
	PosSide  []string          // conditions over the Pos fields of the window only
	Narrow   []string          // exclusions (operand != constant): they only narrow when the rewrite applies
	Bound    int64             // the k of `n < len(in)-k`
	HasBound bool
	Skip     int64 // the amount added to n in the body
	Lit      *T    // the instruction literal appended, over I0..Ik
	LitNode  ast.Node
	Produces string
	Name     string
}

func (rw *rewrite) Key() string {
	var w []string
	for _, o := range rw.Window {
		w = append(w, strings.TrimPrefix(o, "code"))
	}
	k := "[" + strings.Join(w, ",") + "]=>" + strings.TrimPrefix(rw.Produces, "code")
	if rw.Lit != nil {
		if a := litField(rw.Lit, "A"); a != nil && strings.HasPrefix(a.String(), "<-") {
			k += "(neg)"
		}
	}
	return k
}

func litField(l *T, f string) *T {
	if l == nil {
		return nil
	}
	for _, kv := range l.Args {
		if kv.Op == "kv" && kv.Name == f {
			return kv.Args[0]
		}
	}
	return nil
}

type peephole struct {
	Fn       *ast.FuncDecl
	Rewrites []*rewrite
	Passes   int // number of doOptimize applications composed in optimize
	Loop     *ast.ForStmt
	Problems []string
}

func (c *Ctx) peephole() (*peephole, error) {
	// the function with a tagless switch whose case conditions compare in[n+k].Code
	var best *peephole
	for _, name := range c.FuncNames() {
		fd := c.funcs[name]
		if fd.Body == nil {
			continue
		}
		ast.Inspect(fd.Body, func(n ast.Node) bool {
			sw, ok := n.(*ast.SwitchStmt)
			if !ok || sw.Tag != nil {
				return true
			}
			hits := 0
			for _, cc := range sw.Body.List {
				cl := cc.(*ast.CaseClause)
				for _, e := range cl.List {
					if strings.Contains(c.Src(e), ".Code == code") {
						hits++
						break
					}
				}
			}
			if hits >= 3 && (best == nil || hits > len(best.Rewrites)) {
				p, err := c.extractPeephole(fd, sw)
				if err == nil {
					best = p
				} else if best == nil {
					best = &peephole{Fn: fd, Problems: []string{err.Error()}}
				}
			}
			return true
		})
	}
	if best == nil {
		return nil, fmt.Errorf("the peephole switch (cases comparing in[n+k].Code) was not found")
	}
	if len(best.Problems) > 0 && len(best.Rewrites) == 0 {
		return nil, fmt.Errorf("peephole extraction: %s", strings.Join(best.Problems, "; "))
	}
	// passes: optimize composes doOptimize applications
	if fo := c.Func("compiler.optimize"); fo != nil {
		ast.Inspect(fo.Body, func(n ast.Node) bool {
			if rs, ok := n.(*ast.ReturnStmt); ok && len(rs.Results) == 1 {
				depth := 0
				e := rs.Results[0]
				for {
					call, ok := unparen(e).(*ast.CallExpr)
					if !ok || c.Callee(call) != c.Info.Defs[best.Fn.Name] || len(call.Args) != 1 {
						break
					}
					depth++
					e = call.Args[0]
				}
				if depth > best.Passes {
					best.Passes = depth
				}
			}
			return true
		})
	}
	return best, nil
}

func (c *Ctx) extractPeephole(fd *ast.FuncDecl, sw *ast.SwitchStmt) (*peephole, error) {
	p := &peephole{Fn: fd}
	for n := c.Parent(sw); n != nil; n = c.Parent(n) {
		if f, ok := n.(*ast.ForStmt); ok {
			p.Loop = f
			break
		}
	}
	// binding of in[n+k]: either a free instruction Ik, or (once the window is known) an
	// instruction whose Code is the window's opcode, so helper predicates/functions fold
	bound := map[int64]*T{}
	insTerm := func(k int64) *T {
		if t, ok := bound[k]; ok {
			return t
		}
		return tVar(nil, fmt.Sprintf("I%d", k))
	}
	withCode := func(k int64, code string) *T {
		lit := &T{Op: "lit", Name: "instruction"}
		v := tVar(nil, fmt.Sprintf("I%d", k))
		for _, f := range []string{"A", "B", "C", "Pos"} {
			lit.Args = append(lit.Args, &T{Op: "kv", Name: f, Args: []*T{tField(v, f)}})
		}
		cc := tConst(code)
		if o := c.Types.Scope().Lookup(code); o != nil {
			cc.Obj = o
		}
		lit.Args = append(lit.Args, &T{Op: "kv", Name: "Code", Args: []*T{cc}})
		return lit
	}
	in := newInterp(c)
	in.Inline = func(o types.Object) bool {
		fn, ok := o.(*types.Func)
		return ok && fn.Pkg() != nil && fn.Pkg().Path() == modPath && fn.Name() != "joinParams" && fn.Name() != "splitParams"
	}
	in.H.Post = func(in *Interp, st *State, e ast.Expr, t *T) *T {
		if t.Op == "index" && t.Args[0].Op == "var" && t.Args[0].Name == "in" {
			l := linOf(t.Args[1])
			if len(l.Coef) == 1 && l.Coef["n"] == 1 {
				return insTerm(l.K)
			}
		}
		return nil
	}
	st := newState()
	in.bindParams(st, fd.Recv, fd.Type, nil)
	if p.Loop != nil {
		if as, ok := p.Loop.Init.(*ast.AssignStmt); ok && len(as.Lhs) == 1 {
			if id, ok := as.Lhs[0].(*ast.Ident); ok {
				st.Vars[c.Info.Defs[id]] = tVar(nil, "n")
			}
		}
	}
	ops := c.opcodes()
	opNames := sortedKeys(ops.ByName)
	// offsetsOf: which in[n+k] an expression mentions
	offsetsOf := func(e ast.Expr) map[int64]bool {
		out := map[int64]bool{}
		ast.Inspect(e, func(n ast.Node) bool {
			if ix, ok := n.(*ast.IndexExpr); ok {
				if id, ok := unparen(ix.X).(*ast.Ident); ok && id.Name == "in" {
					t := in.eval(st.Clone(), ix)
					if t.Op == "var" && strings.HasPrefix(t.Name, "I") {
						var k int64
						fmt.Sscanf(t.Name, "I%d", &k)
						out[k] = true
					}
				}
			}
			return true
		})
		return out
	}
	for _, cc := range sw.Body.List {
		cl := cc.(*ast.CaseClause)
		if cl.List == nil {
			continue
		}
		if len(cl.List) != 1 {
			p.Problems = append(p.Problems, "case with several conditions at "+c.Pos(cl))
			continue
		}
		proto := &rewrite{Clause: cl}
		byOff := map[int64][]string{}
		var residual []ast.Expr // conjuncts over operands (side conditions), judged per window
		bad := ""
		for _, e := range conjuncts(cl.List[0]) {
			e = unparen(e)
			offs := offsetsOf(e)
			// the bound check n < len(in)-k
			if be, ok := e.(*ast.BinaryExpr); ok && be.Op == token.LSS && len(offs) == 0 {
				l := in.eval(st.Clone(), be.X)
				if l.Op == "var" && l.Name == "n" {
					lf := linOf(in.eval(st.Clone(), be.Y))
					if len(lf.Coef) == 1 {
						proto.HasBound = true
						proto.Bound = -lf.K
						continue
					}
				}
			}
			if len(offs) == 1 && !mentionsOperand(e) {
				// a predicate over one instruction's opcode: enumerate the opcodes it accepts
				var k int64
				for kk := range offs {
					k = kk
				}
				var alts []string
				decided := true
				for _, name := range opNames {
					bound[k] = withCode(k, name)
					v := in.eval(st.Clone(), e)
					delete(bound, k)
					if v.Op != "const" || (v.Name != "true" && v.Name != "false") {
						decided = false
						break
					}
					if v.Name == "true" {
						alts = append(alts, name)
					}
				}
				if !decided || len(alts) == 0 || len(alts) > 8 {
					bad = "cannot enumerate the opcodes accepted by `" + c.Src(e) + "`"
					break
				}
				if prev, ok := byOff[k]; ok {
					// intersect
					var both []string
					for _, a := range alts {
						for _, b := range prev {
							if a == b {
								both = append(both, a)
							}
						}
					}
					alts = both
				}
				byOff[k] = alts
				continue
			}
			// a conjunct that mixes opcode tests with operand tests (`OP1 || OP2 && in[n].A != 0`):
			// the offsets whose opcode it constrains take the opcodes for which it is not plainly
			// false; what is left of it under a concrete window is judged per window below
			if mentionsOperand(e) && mentionsCode(e) {
				for k := range codeOffsetsOf(e, in, st) {
					var alts []string
					for _, name := range opNames {
						bound[k] = withCode(k, name)
						v := in.eval(st.Clone(), e)
						delete(bound, k)
						if v.Op == "const" && v.Name == "false" {
							continue
						}
						alts = append(alts, name)
					}
					if len(alts) == 0 || len(alts) > 8 {
						bad = "cannot enumerate the opcodes accepted by `" + c.Src(e) + "`"
						break
					}
					if prev, ok := byOff[k]; ok {
						var both []string
						for _, a := range alts {
							for _, b := range prev {
								if a == b {
									both = append(both, a)
								}
							}
						}
						alts = both
					}
					byOff[k] = alts
				}
			}
			residual = append(residual, e)
		}
		if bad != "" {
			p.Problems = append(p.Problems, "unrecognised rewrite condition at "+c.Pos(cl)+": "+bad)
			continue
		}
		windows := [][]string{{}}
		okWin := len(byOff) > 0
		for i := int64(0); i < int64(len(byOff)); i++ {
			alts, ok := byOff[i]
			if !ok {
				okWin = false
				break
			}
			var next [][]string
			for _, w := range windows {
				for _, op := range alts {
					next = append(next, append(append([]string{}, w...), op))
				}
			}
			windows = next
		}
		if !okWin {
			p.Problems = append(p.Problems, "window offsets are not contiguous from 0 at "+c.Pos(cl))
			continue
		}
		for _, w := range windows {
			rw := *proto
			rw.Window = w
			for k, code := range w {
				bound[int64(k)] = withCode(int64(k), code)
			}
			// side conditions
			okSide := true
			skipWindow := false
			for _, e := range residual {
				// a condition over the positions of window elements only restricts *when* the
				// rewrite applies (e.g. "both on the same line"); it cannot change what the
				// rewritten code does, so it is recorded and otherwise ignored
				if onlyPositions(c, e) {
					rw.PosSide = append(rw.PosSide, c.Src(e))
					continue
				}
				if mentionsCode(e) {
					// under this window's opcodes the conjunct folds to true, to false (the window is
					// not rewritten at all) or to a test over operands
					v := in.eval(st.Clone(), e)
					if v.Op == "const" && v.Name == "true" {
						continue
					}
					if v.Op == "const" && v.Name == "false" {
						skipWindow = true
						break
					}
					if v.Op == "bin" && len(v.Args) == 2 && v.Name == "!=" &&
						(v.Args[0].Op == "field" && v.Args[1].Op == "int" || v.Args[1].Op == "field" && v.Args[0].Op == "int") {
						rw.Narrow = append(rw.Narrow, v.Args[0].String()+" != "+v.Args[1].String())
						continue
					}
					if v.Op == "bin" && len(v.Args) == 2 && v.Name == "!=" && (isNegOf(v.Args[0], v.Args[1]) || isNegOf(v.Args[1], v.Args[0])) {
						rw.Narrow = append(rw.Narrow, v.Args[0].String()+" != "+v.Args[1].String())
						continue
					}
					okSide = false
					break
				}
				// a predicate helper over an operand (hasNegative(in[n].A)): judged on what it
				// evaluates to
				if _, isCall := e.(*ast.CallExpr); isCall {
					v := in.eval(st.Clone(), e)
					if v.Op == "bin" && len(v.Args) == 2 && v.Name == "!=" &&
						(v.Args[0].Op == "field" && v.Args[1].Op == "int" || v.Args[1].Op == "field" && v.Args[0].Op == "int" ||
							isNegOf(v.Args[0], v.Args[1]) || isNegOf(v.Args[1], v.Args[0])) {
						rw.Narrow = append(rw.Narrow, v.Args[0].String()+" != "+v.Args[1].String())
						continue
					}
				}
				be, isB := e.(*ast.BinaryExpr)
				// an exclusion (operand != constant) only narrows when the rewrite applies; the
				// agreement proof does not get to assume it, so it can only be ignored soundly
				if isB && be.Op == token.NEQ {
					l := in.eval(st.Clone(), be.X)
					rt := in.eval(st.Clone(), be.Y)
					if l.Op == "field" && rt.Op == "int" || rt.Op == "field" && l.Op == "int" {
						rw.Narrow = append(rw.Narrow, l.String()+" != "+rt.String())
						continue
					}
					// X != -X excludes the two operands that are their own negation: 0 and the
					// smallest integer
					if isNegOf(l, rt) || isNegOf(rt, l) {
						rw.Narrow = append(rw.Narrow, l.String()+" != "+rt.String())
						continue
					}
				}
				if !isB || be.Op != token.EQL {
					okSide = false
					break
				}
				l := in.eval(st.Clone(), be.X)
				rt := in.eval(st.Clone(), be.Y)
				switch {
				case l.Op == "field" && rt.Op == "field":
					rw.SideEq = append(rw.SideEq, [2]*T{l, rt})
					rw.Side = append(rw.Side, l.String()+" == "+rt.String())
				case l.Op == "field" && rt.Op == "int" && rt.K == 0:
					rw.SideZero = append(rw.SideZero, l)
					rw.Side = append(rw.Side, l.String()+" == 0")
				default:
					okSide = false
				}
			}
			if skipWindow {
				for k := range w {
					delete(bound, int64(k))
				}
				continue
			}
			if !okSide {
				p.Problems = append(p.Problems, "unrecognised side condition at "+c.Pos(cl)+": "+c.Src(cl.List[0]))
				for k := range w {
					delete(bound, int64(k))
				}
				continue
			}
			res := in.execStmts(cl.Body, []*State{st.Clone()})
			if len(res) != 1 {
				p.Problems = append(p.Problems, "rewrite body forks at "+c.Pos(cl))
				for k := range w {
					delete(bound, int64(k))
				}
				continue
			}
			// the appended instruction: the last append onto the output whose argument is an instruction value
			for si, stm := range cl.Body {
				// evaluated in the state reached just before the statement (temporaries defined
				// earlier in the body are known; what follows, like n++, has not happened yet)
				at := st
				if pre := in.execStmts(cl.Body[:si], []*State{st.Clone()}); len(pre) == 1 {
					at = pre[0]
				}
				ast.Inspect(stm, func(n ast.Node) bool {
					if call, ok := n.(*ast.CallExpr); ok && c.CalleeName(call) == "builtin.append" && len(call.Args) == 2 && isNamed(c.TypeOf(call.Args[1]), "instruction") {
						v := in.eval(at.Clone(), call.Args[1])
						if v.Op == "lit" {
							rw.Lit = v
							rw.LitNode = call.Args[1]
						}
					}
					return true
				})
			}
			for o, v := range res[0].Vars {
				if o != nil && o.Name() == "n" {
					rw.Skip = linOf(v).K
				}
			}
			for k := range w {
				delete(bound, int64(k))
			}
			if rw.Lit == nil {
				p.Problems = append(p.Problems, "no instruction literal appended at "+c.Pos(cl))
				continue
			}
			if cd := litField(rw.Lit, "Code"); cd != nil && cd.Op == "const" {
				rw.Produces = cd.Name
			}
			cp := rw
			p.Rewrites = append(p.Rewrites, &cp)
		}
	}
	return p, nil
}

// mentionsOperand: the expression reads an operand field (.A/.B/.C) of an instruction.
func mentionsOperand(e ast.Expr) bool {
	found := false
	ast.Inspect(e, func(n ast.Node) bool {
		if sel, ok := n.(*ast.SelectorExpr); ok {
			switch sel.Sel.Name {
			case "A", "B", "C":
				found = true
			}
		}
		return true
	})
	return found
}

// onlyPositions: every instruction field the expression mentions is .Pos.
func onlyPositions(c *Ctx, e ast.Expr) bool {
	fields, pos := 0, 0
	ast.Inspect(e, func(n ast.Node) bool {
		sel, ok := n.(*ast.SelectorExpr)
		if !ok || !isNamed(c.TypeOf(sel.X), "instruction") {
			return true
		}
		fields++
		if sel.Sel.Name == "Pos" {
			pos++
		}
		return true
	})
	return fields > 0 && fields == pos
}

// mentionsCode: the expression reads an instruction's opcode.
func mentionsCode(e ast.Expr) bool {
	found := false
	ast.Inspect(e, func(n ast.Node) bool {
		if sel, ok := n.(*ast.SelectorExpr); ok && sel.Sel.Name == "Code" {
			found = true
		}
		return true
	})
	return found
}

// codeOffsetsOf: the window offsets whose opcode the expression reads (in[n+k].Code).
func codeOffsetsOf(e ast.Expr, in *Interp, st *State) map[int64]bool {
	out := map[int64]bool{}
	ast.Inspect(e, func(n ast.Node) bool {
		sel, ok := n.(*ast.SelectorExpr)
		if !ok || sel.Sel.Name != "Code" {
			return true
		}
		t := in.eval(st.Clone(), sel.X)
		if t.Op == "var" && strings.HasPrefix(t.Name, "I") {
			var k int64
			fmt.Sscanf(t.Name, "I%d", &k)
			out[k] = true
		}
		return true
	})
	return out
}

// isNegOf: b is the negation of the operand field a.
func isNegOf(a, b *T) bool {
	if a.Op != "field" {
		return false
	}
	return b.String() == "<-"+a.String()+">" || b.String() == "-"+a.String()
}
