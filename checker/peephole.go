package main

// Extraction of the peephole rewrite system from (*compiler).doOptimize:
// window opcodes, side conditions, the produced instruction literal.

import (
	"fmt"
	"go/ast"
	"go/token"
	"strings"
)

type rewrite struct {
	Clause   *ast.CaseClause
	Window   []string          // opcode constant names by offset
	Side     []string          // side conditions as terms over I0.., e.g. "I0.A == I2.A"
	SideEq   [][2]*T           // equalities between instruction fields
	SideZero []*T              // fields required to be zero
	Bound    int64             // the k of `n < len(in)-k`
	HasBound bool
	Skip     int64 // the amount added to n in the body
	Lit      *T    // the instruction literal appended, over I0..Ik
	LitNode  ast.Node
	Produces string
	Name     string
}

func (rw *rewrite) Key() string {
	var w []string
	for _, o := range rw.Window {
		w = append(w, strings.TrimPrefix(o, "code"))
	}
	k := "[" + strings.Join(w, ",") + "]=>" + strings.TrimPrefix(rw.Produces, "code")
	if rw.Lit != nil {
		if a := litField(rw.Lit, "A"); a != nil && strings.HasPrefix(a.String(), "<-") {
			k += "(neg)"
		}
	}
	return k
}

func litField(l *T, f string) *T {
	if l == nil {
		return nil
	}
	for _, kv := range l.Args {
		if kv.Op == "kv" && kv.Name == f {
			return kv.Args[0]
		}
	}
	return nil
}

type peephole struct {
	Fn       *ast.FuncDecl
	Rewrites []*rewrite
	Passes   int // number of doOptimize applications composed in optimize
	Loop     *ast.ForStmt
	Problems []string
}

func (c *Ctx) peephole() (*peephole, error) {
	// the function with a tagless switch whose case conditions compare in[n+k].Code
	var best *peephole
	for _, name := range c.FuncNames() {
		fd := c.funcs[name]
		if fd.Body == nil {
			continue
		}
		ast.Inspect(fd.Body, func(n ast.Node) bool {
			sw, ok := n.(*ast.SwitchStmt)
			if !ok || sw.Tag != nil {
				return true
			}
			hits := 0
			for _, cc := range sw.Body.List {
				cl := cc.(*ast.CaseClause)
				for _, e := range cl.List {
					if strings.Contains(c.Src(e), ".Code == code") {
						hits++
						break
					}
				}
			}
			if hits >= 3 && (best == nil || hits > len(best.Rewrites)) {
				p, err := c.extractPeephole(fd, sw)
				if err == nil {
					best = p
				} else if best == nil {
					best = &peephole{Fn: fd, Problems: []string{err.Error()}}
				}
			}
			return true
		})
	}
	if best == nil {
		return nil, fmt.Errorf("the peephole switch (cases comparing in[n+k].Code) was not found")
	}
	if len(best.Problems) > 0 && len(best.Rewrites) == 0 {
		return nil, fmt.Errorf("peephole extraction: %s", strings.Join(best.Problems, "; "))
	}
	// passes: optimize composes doOptimize applications
	if fo := c.Func("compiler.optimize"); fo != nil {
		ast.Inspect(fo.Body, func(n ast.Node) bool {
			if rs, ok := n.(*ast.ReturnStmt); ok && len(rs.Results) == 1 {
				depth := 0
				e := rs.Results[0]
				for {
					call, ok := unparen(e).(*ast.CallExpr)
					if !ok || c.Callee(call) != c.Info.Defs[best.Fn.Name] || len(call.Args) != 1 {
						break
					}
					depth++
					e = call.Args[0]
				}
				if depth > best.Passes {
					best.Passes = depth
				}
			}
			return true
		})
	}
	return best, nil
}

func (c *Ctx) extractPeephole(fd *ast.FuncDecl, sw *ast.SwitchStmt) (*peephole, error) {
	p := &peephole{Fn: fd}
	// find enclosing loop and the names of the input slice and the index
	for n := c.Parent(sw); n != nil; n = c.Parent(n) {
		if f, ok := n.(*ast.ForStmt); ok {
			p.Loop = f
			break
		}
	}
	in := newInterp(c)
	in.H.Post = func(in *Interp, st *State, e ast.Expr, t *T) *T {
		if t.Op == "index" && t.Args[0].Op == "var" && t.Args[0].Name == "in" {
			l := linOf(t.Args[1])
			if len(l.Coef) == 1 && l.Coef["n"] == 1 {
				return tVar(nil, fmt.Sprintf("I%d", l.K))
			}
		}
		return nil
	}
	st := newState()
	in.bindParams(st, fd.Recv, fd.Type, nil)
	// bind the loop variable
	if p.Loop != nil {
		if as, ok := p.Loop.Init.(*ast.AssignStmt); ok && len(as.Lhs) == 1 {
			if id, ok := as.Lhs[0].(*ast.Ident); ok {
				st.Vars[c.Info.Defs[id]] = tVar(nil, "n")
			}
		}
	}
	for _, cc := range sw.Body.List {
		cl := cc.(*ast.CaseClause)
		if cl.List == nil {
			continue
		}
		if len(cl.List) != 1 {
			p.Problems = append(p.Problems, "case with several conditions at "+c.Pos(cl))
			continue
		}
		rw := &rewrite{Clause: cl}
		byOff := map[int64][]string{}
		var conj []ast.Expr
		var split func(e ast.Expr)
		split = func(e ast.Expr) {
			if be, ok := unparen(e).(*ast.BinaryExpr); ok && be.Op == token.LAND {
				split(be.X)
				split(be.Y)
				return
			}
			conj = append(conj, unparen(e))
		}
		split(cl.List[0])
		bad := false
		codeTest := func(e ast.Expr) (int64, string, bool) {
			be, ok := unparen(e).(*ast.BinaryExpr)
			if !ok || be.Op != token.EQL {
				return 0, "", false
			}
			l := in.eval(st.Clone(), be.X)
			rt := in.eval(st.Clone(), be.Y)
			if l.Op == "field" && l.Name == "Code" && l.Args[0].Op == "var" && strings.HasPrefix(l.Args[0].Name, "I") && rt.Op == "const" {
				var off int64
				fmt.Sscanf(l.Args[0].Name, "I%d", &off)
				return off, rt.Name, true
			}
			return 0, "", false
		}
		for _, e := range conj {
			be, ok := e.(*ast.BinaryExpr)
			if !ok {
				bad = true
				continue
			}
			if be.Op == token.LOR {
				// (in[n+k].Code == codeX || in[n+k].Code == codeY): alternatives at one offset
				var alts []ast.Expr
				var flat func(x ast.Expr)
				flat = func(x ast.Expr) {
					if b2, ok := unparen(x).(*ast.BinaryExpr); ok && b2.Op == token.LOR {
						flat(b2.X)
						flat(b2.Y)
						return
					}
					alts = append(alts, x)
				}
				flat(be)
				off0 := int64(-1)
				for _, a := range alts {
					off, name, ok := codeTest(a)
					if !ok || (off0 >= 0 && off != off0) {
						bad = true
						break
					}
					off0 = off
					byOff[off] = append(byOff[off], name)
				}
				continue
			}
			l := in.eval(st.Clone(), be.X)
			rt := in.eval(st.Clone(), be.Y)
			switch {
			case be.Op == token.EQL && l.Op == "field" && l.Name == "Code" && l.Args[0].Op == "var" && strings.HasPrefix(l.Args[0].Name, "I") && rt.Op == "const":
				var off int64
				fmt.Sscanf(l.Args[0].Name, "I%d", &off)
				byOff[off] = append(byOff[off], rt.Name)
			case be.Op == token.LSS && l.Op == "var" && l.Name == "n":
				// n < len(in) - k
				lf := linOf(rt)
				rw.HasBound = true
				rw.Bound = -lf.K
				if len(lf.Coef) != 1 {
					bad = true
				}
			case be.Op == token.EQL && l.Op == "field" && rt.Op == "field":
				rw.SideEq = append(rw.SideEq, [2]*T{l, rt})
				rw.Side = append(rw.Side, l.String()+" == "+rt.String())
			case be.Op == token.EQL && l.Op == "field" && rt.Op == "int" && rt.K == 0:
				rw.SideZero = append(rw.SideZero, l)
				rw.Side = append(rw.Side, l.String()+" == 0")
			default:
				bad = true
			}
		}
		if bad {
			p.Problems = append(p.Problems, "unrecognised rewrite condition at "+c.Pos(cl)+": "+c.Src(cl.List[0]))
			continue
		}
		windows := [][]string{{}}
		for i := int64(0); i < int64(len(byOff)); i++ {
			ops, ok := byOff[i]
			if !ok {
				bad = true
				break
			}
			var next [][]string
			for _, w := range windows {
				for _, op := range ops {
					next = append(next, append(append([]string{}, w...), op))
				}
			}
			windows = next
		}
		if bad || len(byOff) == 0 {
			p.Problems = append(p.Problems, "window offsets are not contiguous from 0 at "+c.Pos(cl))
			continue
		}
		rw.Window = windows[0]
		// body: out = append(out, <lit>) ; n += k
		s2 := st.Clone()
		res := in.execStmts(cl.Body, []*State{s2})
		if len(res) != 1 {
			p.Problems = append(p.Problems, "rewrite body forks at "+c.Pos(cl))
			continue
		}
		for _, stm := range cl.Body {
			ast.Inspect(stm, func(n ast.Node) bool {
				if call, ok := n.(*ast.CallExpr); ok && c.CalleeName(call) == "builtin.append" && len(call.Args) == 2 {
					if _, isLit := unparen(call.Args[1]).(*ast.CompositeLit); isLit {
						rw.Lit = in.eval(st.Clone(), call.Args[1])
						rw.LitNode = call.Args[1]
					}
				}
				return true
			})
		}
		if rw.Lit == nil {
			p.Problems = append(p.Problems, "no instruction literal appended at "+c.Pos(cl))
			continue
		}
		if cd := litField(rw.Lit, "Code"); cd != nil && cd.Op == "const" {
			rw.Produces = cd.Name
		}
		// n afterwards
		for o, v := range res[0].Vars {
			if o != nil && o.Name() == "n" {
				lf := linOf(v)
				rw.Skip = lf.K
			}
		}
		p.Rewrites = append(p.Rewrites, rw)
		for _, w := range windows[1:] {
			alt := *rw
			alt.Window = w
			p.Rewrites = append(p.Rewrites, &alt)
		}
	}
	return p, nil
}
