package main

// Layout interpreter: symbolic execution of the compile-cases for control
// constructs over "sequences of atoms".  An atom is an opaque segment Seg(x) of
// symbolic length |x| (the result of a call returning []instruction) or a
// literal instruction whose operands are linear expressions over segment
// lengths and the rewrite index n.

import (
	"fmt"
	"go/ast"
	"go/types"
	"regexp"
	"sort"
	"strings"
)

type segment struct {
	ID        int
	Name      string
	Src       *T
	Optimized bool
	Kind      string   // "call" "loop-entry" "loop-result" "opaque"
	LenExpr   *linForm // for loop results with a computable length
	Iter      *loopIter
	Node      ast.Node
}

func (s *segment) lenKey() string {
	n := s.Name
	if n == "" {
		n = "seg"
	}
	return fmt.Sprintf("|%s#%d|", n, s.ID)
}

type atom struct {
	Seg *segment
	Ins *T // instruction literal (Op "lit") or a call term producing one instruction
	Node ast.Node
}

func (a *atom) String() string {
	if a.Seg != nil {
		return "[" + a.Seg.lenKey() + "]"
	}
	return insString(a.Ins)
}

func insString(l *T) string {
	code := litField(l, "Code")
	if code == nil {
		return "{" + l.String() + "}"
	}
	s := strings.TrimPrefix(code.String(), "code")
	for _, f := range []string{"A", "B", "C"} {
		if v := litField(l, f); v != nil {
			s += " " + f + "=" + stripIntConv(v).String()
		}
	}
	return "{" + s + "}"
}

type rewRule struct {
	From string // placeholder opcode constant name
	To   string // new opcode constant name
	A    *T     // new A operand (over n and segment lengths)
	Node ast.Node
}

type layState struct {
	rew     map[int]map[string]*rewRule
	zero    map[string]bool
	nonzero map[string]bool
	pend    map[string]*T // stores to fields of the current element inside a placeholder-rewrite loop
}

func (l *layState) Clone() any {
	n := &layState{rew: map[int]map[string]*rewRule{}, zero: map[string]bool{}, nonzero: map[string]bool{}}
	for k, v := range l.rew {
		m := map[string]*rewRule{}
		for kk, vv := range v {
			m[kk] = vv
		}
		n.rew[k] = m
	}
	for k := range l.zero {
		n.zero[k] = true
	}
	for k := range l.nonzero {
		n.nonzero[k] = true
	}
	if l.pend != nil {
		n.pend = map[string]*T{}
		for k, v := range l.pend {
			n.pend[k] = v
		}
	}
	return n
}

type loopIter struct {
	Before         []*atom // what the carried sequence held before the loop
	IncludesBefore bool    // the result segment stands for Before + everything appended
	Var     string
	Entry   *segment
	Result  *segment
	Exits   []*layoutPath // value of the carried variable at the end of one iteration
	Node    ast.Stmt
	PerIter int // literal instructions appended per iteration when the body only appends (else -1)
}

type layoutPath struct {
	Atoms []*atom
	St    *State
	Label string
}

type layMachine struct {
	c       *Ctx
	in      *Interp
	nextID  int
	iters   []*loopIter
	problems []string
	recvName string
}

func newLayMachine(c *Ctx) *layMachine {
	m := &layMachine{c: c}
	in := newInterp(c)
	in.MaxPaths = 400
	m.in = in
	in.Inline = func(o types.Object) bool {
		if o.Name() == "toType" {
			return true
		}
		// helpers that take an instruction sequence (e.g. an extracted placeholder-rewrite loop) are executed in place;
		// the compiler's own recursive entry points stay opaque segments
		fn, ok := o.(*types.Func)
		if !ok || fn.Pkg() == nil || fn.Pkg().Path() != modPath {
			return false
		}
		switch fn.Name() {
		case "compile", "compileAll", "optimize", "doOptimize", "toData", "run", "compilePkgs":
			return false
		}
		sig := fn.Type().(*types.Signature)
		for i := 0; i < sig.Params().Len(); i++ {
			if isInsSlice(sig.Params().At(i).Type()) {
				return true
			}
		}
		// a new helper that returns an instruction sequence (compileMake(tok)) is the body of the
		// case (or a part of it) moved out: executed in place
		if c.isNewHelper(o) && sig.Results().Len() == 1 && isInsSlice(sig.Results().At(0).Type()) {
			// (a helper that is handed the node; small emitters such as castTo(typ) stay summarised)
			for i := 0; i < sig.Params().Len(); i++ {
				if c.isTokenPtr(sig.Params().At(i).Type()) {
					return true
				}
			}
		}
		// a new setter helper — a body of plain assignments, no calls, no branches
		// (c.setFunc(name, scope): c.FuncName, c.typeScope = name, scope) — is executed in place
		if c.isNewHelper(o) {
			if fd := c.DeclOf(o); fd != nil && fd.Body != nil && len(fd.Body.List) > 0 {
				plain := true
				for _, st := range fd.Body.List {
					as, ok := st.(*ast.AssignStmt)
					if !ok {
						plain = false
						break
					}
					for _, rh := range as.Rhs {
						ast.Inspect(rh, func(n ast.Node) bool {
							if _, isCall := n.(*ast.CallExpr); isCall {
								plain = false
							}
							return plain
						})
					}
				}
				if plain {
					return true
				}
			}
		}
		return false
	}
	in.NoReturn = func(o types.Object) bool { return o.Name() == "panicf" }
	in.H.Call = m.call
	in.H.Loop = m.loop
	in.H.Cond = m.cond
	in.H.Post = m.post
	in.H.Assign = m.assign
	in.H.Bind = func(in *Interp, st *State, o types.Object, val *T) {
		if a, ok := seqAtoms(val); ok && val.Op == "seq" && len(a) == 1 && a[0].Seg != nil && a[0].Seg.Name == "" {
			a[0].Seg.Name = o.Name()
		}
	}
	return m
}

func isInsSlice(t types.Type) bool {
	s, ok := t.(*types.Slice)
	return ok && isNamed(s.Elem(), "instruction")
}

func (m *layMachine) newSeg(kind string, src *T, node ast.Node) *segment {
	m.nextID++
	return &segment{ID: m.nextID, Kind: kind, Src: src, Node: node}
}

func seqTerm(atoms []*atom) *T { return &T{Op: "seq", Aux: atoms} }

func seqAtoms(t *T) ([]*atom, bool) {
	if t == nil {
		return nil, false
	}
	switch t.Op {
	case "seq":
		return t.Aux.([]*atom), true
	case "nil":
		return nil, true
	}
	return nil, false
}

func (m *layMachine) ls(st *State) *layState {
	if st.X == nil {
		st.X = &layState{rew: map[int]map[string]*rewRule{}, zero: map[string]bool{}, nonzero: map[string]bool{}}
	}
	return st.X.(*layState)
}

// asSeq coerces a term of type []instruction into atoms (opaque terms become a fresh segment).
func (m *layMachine) asSeq(t *T, node ast.Node) []*atom {
	if a, ok := seqAtoms(t); ok {
		return a
	}
	s := m.newSeg("opaque", t, node)
	return []*atom{{Seg: s, Node: node}}
}

func (m *layMachine) lenLin(st *State, atoms []*atom) *linForm {
	l := newLin()
	ls := m.ls(st)
	for _, a := range atoms {
		if a.Seg == nil {
			l.K++
			continue
		}
		if a.Seg.LenExpr != nil {
			l = l.add(a.Seg.LenExpr, 1)
			continue
		}
		k := a.Seg.lenKey()
		if ls.zero[k] {
			continue
		}
		l.Coef[k]++
		l.Atom[k] = &T{Op: "var", Name: k}
	}
	return l
}

func (m *layMachine) post(in *Interp, st *State, e ast.Expr, t *T) *T {
	// inside a rewrite loop, seq[n] is the current element
	if t.Op == "index" && t.Args[0].Op == "seq" && t.Args[1].Op == "var" && t.Args[1].Name == "n" {
		return tVar(nil, "ELEM")
	}
	return nil
}

func (m *layMachine) assign(in *Interp, st *State, lhs ast.Expr, lv *T, val *T) bool {
	if lv == nil {
		return false
	}
	isElem := func(t *T) bool {
		return t.Op == "index" && t.Args[0].Op == "seq" && t.Args[1].Op == "var" && t.Args[1].Name == "n"
	}
	ls := m.ls(st)
	if lv.Op == "field" && (isElem(lv.Args[0]) || (lv.Args[0].Op == "var" && lv.Args[0].Name == "ELEM")) {
		if ls.pend == nil {
			ls.pend = map[string]*T{}
		}
		ls.pend[lv.Name] = val
		return true
	}
	if isElem(lv) && val.Op == "lit" {
		if ls.pend == nil {
			ls.pend = map[string]*T{}
		}
		for _, f := range []string{"Code", "A", "B", "C"} {
			if v := litField(val, f); v != nil {
				ls.pend[f] = v
			}
		}
		return true
	}
	return false
}

func (m *layMachine) call(in *Interp, st *State, call *ast.CallExpr, name string, recv *T, args []*T) *T {
	c := m.c
	if callee := c.Callee(call); callee != nil && in.Inline != nil && in.Inline(callee) {
		return nil // executed in place by the interpreter
	}
	switch name {
	case "builtin.len":
		if atoms, ok := seqAtoms(args[0]); ok && (args[0].Op == "seq" || isInsSlice(c.TypeOf(call.Args[0]))) {
			return m.lenLin(st, atoms).term()
		}
		return nil
	case "builtin.append":
		if !isInsSlice(c.TypeOf(call)) {
			return nil
		}
		out := append([]*atom(nil), m.asSeq(args[0], call.Args[0])...)
		for i, a := range args[1:] {
			node := call.Args[i+1]
			if a.Op == "un" && a.Name == "..." {
				out = append(out, m.asSeq(a.Args[0], node)...)
				continue
			}
			out = append(out, &atom{Ins: a, Node: node})
		}
		return seqTerm(out)
	}
	if isInsSlice(c.TypeOf(call)) {
		all := args
		if recv != nil {
			all = append([]*T{recv}, args...)
		}
		src := &T{Op: "call", Name: name, Args: all}
		s := m.newSeg("call", src, call)
		if name == "compiler.optimize" {
			s.Optimized = true
			if len(args) == 1 {
				if inner, ok := seqAtoms(args[0]); ok && len(inner) == 1 && inner[0].Seg != nil {
					s.Src = &T{Op: "call", Name: name, Args: []*T{inner[0].Seg.Src}}
				} else if ok && len(inner) != 1 {
					s.Src = &T{Op: "call", Name: name, Args: []*T{tOpaque("composite")}}
				}
			}
		}
		// the call itself may have effects (compiling declares locals); keep it as an effect
		st.Eff = append(st.Eff, Effect{Kind: "call", Value: src, Node: call})
		return seqTerm([]*atom{{Seg: s, Node: call}})
	}
	return nil
}

var cmpOps = map[string]bool{"==": true, "!=": true, ">": true, "<": true, ">=": true, "<=": true}

func (m *layMachine) cond(in *Interp, st *State, cond *T) (bool, bool, func(*State), func(*State)) {
	neg := false
	for cond.Op == "un" && cond.Name == "!" {
		neg = !neg
		cond = cond.Args[0]
	}
	if cond.Op != "bin" || !cmpOps[cond.Name] {
		return false, false, nil, nil
	}
	d := linOf(cond.Args[0]).add(linOf(cond.Args[1]), -1)
	ls := m.ls(st)
	for k := range d.Coef {
		if ls.zero[k] {
			d = d.subst(k, newLin())
		}
	}
	eval := func(k int64) bool {
		switch cond.Name {
		case "==":
			return k == 0
		case "!=":
			return k != 0
		case ">":
			return k > 0
		case "<":
			return k < 0
		case ">=":
			return k >= 0
		}
		return k <= 0
	}
	if k, ok := d.isConst(); ok {
		return true, eval(k) != neg, nil, nil
	}
	// a single segment length compared with zero
	if len(d.Coef) == 1 && d.K == 0 {
		for k, cf := range d.Coef {
			if !strings.HasPrefix(k, "|") || (cf != 1 && cf != -1) {
				break
			}
			// value of the comparison when |s| == 0 and when |s| >= 1
			atZero := eval(0)
			atPos := eval(cf)
			if ls.nonzero[k] {
				return true, atPos != neg, nil, nil
			}
			if atZero == atPos {
				return true, atZero != neg, nil, nil
			}
			key := k
			mk := func(zero bool) func(*State) {
				return func(s *State) {
					if zero {
						m.ls(s).zero[key] = true
					} else {
						m.ls(s).nonzero[key] = true
					}
				}
			}
			// true branch of the (possibly negated) condition
			trueIsZero := atZero != neg
			return false, false, mk(trueIsZero), mk(!trueIsZero)
		}
	}
	return false, false, nil, nil
}

// loop models (a) placeholder-rewrite loops over one segment and (b) loops that
// build a sequence, executed once with the carried sequence replaced by an
// opaque entry segment.
func (m *layMachine) loop(in *Interp, st *State, s ast.Stmt) []*State {
	c := m.c
	if rs, ok := s.(*ast.RangeStmt); ok {
		x := in.eval(st, rs.X)
		if atoms, ok := seqAtoms(x); ok && x.Op == "seq" {
			if len(atoms) == 1 && atoms[0].Seg != nil {
				if m.rewriteLoop(in, st, rs, atoms[0].Seg) {
					return []*State{st}
				}
			}
			st.flag("unrecognised loop over an instruction sequence at " + c.Pos(rs))
			return nil
		}
	}
	// which []instruction variables declared outside are assigned in the body?
	var body *ast.BlockStmt
	switch l := s.(type) {
	case *ast.ForStmt:
		body = l.Body
	case *ast.RangeStmt:
		body = l.Body
	}
	carried := map[types.Object]string{}
	declared := map[types.Object]bool{}
	ast.Inspect(body, func(n ast.Node) bool {
		if id, ok := n.(*ast.Ident); ok {
			if o := c.Info.Defs[id]; o != nil {
				declared[o] = true
			}
		}
		return true
	})
	ast.Inspect(body, func(n ast.Node) bool {
		if as, ok := n.(*ast.AssignStmt); ok {
			for _, l := range as.Lhs {
				id, ok := l.(*ast.Ident)
				if !ok {
					continue
				}
				if o := c.Info.Defs[id]; o != nil {
					continue
				}
				if o := c.Info.Uses[id]; o != nil && !declared[o] && isInsSlice(o.Type()) {
					carried[o] = id.Name
				}
			}
		}
		return true
	})
	if len(carried) == 0 {
		return nil // default havoc
	}
	if len(carried) > 1 {
		st.flag("loop carries several instruction sequences at " + c.Pos(s))
		return nil
	}
	var cv types.Object
	var cname string
	for o, n := range carried {
		cv, cname = o, n
	}
	it := &loopIter{Var: cname, Node: s, PerIter: -1}
	it.Entry = m.newSeg("loop-entry", tOpaque(cname+"@entry"), s)
	it.Entry.Name = cname + "@entry"
	it.Result = m.newSeg("loop-result", tOpaque(cname+"*"), s)
	it.Result.Name = cname + "*"
	it.Result.Iter = it
	it.Entry.Iter = it
	before, _ := seqAtoms(st.Vars[cv])
	it.Before = before
	// run the body once
	b := st.Clone()
	b.Vars[cv] = seqTerm([]*atom{{Seg: it.Entry, Node: s}})
	// loop variables
	switch l := s.(type) {
	case *ast.ForStmt:
		if as, ok := l.Init.(*ast.AssignStmt); ok {
			for _, lh := range as.Lhs {
				if id, ok := lh.(*ast.Ident); ok {
					if o := c.Info.Defs[id]; o != nil {
						b.Vars[o] = tVar(o, id.Name)
					}
				}
			}
		}
	case *ast.RangeStmt:
		xr := in.eval(b, l.X)
		if id, ok := l.Key.(*ast.Ident); ok && id.Name != "_" {
			if o := c.Info.Defs[id]; o != nil {
				b.Vars[o] = tVar(o, id.Name)
			}
		}
		if id, ok := l.Value.(*ast.Ident); ok && id.Name != "_" {
			if o := c.Info.Defs[id]; o != nil {
				kn := "k"
				if kid, ok := l.Key.(*ast.Ident); ok && kid.Name != "_" {
					kn = kid.Name
				}
				b.Vars[o] = tIndex(xr, tVar(nil, kn))
			}
		}
	}
	res := in.execStmts(body.List, []*State{b})
	perIter := -2
	for _, r := range res {
		if r.Done == "continue" || r.Done == "break" {
			r.Done = ""
		}
		atoms, ok := seqAtoms(r.Vars[cv])
		if !ok {
			st.flag("loop result is not a sequence at " + c.Pos(s))
			continue
		}
		it.Exits = append(it.Exits, &layoutPath{Atoms: atoms, St: r})
		// does the body only append literal instructions after the entry?
		n := -1
		if len(atoms) >= 1 && atoms[0].Seg == it.Entry {
			n = 0
			for _, a := range atoms[1:] {
				if a.Seg != nil {
					n = -1
					break
				}
				n++
			}
		}
		if perIter == -2 {
			perIter = n
		} else if perIter != n {
			perIter = -1
		}
	}
	if perIter >= 0 {
		it.PerIter = perIter
		if rs, ok := s.(*ast.RangeStmt); ok {
			// length = |before| + perIter * len(range expression)
			cnt := tCall("len", in.eval(st, rs.X))
			l := m.lenLin(st, before).add(toLin(cnt).scale(int64(perIter)), 1)
			it.Result.LenExpr = l
		}
	}
	m.iters = append(m.iters, it)
	// after the loop: havoc everything else the body assigns, then bind the carried variable
	in.havocLoop(st, s)
	if it.Result.LenExpr != nil {
		// keep what was there before the loop as it is; the loop contributes perIter*len(X) instructions
		if rs, ok := s.(*ast.RangeStmt); ok && perIter >= 0 {
			it.Result.LenExpr = toLin(tCall("len", in.eval(st, rs.X))).scale(int64(perIter))
		}
		st.Vars[cv] = seqTerm(append(append([]*atom(nil), before...), &atom{Seg: it.Result, Node: s}))
	} else {
		// out* already contains whatever was there before the loop (entry of the first iteration)
		st.Vars[cv] = seqTerm([]*atom{{Seg: it.Result, Node: s}})
		it.IncludesBefore = true
		it.Result.Src = tOpaque(cname + "* (prefix: " + fmt.Sprint(len(before)) + " atoms)")
		if len(before) > 0 {
			st.flag("sequence built by a loop had content before the loop at " + c.Pos(s))
		}
	}
	return []*State{st}
}

// rewriteLoop executes the body of a loop over one segment's instructions
// symbolically (n = the index, ELEM = seg[n]) and turns every path that stores to
// the element under a test `ELEM.Code == codeX` into a rewrite rule of the segment.
func (m *layMachine) rewriteLoop(in *Interp, st *State, loop ast.Stmt, seg *segment) bool {
	c := m.c
	var body *ast.BlockStmt
	b := st.Clone()
	m.ls(b).pend = nil
	switch l := loop.(type) {
	case *ast.RangeStmt:
		body = l.Body
		if key, ok := l.Key.(*ast.Ident); ok && key.Name != "_" {
			if o := c.Info.Defs[key]; o != nil {
				b.Vars[o] = tVar(nil, "n")
			}
		} else {
			return false // without the index the loop cannot write back
		}
		if val, ok := l.Value.(*ast.Ident); ok && val.Name != "_" {
			if o := c.Info.Defs[val]; o != nil {
				b.Vars[o] = tVar(nil, "ELEM")
			}
		}
	default:
		return false
	}
	saveLoop := in.H.Loop
	in.H.Loop = nil // nested loops inside a rewrite body are not expected
	res := in.execStmts(body.List, []*State{b})
	in.H.Loop = saveLoop
	ls := m.ls(st)
	any := false
	for _, r := range res {
		pend := m.ls(r).pend
		if len(pend) == 0 {
			continue
		}
		from := ""
		for _, cd := range r.Conds[len(st.Conds):] {
			if cd.Op == "bin" && cd.Name == "==" && cd.Args[0].String() == "ELEM.Code" && cd.Args[1].Op == "const" {
				from = cd.Args[1].Name
			}
			if cd.Op == "bin" && cd.Name == "==" && cd.Args[1].String() == "ELEM.Code" && cd.Args[0].Op == "const" {
				from = cd.Args[0].Name
			}
		}
		to, a := pend["Code"], pend["A"]
		if from == "" || to == nil || to.Op != "const" || a == nil {
			return false
		}
		for f := range pend {
			if f != "Code" && f != "A" {
				return false
			}
		}
		if ls.rew[seg.ID] == nil {
			ls.rew[seg.ID] = map[string]*rewRule{}
		}
		ls.rew[seg.ID][from] = &rewRule{From: from, To: to.Name, A: a, Node: loop}
		any = true
	}
	_ = any
	for f := range b.Flags {
		st.Flags[f] = true
	}
	return true
}

// ---- running a compile-case ----

type caseLayouts struct {
	Label  string
	Paths  []*layoutPath // final value of `res` on every path through the clause
	Iters  []*loopIter
	Flags  []string
	Clause *ast.CaseClause
}

// runCase symbolically executes the compile-case of the given label.
func (m *layMachine) runCase(cs *bigSwitch, label string) (*caseLayouts, error) {
	return m.runCaseWith(cs, label, nil)
}

// runCaseWith: like runCase, with extra memory cells bound to constants (e.g. the callee name).
func (m *layMachine) runCaseWith(cs *bigSwitch, label string, bind map[string]*T) (*caseLayouts, error) {
	sc := cs.ByLabel[label]
	if sc == nil {
		return nil, fmt.Errorf("no compile-case for %q", label)
	}
	fd := cs.Fn
	st := newState()
	m.in.bindParams(st, fd.Recv, fd.Type, nil)
	m.in.Overflow = false
	m.iters = nil
	// preamble up to the switch: c.cur = tok; var res []instruction
	for _, s := range fd.Body.List {
		if s == ast.Stmt(cs.Switch) {
			break
		}
		r := m.in.execStmt(s, st)
		if len(r) != 1 {
			return nil, fmt.Errorf("compile preamble forks")
		}
		st = r[0]
	}
	// the tag value is this label
	m.in.fnStack = append(m.in.fnStack, fd.Type)
	defer func() { m.in.fnStack = m.in.fnStack[:len(m.in.fnStack)-1] }()
	// bind tok.Symbol to the label so nested tests on it fold
	st.Mem["tok.Symbol"] = tStr(label)
	for k, v := range bind {
		st.Mem[k] = v
	}
	res := m.in.execStmts(sc.Clause.Body, []*State{st})
	out := &caseLayouts{Label: label, Clause: sc.Clause, Iters: m.iters}
	var resObj types.Object
	for o := range st.Vars {
		if o != nil && o.Name() == "res" && isInsSlice(o.Type()) {
			resObj = o
		}
	}
	if resObj == nil {
		return nil, fmt.Errorf("compile has no `res []instruction`")
	}
	seenFlags := map[string]bool{}
	for _, r := range res {
		for f := range r.Flags {
			if !seenFlags[f] {
				seenFlags[f] = true
				out.Flags = append(out.Flags, f)
			}
		}
		if r.Done == "panic" {
			continue
		}
		atoms, ok := seqAtoms(r.Vars[resObj])
		if !ok {
			out.Flags = append(out.Flags, "res is not a sequence on some path")
			continue
		}
		out.Paths = append(out.Paths, &layoutPath{Atoms: atoms, St: r})
	}
	if m.in.Overflow {
		out.Flags = append(out.Flags, "path overflow")
	}
	sort.Strings(out.Flags)
	return out, nil
}

// ---- geometry ----

// live drops atoms known to be empty on this path.
func (m *layMachine) live(p *layoutPath) []*atom {
	ls := m.ls(p.St)
	var out []*atom
	for _, a := range p.Atoms {
		if a.Seg != nil && a.Seg.LenExpr == nil && ls.zero[a.Seg.lenKey()] {
			continue
		}
		out = append(out, a)
	}
	return out
}

// starts[i] = position of atom i; starts[len] = end.
func (m *layMachine) starts(p *layoutPath, atoms []*atom) []*linForm {
	pos := newLin()
	out := []*linForm{pos}
	for _, a := range atoms {
		pos = pos.add(m.lenLin(p.St, []*atom{a}), 1)
		out = append(out, pos)
	}
	return out
}

func (m *layMachine) applyZero(st *State, l *linForm) *linForm {
	ls := m.ls(st)
	for k := range l.Coef {
		if ls.zero[k] {
			l = l.subst(k, newLin())
		}
	}
	return l
}

var tokIdx = regexp.MustCompile(`Tokens\[([^\]]+)\]`)

// childPath extracts the chain of Tokens[...] indexes from a segment's source term,
// e.g. "tok.Tokens[1].Tokens[i].Tokens[0]" -> ["1","i","0"]; a trailing ".Tokens" adds "*".
func childPath(src *T) []string {
	if src == nil {
		return nil
	}
	s := src.String()
	i := strings.Index(s, "tok.Tokens")
	if i < 0 {
		i = strings.Index(s, ".Tokens")
		if i < 0 {
			return nil
		}
	}
	s = s[i:]
	// cut at the first ',' or ')' at depth 0
	depth := 0
	end := len(s)
	for j, ch := range s {
		if ch == '(' || ch == '[' {
			depth++
		} else if ch == ')' || ch == ']' {
			depth--
			if depth < 0 {
				end = j
				break
			}
		} else if ch == ',' && depth == 0 {
			end = j
			break
		}
	}
	s = s[:end]
	var out []string
	for _, mm := range tokIdx.FindAllStringSubmatch(s, -1) {
		out = append(out, mm[1])
	}
	if strings.HasSuffix(s, ".Tokens") {
		out = append(out, "*")
	}
	return out
}
