package main

// A small path-enumerating symbolic interpreter for straight-line Go code on the
// typed AST.  Loops are summarised (havoc) unless a hook models them.  There
// are no path constraints beyond the recorded branch conditions and no solver:
// rules compare the resulting terms syntactically.

import (
	"fmt"
	"go/ast"
	"go/constant"
	"go/token"
	"go/types"
	"os"
	"strings"
)

type Effect struct {
	Kind   string // store call loop defer go panic
	Target *T
	Value  *T
	Node   ast.Node
	NConds int // number of path conditions in force when the effect happened
}

func (e Effect) String() string {
	switch e.Kind {
	case "store":
		return e.Target.String() + " = " + e.Value.String()
	case "call":
		return "call " + e.Value.String()
	}
	return e.Kind + " " + fmt.Sprint(e.Value)
}

type State struct {
	Vars  map[types.Object]*T
	Mem   map[string]*T
	Conds []*T
	Eff   []Effect
	Ret   []*T
	Done  string // "" return break continue panic
	Flags map[string]bool
	X     any
}

type cloner interface{ Clone() any }

func newState() *State {
	return &State{Vars: map[types.Object]*T{}, Mem: map[string]*T{}, Flags: map[string]bool{}}
}

func (s *State) Clone() *State {
	n := &State{Vars: make(map[types.Object]*T, len(s.Vars)), Mem: make(map[string]*T, len(s.Mem)), Flags: map[string]bool{}}
	for k, v := range s.Vars {
		n.Vars[k] = v
	}
	for k, v := range s.Mem {
		n.Mem[k] = v
	}
	for k, v := range s.Flags {
		n.Flags[k] = v
	}
	n.Conds = append([]*T(nil), s.Conds...)
	n.Eff = append([]Effect(nil), s.Eff...)
	n.Ret = s.Ret
	n.Done = s.Done
	if c, ok := s.X.(cloner); ok {
		n.X = c.Clone()
	} else {
		n.X = s.X
	}
	return n
}

func (s *State) flag(f string) { s.Flags[f] = true }

type Hooks struct {
	Eval   func(in *Interp, st *State, e ast.Expr) *T
	Post   func(in *Interp, st *State, e ast.Expr, t *T) *T // rewrite a freshly built term
	Assign func(in *Interp, st *State, lhs ast.Expr, lv *T, val *T) bool
	Loop   func(in *Interp, st *State, s ast.Stmt) []*State
	Call   func(in *Interp, st *State, call *ast.CallExpr, name string, recv *T, args []*T) *T
	Cond   func(in *Interp, st *State, cond *T) (known bool, val bool, refineTrue, refineFalse func(*State))
	Bind   func(in *Interp, st *State, o types.Object, val *T)
}

type Interp struct {
	C        *Ctx
	H        Hooks
	MaxPaths int
	Overflow bool
	Inline   func(callee types.Object) bool
	NoReturn func(callee types.Object) bool
	NoLin    bool // keep + - * as binary terms (operand order matters to the rule)
	depth    int
	fnStack  []*ast.FuncType
	// statement-level forking on an inlined helper whose paths disagree (a, b = helper(..)):
	// execStmt sets forkCall; evalCall leaves the returning paths in forked
	forkCall *ast.CallExpr
	forked   []*State
	// results of helper calls that forkNested has already run on the current path
	subst map[*ast.CallExpr]*T
}

func newInterp(c *Ctx) *Interp { return &Interp{C: c, MaxPaths: 600} }

// ExecFunc runs a function body with parameters bound to fresh variables (or
// the given terms) and returns all paths.
func (in *Interp) ExecFunc(fd *ast.FuncDecl, bind map[string]*T) []*State {
	st := newState()
	in.bindParams(st, fd.Recv, fd.Type, bind)
	return in.execBody(fd.Body, fd.Type, st)
}

func (in *Interp) ExecLit(fl *ast.FuncLit, st *State, bind map[string]*T) []*State {
	in.bindParams(st, nil, fl.Type, bind)
	return in.execBody(fl.Body, fl.Type, st)
}

func (in *Interp) bindParams(st *State, recv *ast.FieldList, ft *ast.FuncType, bind map[string]*T) {
	lists := []*ast.FieldList{recv, ft.Params}
	for _, fl := range lists {
		if fl == nil {
			continue
		}
		for _, f := range fl.List {
			for _, n := range f.Names {
				o := in.C.Info.Defs[n]
				if o == nil {
					continue
				}
				if t, ok := bind[n.Name]; ok {
					st.Vars[o] = t
				} else {
					st.Vars[o] = tVar(o, n.Name)
				}
			}
		}
	}
	if ft.Results != nil {
		for _, f := range ft.Results.List {
			for _, n := range f.Names {
				if o := in.C.Info.Defs[n]; o != nil {
					st.Vars[o] = in.zeroOf(o.Type())
				}
			}
		}
	}
}

func (in *Interp) execBody(body *ast.BlockStmt, ft *ast.FuncType, st *State) []*State {
	in.fnStack = append(in.fnStack, ft)
	defer func() { in.fnStack = in.fnStack[:len(in.fnStack)-1] }()
	out := in.execStmts(body.List, []*State{st})
	for _, s := range out {
		if s.Done == "" {
			// fell off the end: named results are the return values
			s.Done = "return"
			s.Ret = in.namedResults(s, ft)
		}
	}
	return out
}

func (in *Interp) namedResults(s *State, ft *ast.FuncType) []*T {
	var r []*T
	if ft.Results == nil {
		return nil
	}
	for _, f := range ft.Results.List {
		for _, n := range f.Names {
			if o := in.C.Info.Defs[n]; o != nil {
				r = append(r, s.Vars[o])
			}
		}
	}
	return r
}

func (in *Interp) zeroOf(t types.Type) *T {
	switch u := t.Underlying().(type) {
	case *types.Basic:
		switch {
		case u.Info()&types.IsInteger != 0:
			return tInt(0)
		case u.Info()&types.IsBoolean != 0:
			return tConst("false")
		case u.Info()&types.IsString != 0:
			return tStr("")
		}
	case *types.Slice, *types.Pointer, *types.Map, *types.Interface, *types.Signature, *types.Chan:
		z := tNil()
		return z
	}
	return &T{Op: "zero", Name: types.TypeString(t, func(p *types.Package) string { return "" })}
}

func (in *Interp) execStmts(list []ast.Stmt, states []*State) []*State {
	for _, s := range list {
		var next []*State
		for _, st := range states {
			if st.Done != "" {
				next = append(next, st)
				continue
			}
			next = append(next, in.execStmt(s, st)...)
		}
		states = next
		if len(states) > in.MaxPaths {
			in.Overflow = true
			states = states[:in.MaxPaths]
		}
	}
	return states
}

func (in *Interp) execStmt(s ast.Stmt, st *State) []*State {
	if out, ok := in.forkNested(s, st); ok {
		return out
	}
	switch x := s.(type) {
	case *ast.BlockStmt:
		return in.execStmts(x.List, []*State{st})
	case *ast.ExprStmt:
		if call, ok := unparen(x.X).(*ast.CallExpr); ok {
			t := in.evalCall(st, call, true)
			if in.isNoReturn(call) {
				st.Done = "panic"
				st.Eff = append(st.Eff, Effect{Kind: "panic", Value: t, Node: call})
			}
			return []*State{st}
		}
		in.eval(st, x.X)
		return []*State{st}
	case *ast.AssignStmt:
		// `a, b = helper(..)` with a new helper whose returning paths differ: one successor per path
		if len(x.Rhs) == 1 && (x.Tok == token.ASSIGN || x.Tok == token.DEFINE) && in.Inline != nil {
			if call, ok := unparen(x.Rhs[0]).(*ast.CallExpr); ok {
				if callee := in.C.Callee(call); callee != nil && in.Inline(callee) {
					base := st.Clone()
					in.forkCall, in.forked = call, nil
					t := in.eval(st, x.Rhs[0])
					forked := in.forked
					in.forkCall, in.forked = nil, nil
					if forked == nil {
						in.execAssignWith(st, x, t)
						return []*State{st}
					}
					var out []*State
					for _, r := range forked {
						ns := base.Clone()
						ns.Mem, ns.Eff, ns.X, ns.Conds = r.Mem, r.Eff, r.X, r.Conds
						for k, v := range r.Flags {
							ns.Flags[k] = v
						}
						var rt *T
						switch len(r.Ret) {
						case 0:
							rt = &T{Op: "tuple", Name: "void"}
						case 1:
							rt = r.Ret[0]
						default:
							rt = &T{Op: "tuple", Name: "", Args: r.Ret}
						}
						in.execAssignWith(ns, x, rt)
						out = append(out, ns)
					}
					return out
				}
			}
		}
		in.execAssign(st, x)
		return []*State{st}
	case *ast.IncDecStmt:
		cur := in.eval(st, x.X)
		d := int64(1)
		if x.Tok == token.DEC {
			d = -1
		}
		in.store(st, x.X, toLin(cur).add(toLin(tInt(d)), 1).term())
		return []*State{st}
	case *ast.DeclStmt:
		gd, ok := x.Decl.(*ast.GenDecl)
		if !ok {
			return []*State{st}
		}
		for _, sp := range gd.Specs {
			vs, ok := sp.(*ast.ValueSpec)
			if !ok {
				continue
			}
			if len(vs.Values) == len(vs.Names) {
				vals := make([]*T, len(vs.Values))
				for i, v := range vs.Values {
					vals[i] = in.eval(st, v)
				}
				for i, n := range vs.Names {
					if o := in.C.Info.Defs[n]; o != nil {
						st.Vars[o] = vals[i]
					}
				}
			} else if len(vs.Values) == 1 {
				t := in.eval(st, vs.Values[0])
				for i, n := range vs.Names {
					if o := in.C.Info.Defs[n]; o != nil {
						st.Vars[o] = &T{Op: "proj", K: int64(i), Args: []*T{t}}
					}
				}
			} else {
				for _, n := range vs.Names {
					if o := in.C.Info.Defs[n]; o != nil {
						st.Vars[o] = in.zeroOf(o.Type())
					}
				}
			}
		}
		return []*State{st}
	case *ast.ReturnStmt:
		if len(x.Results) == 0 {
			if len(in.fnStack) > 0 {
				st.Ret = in.namedResults(st, in.fnStack[len(in.fnStack)-1])
			}
		} else if len(x.Results) == 1 {
			// `return helper(..)` with a new helper whose returning paths differ: one successor per path
			if call, ok := unparen(x.Results[0]).(*ast.CallExpr); ok && in.Inline != nil {
				if callee := in.C.Callee(call); callee != nil && in.Inline(callee) {
					base := st.Clone()
					in.forkCall, in.forked = call, nil
					t0 := in.eval(st, x.Results[0])
					forked := in.forked
					in.forkCall, in.forked = nil, nil
					if forked != nil {
						var out []*State
						for _, r := range forked {
							ns := base.Clone()
							ns.Mem, ns.Eff, ns.X, ns.Conds = r.Mem, r.Eff, r.X, r.Conds
							for k, v := range r.Flags {
								ns.Flags[k] = v
							}
							ns.Ret = r.Ret
							ns.Done = "return"
							out = append(out, ns)
						}
						return out
					}
					if tup, ok := in.C.TypeOf(x.Results[0]).(*types.Tuple); ok && tup.Len() > 1 {
						for i := 0; i < tup.Len(); i++ {
							st.Ret = append(st.Ret, &T{Op: "proj", K: int64(i), Args: []*T{t0}})
						}
					} else {
						st.Ret = []*T{t0}
					}
					st.Done = "return"
					return []*State{st}
				}
			}
			t := in.eval(st, x.Results[0])
			if tup, ok := in.C.TypeOf(x.Results[0]).(*types.Tuple); ok && tup.Len() > 1 {
				for i := 0; i < tup.Len(); i++ {
					st.Ret = append(st.Ret, &T{Op: "proj", K: int64(i), Args: []*T{t}})
				}
			} else {
				st.Ret = []*T{t}
			}
		} else {
			var r []*T
			for _, e := range x.Results {
				r = append(r, in.eval(st, e))
			}
			st.Ret = r
		}
		st.Done = "return"
		return []*State{st}
	case *ast.IfStmt:
		if x.Init != nil {
			sts := in.execStmt(x.Init, st)
			var out []*State
			for _, s2 := range sts {
				out = append(out, in.execIf(x, s2)...)
			}
			return out
		}
		return in.execIf(x, st)
	case *ast.SwitchStmt:
		return in.execSwitch(x, st)
	case *ast.TypeSwitchStmt:
		return in.execTypeSwitch(x, st)
	case *ast.ForStmt, *ast.RangeStmt:
		// a range over a short list that is known element by element — a literal of constants
		// (for _, stop := range []string{";", "{"}) or a local built by a literal and appends
		// — is unrolled: each element is one pass through the body
		if rs, ok := s.(*ast.RangeStmt); ok && (rs.Tok == token.DEFINE || rs.Tok == token.ASSIGN) {
			var elems []*T
			known := false
			if cl, ok := unparen(rs.X).(*ast.CompositeLit); ok && len(cl.Elts) > 0 {
				known = true
				for _, el := range cl.Elts {
					if _, isKV := el.(*ast.KeyValueExpr); isKV {
						known = false
					} else if _, ok := in.C.ConstOf(el); !ok {
						known = false
					}
				}
				if _, isSlice := in.C.TypeOf(cl).Underlying().(*types.Slice); !isSlice {
					known = false
				}
				if known {
					for _, el := range cl.Elts {
						elems = append(elems, in.eval(st, el))
					}
				}
			} else if id, ok := unparen(rs.X).(*ast.Ident); ok {
				if v, ok := in.C.Obj(id).(*types.Var); ok && v.Parent() != in.C.Types.Scope() {
					if _, isSlice := v.Type().Underlying().(*types.Slice); isSlice {
						elems, known = listElems(in.eval(st, rs.X))
					}
				}
			}
			if known && len(elems) > 0 && len(elems) <= 6 {
				states := []*State{st}
				for i, el := range elems {
					var next []*State
					for _, cur := range states {
						if cur.Done != "" {
							next = append(next, cur)
							continue
						}
						if rs.Key != nil {
							in.storeLV(cur, rs.Key, in.lvalue(cur, rs.Key), tInt(int64(i)))
						}
						if rs.Value != nil {
							in.storeLV(cur, rs.Value, in.lvalue(cur, rs.Value), el)
						}
						for _, o := range in.execStmts(rs.Body.List, []*State{cur}) {
							if o.Done == "continue" {
								o.Done = ""
							}
							next = append(next, o)
						}
					}
					states = next
					if len(states) > in.MaxPaths {
						in.Overflow = true
						break
					}
				}
				for _, o := range states {
					if o.Done == "break" {
						o.Done = ""
					}
				}
				return states
			}
		}
		if in.H.Loop != nil {
			if out := in.H.Loop(in, st, s); out != nil {
				return out
			}
		}
		in.havocLoop(st, s)
		return []*State{st}
	case *ast.BranchStmt:
		switch x.Tok {
		case token.BREAK:
			st.Done = "break"
		case token.CONTINUE:
			st.Done = "continue"
		default:
			st.flag("unsupported:" + x.Tok.String())
		}
		if x.Label != nil {
			st.flag("unsupported:label")
		}
		return []*State{st}
	case *ast.DeferStmt:
		st.Eff = append(st.Eff, Effect{Kind: "defer", Node: x, Value: tOpaque("defer@" + in.C.Pos(x))})
		return []*State{st}
	case *ast.GoStmt:
		st.Eff = append(st.Eff, Effect{Kind: "go", Node: x, Value: tOpaque("go@" + in.C.Pos(x))})
		return []*State{st}
	case *ast.LabeledStmt:
		st.flag("unsupported:label")
		return in.execStmt(x.Stmt, st)
	case *ast.EmptyStmt:
		return []*State{st}
	default:
		st.flag(fmt.Sprintf("unsupported:%T", s))
		return []*State{st}
	}
}

func (in *Interp) isNoReturn(call *ast.CallExpr) bool {
	o := in.C.Callee(call)
	if b, ok := o.(*types.Builtin); ok && b.Name() == "panic" {
		return true
	}
	if in.NoReturn != nil && o != nil && in.NoReturn(o) {
		return true
	}
	return false
}

func (in *Interp) execIf(x *ast.IfStmt, st *State) []*State {
	// `if helper(..)` / `if !helper(..)` with a new helper whose returning paths differ: one
	// successor per helper path, the condition being what that path returns
	if in.Inline != nil {
		ce, neg := unparen(x.Cond), false
		if u, ok := ce.(*ast.UnaryExpr); ok && u.Op == token.NOT {
			ce, neg = unparen(u.X), true
		}
		if call, ok := ce.(*ast.CallExpr); ok {
			if callee := in.C.Callee(call); callee != nil && in.Inline(callee) {
				base := st.Clone()
				in.forkCall, in.forked = call, nil
				t := in.eval(st, ce)
				forked := in.forked
				in.forkCall, in.forked = nil, nil
				if forked == nil {
					if neg {
						t = notT(t)
					}
					return in.execIfWith(x, st, t)
				}
				var out []*State
				for _, r := range forked {
					if len(r.Ret) != 1 {
						continue
					}
					ns := base.Clone()
					ns.Mem, ns.Eff, ns.X, ns.Conds = r.Mem, r.Eff, r.X, r.Conds
					for k, v := range r.Flags {
						ns.Flags[k] = v
					}
					ct := r.Ret[0]
					if neg {
						ct = notT(ct)
					}
					out = append(out, in.execIfWith(x, ns, ct)...)
				}
				return out
			}
		}
	}
	return in.execIfWith(x, st, in.eval(st, x.Cond))
}

func (in *Interp) execIfWith(x *ast.IfStmt, st *State, cond *T) []*State {
	known, val := false, false
	var rT, rF func(*State)
	if cond.Op == "const" && (cond.Name == "true" || cond.Name == "false") {
		known, val = true, cond.Name == "true"
	} else if in.H.Cond != nil {
		known, val, rT, rF = in.H.Cond(in, st, cond)
	}
	if !known {
		// a condition already decided on this path
		cs, ns := cond.String(), notT(cond).String()
		for _, prev := range st.Conds {
			if prev.String() == cs {
				known, val = true, true
			} else if prev.String() == ns {
				known, val = true, false
			}
		}
	}
	var out []*State
	if !known || val {
		t := st
		if !known {
			t = st.Clone()
			t.Conds = append(t.Conds, cond)
			if rT != nil {
				rT(t)
			}
		}
		out = append(out, in.execStmts(x.Body.List, []*State{t})...)
	}
	if !known || !val {
		f := st
		if !known {
			f.Conds = append(f.Conds, notConds(cond)...)
			if rF != nil {
				rF(f)
			}
		}
		if x.Else != nil {
			out = append(out, in.execStmt(x.Else, f)...)
		} else {
			out = append(out, f)
		}
	}
	return out
}

func (in *Interp) execSwitch(x *ast.SwitchStmt, st *State) []*State {
	states := []*State{st}
	if x.Init != nil {
		states = in.execStmt(x.Init, st)
	}
	var out []*State
	for _, s0 := range states {
		var tag *T
		if x.Tag != nil {
			tag = in.eval(s0, x.Tag)
		}
		var def *ast.CaseClause
		var negs []*T
		decided := false
		for _, cc := range x.Body.List {
			cl := cc.(*ast.CaseClause)
			if cl.List == nil {
				def = cl
				continue
			}
			var alts []*T
			stat := 0 // 1 = statically true, -1 statically false for all
			allFalse := true
			for _, e := range cl.List {
				v := in.eval(s0, e)
				var c *T
				if tag != nil {
					c = tBin("==", tag, v)
					if isConstTerm(tag) && isConstTerm(v) {
						if tag.Eq(v) {
							stat = 1
						}
					} else {
						allFalse = false
					}
				} else {
					c = v
					if v.Op == "const" && v.Name == "true" {
						stat = 1
					} else if !(v.Op == "const" && v.Name == "false") {
						allFalse = false
					}
				}
				alts = append(alts, c)
			}
			if stat != 1 && allFalse {
				continue // statically not taken
			}
			var c *T
			if len(alts) == 1 {
				c = alts[0]
			} else {
				c = &T{Op: "call", Name: "anyof", Args: alts}
			}
			b := s0.Clone()
			b.Conds = append(b.Conds, negs...)
			if stat != 1 {
				b.Conds = append(b.Conds, c)
			}
			res := in.execStmts(cl.Body, []*State{b})
			for _, r := range res {
				if r.Done == "break" {
					r.Done = ""
				}
			}
			out = append(out, res...)
			if stat == 1 {
				decided = true
				break
			}
			negs = append(negs, notT(c))
		}
		if !decided {
			b := s0.Clone()
			b.Conds = append(b.Conds, negs...)
			if def != nil {
				res := in.execStmts(def.Body, []*State{b})
				for _, r := range res {
					if r.Done == "break" {
						r.Done = ""
					}
				}
				out = append(out, res...)
			} else {
				out = append(out, b)
			}
		}
	}
	return out
}

func isConstTerm(t *T) bool {
	return t.Op == "int" || t.Op == "str" || t.Op == "const" || t.Op == "nil"
}

func (in *Interp) execTypeSwitch(x *ast.TypeSwitchStmt, st *State) []*State {
	// each clause is a path; the bound variable is an assert term
	var subj *T
	var bindIdent *ast.Ident
	switch a := x.Assign.(type) {
	case *ast.AssignStmt:
		bindIdent, _ = a.Lhs[0].(*ast.Ident)
		if ta, ok := unparen(a.Rhs[0]).(*ast.TypeAssertExpr); ok {
			subj = in.eval(st, ta.X)
		}
	case *ast.ExprStmt:
		if ta, ok := unparen(a.X).(*ast.TypeAssertExpr); ok {
			subj = in.eval(st, ta.X)
		}
	}
	if subj == nil {
		subj = tOpaque("typeswitch")
	}
	var out []*State
	for _, cc := range x.Body.List {
		cl := cc.(*ast.CaseClause)
		b := st.Clone()
		name := "default"
		if len(cl.List) > 0 {
			var ns []string
			for _, e := range cl.List {
				ns = append(ns, types.ExprString(e))
			}
			name = strings.Join(ns, "|")
		}
		b.Conds = append(b.Conds, &T{Op: "assert", Name: "type:" + name, Args: []*T{subj}})
		if bindIdent != nil {
			if o := in.C.Info.Implicits[cl]; o != nil {
				b.Vars[o] = &T{Op: "assert", Name: name, Args: []*T{subj}}
			}
		}
		res := in.execStmts(cl.Body, []*State{b})
		for _, r := range res {
			if r.Done == "break" {
				r.Done = ""
			}
		}
		out = append(out, res...)
	}
	return out
}

// havocLoop forgets everything the loop body may assign.
func (in *Interp) havocLoop(st *State, s ast.Stmt) {
	id := "loop@" + in.C.Pos(s)
	ast.Inspect(s, func(n ast.Node) bool {
		switch a := n.(type) {
		case *ast.AssignStmt:
			for _, l := range a.Lhs {
				in.havocLHS(st, l, id)
			}
		case *ast.IncDecStmt:
			in.havocLHS(st, a.X, id)
		case *ast.RangeStmt:
			if a.Key != nil {
				in.havocLHS(st, a.Key, id)
			}
			if a.Value != nil {
				in.havocLHS(st, a.Value, id)
			}
		}
		return true
	})
	st.Eff = append(st.Eff, Effect{Kind: "loop", Node: s, Value: tOpaque(id)})
}

func (in *Interp) havocLHS(st *State, l ast.Expr, id string) {
	if idn, ok := unparen(l).(*ast.Ident); ok {
		if idn.Name == "_" {
			return
		}
		o := in.C.Obj(idn)
		if o != nil {
			st.Vars[o] = tOpaque(id + ":" + idn.Name)
		}
		return
	}
	// memory: drop every cell whose key starts with the root path
	root := rootPath(l)
	for k := range st.Mem {
		if strings.HasPrefix(k, root) {
			delete(st.Mem, k)
		}
	}
	st.Mem["havoc:"+root] = tOpaque(id)
}

func rootPath(e ast.Expr) string {
	switch x := unparen(e).(type) {
	case *ast.Ident:
		return x.Name
	case *ast.SelectorExpr:
		return rootPath(x.X) + "." + x.Sel.Name
	case *ast.IndexExpr:
		return rootPath(x.X)
	case *ast.StarExpr:
		return rootPath(x.X)
	}
	return "?"
}

func (in *Interp) execAssign(st *State, x *ast.AssignStmt) {
	if x.Tok != token.ASSIGN && x.Tok != token.DEFINE {
		// op=
		op := strings.TrimSuffix(x.Tok.String(), "=")
		cur := in.eval(st, x.Lhs[0])
		rhs := in.eval(st, x.Rhs[0])
		in.store(st, x.Lhs[0], in.binop(op, cur, rhs, in.C.TypeOf(x.Lhs[0])))
		return
	}
	in.execAssignWith(st, x, nil)
}

// execAssignWith: as execAssign; pre, when given, is the already evaluated single right-hand side.
func (in *Interp) execAssignWith(st *State, x *ast.AssignStmt, pre *T) {
	var vals []*T
	if pre != nil && len(x.Rhs) == 1 && len(x.Lhs) == 1 {
		vals = []*T{pre}
	} else if len(x.Rhs) == 1 && len(x.Lhs) > 1 {
		t := pre
		if t == nil {
			t = in.eval(st, x.Rhs[0])
		}
		for i := range x.Lhs {
			if t.Op == "tuple" && i < len(t.Args) {
				vals = append(vals, t.Args[i])
			} else {
				vals = append(vals, &T{Op: "proj", K: int64(i), Args: []*T{t}})
			}
		}
	} else {
		for _, r := range x.Rhs {
			vals = append(vals, in.eval(st, r))
		}
	}
	// phase 1 of Go's assignment: index operands on the left are evaluated first
	var lvs []*T
	for _, l := range x.Lhs {
		lvs = append(lvs, in.lvalue(st, l))
	}
	for i, l := range x.Lhs {
		in.storeLV(st, l, lvs[i], vals[i])
	}
}

// lvalue computes the term naming the location (nil for plain identifiers).
func (in *Interp) lvalue(st *State, l ast.Expr) *T {
	switch x := unparen(l).(type) {
	case *ast.Ident:
		return nil
	case *ast.SelectorExpr:
		return tField(in.eval(st, x.X), x.Sel.Name)
	case *ast.IndexExpr:
		return tIndex(in.eval(st, x.X), in.eval(st, x.Index))
	case *ast.StarExpr:
		b := in.eval(st, x.X)
		if b.Op == "addr" {
			return b.Args[0]
		}
		return &T{Op: "deref", Args: []*T{b}}
	}
	return tOpaque("lvalue@" + in.C.Pos(l))
}

func (in *Interp) store(st *State, l ast.Expr, val *T) {
	in.storeLV(st, l, in.lvalue(st, l), val)
}

func (in *Interp) storeLV(st *State, l ast.Expr, lv *T, val *T) {
	if idn, ok := unparen(l).(*ast.Ident); ok {
		if idn.Name == "_" {
			return
		}
		o := in.C.Obj(idn)
		if o == nil {
			return
		}
		if v, isVar := o.(*types.Var); isVar && v.Parent() == in.C.Types.Scope() {
			// package-level variable: a memory effect
			st.Mem["global."+idn.Name] = val
			st.Eff = append(st.Eff, Effect{Kind: "store", Target: tVar(o, idn.Name), Value: val, Node: l})
			return
		}
		st.Vars[o] = val
		if in.H.Bind != nil {
			in.H.Bind(in, st, o, val)
		}
		return
	}
	if in.H.Assign != nil && in.H.Assign(in, st, l, lv, val) {
		return
	}
	// a field of a local struct value that is held as a literal term: update the literal
	if sel, ok := unparen(l).(*ast.SelectorExpr); ok {
		if id, ok := unparen(sel.X).(*ast.Ident); ok {
			if o := in.C.Obj(id); o != nil {
				if cur := st.Vars[o]; cur != nil && cur.Op == "lit" && !strings.HasPrefix(cur.Name, "[]") && !strings.HasPrefix(cur.Name, "map") {
					n := *cur
					n.str = ""
					n.Args = nil
					replaced := false
					for _, a := range cur.Args {
						if a.Op == "kv" && a.Name == sel.Sel.Name {
							n.Args = append(n.Args, &T{Op: "kv", Name: a.Name, Args: []*T{val}})
							replaced = true
						} else {
							n.Args = append(n.Args, a)
						}
					}
					if !replaced {
						n.Args = append(n.Args, &T{Op: "kv", Name: sel.Sel.Name, Args: []*T{val}})
						sortKV(n.Args)
					}
					st.Vars[o] = &n
					return
				}
			}
		}
	}
	key := lv.String()
	for k := range st.Mem {
		if strings.HasPrefix(k, key+".") || strings.HasPrefix(k, key+"[") {
			delete(st.Mem, k)
		}
	}
	st.Mem[key] = val
	st.Eff = append(st.Eff, Effect{Kind: "store", Target: lv, Value: val, Node: l})
}

func (in *Interp) load(st *State, lv *T) *T {
	if v, ok := st.Mem[lv.String()]; ok {
		return v
	}
	return lv
}

func (in *Interp) eval(st *State, e ast.Expr) *T {
	if in.H.Eval != nil {
		if t := in.H.Eval(in, st, e); t != nil {
			return t
		}
	}
	t := in.eval0(st, e)
	if in.H.Post != nil {
		if u := in.H.Post(in, st, e, t); u != nil {
			return u
		}
	}
	return t
}

func (in *Interp) constTerm(v constant.Value, typ types.Type) *T {
	switch v.Kind() {
	case constant.Int:
		if i, ok := constant.Int64Val(v); ok {
			return tInt(i)
		}
	case constant.String:
		return tStr(constant.StringVal(v))
	case constant.Bool:
		if constant.BoolVal(v) {
			return tConst("true")
		}
		return tConst("false")
	}
	return tConst(v.ExactString())
}

func (in *Interp) eval0(st *State, e ast.Expr) *T {
	if e == nil {
		return nil
	}
	// typed constants (including named opcode/type-tag constants) keep their name
	switch x := e.(type) {
	case *ast.ParenExpr:
		return in.eval(st, x.X)
	case *ast.BasicLit:
		if v, ok := in.C.ConstOf(e); ok {
			return in.constTerm(v, nil)
		}
		return tConst(x.Value)
	case *ast.Ident:
		o := in.C.Obj(x)
		switch ob := o.(type) {
		case *types.Const:
			if isNamedConstType(ob.Type()) {
				t := tConst(ob.Name())
				t.Obj = ob
				return t
			}
			return in.constTerm(ob.Val(), ob.Type())
		case *types.Nil:
			return tNil()
		case *types.Var:
			if v, ok := st.Vars[ob]; ok {
				return v
			}
			if ob.Parent() == in.C.Types.Scope() {
				if v, ok := st.Mem["global."+x.Name]; ok {
					return v
				}
			}
			return tVar(ob, x.Name)
		case *types.Func:
			t := tVar(ob, "func:"+objName(ob))
			return t
		case *types.TypeName:
			return tConst("type:" + ob.Name())
		case *types.Builtin:
			return tConst("builtin:" + ob.Name())
		}
		if x.Name == "_" {
			return tOpaque("_")
		}
		return tOpaque("ident:" + x.Name)
	case *ast.SelectorExpr:
		if sel := in.C.Info.Selections[x]; sel != nil {
			base := in.eval(st, x.X)
			switch sel.Kind() {
			case types.FieldVal:
				// embedded-field promotion is kept by name only
				return in.load(st, tField(base, x.Sel.Name))
			default:
				return &T{Op: "mval", Name: objName(sel.Obj()), Args: []*T{base}, Obj: sel.Obj()}
			}
		}
		// qualified identifier
		o := in.C.Info.Uses[x.Sel]
		switch ob := o.(type) {
		case *types.Const:
			t := tConst(pkgShort(ob) + "." + ob.Name())
			t.Obj = ob
			return t
		case *types.Var:
			return tVar(ob, pkgShort(ob)+"."+ob.Name())
		case *types.Func:
			return tVar(ob, "func:"+objName(ob))
		case *types.TypeName:
			return tConst("type:" + pkgShort(ob) + "." + ob.Name())
		}
		return tOpaque("sel:" + types.ExprString(x))
	case *ast.IndexExpr:
		if tv, ok := in.C.Info.Types[x.X]; ok && tv.IsType() {
			return tConst("type:" + types.ExprString(x))
		}
		if _, isSig := in.C.TypeOf(x.X).(*types.Signature); isSig {
			return in.eval(st, x.X) // generic instantiation
		}
		base := in.eval(st, x.X)
		idx := in.eval(st, x.Index)
		if base.Op == "var" && idx.Op == "str" {
			if v, ok := base.Obj.(*types.Var); ok && v.Parent() == in.C.Types.Scope() {
				if cl := in.C.mapLit(v.Name()); cl != nil && !in.C.mapMutated(v) {
					vals, _ := in.C.stringKeyed(cl)
					if ve, ok := vals[idx.Name]; ok {
						return in.eval(st, ve)
					}
					return in.zeroOf(in.C.TypeOf(x))
				}
			}
		}
		// a package-level table keyed by constants (map[code]code{codeAdd: codeLocalAdd, ..})
		if os.Getenv("GC_DEBUG") != "" {
			fmt.Println("INDEXDBG", base.Op, base.String(), idx.Op, idx.String(), idx.Obj != nil)
		}
		if base.Op == "var" && (idx.Op == "const" || idx.Op == "int") {
			if v, ok := base.Obj.(*types.Var); ok && v.Parent() == in.C.Types.Scope() {
				if cl := in.C.mapLit(v.Name()); cl != nil && !in.C.mapMutated(v) {
					var want constant.Value
					if idx.Op == "int" {
						want = constant.MakeInt64(idx.K)
					} else if co, ok := idx.Obj.(*types.Const); ok {
						want = co.Val()
					}
					if want != nil && want.Kind() == constant.Int {
						decided := true
						for _, el := range cl.Elts {
							kv, ok := el.(*ast.KeyValueExpr)
							if !ok {
								decided = false
								break
							}
							kc, ok := in.C.ConstOf(kv.Key)
							if !ok || kc.Kind() != constant.Int {
								decided = false
								break
							}
							if constant.Compare(kc, token.EQL, want) {
								return in.eval(st, kv.Value)
							}
						}
						if decided {
							// the zero value: the named constant of the element type that is 0, if any
							et := in.C.TypeOf(x)
							sc := in.C.Types.Scope()
							for _, nm := range sc.Names() {
								if co, ok := sc.Lookup(nm).(*types.Const); ok && types.Identical(co.Type(), et) && co.Val().Kind() == constant.Int {
									if z, ok := constant.Int64Val(co.Val()); ok && z == 0 {
										t := tConst(nm)
										t.Obj = co
										return t
									}
								}
							}
							return in.constTerm(constant.MakeInt64(0), et)
						}
					}
				}
			}
		}
		return in.load(st, tIndex(base, idx))
	case *ast.SliceExpr:
		base := in.eval(st, x.X)
		args := []*T{base, nil, nil}
		if x.Low != nil {
			args[1] = in.eval(st, x.Low)
		}
		if x.High != nil {
			args[2] = in.eval(st, x.High)
		}
		if x.Max != nil {
			args = append(args, in.eval(st, x.Max))
		}
		if base.Op == "str" && len(args) == 3 {
			lo, hi := int64(0), int64(len(base.Name))
			ok := true
			if args[1] != nil {
				lo, ok = toLin(args[1]).isConst()
			}
			if args[2] != nil && ok {
				hi, ok = toLin(args[2]).isConst()
			}
			if ok && lo >= 0 && hi <= int64(len(base.Name)) && lo <= hi {
				return tStr(base.Name[lo:hi])
			}
		}
		return &T{Op: "slice", Args: args}
	case *ast.StarExpr:
		b := in.eval(st, x.X)
		if b.Op == "addr" {
			return in.load(st, b.Args[0])
		}
		return in.load(st, &T{Op: "deref", Args: []*T{b}})
	case *ast.UnaryExpr:
		if x.Op == token.AND {
			if cl, ok := unparen(x.X).(*ast.CompositeLit); ok {
				return &T{Op: "addr", Args: []*T{in.eval(st, cl)}}
			}
			lv := in.lvalue(st, x.X)
			if lv == nil {
				return &T{Op: "addr", Args: []*T{in.eval(st, x.X)}}
			}
			return &T{Op: "addr", Args: []*T{lv}}
		}
		a := in.eval(st, x.X)
		if v, ok := in.C.ConstOf(e); ok && !isNamedConstType(in.C.TypeOf(e)) {
			return in.constTerm(v, nil)
		}
		switch x.Op {
		case token.SUB:
			if isIntegerType(in.C.TypeOf(e)) && !in.NoLin {
				return linOfShallow(a).scale(-1).term()
			}
		case token.ADD:
			return a
		case token.NOT:
			if a.Op == "const" && a.Name == "true" {
				return tConst("false")
			}
			if a.Op == "const" && a.Name == "false" {
				return tConst("true")
			}
			return notT(a)
		}
		return tUn(x.Op.String(), a)
	case *ast.BinaryExpr:
		a := in.eval(st, x.X)
		b := in.eval(st, x.Y)
		if v, ok := in.C.ConstOf(e); ok && !isNamedConstType(in.C.TypeOf(e)) {
			return in.constTerm(v, nil)
		}
		return in.binop(x.Op.String(), a, b, in.C.TypeOf(x.X))
	case *ast.CallExpr:
		return in.evalCall(st, x, false)
	case *ast.CompositeLit:
		return in.evalLit(st, x)
	case *ast.FuncLit:
		return &T{Op: "func", Name: in.C.Pos(x), Aux: x, Node: x}
	case *ast.TypeAssertExpr:
		a := in.eval(st, x.X)
		if x.Type == nil {
			return &T{Op: "assert", Name: "type", Args: []*T{a}}
		}
		return &T{Op: "assert", Name: types.ExprString(x.Type), Args: []*T{a}}
	case *ast.KeyValueExpr:
		return &T{Op: "kv", Name: types.ExprString(x.Key), Args: []*T{in.eval(st, x.Value)}}
	case *ast.ArrayType, *ast.MapType, *ast.FuncType, *ast.StructType, *ast.InterfaceType, *ast.ChanType:
		return tConst("type:" + types.ExprString(e))
	}
	return tOpaque(fmt.Sprintf("%T@%s", e, in.C.Pos(e)))
}

func pkgShort(o types.Object) string {
	if o.Pkg() == nil {
		return ""
	}
	return o.Pkg().Name()
}

func isNamedConstType(t types.Type) bool {
	n, ok := t.(*types.Named)
	if !ok {
		return false
	}
	return n.Obj().Pkg() != nil && n.Obj().Pkg().Path() == modPath && (n.Obj().Name() == "code" || n.Obj().Name() == "Type")
}

func isIntegerType(t types.Type) bool {
	if t == nil {
		return false
	}
	b, ok := t.Underlying().(*types.Basic)
	return ok && b.Info()&types.IsInteger != 0
}

func linOfShallow(t *T) *linForm { return toLin(t) }

func (in *Interp) binop(op string, a, b *T, operandType types.Type) *T {
	if isIntegerType(operandType) && !isNamedConstType(operandType) && !in.NoLin {
		switch op {
		case "+":
			return toLin(a).add(toLin(b), 1).term()
		case "-":
			return toLin(a).add(toLin(b), -1).term()
		case "*":
			if k, ok := toLin(a).isConst(); ok {
				return toLin(b).scale(k).term()
			}
			if k, ok := toLin(b).isConst(); ok {
				return toLin(a).scale(k).term()
			}
		case "==", "!=", "<", "<=", ">", ">=":
			d := toLin(a).add(toLin(b), -1)
			if k, ok := d.isConst(); ok {
				var r bool
				switch op {
				case "==":
					r = k == 0
				case "!=":
					r = k != 0
				case "<":
					r = k < 0
				case "<=":
					r = k <= 0
				case ">":
					r = k > 0
				case ">=":
					r = k >= 0
				}
				if r {
					return tConst("true")
				}
				return tConst("false")
			}
		}
	}
	if op == "&&" || op == "||" {
		isB := func(t *T, v string) bool { return t.Op == "const" && t.Name == v }
		switch {
		case op == "&&" && (isB(a, "false") || isB(b, "false")):
			return tConst("false")
		case op == "||" && (isB(a, "true") || isB(b, "true")):
			return tConst("true")
		case op == "&&" && isB(a, "true"), op == "||" && isB(a, "false"):
			return b
		case op == "&&" && isB(b, "true"), op == "||" && isB(b, "false"):
			return a
		}
	}
	if op == "==" || op == "!=" {
		if isConstTerm(a) && isConstTerm(b) && (a.Op != "const" || a.Obj == nil || b.Obj == nil || true) {
			eq := a.Eq(b)
			if a.Op == b.Op && (a.Op == "int" || a.Op == "str") || (a.Op == "const" && b.Op == "const" && a.Obj != nil && b.Obj != nil) {
				if (op == "==") == eq {
					return tConst("true")
				}
				return tConst("false")
			}
		}
	}
	return tBin(op, a, b)
}

func (in *Interp) evalLit(st *State, x *ast.CompositeLit) *T {
	typ := in.C.TypeOf(x)
	name := types.TypeString(typ, func(p *types.Package) string {
		if p.Path() == modPath {
			return ""
		}
		return p.Name()
	})
	t := &T{Op: "lit", Name: name, Node: x}
	var stt *types.Struct
	if typ != nil {
		u := typ.Underlying()
		if p, ok := u.(*types.Pointer); ok {
			u = p.Elem().Underlying()
		}
		stt, _ = u.(*types.Struct)
	}
	for i, el := range x.Elts {
		if kv, ok := el.(*ast.KeyValueExpr); ok {
			var key string
			if stt != nil {
				key = types.ExprString(kv.Key)
			} else {
				key = in.eval(st, kv.Key).String()
			}
			t.Args = append(t.Args, &T{Op: "kv", Name: key, Args: []*T{in.eval(st, kv.Value)}})
		} else if stt != nil && i < stt.NumFields() {
			t.Args = append(t.Args, &T{Op: "kv", Name: stt.Field(i).Name(), Args: []*T{in.eval(st, el)}})
		} else {
			t.Args = append(t.Args, in.eval(st, el))
		}
	}
	if stt != nil {
		// canonical field order
		sortKV(t.Args)
	}
	return t
}

func sortKV(a []*T) {
	for i := 1; i < len(a); i++ {
		for j := i; j > 0 && a[j-1].Name > a[j].Name; j-- {
			a[j-1], a[j] = a[j], a[j-1]
		}
	}
}

func (in *Interp) evalCall(st *State, call *ast.CallExpr, stmt bool) *T {
	c := in.C
	if t, ok := in.subst[call]; ok {
		return t
	}
	if typ, ok := c.IsConversion(call); ok && len(call.Args) == 1 {
		a := in.eval(st, call.Args[0])
		name := types.TypeString(typ, func(p *types.Package) string {
			if p.Path() == modPath {
				return ""
			}
			return p.Name()
		})
		if v, ok := c.ConstOf(call); ok && !isNamedConstType(typ) {
			return in.constTerm(v, typ)
		}
		// collapse integer conversions of plain integer constants
		if a.Op == "int" && isIntTypeName(name) && !isNamedConstType(typ) {
			return a
		}
		return tConv(name, a)
	}
	callee := c.Callee(call)
	name := objName(callee)
	var recv *T
	fun := unparen(call.Fun)
	if sel, ok := fun.(*ast.SelectorExpr); ok {
		if s := c.Info.Selections[sel]; s != nil {
			recv = in.eval(st, sel.X)
			if s.Kind() == types.FieldVal {
				// call through a func-typed field
				name = "fieldcall." + sel.Sel.Name
			}
		}
	}
	if name == "" {
		// call of a function value
		fv := in.eval(st, fun)
		name = "dyn:" + fv.String()
	}
	var args []*T
	for _, a := range call.Args {
		args = append(args, in.eval(st, a))
	}
	if call.Ellipsis.IsValid() && len(args) > 0 {
		args[len(args)-1] = &T{Op: "un", Name: "...", Args: []*T{args[len(args)-1]}}
	}
	if in.H.Call != nil {
		if t := in.H.Call(in, st, call, name, recv, args); t != nil {
			return t
		}
	}
	switch name {
	case "builtin.len":
		if args[0].Op == "str" {
			return tInt(int64(len(args[0].Name)))
		}
		if args[0].Op == "nil" {
			return tInt(0)
		}
		if args[0].Op == "lit" && !strings.HasPrefix(args[0].Name, "map") {
			return tInt(int64(len(args[0].Args)))
		}
		return tCall("len", args[0])
	case "builtin.cap":
		return tCall("cap", args[0])
	}
	all := args
	if recv != nil {
		all = append([]*T{recv}, args...)
	}
	// inline helpers when asked to: the body runs in the caller's state (shared
	// memory / model / effects) with the parameters bound; it is accepted when all
	// normally returning paths agree on the returned terms
	if in.Inline != nil && callee != nil && in.Inline(callee) && in.depth < 4 {
		if fd := c.DeclOf(callee); fd != nil && fd.Body != nil && !loopReturns(fd) {
			sub := st.Clone()
			saved := sub.Vars
			sub.Vars = map[types.Object]*T{}
			bind := map[string]*T{}
			i := 0
			if fd.Recv != nil && len(fd.Recv.List) == 1 && len(fd.Recv.List[0].Names) == 1 && recv != nil {
				bind[fd.Recv.List[0].Names[0].Name] = recv
			}
			variadicOK := true
			for _, f := range fd.Type.Params.List {
				if _, isEll := f.Type.(*ast.Ellipsis); isEll {
					// the variadic tail becomes a slice literal of the remaining arguments (or the spread slice)
					if len(f.Names) != 1 {
						variadicOK = false
						break
					}
					if i < len(args) && args[len(args)-1].Op == "un" && args[len(args)-1].Name == "..." && i == len(args)-1 {
						bind[f.Names[0].Name] = args[i].Args[0]
					} else {
						lit := &T{Op: "lit", Name: "[]variadic"}
						for _, a := range args[min(i, len(args)):] {
							lit.Args = append(lit.Args, a)
						}
						bind[f.Names[0].Name] = lit
					}
					i = len(args)
					continue
				}
				for _, n := range f.Names {
					if i < len(args) {
						bind[n.Name] = args[i]
					}
					i++
				}
			}
			if variadicOK && i == len(args) {
				in.depth++
				in.bindParams(sub, fd.Recv, fd.Type, bind)
				res := in.execBody(fd.Body, fd.Type, sub)
				in.depth--
				var rets []*State
				for _, r := range res {
					if r.Done == "return" {
						rets = append(rets, r)
					}
				}
				agree := len(rets) >= 1
				for _, r := range rets[min(1, len(rets)):] {
					if len(r.Ret) != len(rets[0].Ret) {
						agree = false
						break
					}
					for k := range r.Ret {
						if !r.Ret[k].Eq(rets[0].Ret[k]) {
							agree = false
						}
					}
				}
				flagged := false
				for _, r := range res {
					for f := range r.Flags {
						if strings.HasPrefix(f, "unsupported") {
							flagged = true
						}
					}
				}
				// several returning paths are merged only when none of them has an effect of its own
				// (otherwise the call stays opaque: dropping one path's effects would be unsound)
				pure := true
				for _, r := range rets {
					if len(r.Eff) != len(st.Eff) {
						pure = false
					}
				}
				if in.forkCall == call && !flagged && len(rets) > 1 && !(agree && pure) {
					in.forked = rets
					return &T{Op: "tuple", Name: "forked"}
				}
				if agree && !flagged && (len(rets) == 1 || pure) {
					r0 := rets[0]
					// adopt the callee's effects on shared state
					st.Mem, st.Eff, st.X = r0.Mem, r0.Eff, r0.X
					if len(rets) == 1 {
						st.Conds = r0.Conds
					}
					for k, v := range r0.Flags {
						st.Flags[k] = v
					}
					_ = saved
					switch len(r0.Ret) {
					case 0:
						return &T{Op: "tuple", Name: "void"}
					case 1:
						return r0.Ret[0]
					default:
						return &T{Op: "tuple", Name: "", Args: r0.Ret}
					}
				}
			}
		}
	}
	t := &T{Op: "call", Name: name, Args: all, Obj: callee, Node: call}
	if !in.isPureCall(callee, name) {
		st.Eff = append(st.Eff, Effect{Kind: "call", Value: t, Node: call, NConds: len(st.Conds)})
	}
	return t
}

var pureBuiltins = map[string]bool{"builtin.len": true, "builtin.cap": true, "builtin.make": true, "builtin.new": true, "builtin.min": true, "builtin.max": true, "builtin.append": true}

var pureMemo = map[types.Object]int{} // 0 unknown, 1 pure, 2 impure, 3 in progress

// isPureCall: the callee writes nothing outside its own locals (it may still panic).
func (in *Interp) isPureCall(callee types.Object, name string) bool {
	if pureBuiltins[name] {
		return true
	}
	fn, ok := callee.(*types.Func)
	if !ok {
		return false
	}
	if fn.Pkg() == nil || fn.Pkg().Path() != modPath {
		switch fn.Pkg().Path() {
		case "strings", "strconv", "math", "unicode", "unicode/utf8", "path/filepath", "sort":
			return fn.Pkg().Path() != "sort"
		case "fmt":
			return strings.HasPrefix(fn.Name(), "Sprint") || fn.Name() == "Errorf"
		case "golang.org/x/exp/slices":
			return fn.Name() == "Contains" || fn.Name() == "Index"
		case "golang.org/x/exp/maps":
			return fn.Name() == "Keys"
		}
		return false
	}
	switch pureMemo[fn] {
	case 1:
		return true
	case 2, 3:
		return false
	}
	pureMemo[fn] = 3
	fd := in.C.DeclOf(fn)
	pure := fd != nil && fd.Body != nil
	if pure {
		locals := map[types.Object]bool{}
		ast.Inspect(fd, func(n ast.Node) bool {
			if id, ok := n.(*ast.Ident); ok {
				if o := in.C.Info.Defs[id]; o != nil {
					locals[o] = true
				}
			}
			return true
		})
		ast.Inspect(fd.Body, func(n ast.Node) bool {
			if !pure {
				return false
			}
			switch x := n.(type) {
			case *ast.AssignStmt:
				for _, l := range x.Lhs {
					if id, ok := unparen(l).(*ast.Ident); ok {
						if o := in.C.Obj(id); o != nil && !locals[o] && id.Name != "_" {
							pure = false
						}
					} else if _, ok := unparen(l).(*ast.IndexExpr); ok {
						// writes into a locally made slice are fine; be conservative otherwise
						if id := rootIdent(l); id == nil || !locals[in.C.Obj(id)] || isParamOrRecv(in.C, fd, in.C.Obj(id)) {
							pure = false
						}
					} else {
						pure = false
					}
				}
			case *ast.IncDecStmt:
				if id, ok := unparen(x.X).(*ast.Ident); !ok || !locals[in.C.Obj(id)] {
					pure = false
				}
			case *ast.GoStmt, *ast.DeferStmt, *ast.SendStmt:
				pure = false
			case *ast.CallExpr:
				if _, isConv := in.C.IsConversion(x); isConv {
					return true
				}
				o := in.C.Callee(x)
				if o == nil || !in.isPureCall(o, objName(o)) {
					if b, ok := o.(*types.Builtin); ok && (b.Name() == "panic" || b.Name() == "copy") {
						if b.Name() == "copy" {
							if id := rootIdent(x.Args[0]); id == nil || !locals[in.C.Obj(id)] || isParamOrRecv(in.C, fd, in.C.Obj(id)) {
								pure = false
							}
						}
						return true
					}
					pure = false
				}
			}
			return true
		})
	}
	if pure {
		pureMemo[fn] = 1
	} else {
		pureMemo[fn] = 2
	}
	return pure
}

func rootIdent(e ast.Expr) *ast.Ident {
	for {
		switch x := unparen(e).(type) {
		case *ast.Ident:
			return x
		case *ast.SelectorExpr:
			e = x.X
		case *ast.IndexExpr:
			e = x.X
		case *ast.SliceExpr:
			e = x.X
		case *ast.StarExpr:
			e = x.X
		case *ast.CallExpr:
			return nil
		default:
			return nil
		}
	}
}

func isParamOrRecv(c *Ctx, fd *ast.FuncDecl, o types.Object) bool {
	for _, fl := range []*ast.FieldList{fd.Recv, fd.Type.Params} {
		if fl == nil {
			continue
		}
		for _, f := range fl.List {
			for _, n := range f.Names {
				if c.Info.Defs[n] == o {
					return true
				}
			}
		}
	}
	return false
}

var flipCmp = map[string]string{"==": "!=", "!=": "==", "<": ">=", ">=": "<", ">": "<=", "<=": ">"}

// notConds: the conditions that hold when t is false; !(a || b) is !a, !b (De Morgan), so a
// guard clause `if a || b { return }` leaves both negations visible to the rules.
func notConds(t *T) []*T {
	if t.Op == "bin" && t.Name == "||" && len(t.Args) == 2 {
		return append(notConds(t.Args[0]), notConds(t.Args[1])...)
	}
	return []*T{notT(t)}
}

func notT(t *T) *T {
	if t.Op == "un" && t.Name == "!" {
		return t.Args[0]
	}
	if t.Op == "bin" && len(t.Args) == 2 {
		if f, ok := flipCmp[t.Name]; ok {
			return tBin(f, t.Args[0], t.Args[1])
		}
	}
	return tUn("!", t)
}

// loopReturns: the function returns from inside a loop.  Loops are summarised (their
// bodies are not followed to a fixpoint), so such a helper cannot be executed in place:
// the early return would be lost.  It stays an opaque call.
func loopReturns(fd *ast.FuncDecl) bool {
	found := false
	ast.Inspect(fd.Body, func(n ast.Node) bool {
		var body *ast.BlockStmt
		switch l := n.(type) {
		case *ast.ForStmt:
			body = l.Body
		case *ast.RangeStmt:
			body = l.Body
		default:
			return true
		}
		ast.Inspect(body, func(m ast.Node) bool {
			if _, ok := m.(*ast.FuncLit); ok {
				return false
			}
			if _, ok := m.(*ast.ReturnStmt); ok {
				found = true
			}
			return true
		})
		return true
	})
	return found
}

// listElems: the elements of a slice term that is known element by element: a literal,
// nil, or builtin.append of such a list and single elements.
func listElems(t *T) ([]*T, bool) {
	switch {
	case t == nil:
		return nil, false
	case t.Op == "nil":
		return nil, true
	case t.Op == "lit":
		var out []*T
		for _, a := range t.Args {
			if a.Op == "kv" {
				return nil, false
			}
			out = append(out, a)
		}
		return out, true
	case t.Op == "call" && (t.Name == "builtin.append" || t.Name == "append") && len(t.Args) >= 1:
		base, ok := listElems(t.Args[0])
		if !ok {
			return nil, false
		}
		for _, a := range t.Args[1:] {
			if a.Op == "un" && a.Name == "..." {
				return nil, false
			}
			base = append(base, a)
		}
		return base, true
	}
	return nil, false
}

// forkNested: a simple statement that contains, as an operand (not as its outermost
// expression, which execStmt forks on itself), a call of a new helper whose returning paths
// differ — t.Append(asStatement(forClause(p, t, "{"))) — is executed once per path of that
// helper, with the call replaced by the path's result.
func (in *Interp) forkNested(s ast.Stmt, st *State) ([]*State, bool) {
	if in.Inline == nil || in.depth > 6 {
		return nil, false
	}
	var roots []ast.Expr
	switch x := s.(type) {
	case *ast.ExprStmt:
		roots = []ast.Expr{x.X}
	case *ast.AssignStmt:
		if x.Tok != token.ASSIGN && x.Tok != token.DEFINE {
			return nil, false
		}
		roots = x.Rhs
	case *ast.ReturnStmt:
		roots = x.Results
	default:
		return nil, false
	}
	var cands []*ast.CallExpr
	for _, root := range roots {
		top := unparen(root)
		ast.Inspect(root, func(n ast.Node) bool {
			if _, isLit := n.(*ast.FuncLit); isLit {
				return false
			}
			call, ok := n.(*ast.CallExpr)
			if !ok || ast.Expr(call) == top {
				return true
			}
			if _, done := in.subst[call]; done {
				return true
			}
			if callee := in.C.Callee(call); callee != nil && in.Inline(callee) {
				if fd := in.C.DeclOf(callee); fd != nil && fd.Body != nil && branches(fd.Body) {
					cands = append(cands, call)
				}
			}
			return true
		})
	}
	for _, call := range cands {
		// trial run on a copy: does the helper fork here?
		trial := st.Clone()
		saveFork, saveForked := in.forkCall, in.forked
		in.forkCall, in.forked = call, nil
		in.depth++
		for _, root := range roots {
			in.eval(trial, root)
		}
		in.depth--
		forked := in.forked
		in.forkCall, in.forked = saveFork, saveForked
		if forked == nil {
			continue
		}
		var out []*State
		for _, r := range forked {
			ns := st.Clone()
			ns.Mem, ns.Eff, ns.X, ns.Conds = r.Mem, r.Eff, r.X, r.Conds
			for k, v := range r.Flags {
				ns.Flags[k] = v
			}
			var rt *T
			switch len(r.Ret) {
			case 0:
				rt = &T{Op: "tuple", Name: "void"}
			case 1:
				rt = r.Ret[0]
			default:
				rt = &T{Op: "tuple", Name: "", Args: r.Ret}
			}
			if in.subst == nil {
				in.subst = map[*ast.CallExpr]*T{}
			}
			in.subst[call] = rt
			out = append(out, in.execStmt(s, ns)...)
			delete(in.subst, call)
		}
		return out, true
	}
	return nil, false
}

// branches: the body has an if / switch (a helper without one has a single path).
func branches(b *ast.BlockStmt) bool {
	found := false
	ast.Inspect(b, func(n ast.Node) bool {
		switch n.(type) {
		case *ast.IfStmt, *ast.SwitchStmt, *ast.TypeSwitchStmt:
			found = true
		case *ast.FuncLit:
			return false
		}
		return !found
	})
	return found
}
