package main

// Representation / delegation rules for the run-time containers:
// C10 maps, C11 slices, C12 structs, C13 strings, C14 printing.

import (
	"fmt"
	"go/ast"
	"go/constant"
	"go/token"
	"go/types"
	"os"
	"strings"
)

func init() {
	register(&propDef{
		ID:          "C10",
		Explanation: "History semantics of maps is behavioural; one representation clause is decided: a range never yields a key twice needs the side list `keys` duplicate-free and a superset of the live keys. REP-MAPKEYS, for stringMap and numericMap (sibling agreement): (a) `data` and `keys` are written only by the type's own methods and constructor; (b) every append to `keys` happens on a path where the key was tested absent from `data`; (c) absence from `data` implies absence from `keys` only if keys has no stale entries when Set appends: either every Delete path re-synchronises keys, or the appending path of Set runs under len(keys) == len(data) or re-synchronises first; (d) Range iterates a snapshot of keys taken at call time and yields a key only under a comma-ok hit in data. REP-MAPGET: Get is a comma-ok lookup returning (newZero(valueType), false) on a miss and (stored, true) on a hit; Value.Get on a nil map returns the zero of the element half of the type pair; Len is len(data). Not decided: 'lookups see the latest write' over histories (delegated to a Go map), at-most-once for keys inserted during the loop, host-side NewMap argument validation.",
		Quick: []ruleDef{
			{"REP-MAPKEYS", 16, ruleRepMapKeys},
			{"REP-MAPGET", 7, ruleRepMapGet},
			{"REP-MAPIDENT", 4, ruleRepMapIdent},
		},
	})
	register(&propDef{
		ID:          "C11",
		Explanation: "Slices behave like Go slices because each script operation is the same Go operation on the underlying []Value; the rules check the delegation is intact. REP-SLICE: sliceT.Slice returns a value whose data is the two-index slice expression s.data[i:j] (no make/copy/append: aliasing and capacity as in Go); Append is append(s.data, items...); Get/Set index s.data directly (out of range = Go's runtime panic, surfaced as an error) and Set converts with the element type; Len is len(s.data); COPY is the builtin copy over data() of both operands and Value.data() returns the slice's own backing slice; the nil-slice wrappers (Len, Range, Append, Slice) test v.value against nil. REP-STACKESCAPE: no sub-slice of the VM's operand stack flows into a function that retains its []Value parameter as a slice's data (the stack is overwritten by the next push) without an intervening make+copy; Value.Append (which retains only on its nil branch) may receive a stack view only under a receiver non-nil test. Not decided: histories; growth policy.",
		Quick: []ruleDef{
			{"REP-SLICE", 10, ruleRepSlice},
			{"REP-STACKESCAPE", 10, ruleRepStackEscape},
			{"REP-RAWSLICE", 5, ruleRepRawSlice},
		},
	})
	register(&propDef{
		ID:          "C12",
		Explanation: "Ownership clauses of struct values: a new instance's Fields come from intMap.Copy() of the type's table (never the table itself) and Copy allocates a fresh pairs slice and copies into it; the instance's Methods is the same pointer as the type's; SetIndex goes through intMap.Assign, which converts with assign(existing.t), never inserts and never changes the count; GetIndex consults fields before methods; struct Values hold *structT (reference semantics); field order is kept in Order, appended only for a new name. REP-INTMAP decides the structural invariants of the field table that its lookups rely on: every slot access of every operation uses an index reduced modulo the table size on all paths (must-dataflow, interprocedural over new helpers), probe indices step by one, no partial scans, mask = size-1, power-of-two sizes, max < size-1 (an empty slot always exists), growth on total > max, distance 1 on insertion, lookups stop at distance 0, Delete's back-shift protocol, resize re-inserting at the key's own hash. REP-DEFTYPE / REP-DEFCONV: struct type / conversion resolution looks through defined-type aliases for plain and qualified names. Not decided: the induction from these invariants to lookup correctness over all histories (textbook argument, stated in DESIGN.md).",
		Quick: []ruleDef{
			{"REP-STRUCT", 8, ruleRepStruct},
			{"REP-INTMAP", 20, ruleRepIntMap},
			{"REP-DEFTYPE", 2, ruleRepDefType},
			{"REP-DEFCONV", 1, ruleRepDefConv},
		},
	})
	register(&propDef{
		ID:          "C13",
		Explanation: "Strings: delegation rules with Go's own constructs as oracle. REP-STRING: stringT.Len is len(s); Get indexes the string and wraps the byte with the uint8 constructor; Slice is s[i:j]; the key yielded by Range derives from the index variable of a Go range over s (byte offsets) and the value from its rune variable; opAdd/opLt/opLte/Equals apply + < <= == to stringT operands; convert uses string(rune(.)), []byte(.) and string([]byte); no method writes through s. PAN-ERRDROP(literals): token.go's decoders do not discard the error of strconv.Unquote*/Parse*, and UnquoteChar is given the single quote it is inside. LIT-CONSTKEY: a literal kept in the constant table is keyed by the token's own spelling, the same key for Set and for the CONST operand. Not decided: escapes beyond what strconv decides; invalid UTF-8 (delegated to Go's range/conversions).",
		Quick: []ruleDef{
			{"REP-STRING", 11, ruleRepString},
			{"GLOBAL-STATE", 5, ruleGlobalState},
			{"PAN-ERRDROP-LIT", 4, ruleErrDropLit},
			{"LIT-DELEGATE", 4, ruleLitDelegate},
			{"LIT-CONSTKEY", 2, ruleLitConstKey},
		},
	})
	register(&propDef{
		ID:          "C14",
		Explanation: "REP-PRINT, termination: in every SafeStr method the recursive rendering of an element is preceded, in the same iteration, by the isSafeStr guard that returns the elision; isSafeStr is false for exactly the tags whose String iterates elements (slice, map, struct); every String method of a container renders elements through safeStr (so nesting below a container is cut at depth 2 and rendering terminates on cyclic graphs). Dispatch: numeric tags render fmt.Sprint of the Go number, strings raw, booleans through Bool(); vaSprint joins with one space; struct rendering ranges the Order slice (declaration order), never the Lookup map, and addField appends to Order only for a new name. REP-ORDER: Order (shared by all instances as a slice header) only grows by append to itself, is never truncated/re-sliced/stored into, and no loop over a map appends to it. Not decided: textual equality with %v (value level); depth>=3 prints [...] where Go prints the full value (a known divergence this family cannot detect by rule).",
		Quick: []ruleDef{
			{"REP-PRINT", 12, ruleRepPrint},
			{"REP-ORDER", 2, ruleRepOrder},
		},
	})
}

// ---- helpers ----

func (c *Ctx) pathsOf(name string, hooks ...func(*Interp)) []*State {
	fd := c.Func(name)
	if fd == nil {
		return nil
	}
	in := newInterp(c)
	in.NoLin = true
	in.Inline = c.isNewHelper
	for _, h := range hooks {
		h(in)
	}
	return in.ExecFunc(fd, nil)
}

func bodyOnce(in *Interp) {
	in.H.Loop = func(in *Interp, st *State, s ast.Stmt) []*State {
		var body *ast.BlockStmt
		switch l := s.(type) {
		case *ast.ForStmt:
			body = l.Body
			if l.Cond != nil {
				st.Conds = append(st.Conds, in.eval(st, l.Cond))
			}
		case *ast.RangeStmt:
			return nil
		}
		res := in.execStmts(body.List, []*State{st})
		for _, r := range res {
			if r.Done == "break" || r.Done == "continue" {
				r.Done = ""
			}
		}
		return res
	}
}

func effStrings(st *State) []string {
	var out []string
	for _, e := range st.Eff {
		out = append(out, e.String())
	}
	return out
}

func retStrings(st *State) []string {
	var out []string
	for _, r := range st.Ret {
		out = append(out, r.String())
	}
	return out
}

func anyContains(list []string, subs ...string) bool {
	for _, s := range list {
		ok := true
		for _, sub := range subs {
			if !strings.Contains(s, sub) {
				ok = false
			}
		}
		if ok {
			return true
		}
	}
	return false
}

// closureOf returns the function literal a single-path function returns, with the outer state.
func (c *Ctx) closureOf(name string) (*ast.FuncLit, *State, *Interp) {
	fd := c.Func(name)
	if fd == nil {
		return nil, nil, nil
	}
	in := newInterp(c)
	in.NoLin = true
	in.Inline = c.isNewHelper
	ps := in.ExecFunc(fd, nil)
	for _, p := range ps {
		if len(p.Ret) == 1 && p.Ret[0].Op == "func" {
			st := p.Clone()
			st.Done, st.Ret, st.Eff, st.Conds = "", nil, nil, nil
			return p.Ret[0].Aux.(*ast.FuncLit), st, in
		}
	}
	return nil, nil, nil
}

// ---- C10 ----

var mapTypes = []struct{ T, Ctor, KeyExpr string }{
	{"stringMap", "newStringMap", "string(k.value.(stringT))"},
	{"numericMap", "newNumericMap", "k.num"},
}

func ruleRepMapKeys(c *Ctx, r *R) {
	// (a) who may write data / keys
	for _, mt := range mapTypes {
		writes := 0
		for _, f := range c.Pkg.Syntax {
			ast.Inspect(f, func(n ast.Node) bool {
				var targets []ast.Expr
				switch x := n.(type) {
				case *ast.AssignStmt:
					targets = x.Lhs
				case *ast.IncDecStmt:
					targets = []ast.Expr{x.X}
				case *ast.CallExpr:
					if c.CalleeName(x) == "builtin.delete" && len(x.Args) > 0 {
						targets = []ast.Expr{x.Args[0]}
					}
				}
				for _, t := range targets {
					e := unparen(t)
					if ix, ok := e.(*ast.IndexExpr); ok {
						e = unparen(ix.X)
					}
					sel, ok := e.(*ast.SelectorExpr)
					if !ok || (sel.Sel.Name != "data" && sel.Sel.Name != "keys") || !isNamed(c.TypeOf(sel.X), mt.T) {
						continue
					}
					writes++
					fd := c.EnclosingFunc(n)
					name := "?"
					if fd != nil {
						name = c.fnName(fd)
					}
					ok2 := strings.HasPrefix(name, mt.T+".") || name == mt.Ctor
					r.check(ok2, fmt.Sprintf("%s.%s written in %s", mt.T, sel.Sel.Name, name), c.Pos(n), "owner method or constructor",
						fmt.Sprintf("%s.%s is written in %s, outside the type's own methods and constructor: the keys/data invariant can be broken from outside", mt.T, sel.Sel.Name, name))
				}
				return true
			})
		}
		if writes == 0 {
			r.undecided(mt.T+" writes", "-", "no write to data/keys found")
		}
	}
	for _, mt := range mapTypes {
		set := c.pathsOf(mt.T + ".Set")
		del := c.pathsOf(mt.T + ".Delete")
		if set == nil || del == nil {
			r.undecided(mt.T, "-", "Set/Delete not found")
			continue
		}
		pos := c.Pos(c.Func(mt.T + ".Set"))
		// (b)+(c) appending paths
		delResync := len(del) > 0
		for _, p := range del {
			effs := effStrings(p)
			if anyContains(effs, "builtin.delete(m.data") && !anyContains(effs, "m.keys = ") {
				delResync = false
			}
		}
		appends := 0
		for _, p := range set {
			effs := effStrings(p)
			at := -1
			for i, e := range effs {
				if strings.HasPrefix(e, "m.keys = builtin.append(m.keys, ") {
					at = i
				}
			}
			if at < 0 {
				continue
			}
			appends++
			cs := condStrings(p)
			guarded := strings.Contains(cs, "!m.data[") && strings.Contains(cs, "]#1")
			r.check(guarded, mt.T+" append-guard", pos, "a key is appended to keys only when absent from data",
				mt.T+".Set appends to keys on a path where the key was not tested absent from data ("+cs+"): updating an existing key lists it twice and range yields it twice")
			synced := strings.Contains(cs, "!(len(m.keys) != len(m.data))") || strings.Contains(cs, "(len(m.keys) == len(m.data))")
			if os.Getenv("GC_DEBUG") != "" {
				fmt.Println("SETPATH", at, effs)
			}
			for _, e := range effs[:at] {
				if strings.HasPrefix(e, "m.keys = ") && !strings.HasPrefix(e, "m.keys = builtin.append(m.keys, ") {
					synced = true
				}
				// a new helper of the type called on m before the append: synced if every path of the
				// helper ends synchronised (keys and data already of equal length, or keys rebuilt)
				if strings.HasPrefix(e, "call "+mt.T+".") && strings.Contains(e, "(m") {
					hn := strings.TrimPrefix(e, "call ")
					hn = hn[:strings.Index(hn, "(")]
					if hfd := c.Func(hn); hfd != nil {
						if os.Getenv("GC_DEBUG") != "" {
							fmt.Println("SYNCHELPER", hn, c.isNewHelper(c.Info.Defs[hfd.Name]))
						}
						if ho := c.Info.Defs[hfd.Name]; ho != nil && c.isNewHelper(ho) {
							all, nP := true, 0
							for _, hp := range c.pathsOf(hn) {
								nP++
								hcs := condStrings(hp)
								okP := strings.Contains(hcs, "(len(m.keys) == len(m.data))") && !strings.Contains(hcs, "!(len(m.keys) == len(m.data))")
								for _, he := range effStrings(hp) {
									if strings.HasPrefix(he, "m.keys = ") && !strings.HasPrefix(he, "m.keys = builtin.append(m.keys, ") {
										okP = true
									}
								}
								if !okP {
									all = false
								}
							}
							if all && nP > 0 {
								synced = true
							}
						}
					}
				}
			}
			r.check(delResync || synced, mt.T+" stale-keys", pos, "keys has no stale entry when a key is appended (Delete re-synchronises, or Set appends under len(keys)==len(data) / after a re-sync)",
				mt.T+": Delete leaves deleted keys in `keys` on some path and Set appends a key merely because it is absent from `data`: after delete(m,k); m[k]=v the key is listed twice and a range yields it twice")
		}
		if appends == 0 {
			r.fail(mt.T+" append-guard", pos, mt.T+".Set never appends a new key to keys: inserted keys are not ranged")
		}
		// (e) a running iterator holds a snapshot of keys: its backing array must never be rewritten in place
		for _, fn := range []string{"Set", "Delete"} {
			fd := c.Func(mt.T + "." + fn)
			if fd == nil {
				continue
			}
			inPlace := ""
			ast.Inspect(fd.Body, func(n ast.Node) bool {
				switch x := n.(type) {
				case *ast.SliceExpr:
					if nosp(c.Src(x.X)) == "m.keys" {
						inPlace = c.Src(x)
					}
				case *ast.AssignStmt:
					for _, l := range x.Lhs {
						if ix, ok := unparen(l).(*ast.IndexExpr); ok && nosp(c.Src(ix.X)) == "m.keys" {
							inPlace = c.Src(l)
						}
					}
				case *ast.CallExpr:
					if c.CalleeName(x) == "builtin.copy" && len(x.Args) > 0 && strings.HasPrefix(nosp(c.Src(x.Args[0])), "m.keys") {
						inPlace = c.Src(x)
					}
				}
				return true
			})
			r.check(inPlace == "", mt.T+"."+fn+" keys-not-rewritten", c.Pos(fd), "keys is only appended to or replaced by a fresh slice",
				mt.T+"."+fn+" rewrites the backing array of m.keys in place ("+inPlace+"): a range in progress iterates a snapshot that shares that array, so live keys slide under its cursor and are skipped")
		}
		// constructor: literal keys are de-duplicated like Set does
		if cf := c.Func(mt.Ctor); cf != nil {
			guarded := true
			writes := 0
			ast.Inspect(cf.Body, func(n ast.Node) bool {
				as, ok := n.(*ast.AssignStmt)
				if !ok {
					return true
				}
				for i, l := range as.Lhs {
					isKeysWrite := false
					if ix, ok := unparen(l).(*ast.IndexExpr); ok && nosp(c.Src(ix.X)) == "m.keys" {
						isKeysWrite = true
					}
					if nosp(c.Src(l)) == "m.keys" && i < len(as.Rhs) {
						if call, ok := unparen(as.Rhs[i]).(*ast.CallExpr); ok && c.CalleeName(call) == "builtin.append" {
							isKeysWrite = true
						}
					}
					if !isKeysWrite {
						continue
					}
					writes++
					// inside an `if _, ok := m.data[k]; !ok` ?
					g := false
					for p := c.Parent(as); p != nil && p != ast.Node(cf); p = c.Parent(p) {
						if ifs, ok := p.(*ast.IfStmt); ok && ifs.Init != nil && strings.Contains(nosp(c.Src(ifs.Cond)), "!") {
							if ia, ok := ifs.Init.(*ast.AssignStmt); ok && len(ia.Rhs) == 1 && strings.HasPrefix(nosp(c.Src(ia.Rhs[0])), "m.data[") {
								g = true
							}
						}
					}
					if !g {
						guarded = false
					}
				}
				return true
			})
			viaSet := false
			ast.Inspect(cf.Body, func(n ast.Node) bool {
				if call, ok := n.(*ast.CallExpr); ok && c.CalleeName(call) == mt.T+".Set" {
					viaSet = true
				}
				return true
			})
			r.check(viaSet || (writes > 0 && guarded), mt.Ctor+" literal-dedupe", c.Pos(cf), "a key listed twice in a literal is recorded once",
				mt.Ctor+" records every key of a composite literal in keys without testing whether it is already present: map[K]V{x: 1, y: 2} with x == y at run time has len 1 but a range yields the key twice")
		}
		// Set stores through assign with the element type
		okStore := true
		for _, p := range set {
			if !anyContains(effStrings(p), "m.data[", "] = Value.assign(v, m.valueType)") {
				okStore = false
			}
		}
		r.check(okStore, mt.T+" store", pos, "every path stores assign(v, valueType) under the key", mt.T+".Set has a path that does not store the value under the key")
		// (d) Range
		fl, st, in := c.closureOf(mt.T + ".Range")
		if fl == nil {
			r.undecided(mt.T+" Range", "-", "Range does not return a closure")
			continue
		}
		snap := false
		for o, v := range st.Vars {
			if o != nil && v.String() == "m.keys" {
				snap = true
			}
		}
		r.check(snap, mt.T+" Range snapshot", c.Pos(fl), "iterates a snapshot of keys taken at call time", mt.T+".Range does not snapshot m.keys when called: keys appended during the loop are visited by this loop")
		bodyOnce(in)
		ps := in.ExecLit(fl, st, nil)
		yields, okYield := 0, true
		for _, p := range ps {
			if len(p.Ret) == 3 && p.Ret[2].String() == "true" {
				yields++
				cs := condStrings(p)
				if !(strings.Contains(cs, "m.data[") && strings.Contains(cs, "]#1") && !strings.Contains(cs, "!m.data[")) {
					okYield = false
				}
			}
		}
		r.check(yields > 0 && okYield, mt.T+" Range recheck", c.Pos(fl), "a key is yielded only under a comma-ok hit in data", mt.T+".Range yields keys without re-checking membership in data: deleted keys are visited")
	}
}

func ruleRepMapGet(c *Ctx, r *R) {
	for _, mt := range mapTypes {
		ps := c.pathsOf(mt.T + ".Get")
		if ps == nil {
			r.undecided(mt.T+".Get", "-", "not found")
			continue
		}
		pos := c.Pos(c.Func(mt.T + ".Get"))
		miss, hit := false, false
		for _, p := range ps {
			cs := condStrings(p)
			rs := retStrings(p)
			if len(rs) != 2 {
				continue
			}
			if strings.HasPrefix(cs, "!m.data[") && rs[0] == "newZero(m.valueType)" && rs[1] == "false" {
				miss = true
			}
			if strings.HasPrefix(cs, "m.data[") && strings.HasSuffix(rs[0], "]#0") && strings.HasPrefix(rs[0], "m.data[") && rs[1] == "true" {
				hit = true
			}
		}
		r.check(miss, mt.T+".Get miss", pos, "(newZero(valueType), false)", mt.T+".Get does not return the zero value of the element type and ok=false for a missing key")
		r.check(hit, mt.T+".Get hit", pos, "(stored value, true)", mt.T+".Get does not return the stored value and ok=true for a present key")
		lp := c.pathsOf(mt.T + ".Len")
		r.check(len(lp) == 1 && len(lp[0].Ret) == 1 && lp[0].Ret[0].String() == "len(m.data)", mt.T+".Len", pos, "len(m.data)", mt.T+".Len is not len(m.data): len() counts something other than the live keys")
	}
	// nil map read
	ps := c.pathsOf("Value.Get")
	okNil := false
	for _, p := range ps {
		rs := retStrings(p)
		if (strings.Contains(condStrings(p), "!((v.value != nil)") || strings.Contains(condStrings(p), "(v.value == nil)")) && len(rs) == 2 && rs[0] == "newZero(Type.pair(v.t)#1)" && rs[1] == "false" {
			okNil = true
		}
	}
	r.check(okNil, "Value.Get nil-map", c.Pos(c.Func("Value.Get")), "nil map read gives the zero of the element type, false", "Value.Get on a nil map does not return (zero of the element half of the type pair, false)")
}

// ---- C11 ----

// sliceBoundsRule (part of REP-SLICE): in the SLICE handler the end of the result is
// either the run-time end operand itself or — only when an instruction operand says the
// source omitted it (x[i:]) — the length of the operand.  A path that decides "use the
// length" by looking at the run-time value (j < 0) turns an out-of-range end such as
// s[:len(s)-1] on an empty slice into a silent success.
func sliceBoundsRule(c *Ctx, r *R) {
	m, err := newHndMachine(c)
	if err != nil {
		r.undecided("SLICE", "-", err.Error())
		return
	}
	sc := m.sw.ByLabel["codeSlice"]
	if sc == nil {
		r.undecided("SLICE", "-", "no handler")
		return
	}
	ps, err := m.single("codeSlice")
	if err != nil {
		r.undecided("SLICE", c.Pos(sc.Clause), err.Error())
		return
	}
	n, direct := 0, false
	for _, p := range ps {
		for _, t := range p.Push {
			if t.Op != "call" || t.Name != "Value.Slice" || len(t.Args) != 3 {
				continue
			}
			n++
			end := t.Args[2].String()
			cs := strings.Join(p.Conds, " && ")
			if strings.Contains(end, "Value.Len(") {
				runtimeTest := strings.Contains(cs, "Value.Int(Top") || strings.Contains(cs, "Top1")
				r.check(!runtimeTest && strings.Contains(cs, "I."), "SLICE end=len", c.Pos(sc.Clause), "the length is used as the end only under an instruction operand", "the SLICE handler substitutes the operand's length for the end because of the run-time value of the end ("+cs+"): a negative end computed by the script (s[:len(s)-1] on an empty slice, s[:j] with j < 0) silently yields a slice instead of Go's slice-bounds error")
			} else if end == "Value.Int(Top1)" {
				direct = true
			}
		}
	}
	r.check(n >= 1 && direct, "SLICE end", c.Pos(sc.Clause), "the end operand is passed to Slice unchanged", "no path of the SLICE handler slices up to the end operand itself")
}

// sliceConvRule (part of REP-SLICE): a conversion []T(x) is to a slice *of T*: the CONVERT
// instruction carries the full slice type (element type included), not the bare slice tag —
// otherwise []int(nil) is a nil []byte (append(s, 300) stores 44) and a defined slice type
// converts to nil.
func sliceConvRule(c *Ctx, r *R) {
	cs, err := c.compileSwitch()
	if err != nil {
		r.undecided("slice conversion", "-", err.Error())
		return
	}
	sc := cs.ByLabel["call"]
	if sc == nil {
		r.undecided("slice conversion", "-", "no compile-case for call")
		return
	}
	m := newLayMachine(c)
	cl, err := m.runCase(cs, "call")
	if err != nil {
		r.undecided("slice conversion", c.Pos(sc.Clause), err.Error())
		return
	}
	full, n := false, 0
	for _, p := range cl.Paths {
		for _, a := range p.Atoms {
			if a.Ins == nil || opName(a.Ins) != "Convert" {
				continue
			}
			n++
			av := litField(a.Ins, "A")
			if av != nil && strings.Contains(av.String(), "typeFromToken(") && strings.Contains(condStrings(p.St), "TypeSlice") {
				full = true
			}
		}
	}
	if n == 0 {
		r.undecided("slice conversion", c.Pos(sc.Clause), "no CONVERT emitted by compile(\"call\")")
		return
	}
	// Value.convert: a conversion between types of the same base kind keeps the value —
	// for every kind, not only the nillable ones (type Flag bool; Flag(ok))
	if fd := c.Func("Value.convert"); fd != nil {
		ident, restricted := false, ""
		for _, p := range c.pathsOf("Value.convert") {
			if len(p.Ret) != 1 || p.Ret[0].String() != "v" {
				continue
			}
			cs := condStrings(p)
			if !strings.Contains(cs, "Type.base(v.t) == Type.base(t)") && !strings.Contains(cs, "Type.base(t) == Type.base(v.t)") {
				continue
			}
			if strings.Contains(cs, "nillableMin") {
				restricted = cs
				continue
			}
			ident = true
		}
		r.check(ident, "identity conversion", c.Pos(fd), "same base kind: the operand itself", "Value.convert keeps the operand of a same-kind conversion only for nillable kinds ("+restricted+"): with `type Flag bool`, Flag(ok) is nil — as a map key every Flag collapses to one entry; Vec(s) / Table(m) must also stay the same reference")
	}
	r.check(full, "slice conversion", c.Pos(sc.Clause), "[]T(x) converts to the full slice type", "compile(\"call\") emits CONVERT with the bare slice tag for []T(x): the element type is lost — `c := append([]int(nil), src...); c = append(c, 1000)` stores 232 (a byte), `type Vec []float64; Vec(s)` is nil")
}

func ruleRepSlice(c *Ctx, r *R) {
	sliceBoundsRule(c, r)
	sliceConvRule(c, r)
	newSliceConverts(c, r)
	literalCapRule(c, r)
	nilToAnyRule(c, r)
	one := func(name string) *State {
		ps := c.pathsOf(name)
		if len(ps) == 1 {
			return ps[0]
		}
		return nil
	}
	chk := func(key, fn string, cond func(*State) bool, ok, bad string) {
		p := one(fn)
		if p == nil {
			if c.Func(fn) == nil {
				r.undecided(key, "-", fn+" not found")
			} else {
				r.fail(key, c.Pos(c.Func(fn)), fn+" is no longer a single straight-line delegation: "+bad)
			}
			return
		}
		r.check(cond(p), key, c.Pos(c.Func(fn)), ok, fn+": "+bad+" (got ret="+strings.Join(retStrings(p), ", ")+" eff="+strings.Join(effStrings(p), "; ")+")")
	}
	chk("Slice", "sliceT.Slice", func(p *State) bool {
		return len(p.Ret) == 1 && p.Ret[0].String() == "newSlice(s.valueType, s.data[i:j])"
	}, "newSlice(valueType, s.data[i:j]) — shares the backing array", "a sub-slice must be the Go slice expression s.data[i:j] so that writes are visible through both and capacity is shared")
	chk("Append", "sliceT.Append", func(p *State) bool {
		if len(p.Ret) != 1 {
			return false
		}
		// or: the raw constructor over Go's append, after a loop that converts exactly the
		// appended tail to the element type (an append then costs what it appends)
		return p.Ret[0].String() == "newSlice(s.valueType, builtin.append(s.data, ...items))" && c.appendConvertsTail() == ""
	}, "newSlice(valueType, append(s.data, items...)) after converting the appended tail", "append must be Go's append on s.data (in place within capacity, reallocating beyond it) with only the new elements converted to the element type — NewSlice over the whole result converts every element again on each append, so a loop of n appends costs n*n (150000 appends take half a minute)")
	chk("Get", "sliceT.Get", func(p *State) bool {
		return len(p.Ret) == 2 && p.Ret[0].String() == "s.data[Value.Int(k)]" && p.Ret[1].String() == "true"
	}, "s.data[k.Int()]", "indexing must index s.data directly (out of range is Go's runtime panic)")
	chk("Set", "sliceT.Set", func(p *State) bool {
		return anyContains(effStrings(p), "s.data[Value.Int(k)] = Value.assign(v, s.valueType)")
	}, "s.data[k.Int()] = v.assign(valueType)", "element store must write s.data[k] with the element type's conversion")
	chk("Len", "sliceT.Len", func(p *State) bool { return len(p.Ret) == 1 && p.Ret[0].String() == "len(s.data)" }, "len(s.data)", "len must be len(s.data)")
	// Value.data returns the slice's own backing slice
	dps := c.pathsOf("Value.data")
	okData := false
	for _, p := range dps {
		if len(p.Ret) == 1 && strings.HasSuffix(p.Ret[0].String(), ".(*sliceT)#0.data") {
			okData = true
		}
	}
	if c.Func("Value.data") == nil {
		r.undecided("Value.data", "-", "not found")
	} else {
		r.check(okData, "Value.data", c.Pos(c.Func("Value.data")), "returns t.data of the *sliceT itself", "Value.data() does not return the slice's own backing slice: copy() and spread append would work on a copy")
	}
	// COPY handler
	if m, err := newHndMachine(c); err == nil {
		ps, err := m.single("codeCopy")
		good := err == nil && len(ps) >= 1
		for _, p := range ps {
			if !anyContains(p.Calls, "builtin.copy(Value.data(Top2), Value.data(") || p.Pop != 2 {
				good = false
			}
		}
		r.check(good, "COPY", c.Pos(m.sw.ByLabel["codeCopy"].Clause), "copy(dst.data(), src.data()) and both operands popped", "the COPY handler is not Go's copy over the two operands' backing slices")
	}
	// nil wrappers
	for _, w := range []struct{ fn, nilRet string }{
		{"Value.Len", "0"}, {"Value.Range", ""}, {"Value.Append", "newSlice(Type.value(v.t), items)"}, {"Value.Slice", "newSlice(Type.value(v.t), nil)"},
	} {
		ps := c.pathsOf(w.fn)
		if ps == nil {
			r.undecided(w.fn, "-", "not found")
			continue
		}
		deleg, nilp := false, false
		for _, p := range ps {
			cs := condStrings(p)
			negDisj := strings.HasPrefix(cs, "!(") && strings.Contains(cs, "(v.value != nil) ||")
			nonNil := strings.Contains(cs, "(v.value != nil)") && !negDisj
			isNil := strings.Contains(cs, "(v.value == nil)") || negDisj
			if nonNil && anyContains(append(effStrings(p), retStrings(p)...), "Object.") {
				deleg = true
			}
			if isNil && !anyContains(append(effStrings(p), retStrings(p)...), "Object.") {
				if w.nilRet == "" || len(p.Ret) >= 1 && p.Ret[0].String() == w.nilRet {
					nilp = true
				}
			}
		}
		r.check(deleg && nilp, w.fn+" nil-guard", c.Pos(c.Func(w.fn)), "delegates when non-nil, answers for the nil slice otherwise",
			w.fn+" does not test v.value against nil before delegating (a nil slice must have length 0, be rangeable, appendable and sliceable [0:0])")
	}
}

// retainingParams: functions with a []Value parameter that ends up as the data of a sliceT.
func (c *Ctx) retainingParams() map[types.Object]map[int]bool {
	out := map[types.Object]map[int]bool{}
	mark := func(fd *ast.FuncDecl, idx int) bool {
		o := c.Info.Defs[fd.Name]
		if out[o] == nil {
			out[o] = map[int]bool{}
		}
		if out[o][idx] {
			return false
		}
		out[o][idx] = true
		return true
	}
	paramIndex := func(fd *ast.FuncDecl, o types.Object) int {
		i := 0
		for _, f := range fd.Type.Params.List {
			for _, n := range f.Names {
				if c.Info.Defs[n] == o {
					return i
				}
				i++
			}
		}
		return -1
	}
	for changed := true; changed; {
		changed = false
		for _, name := range c.FuncNames() {
			fd := c.funcs[name]
			if fd.Body == nil {
				continue
			}
			ast.Inspect(fd.Body, func(n ast.Node) bool {
				switch x := n.(type) {
				case *ast.CompositeLit:
					if !isNamed(c.TypeOf(x), "sliceT") {
						return true
					}
					for _, el := range x.Elts {
						if kv, ok := el.(*ast.KeyValueExpr); ok && types.ExprString(kv.Key) == "data" {
							if id, ok := unparen(kv.Value).(*ast.Ident); ok {
								if i := paramIndex(fd, c.Obj(id)); i >= 0 && mark(fd, i) {
									changed = true
								}
							}
						}
					}
				case *ast.CallExpr:
					callee := c.Callee(x)
					if ps := out[callee]; ps != nil {
						for ai, a := range x.Args {
							if !ps[ai] {
								continue
							}
							if id, ok := unparen(a).(*ast.Ident); ok {
								if i := paramIndex(fd, c.Obj(id)); i >= 0 && mark(fd, i) {
									changed = true
								}
							}
						}
					}
				}
				return true
			})
		}
	}
	return out
}

func ruleRepStackEscape(c *Ctx, r *R) {
	ret := c.retainingParams()
	if len(ret) == 0 {
		r.undecided("retaining", "-", "no function retains a []Value parameter as slice data (newSlice not found)")
		return
	}
	var names []string
	for o := range ret {
		names = append(names, o.Name())
	}
	r.note("retaining functions: %s", strings.Join(names, ", "))
	isStackRooted := func(e ast.Expr) bool {
		for {
			switch x := unparen(e).(type) {
			case *ast.SliceExpr:
				e = x.X
			case *ast.SelectorExpr:
				return x.Sel.Name == "stack" && isNamed(c.TypeOf(x.X), "VM")
			default:
				return false
			}
		}
	}
	// functions that return a view of the operand stack (directly, through a local, or through
	// another such function)
	returnsView := map[types.Object]bool{}
	for round := 0; round < 3; round++ {
		for _, name := range c.FuncNames() {
			fd := c.funcs[name]
			if fd.Body == nil || fd.Type.Results == nil {
				continue
			}
			fo := c.Info.Defs[fd.Name]
			loc := map[types.Object]bool{}
			view := func(e ast.Expr) bool {
				e = unparen(e)
				if isStackRooted(e) {
					return true
				}
				if se, ok := e.(*ast.SliceExpr); ok {
					e = unparen(se.X)
				}
				if id, ok := e.(*ast.Ident); ok && loc[c.Obj(id)] {
					return true
				}
				if call, ok := e.(*ast.CallExpr); ok && returnsView[c.Callee(call)] {
					return true
				}
				return false
			}
			for k := 0; k < 3; k++ {
				ast.Inspect(fd.Body, func(n ast.Node) bool {
					if as, ok := n.(*ast.AssignStmt); ok && len(as.Lhs) == len(as.Rhs) {
						for i, l := range as.Lhs {
							if id, ok := l.(*ast.Ident); ok && view(as.Rhs[i]) {
								if _, isSl := c.TypeOf(as.Rhs[i]).Underlying().(*types.Slice); isSl {
									loc[c.Obj(id)] = true
								}
							}
						}
					}
					return true
				})
			}
			ast.Inspect(fd.Body, func(n ast.Node) bool {
				if _, isLit := n.(*ast.FuncLit); isLit {
					return false
				}
				if rs, ok := n.(*ast.ReturnStmt); ok {
					for _, e := range rs.Results {
						if _, isSl := c.TypeOf(e).Underlying().(*types.Slice); isSl && view(e) {
							returnsView[fo] = true
						}
					}
				}
				return true
			})
		}
	}
	for _, name := range c.FuncNames() {
		fd := c.funcs[name]
		if fd.Body == nil {
			continue
		}
		// flow-insensitive taint of local []Value variables
		taint := map[types.Object]bool{}
		for changed := true; changed; {
			changed = false
			ast.Inspect(fd.Body, func(n ast.Node) bool {
				as, ok := n.(*ast.AssignStmt)
				if !ok || len(as.Lhs) != len(as.Rhs) {
					return true
				}
				for i, l := range as.Lhs {
					id, ok := l.(*ast.Ident)
					if !ok {
						continue
					}
					o := c.Obj(id)
					if o == nil || taint[o] {
						continue
					}
					rhs := unparen(as.Rhs[i])
					t := false
					switch x := rhs.(type) {
					case *ast.SliceExpr, *ast.SelectorExpr:
						t = isStackRooted(rhs)
						if se, ok := x.(*ast.SliceExpr); ok && !t {
							if rid, ok := unparen(se.X).(*ast.Ident); ok && taint[c.Obj(rid)] {
								t = true
							}
						}
					case *ast.Ident:
						t = taint[c.Obj(x)]
					case *ast.CallExpr:
						if returnsView[c.Callee(x)] {
							t = true
						}
						if c.CalleeName(x) == "builtin.append" && len(x.Args) > 0 {
							// append onto a stack view writes into / may alias the stack's array
							first := unparen(x.Args[0])
							if isStackRooted(first) {
								t = true
							} else if se, ok := first.(*ast.SliceExpr); ok {
								if rid, ok := unparen(se.X).(*ast.Ident); ok && taint[c.Obj(rid)] {
									t = true
								}
							} else if rid, ok := first.(*ast.Ident); ok && taint[c.Obj(rid)] {
								t = true
							}
						}
					}
					if t {
						taint[o] = true
						changed = true
					}
				}
				return true
			})
		}
		ast.Inspect(fd.Body, func(n ast.Node) bool {
			call, ok := n.(*ast.CallExpr)
			if !ok {
				return true
			}
			callee := c.Callee(call)
			// a call through a function value whose code is not ours (a native handed to NewFunc,
			// a loader, an option): what it does with a []Value argument is unknown — it may keep
			// it — so the argument must not be a view of the operand stack
			if _, isFunc := callee.(*types.Func); !isFunc {
				if _, isConv := c.IsConversion(call); !isConv {
					if _, isBuiltin := callee.(*types.Builtin); !isBuiltin {
						for _, a := range call.Args {
							st, ok := c.TypeOf(a).Underlying().(*types.Slice)
							if !ok || !isNamed(st.Elem(), "Value") {
								continue
							}
							tainted := isStackRooted(a)
							if id, ok := unparen(a).(*ast.Ident); ok && taint[c.Obj(id)] {
								tainted = true
							}
							if se, ok := unparen(a).(*ast.SliceExpr); ok {
								if id, ok := unparen(se.X).(*ast.Ident); ok && taint[c.Obj(id)] {
									tainted = true
								}
							}
							key := fmt.Sprintf("%s -> (func value)(%s)", name, nosp(c.Src(a)))
							r.check(!tainted, key, c.Pos(call), "a function value receives its []Value argument in a slice of its own",
								"a function value (a native given to NewFunc) is called with a window into the live operand stack: a native that keeps its args — NewSlice(TypeInt32, args) — sees them overwritten by its own result and by every later push (pair(3,4) reads back [2 2])")
						}
					}
				}
				return true
			}
			ps := ret[callee]
			if ps == nil {
				return true
			}
			sig, _ := callee.Type().(*types.Signature)
			for ai, a := range call.Args {
				pi := ai
				if sig != nil && sig.Variadic() && ai >= sig.Params().Len()-1 {
					pi = sig.Params().Len() - 1
					if !call.Ellipsis.IsValid() {
						continue // packed into a fresh slice by the call
					}
				}
				if !ps[pi] {
					continue
				}
				tainted := isStackRooted(a)
				if id, ok := unparen(a).(*ast.Ident); ok && taint[c.Obj(id)] {
					tainted = true
				}
				key := fmt.Sprintf("%s -> %s(%s)", name, callee.Name(), nosp(c.Src(a)))
				if !tainted {
					r.ok(key, "argument is not a view of the operand stack")
					continue
				}
				// Value.Append retains only on its nil branch: fine under a receiver non-nil test
				if callee.Name() == "Append" {
					if sel, ok := unparen(call.Fun).(*ast.SelectorExpr); ok {
						recv := nosp(c.Src(sel.X))
						guarded := false
						var child ast.Node = call
						for p := c.Parent(call); p != nil; child, p = p, c.Parent(p) {
							if ifs, ok := p.(*ast.IfStmt); ok && ifs.Body == child {
								if be, ok := unparen(ifs.Cond).(*ast.BinaryExpr); ok && be.Op == token.NEQ && nosp(c.Src(be.X)) == recv+".value" && isIdent(be.Y, "nil") {
									guarded = true
								}
							}
						}
						// ... or by an earlier sibling `if recv.value == nil { ...; break }` that leaves
						if !guarded {
							var stmt ast.Node = call
							for p := c.Parent(call); p != nil; stmt, p = p, c.Parent(p) {
								blkList := []ast.Stmt(nil)
								switch b := p.(type) {
								case *ast.BlockStmt:
									blkList = b.List
								case *ast.CaseClause:
									blkList = b.Body
								}
								if blkList == nil {
									continue
								}
								for _, st := range blkList {
									if st.Pos() >= stmt.Pos() {
										break
									}
									ifs, ok := st.(*ast.IfStmt)
									if !ok || ifs.Init != nil || len(ifs.Body.List) == 0 {
										continue
									}
									be, ok := unparen(ifs.Cond).(*ast.BinaryExpr)
									if !ok || be.Op != token.EQL || nosp(c.Src(be.X)) != recv+".value" || !isIdent(be.Y, "nil") {
										continue
									}
									switch last := ifs.Body.List[len(ifs.Body.List)-1].(type) {
									case *ast.BranchStmt:
										if last.Tok == token.BREAK || last.Tok == token.CONTINUE {
											guarded = true
										}
									case *ast.ReturnStmt:
										guarded = true
									}
								}
								break
							}
						}
						// ... and the non-nil receiver is a script slice (sliceT.Append copies the items out of
						// the view) or was given items of its own: Value.Append dispatches to whatever Object
						// the value holds, and a host object may keep what it is handed
						ownItems := false
						if guarded {
							argID, _ := unparen(a).(*ast.Ident)
							var sibs []ast.Stmt
							switch b := c.Parent(c.Parent(call)).(type) {
							case *ast.BlockStmt:
								sibs = b.List
							case *ast.CaseClause:
								sibs = b.Body
							}
							if argID != nil {
								for _, st := range sibs {
									if st.Pos() >= call.Pos() {
										break
									}
									ifs, ok := st.(*ast.IfStmt)
									if !ok || ifs.Init == nil {
										continue
									}
									ia, ok := ifs.Init.(*ast.AssignStmt)
									if !ok || len(ia.Rhs) != 1 || len(ia.Lhs) != 2 {
										continue
									}
									ta, ok := unparen(ia.Rhs[0]).(*ast.TypeAssertExpr)
									if !ok || nosp(c.Src(ta.X)) != recv+".value" || !strings.HasSuffix(nosp(c.Src(ta.Type)), "sliceT") {
										continue
									}
									if nosp(c.Src(ifs.Cond)) != "!"+nosp(c.Src(ia.Lhs[1])) {
										continue
									}
									// the body replaces the argument by a fresh copy
									for _, bs := range ifs.Body.List {
										if as, ok := bs.(*ast.AssignStmt); ok && len(as.Lhs) == 1 && len(as.Rhs) == 1 && nosp(c.Src(as.Lhs[0])) == argID.Name {
											rs := nosp(c.Src(as.Rhs[0]))
											if strings.HasPrefix(rs, "append([]Value(nil),") || strings.HasPrefix(rs, "append([]Value{},") || strings.HasPrefix(rs, "slices.Clone(") {
												ownItems = true
											}
										}
									}
								}
							}
						}
						if guarded && ownItems {
							r.ok(key, "stack view reaches Value.Append only for a script slice (which copies); any other object gets a copy")
							continue
						}
						if guarded {
							r.fail(key, c.Pos(call), name+" hands a view of the VM's operand stack to Value.Append of a non-nil value: a script slice copies the items, but the value may hold a host Object (Wrap), whose Append(items ...Value) may keep them — the host then reads later stack contents ([200 300] instead of [1 2]); give any receiver that is not a *sliceT a copy")
							continue
						}
					}
				}
				r.fail(key, c.Pos(call), fmt.Sprintf("%s passes a view of the VM's operand stack to %s, which keeps it as the data of a slice: the next push overwrites the slice's elements (copy into a fresh slice first)", name, callee.Name()))
			}
			return true
		})
	}
}

// ---- C12 ----

func ruleRepStruct(c *Ctx, r *R) {
	// the method table is shared by reference: a by-value intMap copies the header and keeps
	// sharing the slot array only until the table grows (the 13th method), after which
	// instances created earlier no longer see new methods
	if nt := c.NamedType("structT"); nt != nil {
		if st, ok := nt.Underlying().(*types.Struct); ok {
			found := false
			for i := 0; i < st.NumFields(); i++ {
				if st.Field(i).Name() == "Methods" {
					found = true
					_, isPtr := st.Field(i).Type().Underlying().(*types.Pointer)
					r.check(isPtr, "Methods shared", "value.go", "structT.Methods is a pointer to the type's method table", "structT.Methods is held by value ("+st.Field(i).Type().String()+"): every instance copies the table header, so after the type's method table grows (resize allocates a new slot array) instances created before no longer find methods added later — only visible with more than 12 methods and incremental evaluation")
				}
			}
			if !found {
				r.undecided("Methods shared", "value.go", "structT has no Methods field")
			}
		}
	}
	structWritersRule(c, r)
	for _, fn := range []string{"NewStruct", "newStructByIndex"} {
		ps := c.pathsOf(fn)
		if len(ps) == 0 {
			r.undecided(fn, "-", "not found")
			continue
		}
		// on every path (an instance built from no data is written to later all the same)
		good := true
		for _, p := range ps {
			if p.Done == "panic" {
				continue
			}
			// find the newStruct call among the effects / locals
			var call *T
			for _, v := range p.Vars {
				walkT(v, func(x *T) {
					if x.Op == "call" && x.Name == "newStruct" && len(x.Args) == 5 {
						call = x
					}
				})
			}
			if call == nil {
				good = false
				continue
			}
			fields, methods := call.Args[3].String(), call.Args[4].String()
			if !(strings.HasPrefix(fields, "intMap.Copy(") && strings.Contains(fields, ".Fields") && strings.HasSuffix(methods, ".Methods") && !strings.Contains(methods, "Copy")) {
				good = false
			}
		}
		r.check(good, fn+" ownership", c.Pos(c.Func(fn)), "Fields = type.Fields.Copy(), Methods = the type's own *intMap",
			fn+" does not give the instance a copy of the type's field table and the type's own method table pointer: instances would share fields, or not see methods added later")
	}
	// Copy allocates fresh pairs
	if ps := c.pathsOf("intMap.Copy"); len(ps) == 1 && len(ps[0].Ret) == 1 {
		ret := ps[0].Ret[0]
		pairs := litField(ret, "pairs")
		okCopy := pairs != nil && strings.HasPrefix(pairs.String(), "builtin.make(") && anyContains(effStrings(ps[0]), "builtin.copy(builtin.make(", "m.pairs)")
		tot := litField(ret, "total")
		r.check(okCopy && tot != nil && tot.String() == "m.total", "intMap.Copy", c.Pos(c.Func("intMap.Copy")), "fresh pairs slice, copied; counters carried over",
			"intMap.Copy does not allocate a fresh pairs slice and copy into it: instances of a struct type share field storage")
	} else {
		r.undecided("intMap.Copy", "-", "not a single path")
	}
	// SetIndex -> Assign; Assign never inserts
	if ps := c.pathsOf("structT.SetIndex"); len(ps) == 1 {
		r.check(anyContains(effStrings(ps[0]), "call intMap.Assign(&s.Fields, k, v)") || anyContains(effStrings(ps[0]), "intMap.Assign("), "SetIndex", c.Pos(c.Func("structT.SetIndex")), "field store goes through intMap.Assign",
			"structT.SetIndex does not store through intMap.Assign: field stores skip the conversion to the field's declared type or can create fields")
	} else {
		r.undecided("SetIndex", "-", "not a single path")
	}
	if fd := c.Func("intMap.Assign"); fd != nil {
		inserts, conv := false, false
		ast.Inspect(fd.Body, func(n ast.Node) bool {
			switch x := n.(type) {
			case *ast.CallExpr:
				switch c.CalleeName(x) {
				case "intMap.insert", "intMap.resize", "intMap.Set":
					inserts = true
				case "Value.assign":
					if nosp(c.Src(x.Args[0])) == "m.pairs[i].value.t" {
						conv = true
					}
				}
			case *ast.IncDecStmt:
				if strings.HasSuffix(c.Src(x.X), ".total") {
					inserts = true
				}
			}
			return true
		})
		r.check(!inserts && conv, "intMap.Assign", c.Pos(fd), "converts with assign(existing.t), never inserts", "intMap.Assign inserts a missing key or skips assign(existing type): a struct gains fields it does not declare, or a field loses its declared type")
	} else {
		r.undecided("intMap.Assign", "-", "not found")
	}
	// GetIndex: fields before methods
	if ps := c.pathsOf("structT.GetIndex"); len(ps) >= 2 {
		fieldFirst := false
		for _, p := range ps {
			cs := condStrings(p)
			if strings.HasPrefix(cs, "intMap.Get(s.Fields, k)#1") && len(p.Ret) == 1 && p.Ret[0].String() == "intMap.Get(s.Fields, k)#0" {
				fieldFirst = true
			}
		}
		methodFallback := false
		for _, p := range ps {
			if strings.HasPrefix(condStrings(p), "!intMap.Get(s.Fields, k)#1") && len(p.Ret) == 1 && strings.HasPrefix(p.Ret[0].String(), "newMethod(") && strings.Contains(p.Ret[0].String(), "s.Methods") {
				methodFallback = true
			}
		}
		r.check(fieldFirst && methodFallback, "GetIndex", c.Pos(c.Func("structT.GetIndex")), "a field hit wins; otherwise the bound method", "structT.GetIndex does not consult the fields first and fall back to a bound method")
	} else {
		r.undecided("GetIndex", "-", "unexpected path count")
	}
	// reference semantics: newStruct wraps &structT
	if ps := c.pathsOf("newStruct"); len(ps) == 1 && len(ps[0].Ret) == 1 {
		v := litField(ps[0].Ret[0], "value")
		r.check(v != nil && v.Op == "addr", "newStruct", c.Pos(c.Func("newStruct")), "Value holds *structT", "struct values no longer hold a pointer to structT: aliases would not observe each other's field stores")
	}
	// addField: Order appended only for a new name
	if ps := c.pathsOf("Value.addField"); len(ps) >= 2 {
		okNew, okOld := false, true
		for _, p := range ps {
			app := anyContains(effStrings(p), ".Order = builtin.append(")
			cs := condStrings(p)
			if app && strings.HasPrefix(cs, "!") && strings.Contains(cs, ".Lookup[key]#1") {
				okNew = true
			}
			if app && !strings.HasPrefix(cs, "!") {
				okOld = false
			}
		}
		r.check(okNew && okOld, "addField", c.Pos(c.Func("Value.addField")), "Order grows only for a new field name", "addField appends to Order for an already known name (or never): reloading a type duplicates or loses fields in the printed order")
	} else {
		r.undecided("addField", "-", "unexpected path count")
	}
}

// ---- C13 ----

// stringDataRule (part of REP-STRING): flattening a value into []Value (the spread of
// append(b, s...), copy, conversions) must not take the generic Range route for a string:
// Range yields runes keyed by byte offset.  Value.data has a branch for stringT (or for
// the string tag) before the Range fallback, and that branch builds the elements with the
// uint8 constructor from s[i].
func stringDataRule(c *Ctx, r *R) {
	fd := c.Func("Value.data")
	if fd == nil {
		r.undecided("data", "-", "Value.data not found")
		return
	}
	var rangePos, strPos ast.Node
	bytes := false
	for _, h := range c.withHelpers(fd) {
		ast.Inspect(h.Body, func(n ast.Node) bool {
			switch x := n.(type) {
			case *ast.CallExpr:
				if c.CalleeName(x) == "Value.Range" && rangePos == nil {
					rangePos = x
				}
			case *ast.TypeAssertExpr:
				if x.Type != nil && types.ExprString(x.Type) == "stringT" && strPos == nil {
					strPos = x
				}
			case *ast.BinaryExpr:
				if nosp(c.Src(x)) == "v.t==TypeString" && strPos == nil {
					strPos = x
				}
			}
			return true
		})
	}
	if strPos != nil {
		// inside the if/switch governed by the string test, elements come from Byte(s[i]) / Uint8(s[i]) or convert(TypeSlice)
		var scope ast.Node = strPos
		for p := c.Parent(strPos); p != nil; p = c.Parent(p) {
			if _, ok := p.(*ast.IfStmt); ok {
				scope = p
				break
			}
			if _, ok := p.(*ast.CaseClause); ok {
				scope = p
				break
			}
		}
		ast.Inspect(scope, func(n ast.Node) bool {
			if call, ok := n.(*ast.CallExpr); ok {
				switch c.CalleeName(call) {
				case "Byte", "Uint8":
					if len(call.Args) == 1 {
						if _, isIdx := unparen(call.Args[0]).(*ast.IndexExpr); isIdx {
							bytes = true
						}
					}
				case "Value.convert":
					if len(call.Args) == 1 && nosp(c.Src(call.Args[0])) == "TypeSlice" {
						bytes = true
					}
				default:
					if c.bytesOfStringHelper(c.DeclOf(c.Callee(call))) {
						bytes = true
					}
				}
			}
			return true
		})
	}
	before := strPos != nil && (rangePos == nil || strPos.Pos() < rangePos.Pos())
	r.check(before && bytes, "data string->bytes", c.Pos(fd), "a string operand is flattened into its bytes before the Range fallback", "Value.data flattens a string through Range (decoded runes stored at their byte offsets): append(b, \"é\"...) yields [233 nil] typed int32 instead of the bytes [195 169]")
}

// equalsKindsRule (part of REP-STRING): == dispatches on the left operand's tag; before it
// reads the right operand's number or asserts its dynamic type it must have looked at the
// right operand's tag — values of different kinds meet in `any` variables, map values and
// []any elements, a string's num is 0 (so any(0) == "v" would be true), and a failed type
// assertion aborts the script.
func equalsKindsRule(c *Ctx, r *R) {
	fd := c.Func("Value.Equals")
	if fd == nil {
		r.undecided("Equals", "-", "Value.Equals not found")
		return
	}
	ps := c.pathsOf("Value.Equals")
	n := 0
	for i, p := range ps {
		if len(p.Ret) != 1 {
			continue
		}
		ret := p.Ret[0].String()
		if !strings.Contains(ret, "b.num") && !strings.Contains(ret, "b.value.(") {
			continue
		}
		n++
		// the same kind test that selected this case for v must have been made on b
		tested := false
		for _, cd := range p.Conds {
			cs := cd.String()
			if strings.HasPrefix(cs, "!") || !strings.Contains(cs, "v.t") || strings.Contains(cs, "!=") || strings.Contains(cs, "<=") {
				continue
			}
			want := strings.ReplaceAll(cs, "v.t", "b.t")
			if strings.Contains(ret, want) || strings.Contains(condStrings(p), want) {
				tested = true
			}
		}
		r.check(tested, fmt.Sprintf("Equals kinds %d", i), c.Pos(fd), "the right operand's tag is tested before its payload is read", "Value.Equals reads the right operand's payload ("+ret+") on a path that never looked at its tag (path: "+condStrings(p)+"): with operands of different kinds held in `any` values, 0 == \"v\" is true and \"v\" == 0 aborts with an interface-conversion error")
	}
	if n < 2 {
		r.undecided("Equals kinds", c.Pos(fd), "expected at least the numeric and the string comparison paths")
	}
	// nil on the left: either the comparison is swapped, or every `x == nil` case has its mirror image
	swapped, mirrors, nilCases := false, 0, 0
	for _, p := range ps {
		cs := condStrings(p)
		if len(p.Ret) == 1 && strings.HasPrefix(p.Ret[0].String(), "Value.Equals(b, v)") && strings.Contains(cs, "v.t == TypeNil") {
			swapped = true
		}
		if strings.Contains(cs, "(b.t == TypeNil)") && strings.Contains(cs, "base(v.t)") && !strings.Contains(cs, "!((Type.base(v.t)") {
			nilCases++
		}
		if strings.Contains(cs, "(v.t == TypeNil)") && strings.Contains(cs, "base(b.t)") {
			mirrors++
		}
	}
	// identity for every comparable reference kind
	for _, k := range []string{"TypeStruct", "TypeFunc", "TypeObject"} {
		found := false
		for _, p := range ps {
			cs := condStrings(p)
			if len(p.Ret) == 1 && strings.Contains(p.Ret[0].String(), "(v.value == b.value)") {
				// the kind appears un-negated in the path condition
				for _, pat := range []string{"(v.t == " + k + ")", "(Type.base(v.t) == " + k + ")"} {
					if i := strings.Index(cs, pat); i >= 0 && !strings.Contains(cs, "!"+pat) && !strings.Contains(cs, "!anyof("+pat) {
						found = true
					}
				}
			}
		}
		r.check(found, "Equals identity "+k, c.Pos(fd), "compared by identity", "Value.Equals has no identity comparison for "+k+" values: a value of that kind is not equal to itself — e.g. `err == ErrNotFound` and `switch err { case ErrNotFound: }` with sentinel errors made by errors.New never match")
	}
	r.check(swapped || (nilCases > 0 && mirrors >= nilCases), "Equals nil-left", c.Pos(fd), "nil == x is decided like x == nil", "Value.Equals handles `x == nil` for slices, maps and references but not `nil == x`: with nil on the left a nil slice/map/pointer compares unequal to nil")
}

// convertNilRule (part of REP-STRING): the conversion to a byte slice takes the bytes of
// the operand's text (v.String()); that is right for a string and wrong for nil, whose text
// is "nil" — []byte(nil) must be the nil slice.
func convertNilRule(c *Ctx, r *R) {
	fd := c.Func("Value.convert")
	if fd == nil {
		r.undecided("convert nil", "-", "Value.convert not found")
		return
	}
	n := 0
	for _, p := range c.pathsOf("Value.convert") {
		if len(p.Ret) != 1 || !strings.Contains(p.Ret[0].String(), "Value.String(v)") {
			continue
		}
		cs := condStrings(p)
		if !strings.Contains(cs, "(t == TypeSlice)") && !strings.Contains(cs, "Type.base(t) == TypeSlice") {
			continue
		}
		n++
		ok := strings.Contains(cs, "(v.t != TypeNil)") || strings.Contains(cs, "(v.t == TypeString)")
		r.check(ok, "convert nil", c.Pos(fd), "the text route to bytes is not taken for nil", "Value.convert builds a byte slice from the operand's printed text on a path that does not exclude nil ("+cs+"): []byte(nil) becomes the bytes of \"nil\", so string(append([]byte(nil), s...)) starts with \"nil\"")
	}
	if n == 0 {
		r.undecided("convert nil", c.Pos(fd), "the string -> []byte path of Value.convert was not found")
	}
}

func ruleRepString(c *Ctx, r *R) {
	stringDataRule(c, r)
	stringOfRunesRule(c, r)
	equalsKindsRule(c, r)
	convertNilRule(c, r)
	ctors := c.ctorTags()
	single := func(fn string) *State {
		ps := c.pathsOf(fn)
		if len(ps) == 1 {
			return ps[0]
		}
		return nil
	}
	if p := single("stringT.Len"); p != nil {
		r.check(len(p.Ret) == 1 && p.Ret[0].String() == "len(s)", "Len", c.Pos(c.Func("stringT.Len")), "len(s): bytes", "stringT.Len is not len(s) (bytes)")
	} else {
		r.undecided("Len", "-", "stringT.Len not a single path")
	}
	if p := single("stringT.Get"); p != nil && len(p.Ret) == 2 {
		ret := p.Ret[0]
		good := ret.Op == "call" && ctors[ret.Name] == "TypeUint8" && len(ret.Args) == 1 && strings.Contains(ret.Args[0].String(), "s[Value.Int(a)]")
		r.check(good, "Get", c.Pos(c.Func("stringT.Get")), "byte s[i] wrapped as uint8", fmt.Sprintf("stringT.Get returns %s: indexing a string must yield the byte s[i] as a uint8 (Go: s[i] is a byte), otherwise s[i]-'0' <= 9 is signed arithmetic", ret))
	} else {
		r.undecided("Get", "-", "stringT.Get not a single path")
	}
	if p := single("stringT.Slice"); p != nil && len(p.Ret) == 1 {
		r.check(p.Ret[0].String() == "String(string(s[i:j]))", "Slice", c.Pos(c.Func("stringT.Slice")), "s[i:j] in bytes", "stringT.Slice is not the byte slice s[i:j]")
	} else {
		r.undecided("Slice", "-", "stringT.Slice not a single path")
	}
	// Range: byte offsets
	if fd := c.Func("stringT.Range"); fd != nil {
		recv := fd.Recv.List[0].Names[0].Name
		var rng *ast.RangeStmt
		ast.Inspect(fd.Body, func(n ast.Node) bool {
			if rs, ok := n.(*ast.RangeStmt); ok && rng == nil && isIdent(rs.X, recv) {
				rng = rs
			}
			return true
		})
		if rng == nil {
			r.fail("Range", c.Pos(fd), "stringT.Range no longer decodes runes with a Go range over the string")
		} else {
			keyUsed := false
			var keyVars []string
			if kid, ok := rng.Key.(*ast.Ident); ok && kid.Name != "_" {
				ko := c.Info.Defs[kid]
				ast.Inspect(rng.Body, func(n ast.Node) bool {
					if as, ok := n.(*ast.AssignStmt); ok {
						for i, rh := range as.Rhs {
							uses := false
							ast.Inspect(rh, func(m ast.Node) bool {
								if id, ok := m.(*ast.Ident); ok && c.Obj(id) == ko {
									uses = true
								}
								return true
							})
							if uses && i < len(as.Lhs) {
								keyVars = append(keyVars, rootPath(as.Lhs[i]))
								keyUsed = true
							}
						}
					}
					return true
				})
			}
			// the closure's key must be built from a variable fed by the range key
			fl, st, in := c.closureOf("stringT.Range")
			derived := false
			if fl != nil {
				bodyOnce(in)
				for _, p := range in.ExecLit(fl, st, nil) {
					if len(p.Ret) == 3 && p.Ret[2].String() == "true" {
						ks := p.Ret[0].String()
						for _, kv := range keyVars {
							if strings.Contains(ks, kv+"[") || strings.Contains(ks, kv+")") {
								derived = true
							}
						}
					}
				}
			}
			r.check(keyUsed && derived, "Range", c.Pos(rng), "the yielded key derives from the byte offset of Go's range over the string",
				"stringT.Range yields a running rune count as the key: Go's `for i, r := range s` yields the byte offset of each rune (they differ after the first multi-byte rune)")
		}
	} else {
		r.undecided("Range", "-", "stringT.Range not found")
	}
	// operators on strings
	for _, w := range []struct{ fn, op string }{{"Value.opAdd", "+"}, {"Value.opLt", "<"}, {"Value.opLte", "<="}, {"Value.Equals", "=="}} {
		ps := c.pathsOf(w.fn, func(in *Interp) {
			in.Inline = func(o types.Object) bool { return o.Name() == "mixType" || c.isNewHelper(o) }
		})
		good := false
		for _, p := range ps {
			for _, rt := range p.Ret {
				if strings.Contains(rt.String(), "(v.value.(stringT) "+w.op+" b.value.(stringT))") {
					good = true
				}
			}
		}
		if ps == nil {
			r.undecided(w.fn+" string", "-", "not found")
			continue
		}
		r.check(good, w.fn+" string", c.Pos(c.Func(w.fn)), "applies "+w.op+" to the two stringT operands in order", w.fn+" does not apply Go's "+w.op+" to (v, b) as strings: comparison/concatenation differs from Go's bytewise semantics")
	}
	// conversions
	ps := c.pathsOf("Value.convert", bodyOnce)
	var rets []string
	for _, p := range ps {
		rets = append(rets, retStrings(p)...)
		rets = append(rets, effStrings(p)...)
		for _, v := range p.Vars {
			rets = append(rets, v.String())
		}
	}
	r.check(anyContains(rets, "String(string(rune(v.num)))"), "convert rune->string", c.Pos(c.Func("Value.convert")), "string(rune(x))", "string(number) is not string(rune(x))")
	strBytes := anyContains(rets, "[]byte(Value.String(v))")
	if cfd := c.Func("Value.convert"); cfd != nil && !strBytes {
		ast.Inspect(cfd.Body, func(n ast.Node) bool {
			if call, ok := n.(*ast.CallExpr); ok && len(call.Args) == 1 && c.bytesOfStringHelper(c.DeclOf(c.Callee(call))) && strings.Contains(nosp(c.Src(call.Args[0])), ".String()") {
				strBytes = true
			}
			return true
		})
	}
	r.check(strBytes, "convert string->[]byte", c.Pos(c.Func("Value.convert")), "[]byte(s)", "[]byte(string) is not Go's conversion of the string's bytes")
	// ... or, whatever the temporaries are called and wherever the loop lives: Value.convert (or a
	// new helper it calls) applies Go's string(x) to a []byte
	bytesConv := false
	if cfd := c.Func("Value.convert"); cfd != nil {
		for _, h := range c.withHelpers(cfd) {
			ast.Inspect(h.Body, func(n ast.Node) bool {
				call, ok := n.(*ast.CallExpr)
				if !ok || len(call.Args) != 1 {
					return true
				}
				if tt, isConv := c.IsConversion(call); isConv {
					if b, ok := tt.Underlying().(*types.Basic); ok && b.Kind() == types.String {
						if sl, ok := c.TypeOf(call.Args[0]).Underlying().(*types.Slice); ok {
							if eb, ok := sl.Elem().Underlying().(*types.Basic); ok && eb.Kind() == types.Uint8 {
								bytesConv = true
							}
						}
					}
				}
				return true
			})
		}
	}
	r.check(bytesConv || anyContains(rets, "String(string(b))") || anyContains(rets, "String(string(builtin.make(type:[]byte"), "convert []byte->string", c.Pos(c.Func("Value.convert")), "string(bytes)", "string([]byte) is not Go's conversion")
	// immutability: no method of stringT assigns through s
	mut := false
	for _, name := range c.FuncNames() {
		if !strings.HasPrefix(name, "stringT.") {
			continue
		}
		fd := c.funcs[name]
		ast.Inspect(fd.Body, func(n ast.Node) bool {
			if as, ok := n.(*ast.AssignStmt); ok {
				for _, l := range as.Lhs {
					if ix, ok := unparen(l).(*ast.IndexExpr); ok && isIdent(ix.X, fd.Recv.List[0].Names[0].Name) {
						mut = true
					}
				}
			}
			return true
		})
	}
	r.check(!mut, "immutable", "value.go", "no stringT method writes through the receiver", "a stringT method writes into the string")
}

func ruleErrDropLit(c *Ctx, r *R) {
	// in token.go's decoders: calls to strconv functions that return an error
	for _, name := range c.FuncNames() {
		if !strings.HasPrefix(name, "token.") {
			continue
		}
		fd := c.funcs[name]
		if fd.Body == nil {
			continue
		}
		ast.Inspect(fd.Body, func(n ast.Node) bool {
			as, ok := n.(*ast.AssignStmt)
			if !ok || len(as.Rhs) != 1 {
				return true
			}
			call, ok := unparen(as.Rhs[0]).(*ast.CallExpr)
			if !ok {
				return true
			}
			fn, ok := c.Callee(call).(*types.Func)
			if !ok || fn.Pkg() == nil || fn.Pkg().Path() != "strconv" {
				return true
			}
			sig := fn.Type().(*types.Signature)
			last := sig.Results().Len() - 1
			if last < 0 || sig.Results().At(last).Type().String() != "error" {
				return true
			}
			key := name + " strconv." + fn.Name()
			dropped := last < len(as.Lhs) && isIdent(as.Lhs[last], "_")
			r.check(!dropped, key+" error", c.Pos(as), "error result is bound", name+" discards the error of strconv."+fn.Name()+": a malformed literal silently denotes the zero value")
			if fn.Name() == "UnquoteChar" && len(call.Args) == 2 {
				q, ok := c.ConstInt(call.Args[1])
				r.check(ok && q == '\'', key+" quote", c.Pos(call), "quote argument is '\\''", name+" tells strconv.UnquoteChar the text is inside "+c.Src(call.Args[1])+", not inside single quotes: the literal '\\'' is rejected (and decoded as 0)")
			}
			return true
		})
	}
}

// ---- C14 ----

// staleKeysRule (part of REP-PRINT and REP-MAPKEYS): `keys` may list keys that were deleted
// (Delete compacts lazily), so whoever walks `keys` must look each key up with the
// comma-ok form and skip the misses.  A plain m.data[k] yields the zero Value for a stale
// key, which prints as `k:nil` (and would be yielded by a range).
func staleKeysRule(c *Ctx, r *R) {
	n := 0
	for _, name := range c.FuncNames() {
		if !strings.HasPrefix(name, "stringMap.") && !strings.HasPrefix(name, "numericMap.") {
			continue
		}
		fd := c.Func(name)
		if fd.Body == nil {
			continue
		}
		ast.Inspect(fd.Body, func(nd ast.Node) bool {
			rs, ok := nd.(*ast.RangeStmt)
			if !ok {
				return true
			}
			sel, ok := unparen(rs.X).(*ast.SelectorExpr)
			if !ok || sel.Sel.Name != "keys" {
				return true
			}
			kv, ok := rs.Value.(*ast.Ident)
			if !ok {
				return true
			}
			ko := c.Info.Defs[kv]
			ast.Inspect(rs.Body, func(m ast.Node) bool {
				ix, ok := m.(*ast.IndexExpr)
				if !ok {
					return true
				}
				ds, ok := unparen(ix.X).(*ast.SelectorExpr)
				if !ok || ds.Sel.Name != "data" {
					return true
				}
				id, ok := unparen(ix.Index).(*ast.Ident)
				if !ok || c.Obj(id) != ko {
					return true
				}
				n++
				commaOK := false
				if as, ok := c.Parent(ix).(*ast.AssignStmt); ok && len(as.Lhs) == 2 && len(as.Rhs) == 1 && unparen(as.Rhs[0]) == ast.Expr(ix) {
					commaOK = true
				}
				r.check(commaOK, "stale keys "+name, c.Pos(ix), "keys are looked up with the comma-ok form", name+" walks the key list and reads data[k] without the comma-ok form: a key that was deleted but is still listed (Delete compacts lazily) yields the zero Value — `m := map[string]int{\"a\":1,\"b\":2}; delete(m, \"a\"); println(m)` prints map[a:nil b:2]")
				return true
			})
			return true
		})
	}
	if n == 0 {
		r.ok("stale keys", "no walk over keys reads data without comma-ok")
	}
}

func ruleRepPrint(c *Ctx, r *R) {
	staleKeysRule(c, r)
	// isSafeStr is false exactly for the element-iterating tags
	ps := c.pathsOf("Type.isSafeStr")
	falseTags := map[string]bool{}
	var defTrue bool
	for _, p := range ps {
		if len(p.Ret) != 1 {
			continue
		}
		// the tags this path is taken for: positive `base == Tag` conjuncts (alone or in an anyof)
		var pos []string
		for _, cd := range p.Conds {
			s := cd.String()
			if strings.HasPrefix(s, "!") {
				continue
			}
			for _, tag := range []string{"TypeSlice", "TypeMap", "TypeStruct"} {
				if strings.Contains(s, "== "+tag+")") || strings.HasSuffix(s, "== "+tag) {
					pos = append(pos, tag)
				}
			}
		}
		if p.Ret[0].String() == "false" {
			for _, tag := range pos {
				if _, seen := falseTags[tag]; !seen {
					falseTags[tag] = true
				}
			}
		} else {
			// a container tag answered with anything but the constant false (true, or a verdict
			// borrowed from the element type) lets a nested container through
			for _, tag := range pos {
				falseTags[tag] = false
			}
			if p.Ret[0].String() == "true" && len(pos) == 0 {
				defTrue = true
			}
		}
	}
	r.check(falseTags["TypeSlice"] && falseTags["TypeMap"] && falseTags["TypeStruct"] && defTrue, "isSafeStr", c.Pos(c.Func("Type.isSafeStr")), "false for slice, map and struct tags",
		"isSafeStr no longer rejects every container tag (slice, map, struct): a nested container is rendered recursively and a self-referential value never finishes printing")
	containers := []string{"sliceT", "stringMap", "numericMap", "structT"}
	for _, t := range containers {
		// SafeStr: guard precedes the recursive render inside the loop body
		fd := c.Func(t + ".SafeStr")
		if fd == nil {
			r.fail(t+".SafeStr", "-", t+" has no SafeStr method: it is rendered recursively inside other containers")
			continue
		}
		var rng *ast.RangeStmt
		ast.Inspect(fd.Body, func(n ast.Node) bool {
			if rs, ok := n.(*ast.RangeStmt); ok && rng == nil {
				rng = rs
			}
			return true
		})
		good := false
		if rng != nil {
			guardAt, renderAt := token.NoPos, token.NoPos
			for _, st := range rng.Body.List {
				if ifs, ok := st.(*ast.IfStmt); ok && !guardAt.IsValid() {
					if u, ok := unparen(ifs.Cond).(*ast.UnaryExpr); ok && u.Op == token.NOT {
						if call, ok := unparen(u.X).(*ast.CallExpr); ok && c.CalleeName(call) == "Type.isSafeStr" {
							if len(ifs.Body.List) > 0 {
								if _, ok := ifs.Body.List[len(ifs.Body.List)-1].(*ast.ReturnStmt); ok {
									guardAt = ifs.Pos()
								}
							}
						}
					}
				}
			}
			ast.Inspect(rng.Body, func(n ast.Node) bool {
				if call, ok := n.(*ast.CallExpr); ok {
					cn := c.CalleeName(call)
					if (cn == "Value.safeStr" || cn == "Value.String") && !renderAt.IsValid() {
						renderAt = call.Pos()
					}
				}
				return true
			})
			good = guardAt.IsValid() && renderAt.IsValid() && guardAt < renderAt
		}
		r.check(good, t+".SafeStr", c.Pos(fd), "element rendered only after the isSafeStr guard of the same iteration",
			t+".SafeStr renders an element before (or without) the isSafeStr guard that elides nested containers: printing a self-referential structure does not terminate")
		// String: elements through safeStr
		sfd := c.Func(t + ".String")
		if sfd == nil {
			r.undecided(t+".String", "-", "not found")
			continue
		}
		viaSafe, direct := false, false
		ast.Inspect(sfd.Body, func(n ast.Node) bool {
			if call, ok := n.(*ast.CallExpr); ok {
				switch c.CalleeName(call) {
				case "Value.safeStr":
					viaSafe = true
				case "Value.String":
					// rendering the key of a numeric map is fine: keys are scalars
					if sel, ok := unparen(call.Fun).(*ast.SelectorExpr); ok {
						if _, isLit := unparen(sel.X).(*ast.CompositeLit); !isLit {
							direct = true
						}
					}
				}
			}
			return true
		})
		r.check(viaSafe && !direct, t+".String", c.Pos(sfd), "elements rendered through safeStr", t+".String renders elements with String() instead of safeStr(): nested containers recurse without a depth cut")
	}
	// numeric map keys are rendered through a Value of the key type (so bool keys print true/false)
	for _, fn := range []string{"numericMap.String", "numericMap.SafeStr"} {
		fd := c.Func(fn)
		if fd == nil {
			continue
		}
		typed := false
		ast.Inspect(fd.Body, func(n ast.Node) bool {
			if call, ok := n.(*ast.CallExpr); ok && c.CalleeName(call) == "Value.String" {
				if sel, ok := unparen(call.Fun).(*ast.SelectorExpr); ok {
					if cl, ok := unparen(sel.X).(*ast.CompositeLit); ok && isNamed(c.TypeOf(cl), "Value") && strings.Contains(nosp(c.Src(cl)), "t:m.keyType") {
						typed = true
					}
				}
			}
			return true
		})
		if !typed {
			// types.ExprString elides literal bodies; look at the literal's fields directly
			ast.Inspect(fd.Body, func(n ast.Node) bool {
				if cl, ok := n.(*ast.CompositeLit); ok && isNamed(c.TypeOf(cl), "Value") {
					for _, el := range cl.Elts {
						if kv, ok := el.(*ast.KeyValueExpr); ok && types.ExprString(kv.Key) == "t" && nosp(c.Src(kv.Value)) == "m.keyType" {
							if call, ok := c.Parent(c.Parent(cl)).(*ast.CallExpr); ok && c.CalleeName(call) == "Value.String" {
								typed = true
							}
						}
					}
				}
				return true
			})
		}
		if !typed {
			// ... or through a helper of the map that builds that Value (keyValue), rendered with
			// String or safeStr
			isKeyLit := func(e ast.Expr) bool {
				cl, ok := unparen(e).(*ast.CompositeLit)
				if !ok || !isNamed(c.TypeOf(cl), "Value") {
					return false
				}
				for _, el := range cl.Elts {
					if kv, ok := el.(*ast.KeyValueExpr); ok && types.ExprString(kv.Key) == "t" && strings.HasSuffix(nosp(c.Src(kv.Value)), ".keyType") {
						return true
					}
				}
				return false
			}
			ast.Inspect(fd.Body, func(n ast.Node) bool {
				call, ok := n.(*ast.CallExpr)
				if !ok || (c.CalleeName(call) != "Value.String" && c.CalleeName(call) != "Value.safeStr") {
					return true
				}
				sel, ok := unparen(call.Fun).(*ast.SelectorExpr)
				if !ok {
					return true
				}
				if isKeyLit(sel.X) {
					typed = true
				}
				if hc, ok := unparen(sel.X).(*ast.CallExpr); ok {
					if h := c.DeclOf(c.Callee(hc)); h != nil && h.Body != nil && c.isNewHelper(c.Callee(hc)) {
						rets, all := 0, true
						ast.Inspect(h.Body, func(m ast.Node) bool {
							if rs, ok := m.(*ast.ReturnStmt); ok && len(rs.Results) == 1 {
								rets++
								if !isKeyLit(rs.Results[0]) {
									all = false
								}
							}
							return true
						})
						if rets > 0 && all {
							typed = true
						}
					}
				}
				return true
			})
		}
		r.check(typed, fn+" keys", c.Pos(fd), "keys rendered as Value{t: keyType, num: k}.String()", fn+" does not render keys through a Value of the map's key type: bool keys print as 1/0 and typed keys lose their formatting")
	}
	// Value.safeStr dispatches to SafeStr
	sps := c.pathsOf("Value.safeStr")
	okSafe := false
	for _, p := range sps {
		if len(p.Ret) == 1 && strings.Contains(p.Ret[0].String(), ".SafeStr(") {
			okSafe = true
		}
	}
	r.check(okSafe, "Value.safeStr", c.Pos(c.Func("Value.safeStr")), "containers implementing SafeStr are rendered through it", "Value.safeStr no longer dispatches to SafeStr")
	// dispatch of Value.String
	vps := c.pathsOf("Value.String")
	want := map[string]string{
		"TypeInt32": "fmt.Sprint(int(v.num))", "TypeUint32": "fmt.Sprint(int(v.num))", "TypeInt8": "fmt.Sprint(int(v.num))", "TypeUint8": "fmt.Sprint(int(v.num))",
		"TypeFloat64": "fmt.Sprint(v.num)", "TypeBool": "fmt.Sprint(Value.Bool(v))", "TypeString": "string(v.value.(stringT))", "TypeNil": `"nil"`,
	}
	for _, tag := range sortedKeys(want) {
		good := false
		for _, p := range vps {
			cs := condStrings(p)
			last := cs
			if i := strings.LastIndex(cs, " && "); i >= 0 {
				last = cs[i+4:]
			}
			if strings.Contains(last, tag) && !strings.HasPrefix(last, "!") && len(p.Ret) == 1 && p.Ret[0].String() == want[tag] {
				good = true
			}
		}
		r.check(good, "String "+tag, c.Pos(c.Func("Value.String")), want[tag], "Value.String renders "+tag+" values differently from "+want[tag]+" (Go's %v of the underlying number/string/bool)")
	}
	// vaSprint joins with one space
	if ps := c.pathsOf("vaSprint"); len(ps) == 1 && len(ps[0].Ret) == 1 {
		r.check(strings.HasPrefix(ps[0].Ret[0].String(), "strings.Join(") && strings.HasSuffix(ps[0].Ret[0].String(), `, " ")`), "vaSprint", c.Pos(c.Func("vaSprint")), `operands joined with " "`, "vaSprint does not join operands with exactly one space")
	} else {
		r.undecided("vaSprint", "-", "not a single path")
	}
	// struct rendering ranges Order
	for _, fn := range []string{"structT.String", "structT.SafeStr"} {
		fd := c.Func(fn)
		if fd == nil {
			continue
		}
		overOrder := false
		ast.Inspect(fd.Body, func(n ast.Node) bool {
			if rs, ok := n.(*ast.RangeStmt); ok && strings.HasSuffix(c.Src(rs.X), ".Order") {
				overOrder = true
			}
			return true
		})
		r.check(overOrder, fn+" order", c.Pos(fd), "fields rendered in declaration order (ranges Order)", fn+" does not range the Order slice: fields print in map order, not declaration order")
	}
}

// REP-RAWSLICE: the raw constructor newSlice (which does not convert elements to
// the element type) is called only where the elements are already typed.
var rawSliceSites = map[string]string{
	"NewSlice":      "after converting every element with assign(valueType)",
	"sliceT.Slice":  "a sub-slice of data that is already typed",
	"Value.Slice":   "the empty slice of a nil slice",
	"Value.Append":  "nil-receiver branch: not reachable from APPEND (which handles nil itself); host values",
	"Value.convert": "bytes built with the Byte constructor",
	"loadSlices":    "slices.Delete shim: a sub-range of data that is already typed",
}

func ruleRepRawSlice(c *Ctx, r *R) {
	n := 0
	for _, f := range c.Pkg.Syntax {
		ast.Inspect(f, func(m ast.Node) bool {
			call, ok := m.(*ast.CallExpr)
			if !ok || c.CalleeName(call) != "newSlice" {
				return true
			}
			n++
			fd := c.EnclosingFunc(call)
			name := "?"
			if fd != nil {
				name = c.fnName(fd)
			}
			// the element type handed to the raw constructor is the element type of the slice the
			// data comes from: a .value() of a type word, the sliceT's own valueType, a parameter
			// named so, or a type constant — never the key half of pair() or anything else
			if len(call.Args) == 2 {
				te := unparen(call.Args[0])
				if id, isId := te.(*ast.Ident); isId {
					if def := c.singleDef(id); def != nil {
						te = unparen(def)
					}
				}
				ts := nosp(c.Src(te))
				okType := strings.HasSuffix(ts, ".t.value()") || strings.HasSuffix(ts, ".valueType") || ts == "valueType" || strings.HasPrefix(ts, "Type")
				if _, isConst := c.ConstOf(te); isConst {
					okType = true
				}
				r.check(okType, "newSlice element type in "+name, c.Pos(call), "the element type is the source slice's own element type",
					name+" hands newSlice the element type `"+c.Src(call.Args[0])+"` ("+ts+"), which is not the value() of the source's type word: e.g. the first half of pair() keeps only the base tag, so slices.Delete on a [][]float64 returns a [][]any and a constant appended to a row later stays an int")
			}
			why, ok := rawSliceSites[name]
			if name == "sliceT.Append" && !ok {
				bad := c.appendConvertsTail()
				if debugAppend {
					fmt.Fprintln(os.Stderr, "appendConvertsTail:", bad)
				}
				if bad == "" {
					why, ok = "the elements already held are typed and the appended tail is converted by the loop before", true
				}
			}
			r.check(ok, "newSlice in "+name, c.Pos(call), why,
				name+" builds a slice with the raw constructor newSlice, which does not convert elements to the slice's element type: untyped constants stored this way keep the untyped tag (use NewSlice)")
			return true
		})
	}
	if n == 0 {
		r.undecided("newSlice", "-", "no call of newSlice found")
	}
}

// appendConvertsTail: sliceT.Append has the shape
//
//	n := len(s.data); data := append(s.data, items...)
//	for i := n; i < len(data); i++ { data[i] = data[i].assign(s.valueType) }
//
// i.e. every element past the old length — exactly the appended ones — is converted to the
// element type, and nothing below n is written. Returns "" or what is missing.
func (c *Ctx) appendConvertsTail() string {
	fd := c.Func("sliceT.Append")
	if fd == nil || fd.Body == nil {
		return "sliceT.Append not found"
	}
	var nObj, dObj types.Object
	var nPos, dPos token.Pos
	for _, st := range fd.Body.List {
		as, ok := st.(*ast.AssignStmt)
		if !ok || as.Tok != token.DEFINE || len(as.Lhs) != 1 || len(as.Rhs) != 1 {
			continue
		}
		id := as.Lhs[0].(*ast.Ident)
		switch nosp(c.Src(as.Rhs[0])) {
		case "len(s.data)":
			nObj, nPos = c.Info.Defs[id], as.Pos()
		case "append(s.data,items...)":
			dObj, dPos = c.Info.Defs[id], as.Pos()
		}
	}
	if nObj == nil || dObj == nil || nPos > dPos {
		return "the old length is not taken before the append"
	}
	found := false
	stores := 0
	ast.Inspect(fd.Body, func(n ast.Node) bool {
		if as, ok := n.(*ast.AssignStmt); ok {
			for _, l := range as.Lhs {
				if ix, ok := unparen(l).(*ast.IndexExpr); ok {
					if id, ok := unparen(ix.X).(*ast.Ident); ok && c.Obj(id) == dObj {
						stores++
					}
				}
				if id, ok := unparen(l).(*ast.Ident); ok && as.Tok != token.DEFINE && (c.Obj(id) == dObj || c.Obj(id) == nObj) {
					stores += 100 // reassigned: not the shape
				}
			}
		}
		f, ok := n.(*ast.ForStmt)
		if !ok || f.Init == nil || f.Cond == nil || f.Post == nil || len(f.Body.List) != 1 {
			return true
		}
		init, ok := f.Init.(*ast.AssignStmt)
		if !ok || len(init.Lhs) != 1 || len(init.Rhs) != 1 {
			return true
		}
		iv, ok := init.Lhs[0].(*ast.Ident)
		if !ok {
			return true
		}
		if rid, ok := unparen(init.Rhs[0]).(*ast.Ident); !ok || c.Obj(rid) != nObj {
			return true
		}
		if nosp(c.Src(f.Cond)) != iv.Name+"<len("+dObj.Name()+")" {
			return true
		}
		if p, ok := f.Post.(*ast.IncDecStmt); !ok || p.Tok != token.INC || nosp(c.Src(p.X)) != iv.Name {
			return true
		}
		elem := dObj.Name() + "[" + iv.Name + "]"
		if bs, ok := f.Body.List[0].(*ast.AssignStmt); ok && bs.Tok == token.ASSIGN && len(bs.Lhs) == 1 && len(bs.Rhs) == 1 &&
			nosp(c.Src(bs.Lhs[0])) == elem && nosp(c.Src(bs.Rhs[0])) == elem+".assign(s.valueType)" {
			found = true
		}
		return true
	})
	if !found {
		// or: assignEach(data[n:], s.valueType)
		ast.Inspect(fd.Body, func(n ast.Node) bool {
			call, ok := n.(*ast.CallExpr)
			if !ok {
				return true
			}
			di, ti, ok := c.assignEachHelper(c.DeclOf(c.Callee(call)))
			if !ok || di >= len(call.Args) || ti >= len(call.Args) {
				return true
			}
			se, ok := unparen(call.Args[di]).(*ast.SliceExpr)
			if !ok || se.High != nil || se.Low == nil {
				return true
			}
			xid, ok1 := unparen(se.X).(*ast.Ident)
			lid, ok2 := unparen(se.Low).(*ast.Ident)
			if ok1 && ok2 && c.Obj(xid) == dObj && c.Obj(lid) == nObj && nosp(c.Src(call.Args[ti])) == "s.valueType" {
				found = true
				stores++ // the helper's store stands for the loop's
			}
			return true
		})
	}
	if !found {
		return "no loop converts the elements from the old length to the new one with assign(s.valueType)"
	}
	if stores != 1 {
		return "the appended data is written elsewhere too"
	}
	return ""
}

func init() {
	if os.Getenv("GOATCHECK_DEBUG_APPEND") != "" {
		debugAppend = true
	}
}

var debugAppend bool

// stringOfRunesRule: string(x) of a []rune / []int32 encodes every element as UTF-8; only a
// byte slice keeps its elements as bytes. Decided on Value.convert's TypeString case: it
// contains a Go conversion string(<[]rune>) besides the string(<[]byte>) one.
func stringOfRunesRule(c *Ctx, r *R) {
	fd := c.Func("Value.convert")
	if fd == nil {
		r.undecided("string of runes", "-", "Value.convert not found")
		return
	}
	var clause *ast.CaseClause
	ast.Inspect(fd.Body, func(n ast.Node) bool {
		if cc, ok := n.(*ast.CaseClause); ok && clause == nil {
			for _, e := range cc.List {
				if isIdent(e, "TypeString") {
					clause = cc
				}
			}
		}
		return true
	})
	if clause == nil {
		r.undecided("string of runes", c.Pos(fd), "no case TypeString in Value.convert")
		return
	}
	runes, bytes := false, false
	// the clause and the new helpers it calls
	scopes := []ast.Node{clause}
	ast.Inspect(clause, func(n ast.Node) bool {
		if call, ok := n.(*ast.CallExpr); ok {
			if o := c.Callee(call); o != nil && c.isNewHelper(o) {
				if h := c.DeclOf(o); h != nil && h.Body != nil {
					scopes = append(scopes, h.Body)
				}
			}
		}
		return true
	})
	for _, scope := range scopes {
		ast.Inspect(scope, func(n ast.Node) bool {
			call, ok := n.(*ast.CallExpr)
			if !ok || len(call.Args) != 1 {
				return true
			}
			if t, isConv := c.IsConversion(call); !isConv || !types.Identical(t.Underlying(), types.Typ[types.String]) {
				return true
			}
			if st, ok := c.TypeOf(call.Args[0]).Underlying().(*types.Slice); ok {
				if b, ok := st.Elem().Underlying().(*types.Basic); ok {
					switch b.Kind() {
					case types.Int32:
						runes = true
					case types.Uint8:
						bytes = true
					}
				}
			}
			return true
		})
	}
	r.check(bytes, "string of bytes", c.Pos(clause), "string(<[]byte>)", "Value.convert no longer builds a string from the bytes of a byte slice")
	r.check(runes, "string of runes", c.Pos(clause), "string(<[]rune>) encodes code points as UTF-8",
		"Value.convert turns every slice into a string byte by byte: string([]rune{'h', 'é', '世'}) truncates each code point to its low byte instead of encoding it as UTF-8")
}

// newSliceConverts: NewSlice hands every element through assign(valueType) on every path that
// returns a non-empty slice: a range over the data parameter whose first statement stores
// `data[i] = v.assign(valueType)` unconditionally, and no return before it unless the data is
// known to be empty.
func newSliceConverts(c *Ctx, r *R) {
	fd := c.Func("NewSlice")
	if fd == nil || fd.Type.Params.NumFields() < 2 {
		r.undecided("NewSlice converts", "-", "NewSlice not found")
		return
	}
	var loop *ast.RangeStmt
	for _, st := range fd.Body.List {
		rs, ok := st.(*ast.RangeStmt)
		if !ok || loop != nil {
			continue
		}
		if id, ok := unparen(rs.X).(*ast.Ident); !ok || c.Obj(id) == nil || c.Obj(id).Name() != "data" {
			continue
		}
		if len(rs.Body.List) == 0 {
			continue
		}
		as, ok := rs.Body.List[0].(*ast.AssignStmt)
		if !ok || len(as.Lhs) != 1 || len(as.Rhs) != 1 {
			continue
		}
		k, _ := rs.Key.(*ast.Ident)
		v, _ := rs.Value.(*ast.Ident)
		if k == nil || v == nil {
			continue
		}
		if nosp(c.Src(as.Lhs[0])) == "data["+k.Name+"]" && nosp(c.Src(as.Rhs[0])) == v.Name+".assign(valueType)" {
			loop = rs
		}
	}
	var loopAt ast.Node
	if loop != nil {
		loopAt = loop
	} else {
		// or a top-level call of an assign-each helper over the whole data
		for _, st := range fd.Body.List {
			es, ok := st.(*ast.ExprStmt)
			if !ok {
				continue
			}
			call, ok := unparen(es.X).(*ast.CallExpr)
			if !ok {
				continue
			}
			if di, ti, ok := c.assignEachHelper(c.DeclOf(c.Callee(call))); ok && di < len(call.Args) && ti < len(call.Args) &&
				nosp(c.Src(call.Args[di])) == "data" && nosp(c.Src(call.Args[ti])) == "valueType" {
				loopAt = es
			}
		}
	}
	if !r.check(loopAt != nil, "NewSlice converts", c.Pos(fd), "every element is stored back through assign(valueType)", "NewSlice no longer converts every element to the element type: untyped constants in a literal, a make, a variadic pack or a host slice keep the untyped tag") {
		return
	}
	// nothing returns before the loop except on empty data
	early := ""
	ast.Inspect(fd.Body, func(n ast.Node) bool {
		rs, ok := n.(*ast.ReturnStmt)
		if !ok || rs.Pos() > loopAt.Pos() {
			return true
		}
		empty := false
		for p := c.Parent(rs); p != nil && p != ast.Node(fd.Body); p = c.Parent(p) {
			if ifs, ok := p.(*ast.IfStmt); ok {
				cs := nosp(c.Src(ifs.Cond))
				if cs == "len(data)==0" || cs == "data==nil" {
					empty = true
				}
			}
		}
		if !empty {
			early = c.Pos(rs)
		}
		return true
	})
	r.check(early == "", "NewSlice converts all", c.Pos(fd), "no return ahead of the conversion loop for non-empty data",
		"NewSlice returns at "+early+" before converting the elements (a fast path that looks at some of them only): in []float64{x, 1, 2} the constants stay untyped and s[1]/s[2] is an integer division")
}

// literalCapRule: a slice literal has capacity == length (append to it must reallocate, so two
// appends to the same literal do not share storage): the NEWSLICE handler allocates the data
// with make([]Value, n) — not by appending to nil, which rounds the capacity up to a size class.
func literalCapRule(c *Ctx, r *R) {
	sw, err := c.execSwitch()
	if err != nil {
		r.undecided("NEWSLICE capacity", "-", err.Error())
		return
	}
	sc := sw.ByLabel["codeNewSlice"]
	if sc == nil {
		r.undecided("NEWSLICE capacity", "-", "no handler")
		return
	}
	found, exact := false, false
	ast.Inspect(sc.Clause, func(n ast.Node) bool {
		call, ok := n.(*ast.CallExpr)
		if !ok || (c.CalleeName(call) != "NewSlice" && c.CalleeName(call) != "newSlice") || len(call.Args) != 2 {
			return true
		}
		found = true
		id, ok := unparen(call.Args[1]).(*ast.Ident)
		if !ok {
			return true
		}
		def := c.singleDef(id)
		if def == nil {
			return true
		}
		if mk, ok := unparen(def).(*ast.CallExpr); ok && c.CalleeName(mk) == "builtin.make" {
			if len(mk.Args) == 2 || len(mk.Args) == 3 && nosp(c.Src(mk.Args[1])) == nosp(c.Src(mk.Args[2])) {
				exact = true
			}
		}
		if se, ok := unparen(def).(*ast.SliceExpr); ok && se.Slice3 && se.Max != nil && se.High != nil && nosp(c.Src(se.Max)) == nosp(c.Src(se.High)) {
			exact = true
		}
		return true
	})
	if !found {
		r.undecided("NEWSLICE capacity", c.Pos(sc.Clause), "no slice construction in the handler")
		return
	}
	// ... and the constructors keep that array: a copy made with append / slices.Clone has the
	// capacity the allocator rounds up to (spare room from 18 elements on), so two appends to
	// the same literal write the same hidden element and s[:len(s)+1] is no longer an error
	for _, fn := range []string{"NewSlice", "newSlice"} {
		fd := c.Func(fn)
		if fd == nil || fd.Body == nil {
			continue
		}
		for _, h := range c.withHelpers(fd) {
			ast.Inspect(h.Body, func(n ast.Node) bool {
				as, ok := n.(*ast.AssignStmt)
				if !ok || len(as.Lhs) != len(as.Rhs) {
					return true
				}
				for i, l := range as.Lhs {
					if _, isSlice := c.TypeOf(l).Underlying().(*types.Slice); !isSlice {
						continue
					}
					if sl, ok := c.TypeOf(l).Underlying().(*types.Slice); !ok || !isNamed(sl.Elem(), "Value") {
						continue
					}
					call, ok := unparen(as.Rhs[i]).(*ast.CallExpr)
					if !ok {
						continue
					}
					name := c.CalleeName(call)
					if name == "builtin.append" || strings.HasSuffix(name, "slices.Clone") {
						r.fail("constructor keeps the exact capacity "+fn, c.Pos(as), fn+" re-allocates the element array with "+name+": the copy's capacity is whatever the allocator rounds up to, so a literal or make of 18+ elements has hidden spare capacity — `a := append(base, 100); b := append(base, 200)` share the element (a[len(base)] reads 200) and base[:len(base)+1] succeeds where Go reports an error")
					}
				}
				return true
			})
		}
	}
	r.check(exact, "NEWSLICE capacity", c.Pos(sc.Clause), "the literal's data is allocated with capacity == length",
		"the NEWSLICE handler builds the literal's data with spare capacity (append to nil rounds up to an allocation size class): for an 18-element literal a, b := append(a, 100); c := append(a, 200) write the same slot — b[18] is 200 and b[0] = -1 changes a[0]")
}

// structWritersRule: who may write a struct object's tables. Field *values* change through
// SetIndex -> intMap.Assign (which never inserts); a field is *created* only by addField (a
// type declaration) and a method only by addMethod. Anything else that inserts — e.g. a lookup
// that caches a bound method in the receiver's field table — makes an instance's table differ
// from its type's and freezes what it cached across a reload.
func structWritersRule(c *Ctx, r *R) {
	allowed := map[string]map[string]bool{
		"Fields":  {"Value.addField": true, "structT.SetIndex": true},
		"Methods": {"Value.addMethod": true},
	}
	n := 0
	for _, name := range c.FuncNames() {
		fd := c.Func(name)
		if fd.Body == nil {
			continue
		}
		ast.Inspect(fd.Body, func(m ast.Node) bool {
			call, ok := m.(*ast.CallExpr)
			if !ok {
				return true
			}
			cn := c.CalleeName(call)
			if cn != "intMap.Set" && cn != "intMap.Assign" && cn != "intMap.Delete" && cn != "intMap.insert" {
				return true
			}
			sel, ok := unparen(call.Fun).(*ast.SelectorExpr)
			if !ok {
				return true
			}
			fs, ok := unparen(sel.X).(*ast.SelectorExpr)
			if !ok || (fs.Sel.Name != "Fields" && fs.Sel.Name != "Methods") {
				return true
			}
			n++
			key := fmt.Sprintf("%s.%s in %s", fs.Sel.Name, strings.TrimPrefix(cn, "intMap."), name)
			okW := allowed[fs.Sel.Name][name]
			if name == "structT.SetIndex" && cn != "intMap.Assign" {
				okW = false // a field store never inserts
			}
			r.check(okW, key, c.Pos(call), "written by its owner only (addField / addMethod / SetIndex->Assign)",
				name+" writes a struct object's "+fs.Sel.Name+" table with "+cn+": only a declaration may create an entry (addField / addMethod) and only SetIndex stores a field value, through Assign. A lookup that caches a bound method in the receiver's field table keeps serving the method as it was bound — after a reload that changes its parameter list, t.M(a, b) on a receiver that had called M before fails with `incorrect args` and never runs the new body")
			return true
		})
	}
	if n == 0 {
		r.undecided("struct table writers", "-", "no write to a Fields/Methods table found")
	}
}

// nilToAnyRule: nil converted to the bare slice type (the encoding of []any) is the nil []any:
// a typed nil whose type is the target, not some other slice type.
func nilToAnyRule(c *Ctx, r *R) {
	fd := c.Func("Value.convert")
	if fd == nil {
		return
	}
	for _, p := range c.pathsOf("Value.convert") {
		cs := condStrings(p)
		if !strings.Contains(cs, "(t == TypeSlice)") || !strings.Contains(cs, "(v.t == TypeNil)") || len(p.Ret) != 1 {
			continue
		}
		tf := litField(p.Ret[0], "t")
		r.check(tf != nil && (tf.String() == "TypeSlice" || tf.String() == "t"), "nil conversion to []any", c.Pos(fd), "nil converts to the typed nil of the target type",
			"Value.convert turns nil into a nil slice of another element type ("+p.Ret[0].String()+") when the target is the bare slice type []any: `xs := append([]any(nil), src...); xs = append(xs, 1000)` stores 232, a byte")
	}
	// []T(nil), Vec(nil): nil converted to a composite slice type is the nil slice of *that*
	// type.  The delegation to the bare-slice conversion (for []byte(s)) forgets the element
	// type, so it is taken only where nil has been excluded.
	n := 0
	for _, p := range c.pathsOf("Value.convert") {
		cs := condStrings(p)
		if !strings.Contains(cs, "(t != TypeSlice)") || len(p.Ret) != 1 {
			continue
		}
		if strings.Contains(cs, "(v.t == TypeNil)") {
			n++
			tf := litField(p.Ret[0], "t")
			r.check(tf != nil && tf.String() == "t", "nil conversion to []T", c.Pos(fd), "nil converts to the typed nil of the target type",
				"Value.convert turns nil into "+p.Ret[0].String()+" for a composite target type: []float64(nil) is not the nil slice of float64")
		}
		if rt := p.Ret[0]; rt.Op == "call" && strings.Contains(rt.String(), "convert(") && strings.Contains(rt.String(), "TypeSlice") {
			r.check(strings.Contains(cs, "(v.t != TypeNil)"), "nil conversion to []T", c.Pos(fd), "the bare-slice delegation is taken only for non-nil operands",
				"Value.convert hands nil to the bare-slice conversion for a composite slice type ("+cs+"): `[]byte(nil)` becomes the nil []any and forgets its element type — `b := append([]byte(nil), 300)` keeps 300")
		}
	}
	if n == 0 {
		r.fail("nil conversion to []T", c.Pos(fd), "Value.convert has no path that converts nil to the typed nil of a composite target type: `[]byte(nil)` becomes the nil []any and forgets its element type")
	}
}

// REP-MAPIDENT: two keys are the same key exactly when Go's == says so.  Every key type that
// is not string goes to numericMap.  A number or bool is identified by Value.num; a reference
// (struct pointer, value of a declared interface, host object) has num == 0 and is identified
// by the object in Value.value.  So (a) the Go map numericMap.data is keyed by a type that
// holds both parts, (b) every lookup / store / delete derives its key from both k.num and
// k.value, (c) the key a range yields is rebuilt with its object, and (d) mapType packs only
// the kind of the key type into its one-byte field (a `*T` key type carries the index of T in
// its upper bits, which would run into the value type).
func ruleRepMapIdent(c *Ctx, r *R) {
	nm := c.NamedType("numericMap")
	if nm == nil {
		r.undecided("numericMap", "-", "type not found")
		return
	}
	st, _ := nm.Underlying().(*types.Struct)
	var keyT types.Type
	if st != nil {
		for i := 0; i < st.NumFields(); i++ {
			if st.Field(i).Name() == "data" {
				if mt, ok := st.Field(i).Type().Underlying().(*types.Map); ok {
					keyT = mt.Key()
				}
			}
		}
	}
	if keyT == nil {
		r.undecided("numericMap.data", "-", "no map-typed field data")
		return
	}
	hasNum, hasRef := false, false
	var walk func(t types.Type, depth int)
	walk = func(t types.Type, depth int) {
		switch u := t.Underlying().(type) {
		case *types.Basic:
			if u.Info()&types.IsNumeric != 0 {
				hasNum = true
			}
		case *types.Interface, *types.Pointer:
			hasRef = true
		case *types.Struct:
			if depth < 3 {
				for i := 0; i < u.NumFields(); i++ {
					walk(u.Field(i).Type(), depth+1)
				}
			}
		case *types.Array:
			walk(u.Elem(), depth+1)
		}
	}
	walk(keyT, 0)
	r.check(hasNum && hasRef, "key type", c.Pos(c.Func("numericMap.Get")), "numericMap.data is keyed by number and object identity",
		"numericMap.data is keyed by "+types.TypeString(keyT, func(*types.Package) string { return "" })+", which cannot tell two references apart: every struct pointer (and every value of a declared interface type) has num == 0, so `seen := map[*N]bool{}; seen[a] = true; seen[b]` is true and len(seen) stays 1 — a visited set or per-node counter silently merges all nodes")
	// (b) the key expressions
	var expand func(e ast.Expr, fd *ast.FuncDecl, depth int) string
	expand = func(e ast.Expr, fd *ast.FuncDecl, depth int) string {
		out := nosp(c.FullSrc(e))
		if depth > 3 {
			return out
		}
		ast.Inspect(e, func(n ast.Node) bool {
			switch x := n.(type) {
			case *ast.Ident:
				v, ok := c.Obj(x).(*types.Var)
				if !ok || v.IsField() {
					return true
				}
				ast.Inspect(fd.Body, func(m ast.Node) bool {
					as, ok := m.(*ast.AssignStmt)
					if !ok || len(as.Lhs) != len(as.Rhs) {
						return true
					}
					for i, l := range as.Lhs {
						if lid, ok := unparen(l).(*ast.Ident); ok && c.Obj(lid) == types.Object(v) && as.Rhs[i].Pos() < x.Pos() {
							out += " " + expand(as.Rhs[i], fd, depth+1)
						}
					}
					return true
				})
			case *ast.CallExpr:
				if o := c.Callee(x); o != nil && c.isNewHelper(o) {
					if h := c.DeclOf(o); h != nil && h.Body != nil {
						ast.Inspect(h.Body, func(m ast.Node) bool {
							if rs, ok := m.(*ast.ReturnStmt); ok {
								for _, res := range rs.Results {
									out += " " + expand(res, h, depth+1)
								}
							}
							return true
						})
					}
				}
			}
			return true
		})
		return out
	}
	for _, fn := range []string{"numericMap.Get", "numericMap.Set", "numericMap.Delete", "newNumericMap"} {
		fd := c.Func(fn)
		if fd == nil {
			r.undecided(fn, "-", "not found")
			continue
		}
		n := 0
		check := func(keyExpr ast.Expr, at ast.Node) {
			// only keys that come from a Value (parameter or element of in): loops over m.keys
			// re-use keys that already are of the map's key type
			src := expand(keyExpr, fd, 0)
			if !strings.Contains(src, ".num") && !strings.Contains(src, ".value") {
				return
			}
			n++
			r.check(strings.Contains(src, ".num") && strings.Contains(src, ".value"), fn+" key", c.Pos(at), "the key is derived from both num and the object of the key Value",
				fn+" keys the entry by "+nosp(c.Src(keyExpr))+" — the number alone: every reference key (struct pointer, interface value) is the key 0, so map[*N]V keeps one entry for all keys")
		}
		ast.Inspect(fd.Body, func(m ast.Node) bool {
			switch x := m.(type) {
			case *ast.IndexExpr:
				if strings.HasSuffix(nosp(c.Src(x.X)), ".data") {
					check(x.Index, x)
				}
			case *ast.CallExpr:
				if id, ok := unparen(x.Fun).(*ast.Ident); ok && id.Name == "delete" && len(x.Args) == 2 && strings.HasSuffix(nosp(c.Src(x.Args[0])), ".data") {
					check(x.Args[1], x)
				}
			}
			return true
		})
		if n == 0 {
			r.undecided(fn+" key", c.Pos(fd), "no access to the data map keyed from a Value found")
		}
	}
	// (c) Range rebuilds the key with its object
	if fd := c.Func("numericMap.Range"); fd != nil {
		good, seen := true, 0
		ast.Inspect(fd.Body, func(m ast.Node) bool {
			rs, ok := m.(*ast.ReturnStmt)
			if !ok || len(rs.Results) != 3 {
				return true
			}
			if id, ok := unparen(rs.Results[2]).(*ast.Ident); !ok || id.Name != "true" {
				return true
			}
			seen++
			src := expand(rs.Results[0], fd, 0)
			if !strings.Contains(src, "value:") || !strings.Contains(src, "num:") {
				good = false
			}
			return true
		})
		if seen == 0 {
			r.undecided("Range key", c.Pos(fd), "no yielding return found in numericMap.Range")
		} else {
			r.check(good, "Range key", c.Pos(fd), "a range yields the key with its number and its object",
				"numericMap.Range rebuilds the key from the number alone: ranging over a map[*N]V yields struct values without their object — `for k := range m { k.id }` is a nil dereference")
		}
	} else {
		r.undecided("Range key", "-", "numericMap.Range not found")
	}
	// (d) mapType packs the kind of the key only: evaluated as a function on constants, the
	// result does not depend on the bits of the key type above its kind
	if fd := c.Func("mapType"); fd != nil && fd.Body != nil {
		tags := c.typeTags()
		st, i32 := tags["TypeStruct"], tags["TypeInt32"]
		plain, ok1 := c.evalFuncConst(fd, []constant.Value{constant.MakeInt64(st), constant.MakeInt64(i32)})
		ptr, ok2 := c.evalFuncConst(fd, []constant.Value{constant.MakeInt64(st | 13<<8), constant.MakeInt64(i32)})
		other, ok3 := c.evalFuncConst(fd, []constant.Value{constant.MakeInt64(st), constant.MakeInt64(tags["TypeFloat64"])})
		if !ok1 || !ok2 || !ok3 || st == 0 {
			r.undecided("mapType key", c.Pos(fd), "cannot evaluate mapType on constants")
		} else {
			r.check(constant.Compare(plain, token.EQL, ptr) && !constant.Compare(plain, token.EQL, other), "mapType key", c.Pos(fd), "only the kind of the key type is packed",
				"mapType shifts the whole key type into a one-byte field: a `*T` key type carries the index of T in its upper bits, which are OR-ed into the value type — with T at a global index with bit 3 set, map[*T]int becomes a map of float64")
		}
	} else {
		r.undecided("mapType key", "-", "mapType not found")
	}
}

// bytesOfStringHelper: a new helper `func(s string) []Value` whose elements are the bytes of
// s — Byte(s[i]) / Uint8(s[i]) over an index of the string, or a range over []byte(s).
func (c *Ctx) bytesOfStringHelper(fd *ast.FuncDecl) bool {
	if fd == nil || fd.Body == nil || fd.Recv != nil || !c.isNewHelper(c.Info.Defs[fd.Name]) {
		return false
	}
	var sp types.Object
	n := 0
	for _, f := range fd.Type.Params.List {
		for _, nm := range f.Names {
			n++
			if b, ok := c.Info.Defs[nm].Type().Underlying().(*types.Basic); ok && b.Info()&types.IsString != 0 {
				sp = c.Info.Defs[nm]
			}
		}
	}
	if n != 1 || sp == nil {
		return false
	}
	byBytes, byRunes := false, false
	ast.Inspect(fd.Body, func(m ast.Node) bool {
		switch x := m.(type) {
		case *ast.CallExpr:
			if nm := c.CalleeName(x); (nm == "Byte" || nm == "Uint8") && len(x.Args) == 1 {
				if ix, ok := unparen(x.Args[0]).(*ast.IndexExpr); ok {
					if id, ok := unparen(ix.X).(*ast.Ident); ok && c.Obj(id) == sp {
						byBytes = true
					}
				}
			}
			if tt, isConv := c.IsConversion(x); isConv && len(x.Args) == 1 {
				if sl, ok := tt.Underlying().(*types.Slice); ok {
					if eb, ok := sl.Elem().Underlying().(*types.Basic); ok && eb.Kind() == types.Uint8 {
						if id, ok := unparen(x.Args[0]).(*ast.Ident); ok && c.Obj(id) == sp {
							byBytes = true
						}
					}
				}
			}
		case *ast.RangeStmt:
			if id, ok := unparen(x.X).(*ast.Ident); ok && c.Obj(id) == sp {
				byRunes = true // ranging the string itself decodes runes
			}
		}
		return true
	})
	return byBytes && !byRunes
}
