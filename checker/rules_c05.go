package main

// C05 — expressions group by Go's operator precedence and associativity.
// A Pratt parser's grouping is a function of its tables; the rules below
// quantify over every row and every operator pair.

import (
	"fmt"
	"go/ast"
	"go/token"
	"go/types"
	"sort"
	"strconv"
	"strings"
)

func init() {
	register(&propDef{
		ID:          "C05",
		Explanation: "Static decision of the Pratt parser's grouping from its tables: TAB-PREC compares the sign of Lbp differences with go/token precedence for every pair of binary operators (keys of infixMap); TAB-ASSOC checks every binary operator's Led parses its right operand at the operator's own binding power (left, then right operand appended) and the climbing loop uses the strict `rbp < Lbp`; TAB-UNARY checks every unary Nud parses its operand at a power above all binary and below all postfix operators; TAB-MUNCH checks multi-character operator keys are reachable by the tokenizer's maximal munch. Not decided: that evaluating the grouped tree yields Go's value (C04), `&^`.",
		Assumptions: []string{"go/token.Token.Precedence is the oracle for Go's five binary precedence levels"},
		Trusted:     []string{"go/token precedence table"},
		Quick: []ruleDef{
			{"TAB-PREC", 103, ruleTabPrec},
			{"TAB-ASSOC", 19, ruleTabAssoc},
			{"TAB-UNARY", 3, ruleTabUnary},
			{"TAB-MUNCH", 33, ruleTabMunch},
			{"TAB-SYMBOLS", 1, ruleTabSymbols},
			{"TAB-MASK", 3, ruleTabMask},
		},
	})
}

func goOperatorTokens() map[string]token.Token {
	m := map[string]token.Token{}
	for t := token.Token(0); t < 120; t++ {
		if t.IsOperator() {
			m[t.String()] = t
		}
	}
	return m
}

// binaryOps: the keys of infixMap, i.e. the operators the compiler treats as binary.
func (c *Ctx) binaryOps() ([]string, error) {
	cl := c.mapLit("infixMap")
	if cl == nil {
		return nil, fmt.Errorf("infixMap not found")
	}
	_, order := c.stringKeyed(cl)
	sort.Strings(order)
	return order, nil
}

func ruleTabPrec(c *Ctx, r *R) {
	rows, err := c.symbolTable()
	if err != nil {
		r.undecided("symbols", "-", err.Error())
		return
	}
	ops, err := c.binaryOps()
	if err != nil {
		r.undecided("infixMap", "-", err.Error())
		return
	}
	gotok := goOperatorTokens()
	// every row of the table that is spelled like a Go binary operator and has a Led takes part,
	// whether or not the compiler maps it to an opcode of its own (`&^` handled by a Led that
	// builds `& ^`): the tokenizer merges operator characters into whatever the table has a row for
	{
		have := map[string]bool{}
		for _, op := range ops {
			have[op] = true
		}
		var extra []string
		for k, row := range rows {
			if t, ok := gotok[k]; ok && t.Precedence() > 0 && row.HasLbp && row.Led != nil && !have[k] {
				extra = append(extra, k)
			}
		}
		sort.Strings(extra)
		ops = append(ops, extra...)
	}
	for _, op := range ops {
		if _, ok := gotok[op]; !ok || gotok[op].Precedence() == 0 {
			r.undecided("op "+op, "-", "binary operator has no Go precedence")
			return
		}
		if rows[op] == nil || !rows[op].HasLbp {
			r.fail("row "+op, "-", "binary operator "+op+" has no row with an Lbp in `symbols`")
			return
		}
	}
	sign := func(a int64) int {
		switch {
		case a < 0:
			return -1
		case a > 0:
			return 1
		}
		return 0
	}
	for i, a := range ops {
		for _, b := range ops[i+1:] {
			la, lb := rows[a].Lbp, rows[b].Lbp
			pa, pb := gotok[a].Precedence(), gotok[b].Precedence()
			key := fmt.Sprintf("%q~%q", a, b)
			ok := sign(la-lb) == sign(int64(pa-pb))
			r.check(ok, key, c.Pos(rows[a].Node),
				fmt.Sprintf("Lbp %d vs %d; Go precedence %d vs %d: agree", la, lb, pa, pb),
				fmt.Sprintf("binding powers of %s (Lbp %d) and %s (Lbp %d) are ordered differently from Go's precedence (%d vs %d): an expression mixing them groups differently from Go", a, la, b, lb, pa, pb))
		}
	}
	// every binary operator binds tighter than assignment, comma and the statement level
	for _, k := range []string{",", "=", ":="} {
		if rows[k] == nil {
			continue
		}
		for _, op := range ops {
			r.check(rows[op].Lbp > rows[k].Lbp, fmt.Sprintf("%q>%q", op, k), c.Pos(rows[op].Node),
				"binds tighter than "+k, fmt.Sprintf("binary operator %s (Lbp %d) does not bind tighter than %s (Lbp %d)", op, rows[op].Lbp, k, rows[k].Lbp))
		}
	}
}

// callsTo collects calls in fn whose callee is the method recvType.name.
func (c *Ctx) callsTo(n ast.Node, names ...string) []*ast.CallExpr {
	var out []*ast.CallExpr
	ast.Inspect(n, func(m ast.Node) bool {
		if call, ok := m.(*ast.CallExpr); ok {
			cn := c.CalleeName(call)
			for _, want := range names {
				if cn == want {
					out = append(out, call)
				}
			}
		}
		return true
	})
	return out
}

// powerOf evaluates the binding-power argument of a parse call inside a
// Nud/Led for operator key: a constant, or getSymbol(<own token>).Lbp.
func (c *Ctx) powerOf(e ast.Expr, fd *ast.FuncDecl, rows map[string]*symRow, key string) (int64, string, bool) {
	if n, ok := c.ConstInt(e); ok {
		return n, "const", true
	}
	if sel, ok := unparen(e).(*ast.SelectorExpr); ok && sel.Sel.Name == "Lbp" {
		if call, ok := unparen(sel.X).(*ast.CallExpr); ok && c.CalleeName(call) == "getSymbol" && len(call.Args) == 1 {
			// the argument must be the handler's own token parameter
			if id, ok := unparen(call.Args[0]).(*ast.Ident); ok && fd.Type.Params != nil && len(fd.Type.Params.List) >= 2 {
				var tokParam types.Object
				n := 0
				for _, f := range fd.Type.Params.List {
					for _, nm := range f.Names {
						if n == 1 {
							tokParam = c.Info.Defs[nm]
						}
						n++
					}
				}
				if c.Obj(id) == tokParam && rows[key] != nil {
					return rows[key].Lbp, "own", true
				}
			}
		}
	}
	return 0, "", false
}

func ruleTabAssoc(c *Ctx, r *R) {
	rows, err := c.symbolTable()
	if err != nil {
		r.undecided("symbols", "-", err.Error())
		return
	}
	ops, err := c.binaryOps()
	if err != nil {
		r.undecided("infixMap", "-", err.Error())
		return
	}
	// all powers that matter for partitioning: binary and postfix operators
	var powers []int64
	for _, row := range rows {
		if row.HasLbp && row.Lbp > 0 {
			powers = append(powers, row.Lbp)
		}
	}
	for _, op := range ops {
		row := rows[op]
		if row == nil {
			continue
		}
		key := "led " + op
		fn, _ := row.Led.(*types.Func)
		if fn == nil {
			r.fail(key, c.Pos(row.Node), "binary operator "+op+" has no Led handler")
			continue
		}
		fd := c.DeclOf(fn)
		if fd == nil {
			r.undecided(key, c.Pos(row.Node), "Led handler is not a declared function")
			continue
		}
		parses := c.callsTo(fd.Body, "parser.doExpression", "parser.Expression")
		if len(parses) != 1 {
			r.undecided(key, c.Pos(fd), fmt.Sprintf("%s: expected exactly one operand parse, found %d", fd.Name.Name, len(parses)))
			continue
		}
		p, how, ok := c.powerOf(parses[0].Args[0], fd, rows, op)
		if !ok {
			r.undecided(key, c.Pos(parses[0]), "cannot evaluate the right operand's binding power "+c.Src(parses[0].Args[0]))
			continue
		}
		// same partition of all operator powers as the operator's own Lbp ⇒ left associative, same level grouping
		good := true
		for _, q := range powers {
			if (q > row.Lbp) != (q > p) {
				good = false
			}
		}
		if len(parses[0].Args) > 1 {
			good = false // a mask would stop the right operand early
		}
		if !r.check(good, key, c.Pos(parses[0]),
			fmt.Sprintf("%s parses the right operand at %d (%s), own Lbp %d", fd.Name.Name, p, how, row.Lbp),
			fmt.Sprintf("%s parses the right operand of %s at binding power %d, which is not equivalent to its own Lbp %d: associativity or level grouping differs from Go", fd.Name.Name, op, p, row.Lbp)) {
			continue
		}
		// operand order: left appended before the parsed right operand
		var leftParam types.Object
		n := 0
		for _, f := range fd.Type.Params.List {
			for _, nm := range f.Names {
				if n == 2 {
					leftParam = c.Info.Defs[nm]
				}
				n++
			}
		}
		appends := c.callsTo(fd.Body, "token.Append")
		orderOK := false
		if len(appends) == 2 && leftParam != nil {
			a0, _ := unparen(appends[0].Args[0]).(*ast.Ident)
			second := unparen(appends[1].Args[0])
			if a0 != nil && c.Obj(a0) == leftParam && appends[0].Pos() < appends[1].Pos() {
				if second == ast.Expr(parses[0]) {
					orderOK = true
				} else if id, ok := second.(*ast.Ident); ok {
					// right := p.doExpression(..); t.Append(right)
					orderOK = c.assignedFromCall(fd, c.Obj(id), parses[0])
				}
			}
		}
		r.check(orderOK, "order "+op, c.Pos(fd), "children are [left, right]",
			fd.Name.Name+": the operator node's children are not [left operand, right operand] in that order")
	}
	// the climbing loop
	fd := c.Func("parser.doExpression")
	if fd == nil {
		r.undecided("loop", "-", "parser.doExpression not found")
		return
	}
	var rbp types.Object
	if fd.Type.Params != nil && len(fd.Type.Params.List) > 0 && len(fd.Type.Params.List[0].Names) > 0 {
		rbp = c.Info.Defs[fd.Type.Params.List[0].Names[0]]
	}
	found := 0
	ast.Inspect(fd.Body, func(n ast.Node) bool {
		f, ok := n.(*ast.ForStmt)
		if !ok || f.Cond == nil {
			return true
		}
		ast.Inspect(f.Cond, func(m ast.Node) bool {
			be, ok := m.(*ast.BinaryExpr)
			if !ok {
				return true
			}
			isRbp := func(e ast.Expr) bool { id, ok := unparen(e).(*ast.Ident); return ok && c.Obj(id) == rbp }
			isLbp := func(e ast.Expr) bool {
				s, ok := unparen(e).(*ast.SelectorExpr)
				return ok && s.Sel.Name == "Lbp"
			}
			var strict, matched bool
			switch {
			case isRbp(be.X) && isLbp(be.Y):
				matched, strict = true, be.Op == token.LSS
			case isLbp(be.X) && isRbp(be.Y):
				matched, strict = true, be.Op == token.GTR
			}
			if matched {
				found++
				r.check(strict, "loop", c.Pos(be), "doExpression continues while rbp < Lbp (strict)",
					"the precedence-climbing loop does not use the strict comparison rbp < Lbp ("+c.Src(be)+"): operators of one level would associate to the right")
			}
			return true
		})
		// the loop is left through its condition only: binding powers (and the header mask) alone
		// decide where an operand ends.  An extra exit — on the position of a token, on its
		// spelling — makes the grouping depend on layout or on the particular operator
		if found > 0 {
			ast.Inspect(f.Body, func(k ast.Node) bool {
				switch x := k.(type) {
				case *ast.FuncLit:
					return false
				case *ast.BranchStmt:
					if x.Tok == token.BREAK && isLineBreakGuardBreak(f, x) {
						// `if p.lineEnded() { break }` ahead of the consumption: the same test as a
						// conjunct of the condition; PAR-LINEBREAK decides what the helper may answer
						return true
					}
					if x.Tok == token.BREAK || x.Tok == token.GOTO {
						r.fail("loop exit", c.Pos(x), "the precedence-climbing loop of doExpression has an additional exit ("+x.Tok.String()+"): an operand can end for a reason other than binding power, e.g. at a line break before `-`, `*`, `&`, `^` — `total := base +` newline `rate*n - discount` is cut into `base + rate*n` and a dead `-discount` statement, without any error")
					}
				case *ast.ReturnStmt:
					r.fail("loop exit", c.Pos(x), "the precedence-climbing loop of doExpression returns from inside the loop: an operand can end for a reason other than binding power")
				}
				return true
			})
		}
		return true
	})
	if found == 0 {
		r.undecided("loop", c.Pos(fd), "no comparison of rbp with a symbol's Lbp found in doExpression's loop")
	}
	// Led receives the accumulated left operand
	leds := 0
	ast.Inspect(fd.Body, func(n ast.Node) bool {
		as, ok := n.(*ast.AssignStmt)
		if !ok || len(as.Rhs) != 1 {
			return true
		}
		call, ok := unparen(as.Rhs[0]).(*ast.CallExpr)
		if !ok {
			return true
		}
		sel, ok := unparen(call.Fun).(*ast.SelectorExpr)
		if !ok || sel.Sel.Name != "Led" || len(call.Args) != 3 {
			return true
		}
		leds++
		l, _ := unparen(as.Lhs[0]).(*ast.Ident)
		a, _ := unparen(call.Args[2]).(*ast.Ident)
		r.check(l != nil && a != nil && c.Obj(l) == c.Obj(a), "loop-left", c.Pos(as), "left = Led(p, t, left)",
			"doExpression does not thread the accumulated left operand through Led")
		return true
	})
	if leds == 0 {
		r.undecided("loop-left", c.Pos(fd), "no `left = ….Led(p, t, left)` in doExpression")
	}
}

// assignedFromCall: obj is defined exactly once in fd, from the given call.
func (c *Ctx) assignedFromCall(fd *ast.FuncDecl, obj types.Object, call *ast.CallExpr) bool {
	n, ok := 0, false
	ast.Inspect(fd.Body, func(m ast.Node) bool {
		as, isAs := m.(*ast.AssignStmt)
		if !isAs {
			return true
		}
		for i, l := range as.Lhs {
			if id, isId := l.(*ast.Ident); isId && c.Obj(id) == obj {
				n++
				if i < len(as.Rhs) && unparen(as.Rhs[i]) == ast.Expr(call) {
					ok = true
				}
			}
		}
		return true
	})
	return n == 1 && ok
}

// signFoldRule (part of TAB-UNARY): a Nud that folds a unary minus into the operand by
// prefixing the literal's *text* may do so only for a spelling the literal decoders read
// back correctly — a plain unsigned decimal.  "-" + "0x10", "-" + "017" and "-" + "-5" are
// not such spellings (base prefixes are recognised at the start of the text only).
func signFoldRule(c *Ctx, r *R, rows map[string]*symRow) {
	n := 0
	seen := map[*ast.FuncDecl]bool{}
	for _, row := range rows {
		fn, _ := row.Nud.(*types.Func)
		if fn == nil {
			continue
		}
		fd := c.DeclOf(fn)
		if fd == nil || fd.Body == nil || seen[fd] {
			continue
		}
		seen[fd] = true
		ast.Inspect(fd.Body, func(nd ast.Node) bool {
			as, ok := nd.(*ast.AssignStmt)
			if !ok || len(as.Lhs) != 1 || len(as.Rhs) != 1 {
				return true
			}
			sel, ok := unparen(as.Lhs[0]).(*ast.SelectorExpr)
			if !ok || sel.Sel.Name != "Text" {
				return true
			}
			be, ok := unparen(as.Rhs[0]).(*ast.BinaryExpr)
			if !ok || be.Op != token.ADD {
				return true
			}
			if v, ok := c.ConstString(be.X); !ok || v != "-" {
				return true
			}
			n++
			// an enclosing condition that looks at the spelling being prefixed
			target := nosp(c.Src(sel))
			guarded := false
			looksAtText := func(cond ast.Expr) bool {
				if strings.Contains(nosp(c.Src(cond)), target) {
					return true
				}
				// ... or hands the token to a new predicate helper that reads its text
				found := false
				ast.Inspect(cond, func(k ast.Node) bool {
					call, ok := k.(*ast.CallExpr)
					if !ok {
						return true
					}
					o := c.Callee(call)
					if o == nil || !c.isNewHelper(o) {
						return true
					}
					h := c.DeclOf(o)
					if h == nil || h.Body == nil {
						return true
					}
					for _, a := range call.Args {
						if nosp(c.Src(a)) == nosp(c.Src(sel.X)) && strings.Contains(c.FullSrc(h.Body), ".Text") {
							found = true
						}
					}
					return true
				})
				return found
			}
			for p := c.Parent(as); p != nil && p != ast.Node(fd); p = c.Parent(p) {
				if ifs, ok := p.(*ast.IfStmt); ok && looksAtText(ifs.Cond) {
					guarded = true
				}
				if cc, ok := p.(*ast.CaseClause); ok {
					for _, e := range cc.List {
						if looksAtText(e) {
							guarded = true
						}
					}
				}
			}
			r.check(guarded, "sign fold "+fd.Name.Name, c.Pos(as), "the sign is folded into the text only after looking at the spelling", fd.Name.Name+" prefixes \"-\" to the literal's text whatever its spelling: `-0x10` and `- -5` become the unparsable \"-0x10\" / \"--5\" (valid programs are rejected) and `-017` is read as decimal -17 (Go: -15)")
			return true
		})
	}
	if n == 0 {
		r.ok("sign fold", "no Nud folds a sign into literal text")
	}
}

func ruleTabUnary(c *Ctx, r *R) {
	rows, err := c.symbolTable()
	if err != nil {
		r.undecided("symbols", "-", err.Error())
		return
	}
	signFoldRule(c, r, rows)
	ops, err := c.binaryOps()
	if err != nil {
		r.undecided("infixMap", "-", err.Error())
		return
	}
	var maxBin int64
	for _, op := range ops {
		if rows[op] != nil && rows[op].Lbp > maxBin {
			maxBin = rows[op].Lbp
		}
	}
	minPost := int64(1 << 40)
	for _, k := range []string{".", "(", "[", "{"} {
		if rows[k] != nil && rows[k].HasLbp && rows[k].Lbp < minPost {
			minPost = rows[k].Lbp
		}
	}
	// the spread of a final argument, f(x...), applies to the whole argument expression: it
	// binds looser than every binary operator and tighter than the list comma
	if row := rows["..."]; row != nil && row.HasLbp {
		minBin := int64(1 << 40)
		for _, op := range ops {
			if rows[op] != nil && rows[op].HasLbp && rows[op].Lbp < minBin {
				minBin = rows[op].Lbp
			}
		}
		comma := int64(-1)
		if rows[","] != nil && rows[","].HasLbp {
			comma = rows[","].Lbp
		}
		r.check(row.Lbp < minBin && row.Lbp > comma, "spread", c.Pos(row.Node),
			fmt.Sprintf("`...` binds at %d: above the comma (%d), below every binary operator (min %d)", row.Lbp, comma, minBin),
			fmt.Sprintf("`...` binds at %d, not between the comma (%d) and the loosest binary operator (%d): append(b, s+t...) spreads only t and adds the spread to s instead of spreading s+t", row.Lbp, comma, minBin))
	}
	// Go's unary operators that have a prefix handler in the table
	for _, op := range []string{"-", "+", "!", "^", "*", "&", "<-"} {
		row := rows[op]
		if row == nil || row.Nud == nil {
			continue
		}
		fn, _ := row.Nud.(*types.Func)
		fd := c.DeclOf(fn)
		if fd == nil {
			r.undecided("nud "+op, c.Pos(row.Node), "prefix handler is not a declared function")
			continue
		}
		parses := c.callsTo(fd.Body, "parser.doExpression", "parser.Expression")
		pfd := map[*ast.CallExpr]*ast.FuncDecl{}
		for _, pc := range parses {
			pfd[pc] = fd
		}
		// the operand may be parsed by a helper that is handed the handler's own token
		ast.Inspect(fd.Body, func(n ast.Node) bool {
			call, ok := n.(*ast.CallExpr)
			if !ok {
				return true
			}
			o := c.Callee(call)
			h := c.DeclOf(o)
			if o == nil || h == nil || h.Body == nil || !c.isNewHelper(o) || h == fd {
				return true
			}
			passesOwn := false
			if fd.Type.Params != nil && len(fd.Type.Params.List) >= 2 && len(fd.Type.Params.List[1].Names) == 1 {
				own := c.Info.Defs[fd.Type.Params.List[1].Names[0]]
				for _, a := range call.Args {
					if id, ok := unparen(a).(*ast.Ident); ok && c.Obj(id) == own {
						passesOwn = true
					}
				}
			}
			for _, pc := range c.callsTo(h.Body, "parser.doExpression", "parser.Expression") {
				if passesOwn {
					parses = append(parses, pc)
					pfd[pc] = h
				} else {
					r.undecided("nud "+op, c.Pos(call), "the operand is parsed by helper "+h.Name.Name+", which does not receive the handler's own token")
				}
			}
			return true
		})
		if len(parses) == 0 {
			// a handler that parses nothing (skipNud: & and * are identities here) groups nothing
			r.note("unary %s: %s parses no operand (identity prefix)", op, fd.Name.Name)
			continue
		}
		for i, pc := range parses {
			key := fmt.Sprintf("nud %s#%d", op, i)
			p, how, ok := c.powerOf(pc.Args[0], pfd[pc], rows, op)
			if !ok {
				r.undecided(key, c.Pos(pc), "cannot evaluate the operand binding power "+c.Src(pc.Args[0]))
				continue
			}
			r.check(p > maxBin && p < minPost, key, c.Pos(pc),
				fmt.Sprintf("%s parses its operand at %d (%s): %d < p < %d", fd.Name.Name, p, how, maxBin, minPost),
				fmt.Sprintf("unary %s (%s) parses its operand at binding power %d; Go needs it above every binary operator (max Lbp %d) and below the postfix operators (min Lbp %d), otherwise `%sa OP b` groups as `%s(a OP b)`", op, fd.Name.Name, p, maxBin, minPost, op, op))
		}
	}
}

func ruleTabMunch(c *Ctx, r *R) {
	rows, err := c.symbolTable()
	if err != nil {
		r.undecided("symbols", "-", err.Error())
		return
	}
	fd := c.Func("tokenize")
	if fd == nil {
		r.undecided("tokenize", "-", "tokenize not found")
		return
	}
	// symChars constant
	var symChars string
	for _, f := range c.Pkg.Syntax {
		ast.Inspect(f, func(n ast.Node) bool {
			if vs, ok := n.(*ast.ValueSpec); ok {
				for i, id := range vs.Names {
					if id.Name == "symChars" && i < len(vs.Values) {
						symChars, _ = c.ConstString(vs.Values[i])
					}
				}
			}
			return true
		})
	}
	ast.Inspect(fd.Body, func(n ast.Node) bool {
		if vs, ok := n.(*ast.ValueSpec); ok {
			for i, id := range vs.Names {
				if id.Name == "symChars" && i < len(vs.Values) {
					symChars, _ = c.ConstString(vs.Values[i])
				}
			}
		}
		return true
	})
	if symChars == "" {
		r.undecided("symChars", c.Pos(fd), "the symChars constant was not found in tokenize")
		return
	}
	isOpKey := func(k string) bool {
		if k == "" || strings.HasPrefix(k, "(") && len(k) > 1 {
			return false
		}
		for _, ch := range k {
			if ch >= 'a' && ch <= 'z' || ch >= 'A' && ch <= 'Z' || ch >= '0' && ch <= '9' || ch == '_' {
				return false
			}
		}
		return true
	}
	for _, k := range sortedKeys(rows) {
		if !isOpKey(k) {
			continue
		}
		key := fmt.Sprintf("key %q", k)
		all := true
		for _, ch := range k {
			if !strings.ContainsRune(symChars, ch) {
				all = false
			}
		}
		if !all {
			r.fail(key, c.Pos(rows[k].Node), "operator key "+k+" contains a character the tokenizer does not treat as a symbol character")
			continue
		}
		switch len(k) {
		case 1, 2:
			r.ok(key, "reachable")
		case 3:
			_, pre := rows[k[:2]]
			r.check(pre || k[:2] == "..", key, c.Pos(rows[k].Node), "2-char prefix is a key",
				"3-character operator "+k+" is unreachable: its prefix "+k[:2]+" is not an operator key, so maximal munch stops before it")
		default:
			r.fail(key, c.Pos(rows[k].Node), "operator key longer than the tokenizer's 3-character munch")
		}
	}
	ops, _ := c.binaryOps()
	for _, op := range ops {
		r.check(rows[op] != nil, "binary "+op, c.Pos(fd), "has a row", "binary operator "+op+" of infixMap has no row in symbols")
	}
	// the tokenizer consults `symbols` for the 2- and the 3-character candidate (or loops)
	lookups := 0
	for _, hfd := range c.withHelpers(fd) {
		concat := map[types.Object]bool{} // string variables defined as a concatenation
		ast.Inspect(hfd.Body, func(n ast.Node) bool {
			if as, ok := n.(*ast.AssignStmt); ok && len(as.Lhs) == len(as.Rhs) {
				for i, l := range as.Lhs {
					if id, ok := l.(*ast.Ident); ok {
						if be, ok := unparen(as.Rhs[i]).(*ast.BinaryExpr); ok && be.Op == token.ADD {
							concat[c.Obj(id)] = true
						}
					}
				}
			}
			return true
		})
		ast.Inspect(hfd.Body, func(n ast.Node) bool {
			if ix, ok := n.(*ast.IndexExpr); ok {
				if id, ok := unparen(ix.X).(*ast.Ident); ok && id.Name == "symbols" {
					if id2, ok := unparen(ix.Index).(*ast.Ident); ok && concat[c.Obj(id2)] {
						lookups++
					} else if be, ok := unparen(ix.Index).(*ast.BinaryExpr); ok && be.Op == token.ADD {
						lookups++
					}
				}
			}
			return true
		})
	}
	r.check(lookups >= 2, "munch-lookups", c.Pos(fd), fmt.Sprintf("%d multi-character lookups into symbols", lookups),
		"tokenize consults `symbols` for fewer than two multi-character candidates: 2- or 3-character operators are no longer recognised")
}

// TAB-MASK: inside the header of if/for/switch the parser masks "{" so that the brace
// opens the block instead of continuing the expression as a composite literal.  A Led
// handler that goes on parsing at the same bracket level (assignment, comma list, ...)
// must keep that mask: it either uses doExpression (which leaves the mask alone) or hands
// p.mask on to Expression.  Only handlers whose own operator opens a bracket — "(", "[",
// "{" — may start a fresh, unmasked expression.
func ruleTabMask(c *Ctx, r *R) {
	rows, err := c.symbolTable()
	if err != nil {
		r.undecided("symbols", "-", err.Error())
		return
	}
	var keys []string
	for k := range rows {
		keys = append(keys, k)
	}
	sort.Strings(keys)
	n := 0
	judged := map[*ast.FuncDecl]map[string]bool{}
	for _, k := range keys {
		row := rows[k]
		fn, _ := row.Led.(*types.Func)
		if fn == nil {
			continue
		}
		fd := c.DeclOf(fn)
		if fd == nil || fd.Body == nil {
			continue
		}
		opens := k == "(" || k == "[" || k == "{"
		for _, h := range c.withHelpers(fd) {
			ast.Inspect(h.Body, func(nd ast.Node) bool {
				call, ok := nd.(*ast.CallExpr)
				if !ok || c.CalleeName(call) != "parser.Expression" {
					return true
				}
				n++
				keeps := false
				if call.Ellipsis.IsValid() && len(call.Args) >= 2 && strings.HasSuffix(nosp(c.Src(call.Args[len(call.Args)-1])), ".mask") {
					keeps = true
				}
				// after an explicit opening bracket consumed by the handler itself the mask may be reset
				bracketed := false
				for _, s := range h.Body.List {
					if s.Pos() >= call.Pos() {
						break
					}
					ast.Inspect(s, func(q ast.Node) bool {
						if adv, ok := q.(*ast.CallExpr); ok && c.CalleeName(adv) == "parser.Advance" && len(adv.Args) == 1 {
							if v, ok := c.ConstString(adv.Args[0]); ok && (v == "(" || v == "[" || v == "{") {
								bracketed = true
							}
						}
						return true
					})
				}
				if judged[h] == nil {
					judged[h] = map[string]bool{}
				}
				key := "mask " + k + " " + h.Name.Name + "@" + fmt.Sprint(c.Fset.Position(call.Pos()).Line-c.Fset.Position(h.Pos()).Line)
				if judged[h][key] {
					return true
				}
				judged[h][key] = true
				r.check(keeps || opens || bracketed, key, c.Pos(call), "the header mask is kept (or the operator opens a bracket)",
					"the Led handler of \""+k+"\" ("+h.Name.Name+") parses its operand with Expression(...) without handing on p.mask: inside an if/for/switch header the \"{\" that opens the block is taken for a composite literal, so `for ...; i = i + 1 {` (or `p = p.next {`, `i, j = i+1, j-1 {`) is grouped as i + (1{...}) and the valid program is rejected")
				return true
			})
		}
	}
	if n < 3 {
		r.undecided("mask", "-", fmt.Sprintf("only %d Expression calls found in Led handlers", n))
	}
}

// TAB-SYMBOLS: a comparison of a node's Symbol with a string that no node can carry is dead
// code, and the branch it guards never runs. The vocabulary is what the tokenizer and the
// parser can put into a Symbol: the keys of the `symbols` table, every constant handed to
// symAtPos / rename / Replace, every constant stored into a Symbol field. (This is how
// `expr.Symbol == "(float64)"` in negateNud — float literals are "(float)" — left -0.0 to be
// negated at run time.)
func ruleTabSymbols(c *Ctx, r *R) {
	rows, err := c.symbolTable()
	if err != nil {
		r.undecided("symbols", "-", err.Error())
		return
	}
	vocab := map[string]bool{}
	for k := range rows {
		vocab[k] = true
	}
	add := func(e ast.Expr) {
		if v, ok := c.ConstString(e); ok {
			vocab[v] = true
		}
	}
	for _, f := range c.Pkg.Syntax {
		ast.Inspect(f, func(n ast.Node) bool {
			switch x := n.(type) {
			case *ast.CallExpr:
				switch c.CalleeName(x) {
				case "symAtPos":
					if len(x.Args) == 2 {
						add(x.Args[1])
					}
				case "token.rename":
					if len(x.Args) == 1 {
						add(x.Args[0])
					}
				case "token.Replace":
					if len(x.Args) == 3 {
						add(x.Args[1])
					}
				case "parser.Block":
					if len(x.Args) >= 1 {
						add(x.Args[0])
					}
				}
			case *ast.KeyValueExpr:
				if id, ok := x.Key.(*ast.Ident); ok && id.Name == "Symbol" {
					add(x.Value)
				}
			case *ast.AssignStmt:
				for i, l := range x.Lhs {
					if sel, ok := unparen(l).(*ast.SelectorExpr); ok && sel.Sel.Name == "Symbol" && i < len(x.Rhs) {
						add(x.Rhs[i])
						// t.Symbol, t.Text = v, v
						if len(x.Lhs) == len(x.Rhs) {
							add(x.Rhs[i])
						}
					}
				}
			}
			return true
		})
	}
	// the tokenizer's literal classes
	if tk := c.Func("tokenize"); tk != nil {
		ast.Inspect(tk.Body, func(n ast.Node) bool {
			if bl, ok := n.(*ast.BasicLit); ok && bl.Kind == token.STRING {
				if v, ok := c.ConstString(bl); ok && strings.HasPrefix(v, "(") && strings.HasSuffix(v, ")") {
					vocab[v] = true
				}
			}
			return true
		})
	}
	n := 0
	isSym := func(e ast.Expr) bool {
		sel, ok := unparen(e).(*ast.SelectorExpr)
		return ok && sel.Sel.Name == "Symbol" && c.isTokenPtr(c.TypeOf(sel.X))
	}
	for _, name := range c.FuncNames() {
		fd := c.Func(name)
		if fd.Body == nil {
			continue
		}
		check := func(lit ast.Expr, at ast.Node) {
			v, ok := c.ConstString(lit)
			if !ok {
				return
			}
			n++
			if !vocab[v] {
				r.fail("dead comparison "+name+" "+strconv.Quote(v), c.Pos(at), name+" compares a node's Symbol with "+strconv.Quote(v)+", which no node carries (it is neither a key of the symbol table nor produced by the tokenizer or a rename): the branch never runs — e.g. negateNud's test for \"(float64)\" (float literals are \"(float)\") left `-0.0` to be negated at run time, so the constant printed -0")
			}
		}
		ast.Inspect(fd.Body, func(m ast.Node) bool {
			switch x := m.(type) {
			case *ast.BinaryExpr:
				if x.Op == token.EQL || x.Op == token.NEQ {
					if isSym(x.X) {
						check(x.Y, x)
					} else if isSym(x.Y) {
						check(x.X, x)
					}
				}
			case *ast.SwitchStmt:
				if x.Tag != nil && isSym(x.Tag) {
					for _, cc := range x.Body.List {
						for _, e := range cc.(*ast.CaseClause).List {
							check(e, cc)
						}
					}
				}
			}
			return true
		})
	}
	if n == 0 {
		r.undecided("symbols", "-", "no comparison of a Symbol with a constant found")
	} else {
		r.ok("symbol comparisons", fmt.Sprintf("%d comparisons, every constant is in the vocabulary of %d symbols", n, len(vocab)))
	}
}
