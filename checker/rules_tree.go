package main

// TREE-NONNIL: no nil node is ever linked into a parse tree.
//
// The loader, treeDump and the tree sorter walk parse trees outside any recover guard and
// dereference every child they meet; a nil child (the empty statement parses to nil) is a
// host crash. The invariant is inductive over the stores into a `Tokens` field of a *token:
// each stored element is an element of another tree (inherited), a fresh allocation, a value
// that was dereferenced or tested against nil on the way to the store, or goes through
// token.Append, which must reject nil before it appends.

import (
	"fmt"
	"go/ast"
	"go/token"
	"go/types"
	"sort"
	"strings"
)

func (c *Ctx) isTokenPtr(t types.Type) bool {
	p, ok := t.(*types.Pointer)
	if !ok {
		return false
	}
	n, ok := p.Elem().(*types.Named)
	return ok && n.Obj().Name() == "token" && n.Obj().Pkg() == c.Pkg.Types
}

func (c *Ctx) isTokensField(e ast.Expr) bool {
	sel, ok := unparen(e).(*ast.SelectorExpr)
	if !ok || sel.Sel.Name != "Tokens" {
		return false
	}
	s := c.Info.Selections[sel]
	if s == nil || s.Kind() != types.FieldVal {
		return false
	}
	return c.isTokenPtr(s.Recv()) || c.isTokenPtr(types.NewPointer(s.Recv()))
}

// inheritedSlice: X.Tokens, X.Tokens[a:b], f(..).Tokens — a slice of nodes already in a tree.
func (c *Ctx) inheritedSlice(e ast.Expr) bool {
	e = unparen(e)
	if se, ok := e.(*ast.SliceExpr); ok {
		return c.inheritedSlice(se.X)
	}
	return c.isTokensField(e)
}

type nnCtx struct {
	c     *Ctx
	depth int
	// params known non-nil in the function being evaluated
	known map[types.Object]bool
}

// nonNilExpr: the *token expression is never nil at node `at` of function fd.
func (k *nnCtx) nonNilExpr(e ast.Expr, fd *ast.FuncDecl, at ast.Node) bool {
	c := k.c
	if k.depth > 5 {
		return false
	}
	e = unparen(e)
	switch x := e.(type) {
	case *ast.UnaryExpr:
		if x.Op == token.AND {
			_, ok := unparen(x.X).(*ast.CompositeLit)
			return ok
		}
	case *ast.IndexExpr:
		return c.inheritedSlice(x.X) // an element of a tree
	case *ast.CallExpr:
		o := c.Callee(x)
		gd := c.DeclOf(o)
		if gd == nil || gd.Body == nil {
			return false
		}
		// every return of the callee is non-nil, with the parameters bound to what is passed
		sub := &nnCtx{c: c, depth: k.depth + 1, known: map[types.Object]bool{}}
		var params []types.Object
		if gd.Recv != nil {
			for _, f := range gd.Recv.List {
				for _, n := range f.Names {
					sub.known[c.Info.Defs[n]] = true // a method was called on it
				}
			}
		}
		for _, f := range gd.Type.Params.List {
			for _, n := range f.Names {
				params = append(params, c.Info.Defs[n])
			}
		}
		if len(params) == len(x.Args) {
			for i, a := range x.Args {
				if c.isTokenPtr(c.TypeOf(a)) && k.nonNilExpr(a, fd, at) {
					sub.known[params[i]] = true
				}
			}
		}
		if gd.Type.Results == nil || gd.Type.Results.NumFields() != 1 {
			return false
		}
		ok, n := true, 0
		ast.Inspect(gd.Body, func(m ast.Node) bool {
			if _, isLit := m.(*ast.FuncLit); isLit {
				return false
			}
			if rs, isRet := m.(*ast.ReturnStmt); isRet {
				n++
				if len(rs.Results) != 1 || !sub.nonNilExpr(rs.Results[0], gd, rs) {
					ok = false
				}
			}
			return true
		})
		return ok && n > 0
	case *ast.Ident:
		o := c.Obj(x)
		if o == nil {
			return false
		}
		if k.known[o] {
			// a parameter passed non-nil, as long as the function does not assign it nil-able values
			return k.assignsNonNil(o, fd, at)
		}
		// tested or dereferenced on the way
		if c.testedNonNil(x, o, fd, at) {
			return true
		}
		// a local all of whose assignments are non-nil
		if v, ok := o.(*types.Var); ok && !v.IsField() && fd != nil && v.Pos() >= fd.Body.Pos() && v.Pos() <= fd.Body.End() {
			return k.assignsNonNil(o, fd, at)
		}
	}
	return false
}

// assignsNonNil: every assignment to o in fd stores a non-nil value (range variables over a
// tree's children count as inherited).
func (k *nnCtx) assignsNonNil(o types.Object, fd *ast.FuncDecl, at ast.Node) bool {
	c := k.c
	ok := true
	n := 0
	sub := &nnCtx{c: c, depth: k.depth + 1, known: k.known}
	ast.Inspect(fd.Body, func(m ast.Node) bool {
		switch s := m.(type) {
		case *ast.AssignStmt:
			for i, l := range s.Lhs {
				id, isId := unparen(l).(*ast.Ident)
				if !isId || c.Obj(id) != o {
					continue
				}
				n++
				if len(s.Lhs) != len(s.Rhs) {
					ok = false
					continue
				}
				// `tmp := t` with t the checked value: evaluate the right side without o itself
				if rid, isR := unparen(s.Rhs[i]).(*ast.Ident); isR && c.Obj(rid) == o {
					continue
				}
				if !sub.nonNilExpr(s.Rhs[i], fd, s) {
					ok = false
				}
			}
		case *ast.RangeStmt:
			if id, isId := s.Value.(*ast.Ident); isId && c.Obj(id) == o {
				n++
				if !c.inheritedSlice(s.X) {
					ok = false
				}
			}
			if id, isId := s.Key.(*ast.Ident); isId && c.Obj(id) == o {
				ok = false
			}
		case *ast.ValueSpec:
			for i, nm := range s.Names {
				if c.Info.Defs[nm] == o {
					n++
					if i >= len(s.Values) || !sub.nonNilExpr(s.Values[i], fd, s) {
						ok = false
					}
				}
			}
		case *ast.UnaryExpr:
			if id, isId := unparen(s.X).(*ast.Ident); isId && s.Op == token.AND && c.Obj(id) == o {
				ok = false
			}
		}
		return true
	})
	return ok && (n > 0 || k.known[o])
}

// testedNonNil: on the way from the function entry to `at`, id was dereferenced (id.f in an
// enclosing if condition or in an earlier statement of an enclosing block) or `at` sits under
// `if id != nil`, and id is not assigned in between.
func (c *Ctx) testedNonNil(id *ast.Ident, o types.Object, fd *ast.FuncDecl, at ast.Node) bool {
	derefs := func(n ast.Node) bool {
		found := false
		ast.Inspect(n, func(m ast.Node) bool {
			switch x := m.(type) {
			case *ast.FuncLit:
				return false
			case *ast.BinaryExpr:
				if x.Op == token.LOR || x.Op == token.LAND {
					// only the first operand is evaluated for sure
					ast.Inspect(x.X, func(q ast.Node) bool {
						if sel, ok := q.(*ast.SelectorExpr); ok {
							if i2, ok := unparen(sel.X).(*ast.Ident); ok && c.Obj(i2) == o && c.Info.Selections[sel] != nil && c.Info.Selections[sel].Kind() == types.FieldVal {
								found = true
							}
						}
						return true
					})
					return false
				}
			case *ast.SelectorExpr:
				if i2, ok := unparen(x.X).(*ast.Ident); ok && c.Obj(i2) == o && c.Info.Selections[x] != nil && c.Info.Selections[x].Kind() == types.FieldVal {
					found = true
				}
			}
			return true
		})
		return found
	}
	// not assigned between the test/dereference at position `from` and `at`
	between := func(from token.Pos) bool {
		found := false
		ast.Inspect(fd.Body, func(m ast.Node) bool {
			if as, ok := m.(*ast.AssignStmt); ok && as.Pos() >= from && as.End() <= at.Pos() {
				for _, l := range as.Lhs {
					if i2, ok := unparen(l).(*ast.Ident); ok && c.Obj(i2) == o {
						found = true
					}
				}
			}
			return true
		})
		return found
	}
	child := at
	for p := c.Parent(at); p != nil; child, p = p, c.Parent(p) {
		switch x := p.(type) {
		case *ast.IfStmt:
			if x.Body == child {
				for _, cj := range conjuncts(x.Cond) {
					if be, ok := unparen(cj).(*ast.BinaryExpr); ok && be.Op == token.NEQ && isIdent(be.Y, "nil") {
						if i2, ok := unparen(be.X).(*ast.Ident); ok && c.Obj(i2) == o && !between(x.Body.Pos()) {
							return true
						}
					}
				}
			}
			if (x.Body == child || x.Else == child) && derefs(x.Cond) && !between(x.Cond.End()) {
				return true
			}
		case *ast.BlockStmt:
			for _, s := range x.List {
				if s == child || s.Pos() >= child.Pos() {
					break
				}
				switch s.(type) {
				case *ast.AssignStmt, *ast.ExprStmt, *ast.DeclStmt:
					if derefs(s) && !between(s.End()) {
						return true
					}
				case *ast.IfStmt:
					if derefs(s.(*ast.IfStmt).Cond) && !between(s.(*ast.IfStmt).Cond.End()) {
						return true
					}
				}
			}
		case *ast.FuncLit:
			return false
		}
		if p == ast.Node(fd.Body) {
			break
		}
	}
	return false
}

func ruleTreeNonNil(c *Ctx, r *R) {
	// (1) token.Append rejects nil before it appends
	ap := c.Func("token.Append")
	if ap == nil || len(ap.Type.Params.List) != 1 || len(ap.Type.Params.List[0].Names) != 1 {
		r.undecided("token.Append", "-", "not found")
		return
	}
	pobj := c.Info.Defs[ap.Type.Params.List[0].Names[0]]
	rejects := false
	var store ast.Node
	ast.Inspect(ap.Body, func(n ast.Node) bool {
		if as, ok := n.(*ast.AssignStmt); ok {
			for _, l := range as.Lhs {
				if c.isTokensField(l) && store == nil {
					store = as
				}
			}
		}
		return true
	})
	for _, s := range ap.Body.List {
		if store != nil && s.Pos() >= store.Pos() {
			break
		}
		if ifs, ok := s.(*ast.IfStmt); ok && ifs.Else == nil && ifs.Init == nil && terminating(ifs.Body) {
			for _, dj := range disjuncts(ifs.Cond) {
				if be, ok := unparen(dj).(*ast.BinaryExpr); ok && be.Op == token.EQL && isIdent(be.Y, "nil") {
					if id, ok := unparen(be.X).(*ast.Ident); ok && c.Obj(id) == pobj {
						rejects = true
					}
				}
			}
		}
	}
	r.check(rejects, "Append rejects nil", c.Pos(ap), "token.Append panics (a parse error) on a nil child before linking it",
		"token.Append links whatever it is given: the empty statement parses to nil, so `f(;)`, `x := 1 + ;` or `[]int{;}` put a nil node into the tree, and treeDump / the loader, which run outside any recover guard, dereference it — a host crash")
	// (2) every other store into a Tokens field
	type site struct {
		pos  string
		src  string
		why  string
		fd   *ast.FuncDecl
		good bool
	}
	var sites []site
	for _, name := range c.FuncNames() {
		fd := c.Func(name)
		if fd.Body == nil {
			continue
		}
		k := &nnCtx{c: c, known: map[types.Object]bool{}}
		if fd.Recv != nil {
			for _, f := range fd.Recv.List {
				for _, n := range f.Names {
					k.known[c.Info.Defs[n]] = true
				}
			}
		}
		judgeElems := func(at ast.Node, elems []ast.Expr) (bool, string) {
			for _, e := range elems {
				if isIdent(e, "nil") {
					return false, "stores a nil element"
				}
				if fd == ap {
					if id, ok := unparen(e).(*ast.Ident); ok && c.Obj(id) == pobj && rejects {
						continue
					}
				}
				if !k.nonNilExpr(e, fd, at) {
					return false, "element `" + c.Src(e) + "` is not known to be non-nil"
				}
			}
			return true, ""
		}
		// slice value stored into .Tokens
		var judgeSlice func(at ast.Node, e ast.Expr) (bool, string)
		judgeSlice = func(at ast.Node, e ast.Expr) (bool, string) {
			e = unparen(e)
			if isIdent(e, "nil") || c.inheritedSlice(e) {
				return true, ""
			}
			switch x := e.(type) {
			case *ast.CompositeLit:
				return judgeElems(at, x.Elts)
			case *ast.CallExpr:
				if c.CalleeName(x) == "builtin.append" && len(x.Args) >= 1 {
					if ok, why := judgeSlice(at, x.Args[0]); !ok {
						return false, why
					}
					if x.Ellipsis.IsValid() {
						return judgeSlice(at, x.Args[len(x.Args)-1])
					}
					return judgeElems(at, x.Args[1:])
				}
			case *ast.Ident:
				// a local slice that only ever grows by appending nodes of trees (elements or whole
				// child lists)
				if k.appendsInherited(x, fd, judgeElems) {
					return true, ""
				}
				// a local slice made with the length of a tree's children and filled slot by slot
				// in a range loop over those children with non-nil values
				if why := k.mappedCopy(x, fd); why == "" {
					return true, ""
				} else {
					return false, why
				}
			}
			return false, "slice `" + c.Src(e) + "` is not of a recognised origin"
		}
		ast.Inspect(fd.Body, func(n ast.Node) bool {
			switch x := n.(type) {
			case *ast.AssignStmt:
				for i, l := range x.Lhs {
					if c.isTokensField(l) && len(x.Lhs) == len(x.Rhs) {
						ok, why := judgeSlice(x, x.Rhs[i])
						sites = append(sites, site{c.Pos(x), name + ": " + nosp(c.Src(l)), why, fd, ok})
					} else if ix, isIx := unparen(l).(*ast.IndexExpr); isIx && c.isTokensField(ix.X) && len(x.Lhs) == len(x.Rhs) {
						ok, why := judgeElems(x, []ast.Expr{x.Rhs[i]})
						sites = append(sites, site{c.Pos(x), name + ": " + nosp(c.Src(l)), why, fd, ok})
					}
				}
			case *ast.KeyValueExpr:
				if id, ok := x.Key.(*ast.Ident); ok && id.Name == "Tokens" {
					if cl, ok := c.Parent(x).(*ast.CompositeLit); ok {
						if n, ok := c.TypeOf(cl).(*types.Named); ok && n.Obj().Name() == "token" {
							ok, why := judgeSlice(x, x.Value)
							sites = append(sites, site{c.Pos(x), name + ": Tokens:" + nosp(c.Src(x.Value)), why, fd, ok})
						}
					}
				}
			}
			return true
		})
	}
	sort.Slice(sites, func(i, j int) bool { return sites[i].src < sites[j].src })
	for _, s := range sites {
		r.check(s.good, "store "+s.src, s.pos, "stores only nodes known to be non-nil", "a store into a parse tree's children may link a nil node ("+s.why+"): treeDump and the loader dereference every child outside any recover guard")
	}
	r.check(len(sites) >= 6, "store-sites", "-", fmt.Sprintf("%d stores into token.Tokens examined", len(sites)), "fewer stores into token.Tokens than confirmed by hand: the rule lost its anchors")
}

// mappedCopy: `s := make([]*token, len(X.Tokens)); for i, v := range X.Tokens { s[i] = nonNil }`.
func (k *nnCtx) mappedCopy(id *ast.Ident, fd *ast.FuncDecl) string {
	c := k.c
	o := c.Obj(id)
	var base string
	nDef, nFill := 0, 0
	bad := ""
	ast.Inspect(fd.Body, func(n ast.Node) bool {
		switch x := n.(type) {
		case *ast.AssignStmt:
			for i, l := range x.Lhs {
				if li, ok := unparen(l).(*ast.Ident); ok && c.Obj(li) == o {
					nDef++
					if len(x.Lhs) != len(x.Rhs) {
						bad = "multi-value definition"
						continue
					}
					call, ok := unparen(x.Rhs[i]).(*ast.CallExpr)
					if !ok || c.CalleeName(call) != "builtin.make" || len(call.Args) != 2 {
						bad = "not made with make(.., len(children))"
						continue
					}
					lc, ok := unparen(call.Args[1]).(*ast.CallExpr)
					if !ok || c.CalleeName(lc) != "builtin.len" || !c.isTokensField(lc.Args[0]) {
						bad = "not made with the length of a tree's children"
						continue
					}
					base = nosp(c.Src(lc.Args[0]))
				}
			}
		}
		return true
	})
	if bad != "" || nDef != 1 {
		if bad == "" {
			bad = "slice `" + id.Name + "` is not defined exactly once by make"
		}
		return bad
	}
	ast.Inspect(fd.Body, func(n ast.Node) bool {
		rs, ok := n.(*ast.RangeStmt)
		if !ok || nosp(c.Src(rs.X)) != base {
			return true
		}
		ki, ok := rs.Key.(*ast.Ident)
		if !ok || len(rs.Body.List) == 0 {
			return true
		}
		// the first statement of the body fills slot i unconditionally
		as, ok := rs.Body.List[0].(*ast.AssignStmt)
		if !ok || len(as.Lhs) != 1 || len(as.Rhs) != 1 {
			return true
		}
		ix, ok := unparen(as.Lhs[0]).(*ast.IndexExpr)
		if !ok {
			return true
		}
		si, ok1 := unparen(ix.X).(*ast.Ident)
		ii, ok2 := unparen(ix.Index).(*ast.Ident)
		if ok1 && ok2 && c.Obj(si) == o && c.Obj(ii) == c.Obj(ki) && k.nonNilExpr(as.Rhs[0], fd, as) {
			nFill++
		}
		return true
	})
	if nFill == 0 {
		return "slice `" + id.Name + "` has slots that are not filled with non-nil nodes"
	}
	return ""
}

// appendsInherited: every assignment to the local slice is `s = append(s, ..)` whose added
// values are spreads of a tree's children or elements judged non-nil; it starts nil/empty.
func (k *nnCtx) appendsInherited(id *ast.Ident, fd *ast.FuncDecl, judgeElems func(ast.Node, []ast.Expr) (bool, string)) bool {
	c := k.c
	o := c.Obj(id)
	if o == nil {
		return false
	}
	ok, n := true, 0
	ast.Inspect(fd.Body, func(m ast.Node) bool {
		switch x := m.(type) {
		case *ast.AssignStmt:
			for i, l := range x.Lhs {
				li, isId := unparen(l).(*ast.Ident)
				if !isId || c.Obj(li) != o {
					continue
				}
				n++
				if len(x.Lhs) != len(x.Rhs) {
					ok = false
					continue
				}
				rhs := unparen(x.Rhs[i])
				if isIdent(rhs, "nil") {
					continue
				}
				call, isCall := rhs.(*ast.CallExpr)
				if !isCall || c.CalleeName(call) != "builtin.append" || len(call.Args) < 1 {
					ok = false
					continue
				}
				if first, isF := unparen(call.Args[0]).(*ast.Ident); !isF || c.Obj(first) != o {
					ok = false
					continue
				}
				if call.Ellipsis.IsValid() {
					if !c.inheritedSlice(call.Args[len(call.Args)-1]) {
						ok = false
					}
					continue
				}
				if good, _ := judgeElems(x, call.Args[1:]); !good {
					ok = false
				}
			}
		case *ast.UnaryExpr:
			if ui, isId := unparen(x.X).(*ast.Ident); isId && c.Obj(ui) == o && x.Op == token.AND {
				ok = false
			}
		}
		return true
	})
	return ok && n > 0
}

// GLOBAL-STATE: the interpreter keeps no mutable state in package-level variables — every
// VM, every value and every iterator owns what it works on, which is what makes two loops
// over strings, two VMs in one host, or a native calling back into a script independent of
// each other.  Every package-level variable of the library is written only where it is
// initialised: at its declaration or in an init function.  A write is an assignment to the
// variable, to an element, field or slice of it, an inc/dec, or a delete on it; handing out
// its address is a write too.  Exempt by name: osReadFile / osWriteFile (test seams for the
// os functions, never assigned by the library itself — the rule still checks that).
func ruleGlobalState(c *Ctx, r *R) {
	scope := c.Pkg.Types.Scope()
	vars := map[types.Object]bool{}
	for _, nm := range scope.Names() {
		if v, ok := scope.Lookup(nm).(*types.Var); ok {
			vars[v] = true
		}
	}
	written := map[types.Object][]string{}
	rootVar := func(e ast.Expr) types.Object {
		for {
			switch x := unparen(e).(type) {
			case *ast.Ident:
				if o := c.Obj(x); o != nil && vars[o] {
					return o
				}
				return nil
			case *ast.IndexExpr:
				e = x.X
			case *ast.SliceExpr:
				e = x.X
			case *ast.SelectorExpr:
				// pkgvar.field — but not otherpkg.Name
				if id, ok := unparen(x.X).(*ast.Ident); ok {
					if _, isPkg := c.Obj(id).(*types.PkgName); isPkg {
						return nil
					}
				}
				e = x.X
			case *ast.StarExpr:
				e = x.X
			default:
				return nil
			}
		}
	}
	for _, f := range c.Pkg.Syntax {
		if strings.HasSuffix(c.Fset.Position(f.Pos()).Filename, "_test.go") {
			continue
		}
		ast.Inspect(f, func(n ast.Node) bool {
			note := func(o types.Object, at ast.Node, how string) {
				if o == nil {
					return
				}
				if fd := c.EnclosingFunc(at); fd != nil && fd.Recv == nil && fd.Name.Name == "init" {
					return
				}
				written[o] = append(written[o], how+" at "+c.Pos(at))
			}
			switch x := n.(type) {
			case *ast.AssignStmt:
				if x.Tok == token.DEFINE {
					// a := ... declares locals; a package-level name on the left would be shadowed, not written
					for _, l := range x.Lhs {
						if id, ok := l.(*ast.Ident); ok && c.Info.Defs[id] != nil {
							continue
						}
						note(rootVar(l), x, "assigned")
					}
					return true
				}
				for _, l := range x.Lhs {
					note(rootVar(l), x, "assigned")
				}
			case *ast.IncDecStmt:
				note(rootVar(x.X), x, "stepped")
			case *ast.CallExpr:
				if c.CalleeName(x) == "builtin.delete" && len(x.Args) > 0 {
					note(rootVar(x.Args[0]), x, "entry deleted")
				}
				if (c.CalleeName(x) == "builtin.copy" || c.CalleeName(x) == "builtin.clear") && len(x.Args) > 0 {
					note(rootVar(x.Args[0]), x, "overwritten")
				}
			case *ast.UnaryExpr:
				if x.Op == token.AND {
					note(rootVar(x.X), x, "address taken")
				}
			case *ast.RangeStmt:
				if x.Tok == token.ASSIGN {
					if x.Key != nil {
						note(rootVar(x.Key), x, "assigned by range")
					}
					if x.Value != nil {
						note(rootVar(x.Value), x, "assigned by range")
					}
				}
			}
			return true
		})
	}
	for _, nm := range scope.Names() {
		o := scope.Lookup(nm)
		if !vars[o] {
			continue
		}
		ws := written[o]
		r.check(len(ws) == 0, "package variable "+nm, c.PosP(o.Pos()), "written only where it is initialised",
			"the package-level variable "+nm+" is "+strings.Join(ws, "; ")+" outside initialisation: state shared by every VM, value and iterator of the process — e.g. decode buffers shared by all `for range` loops over strings make a nested (or called) loop refill the buffer the outer loop is still walking (`for _, x := range \"héy\" { for _, y := range \"01\" {..} }` visits h, '1', y), and two VMs of one host interfere")
	}
}

// ALIAS-EXPAND: filtering a slice in place (`out := xs[:0]` and at most one append per element
// read) is sound: the write position never passes the read position.  The same idiom with an
// iteration that can append MORE than it reads — a spread `append(out, t.Tokens...)`, or two
// appends on one path — overwrites elements the loop has not read yet.  In treeSort that
// loses the declarations that follow a `var ( ... )` group (the next file's import among
// them: its package is never loaded or initialised) and repeats the group's last member.
// Decided package-wide: for every `y := x[:0]` (or `x[:k]`) followed by a range over x that
// appends to y, no path through one iteration appends more than one element.
func ruleAliasExpand(c *Ctx, r *R) {
	n := 0
	for _, name := range c.FuncNames() {
		fd := c.funcs[name]
		if fd.Body == nil || strings.HasSuffix(c.Fset.Position(fd.Pos()).Filename, "_test.go") {
			continue
		}
		ast.Inspect(fd.Body, func(m ast.Node) bool {
			as, ok := m.(*ast.AssignStmt)
			if !ok || len(as.Lhs) != 1 || len(as.Rhs) != 1 {
				return true
			}
			se, ok := unparen(as.Rhs[0]).(*ast.SliceExpr)
			if !ok || se.Low != nil && func() bool { v, ok := c.ConstInt(se.Low); return !ok || v != 0 }() {
				return true
			}
			yid, ok := as.Lhs[0].(*ast.Ident)
			if !ok {
				return true
			}
			y := c.Obj(yid)
			xsrc := nosp(c.Src(se.X))
			// the following range over x in the same function
			ast.Inspect(fd.Body, func(k ast.Node) bool {
				rs, ok := k.(*ast.RangeStmt)
				if !ok || rs.Pos() < as.Pos() || nosp(c.Src(rs.X)) != xsrc {
					return true
				}
				// the most elements one pass through the body can append to y
				var most func(list []ast.Stmt) (int, bool)
				most = func(list []ast.Stmt) (int, bool) {
					total, spread := 0, false
					for _, st := range list {
						switch x := st.(type) {
						case *ast.AssignStmt:
							for i, l := range x.Lhs {
								if lid, ok := l.(*ast.Ident); ok && c.Obj(lid) == y && i < len(x.Rhs) {
									if call, ok := unparen(x.Rhs[i]).(*ast.CallExpr); ok && c.CalleeName(call) == "builtin.append" {
										if call.Ellipsis.IsValid() {
											spread = true
										}
										total += len(call.Args) - 1
									}
								}
							}
						case *ast.IfStmt:
							a, sa := most(x.Body.List)
							b, sb := 0, false
							switch e := x.Else.(type) {
							case *ast.BlockStmt:
								b, sb = most(e.List)
							case *ast.IfStmt:
								b, sb = most([]ast.Stmt{e})
							}
							// a branch that ends the iteration (continue) does not add to what follows,
							// but the maximum over paths is what matters: take the larger branch
							if b > a {
								a = b
							}
							total += a
							spread = spread || sa || sb
						case *ast.BlockStmt:
							a, sa := most(x.List)
							total += a
							spread = spread || sa
						case *ast.SwitchStmt:
							best := 0
							for _, cc := range x.Body.List {
								a, sa := most(cc.(*ast.CaseClause).Body)
								if a > best {
									best = a
								}
								spread = spread || sa
							}
							total += best
						case *ast.ForStmt, *ast.RangeStmt:
							// an inner loop that appends to y can append any number
							inner := false
							ast.Inspect(x, func(q ast.Node) bool {
								if ia, ok := q.(*ast.AssignStmt); ok {
									for _, l := range ia.Lhs {
										if lid, ok := l.(*ast.Ident); ok && c.Obj(lid) == y {
											inner = true
										}
									}
								}
								return true
							})
							spread = spread || inner
						}
					}
					return total, spread
				}
				// `if cond { y = append(y, a); continue }; y = append(y, b)` is one element per
				// path: subtract branches that end the iteration
				total, spread := most(rs.Body.List)
				if total > 1 && !spread {
					// recount path-wise for the common guard-and-continue shape
					perPath := 0
					for _, st := range rs.Body.List {
						if ifs, ok := st.(*ast.IfStmt); ok && ifs.Else == nil && terminating(ifs.Body) {
							continue
						}
						a, _ := most([]ast.Stmt{st})
						perPath += a
					}
					worstBranch := 0
					for _, st := range rs.Body.List {
						if ifs, ok := st.(*ast.IfStmt); ok && ifs.Else == nil && terminating(ifs.Body) {
							if a, _ := most(ifs.Body.List); a > worstBranch {
								worstBranch = a
							}
						}
					}
					total = perPath
					if worstBranch > total {
						total = worstBranch
					}
				}
				if total == 0 && !spread {
					return true
				}
				n++
				r.check(total <= 1 && !spread, name+" in-place "+yid.Name, c.Pos(as), "at most one element is written per element read",
					name+" builds "+yid.Name+" in the array of "+c.Src(se.X)+" (`"+yid.Name+" := "+c.Src(as.Rhs[0])+"`) while ranging over it, and one iteration can append more than one element: the write position overtakes the read position and elements that have not been read yet are overwritten — in treeSort the declarations after a `var ( ... )` group are lost (a later file's import with them: its package is never loaded) and the group's last member is repeated")
				return true
			})
			return true
		})
	}
	if n == 0 {
		r.ok("in-place builds", "no slice is rebuilt in its own array while it is ranged over")
	}
}
