package main

// C04 — fixed-width numeric semantics equal Go's for every operand value.
// Decided as shape facts: every typed case converts both payloads to the Go
// type of the tag, applies the Go operator and converts back.

import (
	"regexp"
	"fmt"
	"go/ast"
	"go/constant"
	"go/token"
	"go/types"
	"sort"
	"strconv"
	"strings"
)

func init() {
	register(&propDef{
		ID: "C04",
		Explanation: "Bit-exact results for every operand value cannot be enumerated, but the implementation's strategy makes them a shape fact: each typed case of each op method converts both float64 payloads to the Go type of the tag, applies the Go operator, converts back, and keeps the tag; float64 represents every int32/uint32 exactly, so the result is Go's by construction. TAB-TAGS evaluates the tag constants (T|untyped==T, T|T==T, distinct, numeric mask, nillable split). TAB-OPCHAIN composes infixMap -> opcode -> exec handler (operand order from the symbolic summary) -> op method -> the Go operator inside it, for all 16 arithmetic/comparison operators, with go/token as oracle. OPS-ARITH checks the 50 sibling cases (10 methods x 5 tags). OPS-SHIFT: a shift's result tag depends on the left operand only. OPS-IMM: every immediate the VM feeds to an op method is an untyped constant. OPS-COMPOUND: op= / ++ / -- compile to load-target, right operand, the operator of infixMap[op without '='], store. OPS-ASSIGN / OPS-CONVERT: a case per typed tag converting through the matching Go type. TAB-CAST: the declared types for which `var x T = e` emits CAST include all five numeric tags. REP-TYPEDSTORE: every store into typed storage (locals, globals, slice/map elements, struct fields, parameters, results) goes through assign with the storage's type. Not decided: values (overflow of untyped x untyped in float64, float operands of % and shifts, shift counts >= width, platform-defined float->unsigned of negatives).",
		Assumptions: []string{"float64 represents every int8/uint8/int32/uint32 value exactly", "Go's own operators on the converted operands are the oracle"},
		Quick: []ruleDef{
			{"TAB-TAGS", 24, ruleTabTags},
			{"TAB-OPCHAIN", 16, ruleTabOpchain},
			{"OPS-ARITH", 50, ruleOpsArith},
			{"OPS-SHIFT", 2, ruleOpsShift},
			{"OPS-IMM", 2, ruleOpsImm},
			{"OPS-COMPOUND", 12, ruleOpsCompound},
			{"OPS-ASSIGN", 6, ruleOpsAssign},
			{"OPS-CONVERT", 5, ruleOpsConvert},
			{"OPS-CONST", 6, ruleOpsConst},
			{"OPS-UNARY", 1, ruleOpsUnary},
			{"REP-ANYSTORE", 1, ruleRepAnyStore},
			{"TAB-CAST", 7, ruleTabCast},
			{"REP-TYPEDSTORE", 9, ruleRepTypedStore},
		},
	})
}

func ruleTabTags(c *Ctx, r *R) {
	tags := c.typeTags()
	need := []string{"untypedInt", "isNumericMask", "nillableMin", "TypeNil", "TypeBool", "TypeString", "TypeSlice", "TypeMap", "TypeFunc", "TypeStruct", "TypeObject", "typeType", "typeNext"}
	for _, n := range append(append([]string{}, numericTags...), need...) {
		if _, ok := tags[n]; !ok {
			r.undecided("tag "+n, "-", "type-tag constant "+n+" not found")
			return
		}
	}
	u := tags["untypedInt"]
	for i, a := range numericTags {
		ta := tags[a]
		r.check(ta|u == ta, a+"|untyped", "value.go", fmt.Sprintf("%#b|%#b == %#b", ta, u, ta),
			fmt.Sprintf("%s|untypedInt = %#b != %s (%#b): an untyped constant operand does not adopt the typed operand's type", a, ta|u, a, ta))
		r.check(ta&tags["isNumericMask"] != 0, a+"&numeric", "value.go", "numeric mask set", a+" is not recognised by isNumericMask")
		r.check(ta&tags["TypeFloat64"] != 0, a+"&Float64", "value.go", "compared by value in Equals", a+"&TypeFloat64 == 0: Equals would not compare values of this type numerically")
		r.check(ta < tags["nillableMin"], a+"<nillable", "value.go", "not nillable", a+" >= nillableMin: nil would be assignable to a number")
		for _, b := range numericTags[i+1:] {
			r.check(ta != tags[b], a+"!="+b, "value.go", "distinct", a+" and "+b+" share a tag")
		}
	}
	r.check(u&tags["TypeFloat64"] != 0 && u&tags["isNumericMask"] != 0, "untyped numeric", "value.go", "untyped constants are numeric", "untypedInt is not numeric under the masks")
	for _, n := range []string{"TypeSlice", "TypeMap", "TypeFunc", "TypeStruct"} {
		r.check(tags[n] >= tags["nillableMin"], n+">=nillable", "value.go", "nillable", n+" < nillableMin: assigning nil to a "+n+" variable loses its type")
	}
	for _, n := range []string{"TypeBool", "TypeString", "TypeObject", "typeType", "typeNext", "TypeNil"} {
		r.check(tags[n] < tags["nillableMin"], n+"<nillable", "value.go", "not nillable", n+" >= nillableMin")
	}
	for _, n := range []string{"TypeBool", "TypeString", "TypeSlice", "TypeMap", "TypeFunc", "TypeStruct", "TypeObject"} {
		r.check(tags[n]&tags["isNumericMask"] == 0 && tags[n]&tags["TypeFloat64"] == 0, n+" non-numeric", "value.go", "no numeric bits", n+" overlaps the numeric bits: mixing it with a number yields a different tag")
	}
}

// ---- operator chain ----

type opChain struct {
	Op      string
	Opcode  string
	Method  string // e.g. Value.opAdd
	Swapped bool   // handler calls b.op(a)
	Pos     string
}

// opChains: infixMap -> opcode -> handler summary -> method and operand order.
func (c *Ctx) opChains(r *R) []*opChain {
	m, err := newHndMachine(c)
	if err != nil {
		r.undecided("exec", "-", err.Error())
		return nil
	}
	vals, order := c.stringKeyed(c.mapLit("infixMap"))
	sort.Strings(order)
	var out []*opChain
	for _, op := range order {
		if op == "&&" || op == "||" {
			continue
		}
		opc := c.codeConstName(vals[op])
		key := "chain " + op
		if opc == "" {
			r.undecided(key, c.Pos(vals[op]), "infixMap value is not an opcode constant")
			continue
		}
		sc := m.sw.ByLabel[opc]
		if sc == nil {
			r.fail(key, c.Pos(vals[op]), "no exec handler for "+opc)
			continue
		}
		ps, err := m.single(opc)
		if err != nil || len(ps) != 1 {
			r.undecided(key, c.Pos(sc.Clause), fmt.Sprintf("handler of %s is not a single straight-line path (%v)", opc, err))
			continue
		}
		p := ps[0]
		ch := &opChain{Op: op, Opcode: opc, Pos: c.Pos(sc.Clause)}
		okShape := p.Pop == 2 && len(p.Push) == 1 && p.Push[0].Op == "call" && len(p.Push[0].Args) == 2 && len(p.Stores) == 0 && p.Jump == nil
		if okShape {
			a, b := p.Push[0].Args[0].String(), p.Push[0].Args[1].String()
			switch {
			case a == "Top2" && b == "Top1":
			case a == "Top1" && b == "Top2":
				ch.Swapped = true
			default:
				okShape = false
			}
			ch.Method = p.Push[0].Name
		}
		if !okShape {
			r.fail(key, ch.Pos, fmt.Sprintf("the handler of %s does not pop two operands and push one op-method result on them: %s", opc, p))
			continue
		}
		out = append(out, ch)
	}
	return out
}

var flipOp = map[string]string{"<": ">", ">": "<", "<=": ">=", ">=": "<=", "==": "==", "!=": "!=", "+": "+", "*": "*", "&": "&", "|": "|", "^": "^"}

// methodOperator: the Go operator an op method applies to (receiver, argument).
func (c *Ctx) methodOperator(method string) (string, error) {
	fd := c.Func(method)
	if fd == nil {
		return "", fmt.Errorf("method %s not found", method)
	}
	in := newInterp(c)
	in.NoLin = true
	in.Inline = func(o types.Object) bool { return o.Name() == "mixType" || c.isNewHelper(o) }
	recv := fd.Recv.List[0].Names[0].Name
	arg := fd.Type.Params.List[0].Names[0].Name
	paths := in.ExecFunc(fd, map[string]*T{recv: tVar(nil, "v"), arg: tVar(nil, "b")})
	ops := map[string]bool{}
	for _, p := range paths {
		if len(p.Ret) != 1 {
			continue
		}
		collectOps(p.Ret[0], ops)
	}
	if len(ops) != 1 {
		return "", fmt.Errorf("method %s applies %v", method, sortedKeys(ops))
	}
	for k := range ops {
		return k, nil
	}
	return "", nil
}

// collectOps finds binary operators applied to (something of v, something of b).
var operandRe = regexp.MustCompile(`[(, ]b[),]`)

func collectOps(t *T, ops map[string]bool) {
	walkT(t, func(x *T) {
		if x.Op == "bin" && len(x.Args) == 2 {
			l, rr := x.Args[0].String(), x.Args[1].String()
			// the count of a shift may be wrapped in a helper: shiftCount(b)
			if strings.Contains(l, "v.") && (strings.Contains(rr, "b.") || operandRe.MatchString(rr)) && x.Name != "||" && x.Name != "&&" {
				if strings.Contains(l, "v.t") || strings.Contains(l, ".t ") {
					return
				}
				ops[x.Name] = true
			} else if strings.Contains(l, "b.") && strings.Contains(rr, "v.") {
				if strings.Contains(l, ".t") {
					return
				}
				ops["flipped:"+x.Name] = true
			}
		}
		if x.Op == "call" && x.Name == "Value.Equals" && len(x.Args) == 2 {
			ops["=="] = true
		}
	})
	// !Equals
	if t.Op == "call" && len(t.Args) == 1 && t.Args[0].Op == "un" && t.Args[0].Name == "!" {
		if ops["=="] {
			delete(ops, "==")
			ops["!="] = true
		}
	}
}

func ruleTabOpchain(c *Ctx, r *R) {
	chains := c.opChains(r)
	gotok := goOperatorTokens()
	for _, ch := range chains {
		key := "chain " + ch.Op
		mop, err := c.methodOperator(ch.Method)
		if err != nil {
			r.undecided(key, ch.Pos, err.Error())
			continue
		}
		eff := mop
		if ch.Swapped {
			f, ok := flipOp[mop]
			if !ok {
				r.fail(key, ch.Pos, fmt.Sprintf("%s: the handler of %s calls b.%s(a) but %s is not commutative/flippable: operands are swapped", ch.Op, ch.Opcode, ch.Method, mop))
				continue
			}
			eff = f
		}
		_, isGo := gotok[ch.Op]
		r.check(isGo && eff == ch.Op, key, ch.Pos,
			fmt.Sprintf("%s -> %s -> %s(swapped=%v) applies %s", ch.Op, ch.Opcode, ch.Method, ch.Swapped, eff),
			fmt.Sprintf("script operator %s compiles to %s whose handler computes `a %s b` (method %s applies %s, operands swapped=%v): not Go's %s", ch.Op, ch.Opcode, eff, ch.Method, mop, ch.Swapped, ch.Op))
	}
}

// tagPaths runs a method and indexes its paths by the tag constant the path tests equal.
type tagPath struct {
	Tag  string // tag constant name tested with ==, or "default"
	Subj string // the term compared with the tag
	Ret  *T
	St   *State
}

func (c *Ctx) tagPaths(fd *ast.FuncDecl, inline ...string) ([]*tagPath, error) {
	in := newInterp(c)
	in.NoLin = true
	in.Inline = func(o types.Object) bool {
		for _, n := range inline {
			if o.Name() == n {
				return true
			}
		}
		return c.isNewHelper(o)
	}
	bind := map[string]*T{}
	if fd.Recv != nil && len(fd.Recv.List[0].Names) == 1 {
		bind[fd.Recv.List[0].Names[0].Name] = tVar(nil, "v")
	}
	n := 0
	for _, f := range fd.Type.Params.List {
		for _, nm := range f.Names {
			if n == 0 {
				bind[nm.Name] = tVar(nil, "b")
			}
			n++
		}
	}
	paths := in.ExecFunc(fd, bind)
	if in.Overflow {
		return nil, fmt.Errorf("path overflow in %s", fd.Name.Name)
	}
	var out []*tagPath
	for _, p := range paths {
		tp := &tagPath{Tag: "default", St: p}
		if len(p.Ret) == 1 {
			tp.Ret = p.Ret[0]
		}
		for _, cd := range p.Conds {
			if cd.Op == "bin" && cd.Name == "==" && cd.Args[1].Op == "const" && strings.HasPrefix(cd.Args[1].Name, "Type") || cd.Op == "bin" && cd.Name == "==" && cd.Args[1].Op == "const" && cd.Args[1].Name == "untypedInt" {
				tp.Tag = cd.Args[1].Name
				tp.Subj = cd.Args[0].String()
			}
		}
		out = append(out, tp)
	}
	return out, nil
}

func convTo(t *T) (string, *T, bool) {
	if t != nil && t.Op == "conv" {
		return normGoType(t.Name), t.Args[0], true
	}
	return "", nil, false
}

var arithOps = map[string]bool{"+": true, "-": true, "*": true, "/": true, "%": true, "<<": true, ">>": true, "&": true, "|": true, "^": true}

func ruleOpsArith(c *Ctx, r *R) {
	negZeroRule(c, r)
	chains := c.opChains(newR("tmp", 0))
	for _, ch := range chains {
		if !arithOps[ch.Op] {
			continue
		}
		fd := c.Func(ch.Method)
		if fd == nil {
			r.undecided(ch.Method, ch.Pos, "method not found")
			continue
		}
		tps, err := c.tagPaths(fd, "mixType")
		if err != nil {
			r.undecided(ch.Method, c.Pos(fd), err.Error())
			continue
		}
		mop := ch.Op // the operator the chain needs this method to apply (arithmetic operators are never flipped)
		isShift := ch.Op == "<<" || ch.Op == ">>"
		for _, tag := range numericTags {
			key := fmt.Sprintf("%s case %s", ch.Method, tag)
			var tp *tagPath
			for _, p := range tps {
				if p.Tag == tag {
					tp = p
				}
			}
			if tp == nil {
				r.fail(key, c.Pos(fd), fmt.Sprintf("%s has no case for %s: operands of that type fall to the untyped default and lose their type", ch.Method, tag))
				continue
			}
			if tag == "TypeFloat64" && (ch.Op == "%" || isShift || ch.Op == "&" || ch.Op == "|" || ch.Op == "^") {
				r.ok(key, "float operands are ill-typed for this operator in Go; not judged")
				continue
			}
			ret := tp.Ret
			good, why := false, ""
			if ret != nil && ret.Op == "lit" && ret.Name == "Value" {
				tf, nf := litField(ret, "t"), litField(ret, "num")
				tagOK := tf != nil && (tf.String() == tp.Subj || tf.String() == tag)
				g := goTypeOfTag[tag]
				if tag == "TypeFloat64" {
					if nf != nil && nf.Op == "bin" && nf.Name == mop && nf.Args[0].String() == "v.num" && nf.Args[1].String() == "b.num" {
						good = tagOK
					} else {
						why = "float64 case must apply the operator to v.num and b.num directly"
					}
				} else if ty, inner, ok := convTo(nf); ok && ty == "float64" && inner.Op == "bin" && inner.Name == mop {
					lt, lx, lok := convTo(inner.Args[0])
					rt, rx, rok := convTo(inner.Args[1])
					countOK, countWhy := false, ""
					if isShift {
						countOK, countWhy = c.shiftCountOK(inner.Args[1])
					}
					switch {
					case isShift && lok && lx.String() == "v.num" && lt == g:
						// a shift: the left operand has the tag's Go type; the count is judged on its own
						if countOK {
							good = tagOK
						} else {
							why = countWhy
						}
					case !lok || !rok:
						why = "operands are not converted to a Go integer type"
					case lx.String() != "v.num" || rx.String() != "b.num":
						why = "operands are not (v.num, b.num) in that order"
					case lt != g:
						why = fmt.Sprintf("left operand converted to %s, the tag stands for %s", lt, g)
					case !isShift && rt != g:
						why = fmt.Sprintf("right operand converted to %s, the tag stands for %s", rt, g)
					case isShift && !strings.Contains(rt, "int"):
						why = "shift count is not converted to an integer type"
					default:
						good = tagOK
					}
				} else {
					why = "result is not float64(G(v.num) " + mop + " G(b.num))"
				}
				if !tagOK && why == "" {
					why = "result tag is " + fmt.Sprint(tf) + ", not the switched tag"
				}
			} else {
				why = "case does not return a Value literal"
			}
			r.check(good, key, c.Pos(fd), "float64("+goTypeOfTag[tag]+"(v.num) "+mop+" "+goTypeOfTag[tag]+"(b.num)), tag kept",
				fmt.Sprintf("%s, case %s: %s (returns %v): results differ from Go's %s on %s for some operands", ch.Method, tag, why, ret, ch.Op, goTypeOfTag[tag]))
		}
	}
}

func ruleOpsShift(c *Ctx, r *R) {
	chains := c.opChains(newR("tmp", 0))
	for _, ch := range chains {
		if ch.Op != "<<" && ch.Op != ">>" {
			continue
		}
		fd := c.Func(ch.Method)
		if fd == nil {
			continue
		}
		tps, err := c.tagPaths(fd, "mixType")
		if err != nil {
			r.undecided(ch.Method, c.Pos(fd), err.Error())
			continue
		}
		subj := ""
		for _, p := range tps {
			if p.Subj != "" {
				subj = p.Subj
			}
		}
		good := subj != "" && !strings.Contains(subj, "b.") && !ch.Swapped
		r.check(good, ch.Method, c.Pos(fd), "result tag from "+subj,
			fmt.Sprintf("%s selects its case and result tag from `%s`, which depends on the shift count's type; in Go the result of a shift has the left operand's type (byte(200) << n with an int n is a byte)", ch.Method, subj))
	}
}

func ruleOpsImm(c *Ctx, r *R) {
	m, err := newHndMachine(c)
	if err != nil {
		r.undecided("exec", "-", err.Error())
		return
	}
	for _, sc := range m.sw.Cases {
		for _, op := range sc.Labels {
			ps, err := m.single(op)
			if err != nil {
				continue
			}
			for _, p := range ps {
				var terms []*T
				terms = append(terms, p.Push...)
				for _, e := range p.St.Eff {
					if e.Value != nil {
						terms = append(terms, e.Value)
					}
				}
				for _, t := range terms {
					walkT(t, func(x *T) {
						if x.Op != "call" || !strings.HasPrefix(x.Name, "Value.op") {
							return
						}
						for _, a := range x.Args {
							if fn, isFn := a.Obj.(*types.Func); a.Op == "call" && isFn && fn.Type().(*types.Signature).Recv() == nil && len(a.Args) == 1 && strings.Contains(a.Args[0].String(), "I.") {
								key := fmt.Sprintf("%s %s(%s)", op, x.Name, a.Name)
								r.check(a.Name == "newUntypedInt", key, c.Pos(sc.Clause), "immediate is an untyped constant",
									fmt.Sprintf("the handler of %s passes the instruction immediate to %s as %s(...): a typed immediate ORs its tag into the result, so `var b byte = 255; b++` becomes 256:int32; Go constants adopt the operand's type (newUntypedInt)", op, x.Name, a.Name))
							}
						}
					})
				}
			}
		}
	}
	// NEGATE multiplies by an untyped -1
	if ps, err := m.single("codeNegate"); err == nil && len(ps) == 1 && len(ps[0].Push) == 1 {
		s := ps[0].Push[0].String()
		r.check(strings.Contains(s, "newUntypedInt(-1)") && strings.Contains(s, "opMul"), "codeNegate", c.Pos(m.sw.ByLabel["codeNegate"].Clause), s,
			"NEGATE is not `x * untyped(-1)`: "+s)
	}
}

func ruleOpsCompound(c *Ctx, r *R) {
	cs, err := c.compileSwitch()
	if err != nil {
		r.undecided("compile", "-", err.Error())
		return
	}
	vals, _ := c.stringKeyed(c.mapLit("infixMap"))
	labels := []string{"|=", "^=", "&=", "<<=", ">>=", "+=", "-=", "*=", "/=", "%=", "++", "--"}
	for _, lb := range labels {
		sc := cs.ByLabel[lb]
		if sc == nil {
			r.fail(lb, "-", "no compile-case for "+lb)
			continue
		}
		m := newLayMachine(c)
		cl, err := m.runCase(cs, lb)
		if err != nil {
			r.undecided(lb, c.Pos(sc.Clause), err.Error())
			continue
		}
		wantOp := ""
		if lb != "++" && lb != "--" {
			wantOp = strings.TrimPrefix(c.codeConstName(vals[strings.TrimSuffix(lb, "=")]), "code")
		}
		if len(cl.Paths) == 0 {
			r.undecided(lb, c.Pos(sc.Clause), "no layout derived: "+strings.Join(cl.Flags, ","))
			continue
		}
		okAll, detail := true, ""
		for _, p := range cl.Paths {
			var sh []string
			for _, a := range m.live(p) {
				if a.Seg != nil {
					pth := childPath(a.Seg.Src)
					sh = append(sh, "seg"+strings.Join(pth, "/"))
				} else {
					s := opName(a.Ins)
					if s == "IncDec" {
						s += "(" + stripIntConv(litField(a.Ins, "A")).String() + ")"
					}
					sh = append(sh, s)
				}
			}
			shape := strings.Join(sh, " ")
			var mid string
			switch lb {
			case "++":
				mid = "IncDec(1)"
			case "--":
				mid = "IncDec(-1)"
			default:
				mid = "seg1 " + wantOp
			}
			allowed := []string{
				"GlobalGet " + mid + " GlobalSet", "LocalGet " + mid + " LocalSet",
				"seg0/0 seg0/1 Get " + mid + " seg0/0 seg0/1 Set",
				"seg0/0 GetAttr " + mid + " seg0/0 SetAttr",
			}
			found := false
			for _, a := range allowed {
				if a == shape {
					found = true
				}
			}
			if !found {
				okAll = false
				detail = shape
			}
		}
		r.check(okAll, lb, c.Pos(sc.Clause), "load target; right operand; "+wantOp+"; store target",
			fmt.Sprintf("`x %s y` compiles to `%s`; expected load-target, right operand, %s, store-target (the operator of infixMap[%q])", lb, detail, wantOp, strings.TrimSuffix(lb, "=")))
	}
}

func ruleOpsAssign(c *Ctx, r *R) {
	fd := c.Func("Value.assign")
	if fd == nil {
		r.undecided("assign", "-", "Value.assign not found")
		return
	}
	in := newInterp(c)
	paths := in.ExecFunc(fd, map[string]*T{fd.Recv.List[0].Names[0].Name: tVar(nil, "v"), fd.Type.Params.List[0].Names[0].Name: tVar(nil, "t")})
	find := func(conds ...string) *State {
		for _, p := range paths {
			have := map[string]bool{}
			for _, cd := range p.Conds {
				have[cd.String()] = true
			}
			ok := true
			for _, w := range conds {
				if !have[w] {
					ok = false
				}
			}
			if ok {
				return p
			}
		}
		return nil
	}
	for _, tag := range numericTags {
		key := "untyped->" + tag
		p := find("(v.t == untypedInt)", "(t == "+tag+")")
		if p == nil || len(p.Ret) != 1 {
			r.fail(key, c.Pos(fd), "assign has no case converting an untyped constant to "+tag+": `var x "+goTypeOfTag[tag]+" = 1` keeps the default int32")
			continue
		}
		ret := p.Ret[0]
		tf, nf := litField(ret, "t"), litField(ret, "num")
		good := ret.Op == "lit" && tf != nil && (tf.String() == "t" || tf.String() == tag)
		g := goTypeOfTag[tag]
		if tag == "TypeFloat64" {
			good = good && nf != nil && nf.String() == "v.num"
		} else {
			t1, in1, ok1 := convTo(nf)
			t2, in2, ok2 := convTo(in1)
			good = good && ok1 && ok2 && t1 == "float64" && t2 == g && in2.String() == "v.num"
		}
		r.check(good, key, c.Pos(fd), "Value{t: "+tag+", num: float64("+g+"(v.num))}",
			fmt.Sprintf("assign converts an untyped constant to %s as %v; expected float64(%s(v.num)) with tag %s (wrap-around as in Go)", tag, ret, g, tag))
	}
	// identity when the types agree; typed values are never re-tagged
	p := find("(v.t == t)")
	r.check(p != nil && len(p.Ret) == 1 && p.Ret[0].String() == "v", "same-type", c.Pos(fd), "returns v", "assign does not return the value unchanged when its type already matches")
	typed := false
	for _, q := range paths {
		cs := ""
		for _, cd := range q.Conds {
			cs += cd.String() + ";"
		}
		if strings.Contains(cs, "(v.t != untypedInt)") && strings.Contains(cs, "(v.t != TypeNil)") {
			typed = len(q.Ret) == 1 && q.Ret[0].String() == "v"
		}
	}
	r.check(typed, "typed-kept", c.Pos(fd), "typed non-nil values are stored unchanged", "assign re-tags or alters an already typed value")
}

// ctorTags: constructor function name -> the tag its result carries.
func (c *Ctx) ctorTags() map[string]string {
	out := map[string]string{}
	for _, name := range []string{"Float64", "Int", "Int32", "Uint", "Uint32", "Int8", "Byte", "Uint8"} {
		fd := c.Func(name)
		if fd == nil {
			continue
		}
		in := newInterp(c)
		ps := in.ExecFunc(fd, nil)
		if len(ps) == 1 && len(ps[0].Ret) == 1 {
			if tf := litField(ps[0].Ret[0], "t"); tf != nil && tf.Op == "const" {
				out[name] = tf.Name
			}
		}
	}
	return out
}

func ruleOpsConvert(c *Ctx, r *R) {
	fd := c.Func("Value.convert")
	if fd == nil {
		r.undecided("convert", "-", "Value.convert not found")
		return
	}
	tps, err := c.tagPaths(fd)
	if err != nil {
		r.undecided("convert", c.Pos(fd), err.Error())
		return
	}
	ctors := c.ctorTags()
	for _, tag := range numericTags {
		key := "convert " + tag
		n := 0
		good := true
		why := ""
		for _, p := range tps {
			if p.Tag != tag || p.Subj != "b" {
				continue
			}
			n++
			ret := p.Ret
			if ret == nil || ret.Op != "call" || ctors[ret.Name] != tag || len(ret.Args) != 1 {
				good, why = false, fmt.Sprintf("returns %v, not the constructor of %s", ret, tag)
				continue
			}
			arg := ret.Args[0]
			if tag == "TypeFloat64" {
				if arg.String() != "v.num" {
					good, why = false, "float64 conversion must pass v.num"
				}
				continue
			}
			ty, inner, ok := convTo(arg)
			for ok && inner.Op == "conv" {
				_, inner, _ = convTo(inner)
			}
			if !ok || ty != goTypeOfTag[tag] || inner.String() != "v.num" {
				good, why = false, fmt.Sprintf("argument %v is not %s(...v.num)", arg, goTypeOfTag[tag])
			}
		}
		if n == 0 {
			r.fail(key, c.Pos(fd), "convert has no case for "+tag+": "+goTypeOfTag[tag]+"(x) yields the zero Value")
			continue
		}
		r.check(good, key, c.Pos(fd), "constructor of "+tag+" on "+goTypeOfTag[tag]+"(v.num)", "convert to "+tag+": "+why)
	}
}

// evalWith folds a boolean/integer expression with one variable bound to a constant.
func (c *Ctx) evalWith(e ast.Expr, obj types.Object, val constant.Value) (constant.Value, bool) {
	e = unparen(e)
	if v, ok := c.ConstOf(e); ok {
		return v, true
	}
	switch x := e.(type) {
	case *ast.Ident:
		if c.Obj(x) == obj {
			return val, true
		}
		if v, ok := evalEnv[c.Obj(x)]; ok {
			return v, true
		}
	case *ast.SelectorExpr:
		// X.t with the type tag of the value under analysis bound by the caller
		if x.Sel.Name == "t" {
			if v, ok := evalEnv[tagOfOperand]; ok {
				return v, true
			}
		}
	case *ast.UnaryExpr:
		v, ok := c.evalWith(x.X, obj, val)
		if !ok {
			return nil, false
		}
		if x.Op == token.NOT && v.Kind() == constant.Bool {
			return constant.MakeBool(!constant.BoolVal(v)), true
		}
		return constant.UnaryOp(x.Op, v, 0), true
	case *ast.BinaryExpr:
		a, ok1 := c.evalWith(x.X, obj, val)
		b, ok2 := c.evalWith(x.Y, obj, val)
		switch x.Op {
		case token.LAND:
			if ok1 && a.Kind() == constant.Bool && !constant.BoolVal(a) {
				return a, true
			}
			if ok2 && b.Kind() == constant.Bool && !constant.BoolVal(b) {
				return b, true
			}
			if ok1 && ok2 {
				return constant.MakeBool(constant.BoolVal(a) && constant.BoolVal(b)), true
			}
			return nil, false
		case token.LOR:
			if ok1 && a.Kind() == constant.Bool && constant.BoolVal(a) {
				return a, true
			}
			if ok2 && b.Kind() == constant.Bool && constant.BoolVal(b) {
				return b, true
			}
			if ok1 && ok2 {
				return constant.MakeBool(false), true
			}
			return nil, false
		}
		if !ok1 || !ok2 {
			return nil, false
		}
		switch x.Op {
		case token.EQL, token.NEQ, token.LSS, token.LEQ, token.GTR, token.GEQ:
			return constant.MakeBool(constant.Compare(a, x.Op, b)), true
		case token.SHL, token.SHR:
			s, _ := constant.Uint64Val(b)
			return constant.Shift(a, x.Op, uint(s)), true
		}
		return constant.BinaryOp(a, x.Op, b), true
	case *ast.CallExpr:
		name := c.CalleeName(x)
		if strings.HasSuffix(name, "slices.Contains") && len(x.Args) == 2 {
			cl, ok := unparen(x.Args[0]).(*ast.CompositeLit)
			v, ok2 := c.evalWith(x.Args[1], obj, val)
			if !ok || !ok2 {
				return nil, false
			}
			for _, el := range cl.Elts {
				ev, ok := c.evalWith(el, obj, val)
				if !ok {
					return nil, false
				}
				if constant.Compare(ev, token.EQL, v) {
					return constant.MakeBool(true), true
				}
			}
			return constant.MakeBool(false), true
		}
		if _, isConv := c.IsConversion(x); isConv && len(x.Args) == 1 {
			return c.evalWith(x.Args[0], obj, val)
		}
		// a new predicate helper (func isNillable(t Type) bool { return t >= nillableMin }, a
		// switch over the numeric tags, or the method form): evaluate its body with the single
		// operand bound
		if o := c.Callee(x); o != nil && c.isNewHelper(o) {
			if h := c.DeclOf(o); h != nil && h.Body != nil {
				var params []types.Object
				var args []ast.Expr
				if h.Recv != nil && len(h.Recv.List) == 1 && len(h.Recv.List[0].Names) == 1 {
					if sel, ok := unparen(x.Fun).(*ast.SelectorExpr); ok {
						params = append(params, c.Info.Defs[h.Recv.List[0].Names[0]])
						args = append(args, sel.X)
					}
				}
				k := 0
				for _, f := range h.Type.Params.List {
					for _, nm := range f.Names {
						if k < len(x.Args) {
							params = append(params, c.Info.Defs[nm])
							args = append(args, x.Args[k])
						}
						k++
					}
				}
				if len(params) == 1 {
					if av, ok := c.evalWith(args[0], obj, val); ok {
						if v, returned, ok := c.evalBody(h.Body.List, params[0], av); ok && returned {
							return v, true
						}
					}
				} else if len(params) > 1 && len(params) == len(args) {
					// several parameters: all bound through the environment
					vals := make([]constant.Value, len(args))
					all := true
					for i, a := range args {
						av, ok := c.evalWith(a, obj, val)
						if !ok {
							all = false
							break
						}
						vals[i] = av
					}
					if all {
						old := evalEnv
						env := map[types.Object]constant.Value{}
						for k, v := range old {
							env[k] = v
						}
						for i, po := range params {
							env[po] = vals[i]
						}
						evalEnv = env
						v, returned, ok := c.evalBody(h.Body.List, nil, nil)
						evalEnv = old
						if ok && returned {
							return v, true
						}
					}
				}
			}
		}
		if name == "Type.base" {
			if sel, ok := unparen(x.Fun).(*ast.SelectorExpr); ok {
				v, ok := c.evalWith(sel.X, obj, val)
				if ok {
					return constant.BinaryOp(v, token.AND, constant.MakeInt64(0xff)), true
				}
			}
		}
	}
	return nil, false
}

func ruleTabCast(c *Ctx, r *R) {
	cs, err := c.compileSwitch()
	if err != nil {
		r.undecided("compile", "-", err.Error())
		return
	}
	castPerTarget(c, r, cs)
	for _, label := range []string{"var", "const"} {
		if sc := cs.ByLabel[label]; sc != nil {
			tabCastCase(c, r, sc, label)
		} else {
			r.undecided(label, "-", "no compile-case for "+label)
		}
	}
}

func tabCastCase(c *Ctx, r *R, sc *switchCase, label string) {
	// emission sites of codeCast in the declaration case (or in a new helper it calls)
	var sites []*ast.CompositeLit
	roots := []ast.Node{sc.Clause}
	ast.Inspect(sc.Clause, func(n ast.Node) bool {
		if call, ok := n.(*ast.CallExpr); ok {
			if o := c.Callee(call); o != nil && c.isNewHelper(o) {
				if h := c.DeclOf(o); h != nil && h.Body != nil {
					roots = append(roots, h.Body)
				}
			}
		}
		return true
	})
	for _, root := range roots {
	ast.Inspect(root, func(n ast.Node) bool {
		if cl, ok := n.(*ast.CompositeLit); ok && isNamed(c.TypeOf(cl), "instruction") {
			for _, el := range cl.Elts {
				if kv, ok := el.(*ast.KeyValueExpr); ok && types.ExprString(kv.Key) == "Code" && c.codeConstName(kv.Value) == "codeCast" {
					sites = append(sites, cl)
				}
			}
		}
		return true
	})
	}
	if len(sites) > 1 && castViaHelper(c, r, sc, label, sites) {
		return
	}
	if len(sites) != 1 {
		r.undecided("cast-site", c.Pos(sc.Clause), fmt.Sprintf("expected one CAST emission in the declaration case, found %d", len(sites)))
		return
	}
	site := sites[0]
	// the variable carried in A
	var typObj types.Object
	for _, el := range site.Elts {
		if kv, ok := el.(*ast.KeyValueExpr); ok && types.ExprString(kv.Key) == "A" {
			ast.Inspect(kv.Value, func(n ast.Node) bool {
				if id, ok := n.(*ast.Ident); ok {
					if v, ok := c.Obj(id).(*types.Var); ok && isNamed(v.Type(), "Type") {
						typObj = v
					}
				}
				return true
			})
		}
	}
	if typObj == nil {
		r.undecided("cast-site", c.Pos(site), "CAST's operand is not a Type variable")
		return
	}
	// conditions between the site and the case clause that mention the type variable
	var conds []ast.Expr
	var caseLists [][]ast.Expr // `switch typ { case A, B: ... }` around the site
	for p := c.Parent(site); p != nil && p != ast.Node(sc.Clause); p = c.Parent(p) {
		if _, isFn := p.(*ast.FuncDecl); isFn {
			break
		}
		if cc, ok := p.(*ast.CaseClause); ok && cc != sc.Clause {
			if sw, ok := c.Parent(c.Parent(cc)).(*ast.SwitchStmt); ok && sw.Tag != nil {
				if id, ok := unparen(sw.Tag).(*ast.Ident); ok && c.Obj(id) == typObj && len(cc.List) > 0 {
					caseLists = append(caseLists, cc.List)
				}
			}
		}
		if ifs, ok := p.(*ast.IfStmt); ok {
			uses := false
			ast.Inspect(ifs.Cond, func(n ast.Node) bool {
				if id, ok := n.(*ast.Ident); ok && c.Obj(id) == typObj {
					uses = true
				}
				return true
			})
			if uses {
				conds = append(conds, ifs.Cond)
			}
		}
	}
	tags := c.typeTags()
	for _, tag := range numericTags {
		key := "cast " + tag
		if label != "var" {
			key = "cast " + label + " " + tag
		}
		okAll, decided := true, true
		for _, cd := range conds {
			v, ok := c.evalWith(cd, typObj, constant.MakeInt64(tags[tag]))
			if !ok || v.Kind() != constant.Bool {
				decided = false
				break
			}
			if !constant.BoolVal(v) {
				okAll = false
			}
		}
		for _, list := range caseLists {
			member := false
			for _, e := range list {
				if v, ok := c.ConstInt(e); ok && v == tags[tag] {
					member = true
				}
			}
			if !member {
				okAll = false
			}
		}
		if !decided {
			r.undecided(key, c.Pos(site), "cannot fold the guard of the CAST emission for "+tag)
			continue
		}
		r.check(okAll, key, c.Pos(site), "CAST emitted for declared type "+goTypeOfTag[tag],
			fmt.Sprintf("`%s x %s = <untyped or other numeric>` emits no CAST: the guard of the CAST emission is false for %s, so the variable keeps the initialiser's type (int32)", label, goTypeOfTag[tag], tag))
	}
	if label == "var" {
		nillableCast(c, r, site, conds, caseLists, typObj)
	}
}

// nillableCast: `var s []T = nil` — the declared type of a slice / map / func / pointer
// variable is what types the initialiser nil; the guard of the CAST emission holds for the
// nillable type values too (a later append takes its element type from the slice value).
func nillableCast(c *Ctx, r *R, site *ast.CompositeLit, conds []ast.Expr, caseLists [][]ast.Expr, typObj types.Object) {
	o := c.Pkg.Types.Scope().Lookup("nillableMin")
	k, ok := o.(*types.Const)
	if !ok {
		r.undecided("cast nillable", c.Pos(site), "constant nillableMin not found")
		return
	}
	base, _ := constant.Int64Val(constant.ToInt(k.Val()))
	for _, delta := range []int64{0, 1, 1000} {
		okAll := len(caseLists) == 0
		for _, cd := range conds {
			v, ok := c.evalWith(cd, typObj, constant.MakeInt64(base+delta))
			if !ok || v.Kind() != constant.Bool {
				r.undecided("cast nillable", c.Pos(site), "cannot fold the guard of the CAST emission for a nillable type")
				return
			}
			if !constant.BoolVal(v) {
				okAll = false
			}
		}
		if !okAll {
			r.fail("cast nillable", c.Pos(site), "`var s []T = nil` emits no CAST: the guard of the CAST emission is false for slice / map / func types, so the initialiser nil stays untyped — `var s []float64 = nil; s = append(s, 1)` holds an int, `var b []byte = nil; b = append(b, 300)` holds 300")
			return
		}
	}
	r.ok("cast nillable", "CAST emitted for declared slice / map / func types")
}

// ---- typed stores ----

type typedStore struct {
	Fn    string // function holding the store
	Base  string // source of the indexed/selected base on the left
	TypeX string // source of the expected argument of assign
	Why   string
}

var typedStores = []typedStore{
	{"sliceT.Set", "s.data", "s.valueType", "slice element store"},
	{"NewSlice", "data", "valueType", "slice construction"},
	{"stringMap.Set", "m.data", "m.valueType", "map element store"},
	{"numericMap.Set", "m.data", "m.valueType", "map element store"},
	{"newStringMap", "m.data", "valueType", "map construction"},
	{"newNumericMap", "m.data", "valueType", "map construction"},
	{"lookup.Assign", "l.data", "l.data[index].t", "global variable store"},
	{"intMap.Assign", "m.pairs[i].value", "m.pairs[i].value.t", "struct field store"},
	{"mkFunc", "v.stack", "Type(tokens[i].A)", "parameter typing"},
	{"mkFunc", "v.stack", "Type(tokens[args+i].A)", "result typing"},
}

func ruleRepTypedStore(c *Ctx, r *R) {
	for _, ts := range typedStores {
		key := ts.Fn + " " + ts.TypeX
		fd := c.Func(ts.Fn)
		if fd == nil {
			r.undecided(key, "-", "function "+ts.Fn+" not found (typed-store table is stale)")
			continue
		}
		found, good := 0, 0
		var bad ast.Node
		ast.Inspect(fd.Body, func(n ast.Node) bool {
			as, ok := n.(*ast.AssignStmt)
			if !ok || len(as.Lhs) != len(as.Rhs) {
				return true
			}
			for i, l := range as.Lhs {
				var base ast.Expr
				switch x := unparen(l).(type) {
				case *ast.IndexExpr:
					base = x.X
				case *ast.SelectorExpr:
					base = x
				default:
					continue
				}
				if nosp(c.Src(base)) != nosp(ts.Base) {
					continue
				}
				// only stores of Values
				if !isNamed(c.TypeOf(l), "Value") {
					continue
				}
				call, ok := unparen(as.Rhs[i]).(*ast.CallExpr)
				if ok && c.CalleeName(call) == "Value.assign" && len(call.Args) == 1 {
					if nosp(c.Src(call.Args[0])) == nosp(ts.TypeX) || c.normSliceIdx(call.Args[0]) == nosp(ts.TypeX) {
						found++
						good++
						continue
					}
					if ts.Fn == "mkFunc" {
						continue // the other of the two mkFunc loops
					}
				}
				found++
				bad = as
			}
			return true
		})
		if found == 0 {
			// the conversion may sit in a helper that is handed the storage and the type
			if c.convertsThroughHelper(fd, ts.Base, ts.TypeX) {
				r.ok(key, ts.Why+" goes through a helper that assigns every element with assign("+ts.TypeX+")")
				continue
			}
		}
		switch {
		case found == 0 || good == 0 && bad == nil:
			r.fail(key, c.Pos(fd), fmt.Sprintf("%s: no store into %s converted with assign(%s) — %s no longer converts untyped constants/nil to the declared type", ts.Fn, ts.Base, ts.TypeX, ts.Why))
		case bad != nil:
			r.fail(key, c.Pos(bad), fmt.Sprintf("%s: a store into %s bypasses assign(%s): %s would keep an untyped constant or untyped nil", ts.Fn, ts.Base, ts.TypeX, ts.Why))
		default:
			r.ok(key, ts.Why+" goes through assign("+ts.TypeX+")")
		}
	}
	// LOCALSET: from the handler summary
	if m, err := newHndMachine(c); err == nil {
		ps, err := m.single("codeLocalSet")
		if err == nil && len(ps) == 1 {
			want := "Local(I.A) = Value.assign(Top1, Local(I.A).t)"
			got := strings.Join(ps[0].Stores, "; ")
			r.check(got == want && ps[0].Pop == 1 && len(ps[0].Push) == 0, "LOCALSET", c.Pos(m.sw.ByLabel["codeLocalSet"].Clause), want,
				"LOCALSET does not store assign(top, local.t) into the local and pop: "+ps[0].String())
		} else {
			r.undecided("LOCALSET", "-", "cannot summarise LOCALSET")
		}
		if ps, err := m.single("codeGlobalSet"); err == nil && len(ps) == 1 {
			got := strings.Join(ps[0].Calls, "; ")
			r.check(strings.HasPrefix(got, "lookup.Assign(v.globals, int(I.A), Top1)") && ps[0].Pop == 1, "GLOBALSET", c.Pos(m.sw.ByLabel["codeGlobalSet"].Clause), got,
				"GLOBALSET does not store through lookup.Assign (typed store): "+ps[0].String())
		}
	}
}

func nosp(s string) string { return strings.ReplaceAll(s, " ", "") }

// OPS-CONST: a declared constant without a type is an *untyped* constant wherever it is
// used later (it adopts the type of the typed operand, of the parameter, of the field...).
// The ordinary stores give an untyped value the default type int32 the moment it is
// stored (assign into an empty slot), so compile("const") must store such a constant raw:
// GLOBALSET with the raw flag, or LOCALSET into a slot pre-typed untyped by LOCALZERO.  A
// constant declared with a numeric type is cast to it.
func ruleOpsConst(c *Ctx, r *R) {
	cs, err := c.compileSwitch()
	if err != nil {
		r.undecided("compile", "-", err.Error())
		return
	}
	sc := cs.ByLabel["const"]
	if sc == nil {
		r.undecided("const", "-", "no compile-case")
		return
	}
	m := newLayMachine(c)
	cl, err := m.runCase(cs, "const")
	if err != nil {
		r.undecided("const", c.Pos(sc.Clause), err.Error())
		return
	}
	untypedTag, okTag := c.constByName("untypedInt")
	n := 0
	for ii, it := range cl.Iters {
		for ei, ex := range it.Exits {
			cond := condStrings(ex.St)
			var ops []string
			fields := map[string]*T{}
			for _, a := range ex.Atoms {
				if a.Ins == nil {
					continue
				}
				op := opName(a.Ins)
				ops = append(ops, op)
				if b := litField(a.Ins, "B"); b != nil {
					fields[op+".B"] = b
				}
			}
			shape := strings.Join(ops, " ")
			typed := strings.Contains(cond, ".Tokens) > 0)") && !strings.Contains(cond, ".Tokens) <= 0)")
			key := fmt.Sprintf("const iter%d exit%d", ii, ei)
			n++
			isConstInt := func(t *T, want int64) bool {
				if t == nil {
					return false
				}
				k, ok := linOf(t).isConst()
				return ok && k == want
			}
			switch {
			case typed:
				numeric := strings.Contains(cond, "Contains(") && !strings.Contains(cond, "!golang.org/x/exp/slices.Contains(") && !strings.Contains(cond, "!slices.Contains(")
				if numeric {
					r.check(strings.HasPrefix(shape, "Cast "), key, c.Pos(sc.Clause), "typed numeric constant is cast to its type", "compile(\"const\") does not cast a constant declared with a numeric type to that type (emits "+shape+"): `const f float64 = 1; f/2` is an integer division")
				} else {
					r.ok(key, "typed, non-numeric: "+shape)
				}
			case shape == "GlobalSet":
				b := fields["GlobalSet.B"]
				r.check(b != nil && globalSetModeIs(c, b, "raw"), key, c.Pos(sc.Clause), "untyped global constant stored raw (B selects the handler's raw path)", "compile(\"const\") stores an untyped package-level constant through the ordinary GLOBALSET, which gives it the default type int32: `const k = 100; var u uint8 = 200; u += k` is 300:int32 (Go: 44), `const N = 3; half(N)` with a float64 parameter divides integers")
			case shape == "LocalZero LocalSet":
				b := fields["LocalZero.B"]
				r.check(okTag && isConstInt(b, untypedTag), key, c.Pos(sc.Clause), "untyped local constant: slot pre-typed untyped", "compile(\"const\") does not pre-type the slot of an untyped local constant as untyped (LOCALZERO B = untypedInt): the LOCALSET that follows gives the constant the default type int32")
			default:
				r.fail(key, c.Pos(sc.Clause), "compile(\"const\") stores an untyped constant with ["+shape+"], which types it int32 at once: `const k = 100; var u uint8 = 200; u += k` is 300:int32 (Go: 44); a named constant must behave like the literal it stands for")
			}
		}
	}
	if n < 4 {
		r.undecided("const", c.Pos(sc.Clause), fmt.Sprintf("only %d store shapes found", n))
	}
	// the raw flag must mean raw in the handler
	hm, err := newHndMachine(c)
	if err != nil {
		r.undecided("GLOBALSET", "-", err.Error())
		return
	}
	if ps, err := hm.single("codeGlobalSet"); err == nil {
		raw := false
		for _, p := range ps {
			if globalSetPathMode(p) == "raw" && len(p.Conds) > 0 {
				raw = true
			}
		}
		r.check(raw, "GLOBALSET raw", "-", "B != 0 writes the value unchanged", "the GLOBALSET handler has no raw-store path for constants (B != 0 → globals.Write)")
	} else {
		r.undecided("GLOBALSET", "-", err.Error())
	}
}

// shiftCountOK: Go never reduces a shift count to the width of the left operand and
// rejects a negative one.  The count expression of a shift in an op method is therefore
// acceptable only if it cannot wrap: an unsigned conversion of b.num of at least 32 bits, or a
// helper of the module that returns such an unsigned integer (it can then clamp and check
// the sign itself).  int8(b.num) / byte(b.num) / int32(b.num) wrap: 1 << 256 on a uint8 is 1,
// and a count of 200 on an int8 operand is negative.
func (c *Ctx) shiftCountOK(t *T) (bool, string) {
	wide := map[string]bool{"uint": true, "uint32": true, "uint64": true, "uintptr": true}
	if ty, x, ok := convTo(t); ok {
		if x.String() == "b.num" && wide[ty] {
			return true, ""
		}
		return false, "the shift count is converted to " + ty + ", which wraps: a count >= 128 on an int8 operand becomes negative (run-time panic) and 256 on a uint8 operand becomes 0 (1 << 256 is 1, Go: 0)"
	}
	if t.Op == "call" {
		if fd := c.Func(t.Name); fd != nil && fd.Type.Results != nil && len(fd.Type.Results.List) == 1 {
			if bt, ok := c.TypeOf(fd.Type.Results.List[0].Type).Underlying().(*types.Basic); ok && bt.Info()&types.IsUnsigned != 0 && (bt.Kind() == types.Uint || bt.Kind() == types.Uint32 || bt.Kind() == types.Uint64 || bt.Kind() == types.Uintptr) {
				// and nothing inside the helper narrows the count on its way out
				narrow := ""
				ast.Inspect(fd.Body, func(n ast.Node) bool {
					rs, ok := n.(*ast.ReturnStmt)
					if !ok {
						return true
					}
					for _, res := range rs.Results {
						ast.Inspect(res, func(k ast.Node) bool {
							if cv, ok := k.(*ast.CallExpr); ok {
								if ty, isConv := c.IsConversion(cv); isConv {
									if b2, ok := ty.Underlying().(*types.Basic); ok && b2.Info()&types.IsInteger != 0 {
										switch b2.Kind() {
										case types.Uint, types.Uint32, types.Uint64, types.Uintptr:
										default:
											narrow = b2.Name()
										}
									}
								}
							}
							return true
						})
					}
					return true
				})
				if narrow != "" {
					return false, "the shift count passes through " + narrow + " inside " + t.Name + ", which wraps it (a count of 256 becomes 0, a large count negative)"
				}
				return true, ""
			}
		}
		return false, "the shift count comes from " + t.Name + ", which does not return a wide unsigned integer"
	}
	return false, "the shift count is not an unsigned conversion of b.num"
}

// OPS-UNARY: the complement of an untyped constant is an untyped constant (so that
// `x &^ 0x0F`, parsed as x & (^0x0F), keeps x's type).  The BITCOMPLEMENT handler's
// default-typing path (assign(TypeNil), which turns an untyped value into int32) must be
// reached only for typed operands: there is a path for the untyped tag that pushes an
// untyped result.
func ruleOpsUnary(c *Ctx, r *R) {
	m, err := newHndMachine(c)
	if err != nil {
		r.undecided("exec", "-", err.Error())
		return
	}
	sc := m.sw.ByLabel["codeBitComplement"]
	if sc == nil {
		r.undecided("BITCOMPLEMENT", "-", "no handler")
		return
	}
	ps, err := m.single("codeBitComplement")
	if err != nil {
		r.undecided("BITCOMPLEMENT", c.Pos(sc.Clause), err.Error())
		return
	}
	untypedPath, typedGuarded := false, true
	for _, p := range ps {
		cs := strings.Join(p.Conds, " && ")
		push := ""
		for _, t := range p.Push {
			push += t.String() + ";"
		}
		if strings.Contains(cs, "Top1.t == untypedInt") && strings.HasPrefix(push, "newUntypedInt(") {
			untypedPath = true
		}
		if strings.Contains(push, "Value.assign(Top1, TypeNil)") && !strings.Contains(cs, "Top1.t != untypedInt") {
			typedGuarded = false
		}
	}
	r.check(untypedPath && typedGuarded, "BITCOMPLEMENT untyped", c.Pos(sc.Clause), "^ of an untyped constant stays untyped", "the BITCOMPLEMENT handler gives an untyped operand the default type int32 before complementing: `var f uint8 = 0xFF; f &^ 0x0F` is 240:int32 and no longer wraps (Go: uint8), `u &^ 1` on a uint32 above MaxInt32 is garbage")
}

// REP-ANYSTORE: goatlang keeps no declared type per variable: a store converts the new
// value with assign(<type of the value the slot holds now>).  For a slot of a concrete
// declared type that is the declared type (invariant kept by REP-TYPEDSTORE).  For a slot
// declared `any` it is the dynamic type of the *previous* value, so an untyped constant
// stored after a typed value is converted to that value's type: `var x any = byte(200);
// x = 300` leaves 44.  The rule reports every store that takes the conversion type from the
// overwritten value; a store that consults a declared type (an instruction operand, a
// type table) would pass.
func ruleRepAnyStore(c *Ctx, r *R) {
	n := 0
	report := func(key, pos, what string) {
		n++
		r.fail(key, pos, what+" converts the stored value to the dynamic type of the value it overwrites; for a variable, field or package variable declared `any` that is the type of the previous value, not a declared type: `var x any = byte(200); x = 300` gives 44 (Go: 300), `b.v = int8(1); b.v = 200` gives -56")
	}
	// locals
	if m, err := newHndMachine(c); err == nil {
		if sc := m.sw.ByLabel["codeLocalSet"]; sc != nil {
			if ps, err := m.single("codeLocalSet"); err == nil {
				for _, p := range ps {
					for _, s := range p.Stores {
						if strings.Contains(s, "Value.assign(Top1, Local(I.A).t)") && !strings.Contains(strings.Join(p.Conds, " "), "I.B") {
							report("any-store LOCALSET", c.Pos(sc.Clause), "the LOCALSET handler")
						}
					}
				}
			}
		}
	} else {
		r.undecided("any-store LOCALSET", "-", err.Error())
	}
	// package variables
	if fd := c.Func("lookup.Assign"); fd != nil {
		for _, p := range c.pathsOf("lookup.Assign") {
			for _, e := range p.Eff {
				if e.Kind == "store" && e.Value != nil && strings.Contains(e.Value.String(), "Value.assign(") && strings.Contains(e.Value.String(), "l.data[index].t") {
					report("any-store lookup.Assign", c.Pos(fd), "lookup.Assign (GLOBALSET)")
				}
			}
		}
	} else {
		r.undecided("any-store lookup.Assign", "-", "not found")
	}
	// struct fields
	if fd := c.Func("intMap.Assign"); fd != nil {
		found := false
		for _, h := range c.withHelpers(fd) {
			ast.Inspect(h.Body, func(nd ast.Node) bool {
				if call, ok := nd.(*ast.CallExpr); ok && c.CalleeName(call) == "Value.assign" && len(call.Args) == 1 {
					if s := nosp(c.Src(call.Args[0])); strings.HasSuffix(s, ".value.t") && strings.Contains(s, "pairs[") {
						found = true
					}
				}
				return true
			})
		}
		if found {
			report("any-store intMap.Assign", c.Pos(fd), "intMap.Assign (struct field store)")
		}
	} else {
		r.undecided("any-store intMap.Assign", "-", "not found")
	}
	if n == 0 {
		r.ok("any-store", "no store takes its conversion type from the overwritten value")
	}
}

// castPerTarget (part of TAB-CAST): CAST converts the value on top of the stack only, so in
// `var a, b T = c1, c2` every target needs its own CAST immediately before its store.  On
// every store path of the per-target loop of compile(":=") there is a CAST, or the path has
// established that the target has no declared numeric type.
func castPerTarget(c *Ctx, r *R, cs *bigSwitch) {
	sc := cs.ByLabel[":="]
	if sc == nil {
		return
	}
	m := newLayMachine(c)
	cl, err := m.runCase(cs, ":=")
	if err != nil {
		r.undecided("cast per target", c.Pos(sc.Clause), err.Error())
		return
	}
	n := 0
	for _, it := range cl.Iters {
		for _, ex := range it.Exits {
			hasStore, hasCast := false, false
			for _, a := range ex.Atoms {
				if a.Ins == nil {
					// a helper that returns the CAST for a declared numeric type (or nothing)
					if a.Seg != nil && a.Seg.Src != nil && a.Seg.Src.Op == "call" && c.isCastHelper(a.Seg.Src.Name) {
						hasCast = true
					}
					continue
				}
				switch opName(a.Ins) {
				case "LocalSet", "GlobalSet":
					hasStore = true
				case "Cast":
					hasCast = true
				}
			}
			if !hasStore {
				continue
			}
			n++
			if hasCast {
				continue
			}
			established := false
			for _, cd := range ex.St.Conds {
				s := cd.String()
				// the declared types may have been resolved ahead of the stores into a table keyed
				// by target: a lookup in it stands for typeFromToken(target.Tokens[0])
				if strings.HasPrefix(s, "!") && (strings.Contains(s, "slices.Contains(") || negatedHelperCall(c, cd)) && (strings.Contains(s, "map[*token]Type{}[") || strings.Contains(s, "builtin.make(type:[]Type, ")) && c.typeTableOf(sc.Clause) != "" {
					established = true
				}
				if strings.HasPrefix(s, "!") && (strings.Contains(s, "typeFromToken(") || strings.Contains(s, ".Tokens) > 0")) {
					established = true
				}
				if strings.Contains(s, ".Tokens) <= 0") {
					established = true
				}
			}
			r.check(established, "cast per target", c.Pos(sc.Clause), "a store without CAST only for a target without a declared numeric type",
				"compile(\":=\") stores a declared variable without a CAST on a path that has not established that the target has no declared numeric type ("+condStrings(ex.St)+"): CAST converts only the top of the stack, so with one CAST for the whole statement `var lo, hi uint8 = 250, 5` leaves lo an int32 (lo += 10 is 260, not 4) and `var w, h float64 = 3, 4; w / 2` is 1")
		}
	}
	if n == 0 {
		r.undecided("cast per target", c.Pos(sc.Clause), "no per-target store path found")
	} else {
		r.ok("cast per target paths", fmt.Sprintf("%d store paths", n))
	}
}

// isCastHelper: a new helper whose every path returns either nothing or exactly one CAST,
// the CAST paths being conditioned on the numeric-type list.
func (c *Ctx) isCastHelper(name string) bool {
	fd := c.Func(name)
	if fd == nil || fd.Body == nil {
		return false
	}
	if o := c.Info.Defs[fd.Name]; o == nil || !c.isNewHelper(o) {
		return false
	}
	m := newLayMachine(c)
	cl, err := m.runFunc(fd)
	if err != nil {
		return false
	}
	casts := 0
	for _, p := range cl.Paths {
		atoms := m.live(p)
		switch {
		case len(atoms) == 0:
		case len(atoms) == 1 && atoms[0].Ins != nil && opName(atoms[0].Ins) == "Cast" && strings.Contains(condStrings(p.St), "Type"):
			casts++
		default:
			return false
		}
	}
	return casts > 0
}

// typeTableOf: the compile-case fills a local map[*token]Type by `M[k] = typeFromToken(c,
// k.Tokens[0])` for every k of a range over the declaration's targets — the store is under
// no condition other than `len(k.Tokens) > 0` — and stores nothing else into it. A lookup
// M[target] then is the target's declared type, or the zero Type for a target without one.
func (c *Ctx) typeTableOf(cl *ast.CaseClause) string {
	var mobj types.Object
	good, bad := 0, 0
	ast.Inspect(cl, func(n ast.Node) bool {
		as, ok := n.(*ast.AssignStmt)
		if !ok {
			return true
		}
		for i, l := range as.Lhs {
			ix, ok := unparen(l).(*ast.IndexExpr)
			if !ok {
				continue
			}
			isSlice := false
			if mt, ok := c.TypeOf(ix.X).Underlying().(*types.Map); ok {
				if !c.isTokenPtr(mt.Key()) {
					continue
				}
			} else if st, ok := c.TypeOf(ix.X).Underlying().(*types.Slice); ok && isNamed(st.Elem(), "Type") {
				isSlice = true
			} else {
				continue
			}
			mid, ok := unparen(ix.X).(*ast.Ident)
			if !ok {
				bad++
				continue
			}
			if mobj != nil && c.Obj(mid) != mobj {
				bad++
				continue
			}
			mobj = c.Obj(mid)
			kid, ok := unparen(ix.Index).(*ast.Ident)
			if !ok || len(as.Lhs) != len(as.Rhs) {
				bad++
				continue
			}
			call, ok := unparen(as.Rhs[i]).(*ast.CallExpr)
			if !ok || c.CalleeName(call) != "typeFromToken" || len(call.Args) != 2 {
				bad++
				continue
			}
			// the element the type is read from: the key itself (map) or the range value of the
			// loop whose key indexes the table (slice)
			elem := kid
			if isSlice {
				elem = nil
				for p := c.Parent(as); p != nil && p != ast.Node(cl); p = c.Parent(p) {
					if rs, ok := p.(*ast.RangeStmt); ok {
						if k, ok := rs.Key.(*ast.Ident); ok && c.Obj(k) == c.Obj(kid) {
							if v, ok := rs.Value.(*ast.Ident); ok {
								elem = v
							}
						}
						break
					}
				}
				if elem == nil {
					bad++
					continue
				}
				// the table is made with one slot per target
				if def := c.singleDef(mid); def != nil {
					if mk, ok := unparen(def).(*ast.CallExpr); !ok || c.CalleeName(mk) != "builtin.make" || len(mk.Args) != 2 || !strings.HasPrefix(nosp(c.Src(mk.Args[1])), "len(") {
						bad++
						continue
					}
				} else {
					bad++
					continue
				}
			}
			if nosp(c.Src(call.Args[1])) != elem.Name+".Tokens[0]" {
				bad++
				continue
			}
			kid = elem
			// enclosing statements up to the range loop over the targets
			okPath := false
			child := ast.Node(as)
			for p := c.Parent(as); p != nil && p != ast.Node(cl); child, p = p, c.Parent(p) {
				switch x := p.(type) {
				case *ast.IfStmt:
					if x.Body != child || nosp(c.Src(x.Cond)) != "len("+kid.Name+".Tokens)>0" || x.Init != nil {
						bad++
					}
				case *ast.RangeStmt:
					overTargets := strings.HasSuffix(nosp(c.Src(x.X)), ".Tokens[0].Tokens")
					if id, ok := unparen(x.X).(*ast.Ident); ok && !overTargets {
						// a local holding the target list
						if def := c.singleDef(id); def != nil && strings.HasSuffix(nosp(c.Src(def)), ".Tokens[0].Tokens") {
							overTargets = true
						}
					}
					if v, ok := x.Value.(*ast.Ident); ok && c.Obj(v) == c.Obj(kid) && overTargets {
						okPath = true
					} else {
						bad++
					}
				case *ast.BlockStmt:
				default:
					bad++
				}
				if okPath {
					break
				}
			}
			if okPath {
				good++
			} else {
				bad++
			}
		}
		return true
	})
	if mobj == nil || good == 0 || bad > 0 {
		return ""
	}
	return mobj.Name()
}

// negZeroRule: an untyped integer is kept in a float64, whose product of 0 and a negative
// number is -0.0. An integer has no negative zero (`const z = 0; -z` prints 0, and 0 * -5
// is 0), so a product computed in floating point is normalised before it is returned as an
// untyped integer. (Quotient and remainder go through int and cannot produce -0.)
func negZeroRule(c *Ctx, r *R) {
	fd := c.Func("Value.opMul")
	if fd == nil {
		r.undecided("negative zero", "-", "Value.opMul not found")
		return
	}
	raw, normalised := "", false
	for _, p := range c.pathsOf("Value.opMul") {
		if len(p.Ret) != 1 || p.Ret[0].Op != "lit" {
			continue
		}
		t, num := litField(p.Ret[0], "t"), litField(p.Ret[0], "num")
		if t == nil || num == nil || t.String() != "untypedInt" {
			continue
		}
		cs := condStrings(p)
		switch {
		case num.String() == "0" && strings.Contains(cs, "(v.num * b.num) == 0"):
			normalised = true
		case num.String() == "(v.num * b.num)" && !strings.Contains(cs, "(v.num * b.num) != 0"):
			raw = cs
		}
	}
	r.check(raw == "" && normalised || raw == "" && !normalised && !usesFloatProduct(c, fd), "negative zero", c.Pos(fd), "an untyped product of zero is +0",
		"Value.opMul returns the floating-point product as an untyped integer unchanged: 0 * -1 is -0.0, so `const z = 0; fmt.Println(-z)` (negation multiplies by -1) prints -0 and 1/float64(-z) is -Inf")
}

func usesFloatProduct(c *Ctx, fd *ast.FuncDecl) bool {
	found := false
	ast.Inspect(fd.Body, func(n ast.Node) bool {
		if be, ok := n.(*ast.BinaryExpr); ok && be.Op == token.MUL && nosp(c.Src(be)) == "v.num*b.num" {
			if _, isConv := c.Parent(be).(*ast.CallExpr); !isConv {
				found = true
			}
		}
		return true
	})
	return found
}


// assignEachHelper: a new helper of the shape
//
//	func h(.., data []Value, .., t Type, ..) { for i, v := range data { data[i] = v.assign(t) } }
//
// (the store is the first statement of the loop body, under no condition). Returns the
// indices of the data and type parameters.
func (c *Ctx) assignEachHelper(h *ast.FuncDecl) (int, int, bool) {
	if h == nil || h.Body == nil || h.Recv != nil {
		return 0, 0, false
	}
	if o := c.Info.Defs[h.Name]; o == nil || !c.isNewHelper(o) {
		return 0, 0, false
	}
	var params []types.Object
	for _, f := range h.Type.Params.List {
		for _, nm := range f.Names {
			params = append(params, c.Info.Defs[nm])
		}
	}
	idx := func(o types.Object) int {
		for i, p := range params {
			if p == o {
				return i
			}
		}
		return -1
	}
	for _, st := range h.Body.List {
		rs, ok := st.(*ast.RangeStmt)
		if !ok || len(rs.Body.List) == 0 {
			continue
		}
		did, ok := unparen(rs.X).(*ast.Ident)
		if !ok || idx(c.Obj(did)) < 0 {
			continue
		}
		k, _ := rs.Key.(*ast.Ident)
		v, _ := rs.Value.(*ast.Ident)
		as, ok := rs.Body.List[0].(*ast.AssignStmt)
		if k == nil || v == nil || !ok || len(as.Lhs) != 1 || len(as.Rhs) != 1 {
			continue
		}
		if nosp(c.Src(as.Lhs[0])) != did.Name+"["+k.Name+"]" {
			continue
		}
		call, ok := unparen(as.Rhs[0]).(*ast.CallExpr)
		if !ok || c.CalleeName(call) != "Value.assign" || len(call.Args) != 1 {
			continue
		}
		if sel, ok := unparen(call.Fun).(*ast.SelectorExpr); !ok || nosp(c.Src(sel.X)) != v.Name {
			continue
		}
		tid, ok := unparen(call.Args[0]).(*ast.Ident)
		if !ok || idx(c.Obj(tid)) < 0 {
			continue
		}
		return idx(c.Obj(did)), idx(c.Obj(tid)), true
	}
	return 0, 0, false
}

// convertsThroughHelper: fd calls an assign-each helper with base (or a tail of it) as data
// and typeX as the type.
func (c *Ctx) convertsThroughHelper(fd *ast.FuncDecl, base, typeX string) bool {
	found := false
	ast.Inspect(fd.Body, func(n ast.Node) bool {
		call, ok := n.(*ast.CallExpr)
		if !ok {
			return true
		}
		di, ti, ok := c.assignEachHelper(c.DeclOf(c.Callee(call)))
		if !ok || di >= len(call.Args) || ti >= len(call.Args) {
			return true
		}
		d := unparen(call.Args[di])
		if se, ok := d.(*ast.SliceExpr); ok {
			d = unparen(se.X)
		}
		if nosp(c.Src(d)) == nosp(base) && nosp(c.Src(call.Args[ti])) == nosp(typeX) {
			found = true
		}
		return true
	})
	return found
}

// globalSetPathMode classifies one path of the GLOBALSET handler by what it stores: "raw"
// (globals.Write of the popped value as it is), "declare" (globals.Write of the value given
// its own default type, assign(TypeNil): the slot's previous content plays no part),
// "assign" (lookup.Assign: converted to the type of the value the slot holds), or "".
func globalSetPathMode(p *hndPath) string {
	calls := strings.Join(p.Calls, "; ")
	switch {
	case strings.Contains(calls, "lookup.Assign(v.globals, int(I.A), Top1)") && !strings.Contains(calls, "lookup.Write"):
		return "assign"
	case strings.Contains(calls, "lookup.Write(v.globals, int(I.A), Top1)") && !strings.Contains(calls, "lookup.Assign"):
		return "raw"
	case strings.Contains(calls, "lookup.Write(v.globals, int(I.A), Value.assign(Top1, TypeNil))") && !strings.Contains(calls, "lookup.Assign"):
		return "declare"
	}
	return ""
}

// globalSetModeIs: the constant B operand b selects a handler path of the given mode — the
// path conditions over I.B are evaluated with the constant.
func globalSetModeIs(c *Ctx, b *T, mode string) bool {
	k, ok := linOf(b).isConst()
	if !ok {
		return false
	}
	hm, err := newHndMachine(c)
	if err != nil {
		return false
	}
	ps, err := hm.single("codeGlobalSet")
	if err != nil {
		return false
	}
	hit := 0
	good := true
	for _, p := range ps {
		sel := true
		for _, cd := range p.Conds {
			v, known := evalBCond(cd, k)
			if !known {
				return false
			}
			if !v {
				sel = false
			}
		}
		if sel {
			hit++
			if globalSetPathMode(p) != mode {
				good = false
			}
		}
	}
	return hit == 1 && good
}

var bCondRe = regexp.MustCompile(`^\(?I\.B (==|!=) (-?\d+)\)?$`)

// evalBCond folds a handler path condition of the form I.B == k / I.B != k.
func evalBCond(cd string, b int64) (val, known bool) {
	m := bCondRe.FindStringSubmatch(strings.TrimSpace(cd))
	if m == nil {
		return false, false
	}
	k, _ := strconv.ParseInt(m[2], 10, 64)
	if m[1] == "==" {
		return b == k, true
	}
	return b != k, true
}

// evalBody evaluates a straight-line predicate body (if / switch / return over constants and
// one bound variable).  returned reports whether a return statement was reached.
func (c *Ctx) evalBody(list []ast.Stmt, obj types.Object, val constant.Value) (v constant.Value, returned, ok bool) {
	for _, st := range list {
		switch x := st.(type) {
		case *ast.AssignStmt:
			// a temporary: name := expr
			if len(x.Lhs) != 1 || len(x.Rhs) != 1 {
				return nil, false, false
			}
			id, isId := x.Lhs[0].(*ast.Ident)
			if !isId {
				return nil, false, false
			}
			av, ok := c.evalWith(x.Rhs[0], obj, val)
			if !ok {
				return nil, false, false
			}
			o := c.Info.Defs[id]
			if o == nil {
				o = c.Info.Uses[id]
			}
			if o == nil || o == obj {
				return nil, false, false
			}
			evalEnv[o] = av
		case *ast.ReturnStmt:
			if len(x.Results) != 1 {
				return nil, false, false
			}
			v, ok := c.evalWith(x.Results[0], obj, val)
			return v, true, ok
		case *ast.IfStmt:
			if x.Init != nil {
				return nil, false, false
			}
			cv, ok := c.evalWith(x.Cond, obj, val)
			if !ok || cv.Kind() != constant.Bool {
				return nil, false, false
			}
			var branch []ast.Stmt
			if constant.BoolVal(cv) {
				branch = x.Body.List
			} else if x.Else != nil {
				switch e := x.Else.(type) {
				case *ast.BlockStmt:
					branch = e.List
				case *ast.IfStmt:
					branch = []ast.Stmt{e}
				}
			}
			if v, ret, ok := c.evalBody(branch, obj, val); !ok {
				return nil, false, false
			} else if ret {
				return v, true, true
			}
		case *ast.SwitchStmt:
			if x.Init != nil {
				return nil, false, false
			}
			var tag constant.Value
			if x.Tag != nil {
				t, ok := c.evalWith(x.Tag, obj, val)
				if !ok {
					return nil, false, false
				}
				tag = t
			}
			var chosen, def *ast.CaseClause
			for _, cc := range x.Body.List {
				cl := cc.(*ast.CaseClause)
				if cl.List == nil {
					def = cl
					continue
				}
				for _, e := range cl.List {
					ev, ok := c.evalWith(e, obj, val)
					if !ok {
						return nil, false, false
					}
					if tag != nil && constant.Compare(ev, token.EQL, tag) || tag == nil && ev.Kind() == constant.Bool && constant.BoolVal(ev) {
						chosen = cl
					}
				}
				if chosen != nil {
					break
				}
			}
			if chosen == nil {
				chosen = def
			}
			if chosen != nil {
				for _, b := range chosen.Body {
					if _, isFall := b.(*ast.BranchStmt); isFall {
						return nil, false, false
					}
				}
				if v, ret, ok := c.evalBody(chosen.Body, obj, val); !ok {
					return nil, false, false
				} else if ret {
					return v, true, true
				}
			}
		default:
			return nil, false, false
		}
	}
	return nil, false, true
}

// negatedHelperCall: the condition is !h(..) with h a new predicate helper of the package.
func negatedHelperCall(c *Ctx, cd *T) bool {
	if cd.Op != "un" || len(cd.Args) != 1 || cd.Args[0].Op != "call" {
		return false
	}
	fd := c.Func(cd.Args[0].Name)
	if fd == nil {
		return false
	}
	return c.isNewHelper(c.Info.Defs[fd.Name])
}

// evalEnv: additional constant bindings consulted by evalWith (parameters of a helper that
// are bound to constant arguments at the call under analysis).
var evalEnv = map[types.Object]constant.Value{}

// evalBodyRet is evalBody for helpers that return a non-constant: it yields the expression
// of the return statement that is reached.
func (c *Ctx) evalBodyRet(list []ast.Stmt, obj types.Object, val constant.Value) (ret ast.Expr, returned, ok bool) {
	for _, st := range list {
		switch x := st.(type) {
		case *ast.ReturnStmt:
			if len(x.Results) != 1 {
				return nil, false, false
			}
			return x.Results[0], true, true
		case *ast.IfStmt:
			if x.Init != nil {
				return nil, false, false
			}
			cv, ok := c.evalWith(x.Cond, obj, val)
			if !ok || cv.Kind() != constant.Bool {
				return nil, false, false
			}
			var branch []ast.Stmt
			if constant.BoolVal(cv) {
				branch = x.Body.List
			} else if x.Else != nil {
				switch e := x.Else.(type) {
				case *ast.BlockStmt:
					branch = e.List
				case *ast.IfStmt:
					branch = []ast.Stmt{e}
				}
			}
			if v, ret, ok := c.evalBodyRet(branch, obj, val); !ok {
				return nil, false, false
			} else if ret {
				return v, true, true
			}
		case *ast.SwitchStmt:
			if x.Init != nil {
				return nil, false, false
			}
			var tag constant.Value
			if x.Tag != nil {
				t, ok := c.evalWith(x.Tag, obj, val)
				if !ok {
					return nil, false, false
				}
				tag = t
			}
			var chosen, def *ast.CaseClause
			for _, cc := range x.Body.List {
				cl := cc.(*ast.CaseClause)
				if cl.List == nil {
					def = cl
					continue
				}
				for _, e := range cl.List {
					ev, ok := c.evalWith(e, obj, val)
					if !ok {
						return nil, false, false
					}
					if tag != nil && constant.Compare(ev, token.EQL, tag) || tag == nil && ev.Kind() == constant.Bool && constant.BoolVal(ev) {
						chosen = cl
					}
				}
				if chosen != nil {
					break
				}
			}
			if chosen == nil {
				chosen = def
			}
			if chosen != nil {
				if v, ret, ok := c.evalBodyRet(chosen.Body, obj, val); !ok {
					return nil, false, false
				} else if ret {
					return v, true, true
				}
			}
		default:
			return nil, false, false
		}
	}
	return nil, false, true
}

// castViaHelper: the declaration case emits its CAST through one new helper that has
// several emission sites (castTo(typ, nillable)).  The helper is evaluated as a function of
// the declared type, with its other parameters bound to the constants of the call: for each
// numeric tag (and, for var, the nillable type values) the return that is reached must
// contain the CAST.
func castViaHelper(c *Ctx, r *R, sc *switchCase, label string, sites []*ast.CompositeLit) bool {
	h := c.EnclosingFunc(sites[0])
	for _, s := range sites {
		if c.EnclosingFunc(s) != h {
			return false
		}
	}
	if h == nil || !c.isNewHelper(c.Info.Defs[h.Name]) {
		return false
	}
	var call *ast.CallExpr
	ast.Inspect(sc.Clause, func(n ast.Node) bool {
		if x, ok := n.(*ast.CallExpr); ok && c.Callee(x) == c.Info.Defs[h.Name] {
			call = x
		}
		return true
	})
	if call == nil {
		return false
	}
	var typParam types.Object
	env := map[types.Object]constant.Value{}
	k := 0
	for _, f := range h.Type.Params.List {
		for _, nm := range f.Names {
			o := c.Info.Defs[nm]
			if k < len(call.Args) {
				if isNamed(o.Type(), "Type") {
					typParam = o
				} else if v, ok := c.ConstOf(call.Args[k]); ok {
					env[o] = v
				} else {
					return false
				}
			}
			k++
		}
	}
	if typParam == nil {
		return false
	}
	old := evalEnv
	evalEnv = env
	defer func() { evalEnv = old }()
	emits := func(v int64) (bool, bool) {
		ret, returned, ok := c.evalBodyRet(h.Body.List, typParam, constant.MakeInt64(v))
		if !ok || !returned {
			return false, false
		}
		has := false
		ast.Inspect(ret, func(n ast.Node) bool {
			if kv, ok := n.(*ast.KeyValueExpr); ok && types.ExprString(kv.Key) == "Code" && c.codeConstName(kv.Value) == "codeCast" {
				has = true
			}
			return true
		})
		return has, true
	}
	tags := c.typeTags()
	for _, tag := range numericTags {
		key := "cast " + tag
		if label != "var" {
			key = "cast " + label + " " + tag
		}
		has, ok := emits(tags[tag])
		if !ok {
			r.undecided(key, c.Pos(h), "cannot evaluate "+h.Name.Name+" for "+tag)
			continue
		}
		r.check(has, key, c.Pos(h), "CAST emitted for declared type "+goTypeOfTag[tag],
			fmt.Sprintf("`%s x %s = <untyped or other numeric>` emits no CAST: %s returns none for %s, so the variable keeps the initialiser's type (int32)", label, goTypeOfTag[tag], h.Name.Name, tag))
	}
	if label == "var" {
		if o, ok := c.Pkg.Types.Scope().Lookup("nillableMin").(*types.Const); ok {
			base, _ := constant.Int64Val(constant.ToInt(o.Val()))
			good := true
			for _, d := range []int64{0, 1, 1000} {
				has, ok := emits(base + d)
				if !ok {
					r.undecided("cast nillable", c.Pos(h), "cannot evaluate "+h.Name.Name+" for a nillable type")
					return true
				}
				good = good && has
			}
			r.check(good, "cast nillable", c.Pos(h), "CAST emitted for declared slice / map / func types",
				"`var s []T = nil` emits no CAST: "+h.Name.Name+" returns none for slice / map / func types, so the initialiser nil stays untyped — `var s []float64 = nil; s = append(s, 1)` holds an int")
		} else {
			r.undecided("cast nillable", c.Pos(h), "constant nillableMin not found")
		}
	}
	return true
}

// evalFuncConst evaluates a small pure function of integer-like parameters on constants.
func (c *Ctx) evalFuncConst(fd *ast.FuncDecl, args []constant.Value) (constant.Value, bool) {
	old := evalEnv
	evalEnv = map[types.Object]constant.Value{}
	defer func() { evalEnv = old }()
	k := 0
	if fd.Recv != nil {
		for _, f := range fd.Recv.List {
			for _, nm := range f.Names {
				if k < len(args) {
					evalEnv[c.Info.Defs[nm]] = args[k]
				}
				k++
			}
		}
	}
	for _, f := range fd.Type.Params.List {
		for _, nm := range f.Names {
			if k < len(args) {
				evalEnv[c.Info.Defs[nm]] = args[k]
			}
			k++
		}
	}
	if k != len(args) {
		return nil, false
	}
	v, returned, ok := c.evalBody(fd.Body.List, nil, nil)
	if !ok || !returned {
		return nil, false
	}
	return v, true
}

// normSliceIdx renders e with every `name[i]`, where name is a local defined once as a slice
// `base[lo:..]` of another slice, rewritten to `base[lo+i]` (`base[i]` when lo is absent):
// argTypes := tokens[:args]; argTypes[i]  is  tokens[i], and retTypes := tokens[args:args+rets];
// retTypes[i]  is  tokens[args+i].
func (c *Ctx) normSliceIdx(e ast.Expr) string {
	out := nosp(c.Src(e))
	ast.Inspect(e, func(n ast.Node) bool {
		ix, ok := n.(*ast.IndexExpr)
		if !ok {
			return true
		}
		id, ok := unparen(ix.X).(*ast.Ident)
		if !ok {
			return true
		}
		var def ast.Expr
		// a := b[lo:hi] alone, or as one side of a tuple definition
		if fd := c.EnclosingFunc(e); fd != nil {
			n := 0
			ast.Inspect(fd, func(k ast.Node) bool {
				as, ok := k.(*ast.AssignStmt)
				if !ok || len(as.Lhs) != len(as.Rhs) {
					return true
				}
				for i, l := range as.Lhs {
					if lid, ok := l.(*ast.Ident); ok && c.Obj(lid) == c.Obj(id) {
						n++
						def = as.Rhs[i]
					}
				}
				return true
			})
			if n != 1 {
				def = nil
			}
		}
		sl, ok := unparen(def).(*ast.SliceExpr)
		if def == nil || !ok {
			return true
		}
		base := nosp(c.Src(sl.X))
		lo := ""
		if sl.Low != nil {
			if v, isConst := c.ConstInt(sl.Low); !isConst || v != 0 {
				lo = nosp(c.Src(sl.Low)) + "+"
			}
		}
		out = strings.ReplaceAll(out, id.Name+"["+nosp(c.Src(ix.Index))+"]", base+"["+lo+nosp(c.Src(ix.Index))+"]")
		return true
	})
	return out
}

// tagOfOperand: key of evalEnv under which a rule binds "the type tag (.t) of the operand".
var tagOfOperand = types.NewVar(token.NoPos, nil, "#operand.t", types.Typ[types.Int])
