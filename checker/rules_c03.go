package main

// C03 — no input can take the embedding host down.

import (
	"fmt"
	"go/ast"
	"go/token"
	"go/types"
	"os"
	"regexp"
	"sort"
	"strings"

	"golang.org/x/tools/go/ssa"
)

var entryPoints = []string{"VM.Eval", "VM.Load", "VM.Call", "VM.Func"}

func init() {
	register(&propDef{
		ID:          "C03",
		Explanation: "PAN-REGION computes from the SSA/VTA call graph the functions that execute for Eval/Load/Call/Func while no recover() guard is on the stack (U: code of the entry points and of everything they call outside the guards parse, compiler.run, VM.run, VM.Func, including the part of a guard function before its defer) and the functions of the deferred handlers (H). PAN-SITE enumerates, in U, every explicit may-panic construct on the typed AST (index/slice expressions, single-value type assertions, panic/panicf calls, integer division by a non-constant, writes to possibly nil maps, dereference of pointers obtained from map lookups, library calls with a panic precondition, make with a computed size) and discharges each by a local recogniser (range key, counted loop, length guard, sort comparator, Split()[0]) or by a frozen triage entry with a reason; anything else is a violation naming function and expression. PAN-HANDLER does the same inside H, where a panic turns a script error into a host crash. PAN-PREFIX checks every error returned by Eval and Load is fmt.Errorf with a constant format starting `error in <stage>` and wrapping with %w. PAR-ADVANCE proves parser termination by a min-plus path analysis on go/cfg: every CFG cycle of every parser function, and every recursion cycle of the parser's call graph, consumes at least one token, and parser.N is written only by Next and the two rewind sites. TERM-LOOPS checks every other loop of tokenizer, loader, tree sort, compiler and optimiser is of a catalogue shape with an evident variant, and that the compiler's recursion descends the token tree. Not decided: resource exhaustion (Go stack overflow by deeply nested input or script recursion, OOM), hangs inside the standard library, host-supplied fs.FS/option functions.",
		Assumptions: []string{
			"the standard library does not panic on arguments that satisfy its documented preconditions; text/scanner terminates",
			"host-supplied values (fs.FS, option functions, loaders, native callbacks) do not panic and fs.FS contents are finite",
			"fmt recovers panics raised by String/Error methods it calls (fmt's catchPanic)",
			"the token tree built by the parser is acyclic",
			"fatal runtime errors (stack exhaustion, out of memory) are resource exhaustion and excepted by the property",
		},
		Trusted: []string{"x/tools go/ssa and VTA call graph (v0.29.0), go/cfg", "the triage table /verif/triage/pan_sites.json (one reason per site)"},
		Quick: []ruleDef{
			{"PAN-REGION", 8, rulePanRegion},
			{"PAN-SITE", 20, rulePanSite},
			{"PAN-HANDLER", 3, rulePanHandler},
			{"PAN-CONVERT", 4, rulePanConvert},
			{"TREE-NONNIL", 7, ruleTreeNonNil},
			{"PAN-PREFIX", 8, rulePanPrefix},
			{"PAR-ADVANCE", 40, ruleParAdvance},
			{"TERM-LOOPS", 30, ruleTermLoops},
		},
	})
}

func rulePanRegion(c *Ctx, r *R) {
	ri := c.regions(entryPoints)
	for _, n := range ri.Notes {
		r.undecided("entry", "-", n)
	}
	for _, g := range ri.Guards {
		r.ok("guard "+fnDisplay(g.Fn), "defer+recover at "+c.PosP(g.Defer.Pos()))
	}
	// every entry point's script-dependent work must run under some guard: the
	// stages parse / compile / run are called from U only through guard functions
	guardFns := map[string]bool{}
	for _, g := range ri.Guards {
		guardFns[fnDisplay(g.Fn)] = true
	}
	for _, need := range []string{"parse", "compiler.run", "VM.run", "VM.Func"} {
		r.check(guardFns[need], "guards "+need, "-", "is a recover guard",
			need+" no longer installs a deferred recover(): panics of its stage propagate to the host")
	}
	// the heavy stage functions must not be in U
	inU := map[string]bool{}
	for f := range ri.U {
		inU[fnDisplay(f)] = true
	}
	for _, f := range []string{"VM.exec", "compiler.compile", "compiler.compileAll", "parser.Statement", "parser.doExpression", "call", "callReady"} {
		r.check(!inU[f], "guarded "+f, "-", "only reachable under a guard",
			f+" is reachable from an entry point with no recover() guard on the stack: any script error inside it crashes the host")
	}
	var names []string
	for f := range ri.U {
		names = append(names, fnDisplay(f))
	}
	sort.Strings(names)
	r.note("U (%d): %s", len(names), strings.Join(names, ", "))
	names = nil
	for f := range ri.H {
		names = append(names, fnDisplay(f))
	}
	sort.Strings(names)
	r.note("H (%d): %s", len(names), strings.Join(names, ", "))
	r.check(len(ri.U) >= 10 && len(ri.H) >= 4, "region-size", "-", fmt.Sprintf("|U|=%d |H|=%d", len(ri.U), len(ri.H)), "regions are implausibly small: call-graph construction failed")
}

func (c *Ctx) regionSites(which string) ([]*panSite, error) {
	ri := c.regions(entryPoints)
	set := ri.U
	if which == "H" {
		set = ri.H
	}
	var out []*panSite
	var fns []*ssa.Function
	for f := range set {
		fns = append(fns, f)
	}
	sort.Slice(fns, func(i, j int) bool { return fnDisplay(fns[i]) < fnDisplay(fns[j]) })
	seen := map[string]bool{}
	for _, f := range fns {
		syn, cut := c.syntaxOf(f, ri.Guards)
		if syn == nil {
			continue
		}
		if f.Object() != nil && c.noReturnFuncs()[f.Object()] {
			continue // its call sites are the sites
		}
		var body ast.Node
		switch s := syn.(type) {
		case *ast.FuncDecl:
			body = s.Body
		case *ast.FuncLit:
			body = s.Body
		}
		if body == nil {
			continue
		}
		for _, s := range c.enumSites(fnDisplay(f), which, body, cut) {
			if seen[s.Key()] {
				continue
			}
			seen[s.Key()] = true
			switch s.Kind {
			case "index", "slice":
				s.Why = c.dischargeIndex(s, body)
			case "deref-field", "deref-maplookup":
				s.Why = c.dischargeNilChecked(s, body)
			case "panic":
				s.Why = c.dischargeNilParamPanic(f, s, body, set, ri.Guards)
			}
			out = append(out, s)
		}
	}
	sortSites(out)
	return out, nil
}

func judgeSites(c *Ctx, r *R, which string) {
	sites, err := c.regionSites(which)
	if err != nil {
		r.undecided("region", "-", err.Error())
		return
	}
	tri, err := loadTriage("pan_sites.json")
	if err != nil {
		r.undecided("triage", "-", err.Error())
		return
	}
	used := map[string]bool{}
	for _, s := range sites {
		key := s.Key()
		if s.Why != "" {
			r.ok(key, s.Why)
			continue
		}
		t, ok := tri[key]
		if !ok {
			// a site that moved into a new helper keeps the triage of the function it was split from
			for _, alt := range c.triageAliases(s) {
				if t2, ok2 := tri[alt]; ok2 {
					t, ok, key = t2, true, alt
					break
				}
			}
		}
		if ok && t.Verdict == "safe" {
			used[key] = true
			if pok, pwhy := c.checkPremises(t.Premise); !pok {
				r.fail(key, s.Pos, fmt.Sprintf("may-panic construct %s `%s` in %s was triaged safe because: %s — but %s", s.Kind, s.Src, s.Fn, t.Reason, pwhy))
				continue
			}
			r.ok(key, "triaged safe: "+t.Reason)
			continue
		}
		where := "outside any recover() guard"
		if which == "H" {
			where = "inside a recover handler (a panic here replaces the script error by a host crash)"
		}
		r.fail(key, s.Pos, fmt.Sprintf("unconfirmed may-panic construct %s `%s` in %s, %s", s.Kind, s.Src, s.Fn, where))
	}
}

func rulePanSite(c *Ctx, r *R)    { judgeSites(c, r, "U") }
func rulePanHandler(c *Ctx, r *R) { judgeSites(c, r, "H") }

var stageRe = regexp.MustCompile(`^error in (tokenize|parse|load|compile|run)`)

func rulePanPrefix(c *Ctx, r *R) {
	for _, fn := range []string{"VM.Eval", "VM.Load"} {
		fd := c.Func(fn)
		if fd == nil {
			r.undecided(fn, "-", "not found")
			continue
		}
		// index of the error result
		nres := fd.Type.Results.NumFields()
		n := 0
		ast.Inspect(fd.Body, func(m ast.Node) bool {
			if _, ok := m.(*ast.FuncLit); ok {
				return false
			}
			rs, ok := m.(*ast.ReturnStmt)
			if !ok || len(rs.Results) != nres {
				return true
			}
			e := unparen(rs.Results[nres-1])
			if id, ok := e.(*ast.Ident); ok && id.Name == "nil" {
				return true
			}
			n++
			key := fmt.Sprintf("%s return#%d", fn, n)
			call, ok := e.(*ast.CallExpr)
			if !ok || c.CalleeName(call) != "fmt.Errorf" || len(call.Args) < 1 {
				r.fail(key, c.Pos(rs), "returns an error that is not built by fmt.Errorf with a stage prefix: "+c.Src(e))
				return true
			}
			format, ok := c.ConstString(call.Args[0])
			if !ok {
				r.fail(key, c.Pos(rs), "error format is not a constant")
				return true
			}
			if strings.HasPrefix(format, "unexpected returns") {
				r.ok(key, "documented exception: "+format)
				return true
			}
			good := stageRe.MatchString(format) && strings.Contains(format, "%w")
			// the wrapped value must be the error variable in scope
			r.check(good, key, c.Pos(rs), fmt.Sprintf("%q", format),
				fmt.Sprintf("%s returns an error formatted %q: it must start with `error in <tokenize|parse|load|compile|run>` and wrap the cause with %%w", fn, format))
			return true
		})
		if n == 0 {
			r.undecided(fn, c.Pos(fd), "no error return found")
		}
	}
	_ = types.Typ
}

// triageAliases: for a site in a function that is not part of the vocabulary (a helper
// extracted by a refactoring), the keys the site would have in each vocabulary function
// that reaches the helper through new helpers only.
func (c *Ctx) triageAliases(s *panSite) []string {
	var out []string
	fd := c.Func(s.Fn)
	if fd == nil {
		return nil
	}
	o := c.Info.Defs[fd.Name]
	if o == nil || !c.isNewHelper(o) {
		return nil
	}
	for _, name := range c.FuncNames() {
		root := c.funcs[name]
		if ro := c.Info.Defs[root.Name]; ro == nil || c.isNewHelper(ro) {
			continue
		}
		for _, h := range c.withHelpers(root)[1:] {
			if h == fd {
				out = append(out, name+"|"+s.Kind+"|"+nosp(s.Src))
			}
		}
	}
	return out
}

// PAN-CONVERT: every recover() guard turns the recovered value into the error its
// function returns: on each path of the deferred closure on which recover() yielded a
// non-nil value, the enclosing function's *named* error result (the object itself, not a
// shadowing variable of the same name) is assigned a non-nil value before the closure
// returns.  Otherwise the panic is swallowed and the caller sees (nil, nil).
func rulePanConvert(c *Ctx, r *R) {
	n := 0
	for _, name := range c.FuncNames() {
		fd := c.Func(name)
		if fd.Body == nil || fd.Type.Results == nil {
			continue
		}
		// named error results
		var errObjs []types.Object
		for _, f := range fd.Type.Results.List {
			for _, nm := range f.Names {
				if o := c.Info.Defs[nm]; o != nil && types.Identical(o.Type(), types.Universe.Lookup("error").Type()) {
					errObjs = append(errObjs, o)
				}
			}
		}
		for _, s := range fd.Body.List {
			ds, ok := s.(*ast.DeferStmt)
			if !ok {
				continue
			}
			fl, ok := ds.Call.Fun.(*ast.FuncLit)
			if !ok {
				// defer h(&err) / defer x.h(&err) with h a declared function that recovers
				if why, isGuard := c.declaredRecoverGuard(ds, errObjs); isGuard {
					n++
					r.check(why == "", "convert "+name, c.Pos(ds), "the deferred handler stores the recovered value through the pointer to the named error result", name+"'s recover guard: "+why)
				}
				continue
			}
			recovers := false
			ast.Inspect(fl.Body, func(k ast.Node) bool {
				if call, ok := k.(*ast.CallExpr); ok && c.CalleeName(call) == "builtin.recover" {
					recovers = true
				}
				return true
			})
			if !recovers {
				continue
			}
			n++
			key := "convert " + name
			if len(errObjs) == 0 {
				r.fail(key, c.Pos(ds), name+" recovers a panic but has no named error result to report it through: the panic is swallowed")
				continue
			}
			in := newInterp(c)
			in.NoLin = true
			in.Inline = c.isNewHelper
			st := newState()
			for _, o := range errObjs {
				st.Vars[o] = tVar(o, "initial:"+o.Name())
			}
			paths := in.ExecLit(fl, st, nil)
			if len(paths) == 0 || in.Overflow {
				r.undecided(key, c.Pos(ds), "the deferred closure could not be enumerated")
				continue
			}
			good, sawPanicPath := true, false
			bad := ""
			for _, p := range paths {
				cs := condStrings(p)
				// the path on which something was recovered
				if !strings.Contains(cs, "builtin.recover() != nil") {
					if strings.Contains(cs, "builtin.recover() == nil") {
						continue
					}
					// a closure that does not test the recovered value: treat every path as a panic path
				}
				sawPanicPath = true
				assigned := false
				for _, o := range errObjs {
					v := p.Vars[o]
					if v != nil && !strings.HasPrefix(v.String(), "initial:") && v.Op != "nil" {
						assigned = true
					}
				}
				if !assigned {
					good = false
					bad = cs
				}
			}
			if !sawPanicPath {
				r.undecided(key, c.Pos(ds), "no path with a non-nil recovered value was found")
				continue
			}
			r.check(good, key, c.Pos(ds), "every path with a recovered value assigns the named error result",
				name+"'s recover guard has a path ("+bad+") on which a value was recovered but the function's named error result is not assigned (an assignment to a shadowing variable of the same name does not count): the panic — e.g. an error value re-raised by a native callback or by a failed nested call — is swallowed and the caller receives a nil error")
		}
	}
	if n < 4 {
		r.undecided("convert", "-", fmt.Sprintf("only %d recover guards found (expected parse, compiler.run, VM.run, VM.Func)", n))
	}
}

// dischargeNilParamPanic: a panic that is the body of `if p == nil { .. }` for a parameter p
// (tested before p is assigned) states a precondition of the function. It cannot fire in
// the region when every call of the function made from a function of the region passes a
// value that is never nil: an allocation, or the result of a function all of whose returns
// are such values.
func (c *Ctx) dischargeNilParamPanic(f *ssa.Function, s *panSite, body ast.Node, set map[*ssa.Function]string, guards []*guardInfo) string {
	var ifs *ast.IfStmt
	child := s.Node
	for p := c.Parent(s.Node); p != nil && p != body; child, p = p, c.Parent(p) {
		if x, ok := p.(*ast.IfStmt); ok && x.Body == child {
			if ifs != nil {
				return ""
			}
			ifs = x
		}
		switch p.(type) {
		case *ast.ForStmt, *ast.RangeStmt, *ast.SwitchStmt, *ast.FuncLit, *ast.CaseClause:
			return ""
		}
	}
	if ifs == nil || ifs.Init != nil {
		return ""
	}
	be, ok := unparen(ifs.Cond).(*ast.BinaryExpr)
	if !ok || be.Op != token.EQL || !isIdent(be.Y, "nil") {
		return ""
	}
	id, ok := unparen(be.X).(*ast.Ident)
	if !ok {
		return ""
	}
	o := c.Obj(id)
	idx := -1
	for i, p := range f.Params {
		if p.Object() == o {
			idx = i
		}
	}
	if idx < 0 || c.assignedBefore(body, id.Name, ifs) {
		return ""
	}
	node := c.CallGraph().Nodes[f]
	if node == nil {
		return ""
	}
	n := 0
	for _, e := range node.In {
		if _, in := set[e.Caller.Func]; !in {
			continue
		}
		if e.Site == nil {
			return ""
		}
		// a call under the caller's own recover guard is not a call from the region
		underGuard := false
		for _, g := range guards {
			if g.Fn == e.Caller.Func {
				b := e.Site.Block()
				for i, in := range b.Instrs {
					if in == ssa.Instruction(e.Site) && guardedAt(g, b, i) {
						underGuard = true
					}
				}
			}
		}
		if underGuard {
			continue
		}
		args := e.Site.Common().Args
		if e.Site.Common().IsInvoke() || len(args) != len(f.Params) {
			return ""
		}
		if !neverNil(args[idx], 0) {
			if os.Getenv("GOATCHECK_DEBUG") != "" {
				fmt.Fprintf(os.Stderr, "nil-precondition: %s called from %s with %T %s\n", f.Name(), e.Caller.Func.Name(), args[idx], args[idx])
			}
			return ""
		}
		n++
	}
	return fmt.Sprintf("precondition %s != nil: each of the %d calls made from the region passes a fresh allocation", id.Name, n)
}

// neverNil: the SSA value is an allocation, or comes only from allocations.
func neverNil(v ssa.Value, depth int) bool {
	if depth > 4 {
		return false
	}
	switch x := v.(type) {
	case *ssa.Alloc:
		return true
	case *ssa.MakeMap, *ssa.MakeSlice, *ssa.MakeClosure, *ssa.Function:
		return true
	case *ssa.Phi:
		for _, e := range x.Edges {
			if !neverNil(e, depth+1) {
				return false
			}
		}
		return true
	case *ssa.Call:
		g := x.Common().StaticCallee()
		if g == nil || g.Blocks == nil || g.Signature.Results().Len() != 1 {
			return false
		}
		rets := 0
		for _, b := range g.Blocks {
			for _, in := range b.Instrs {
				if r, ok := in.(*ssa.Return); ok {
					rets++
					if len(r.Results) != 1 || !neverNil(r.Results[0], depth+1) {
						return false
					}
				}
			}
		}
		return rets > 0
	}
	return false
}

// declaredRecoverGuard: `defer h(.., &err, ..)` where h is a declared function whose body
// calls recover(): every path of h with a recovered value stores a non-nil value through the
// parameter that receives &err (err a named error result of the deferring function).
func (c *Ctx) declaredRecoverGuard(ds *ast.DeferStmt, errObjs []types.Object) (string, bool) {
	h := c.DeclOf(c.Callee(ds.Call))
	if h == nil || h.Body == nil {
		return "", false
	}
	recovers := false
	ast.Inspect(h.Body, func(k ast.Node) bool {
		if call, ok := k.(*ast.CallExpr); ok && c.CalleeName(call) == "builtin.recover" {
			recovers = true
		}
		return true
	})
	if !recovers {
		return "", false
	}
	// which parameter receives the address of a named error result
	var params []types.Object
	for _, f := range h.Type.Params.List {
		for _, nm := range f.Names {
			params = append(params, c.Info.Defs[nm])
		}
	}
	var target types.Object
	for i, a := range ds.Call.Args {
		if u, ok := unparen(a).(*ast.UnaryExpr); ok && u.Op == token.AND {
			if id, ok := unparen(u.X).(*ast.Ident); ok {
				for _, eo := range errObjs {
					if c.Obj(id) == eo && i < len(params) {
						target = params[i]
					}
				}
			}
		}
	}
	if target == nil {
		return "the deferred handler " + h.Name.Name + " recovers a panic but is not given the address of a named error result: the panic is swallowed", true
	}
	in := newInterp(c)
	in.NoLin = true
	in.Inline = c.isNewHelper
	paths := in.ExecFunc(h, nil)
	if len(paths) == 0 || in.Overflow {
		return "the deferred handler " + h.Name.Name + " could not be enumerated", true
	}
	saw := false
	for _, p := range paths {
		cs := condStrings(p)
		if !strings.Contains(cs, "builtin.recover() != nil") {
			if strings.Contains(cs, "builtin.recover() == nil") {
				continue
			}
		}
		saw = true
		stored := false
		for _, e := range p.Eff {
			if e.Kind == "store" && e.Target != nil && e.Target.Op == "deref" && len(e.Target.Args) == 1 && e.Target.Args[0].Op == "var" && e.Target.Args[0].Name == target.Name() && e.Value != nil && e.Value.Op != "nil" {
				stored = true
			}
		}
		if !stored {
			return "the deferred handler " + h.Name.Name + " has a path (" + cs + ") on which a value was recovered but nothing is stored through " + target.Name() + ": the panic is swallowed and the caller receives a nil error", true
		}
	}
	if !saw {
		return "no path of " + h.Name.Name + " with a non-nil recovered value was found", true
	}
	return "", true
}
