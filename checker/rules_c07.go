package main

// C07 — statements are stack-neutral and call frames are isolated on every path.
// C09 — calls deliver arguments and results in order and with declared types.
// (frame / protocol clauses; general stack-neutrality of emitted code is not decided)

import (
	"fmt"
	"go/ast"
	"go/token"
	"go/types"
	"os"
	"sort"
	"strings"
)

func init() {
	register(&propDef{
		ID:          "C07",
		Explanation: "Five frame/protocol clauses are decided. PAR-ROLE: the parser's zero-results protocol — symbolic paths through parse/Block/getCase/forNud/ifNud/switchNud give, for every parsed child, its grammar slot (counted by the `;`/`case` delimiters consumed before it); SimpleStmt slots (top-level and block statements, for-init, for-post, if-init) must pass through the statement patch (a bare call requests 0 results) and expression slots (conditions, range operands, switch tag, case expressions) must not. HND-LOCALBASE: every access to v.stack in exec is top-relative (len(v.stack)-k) or frame-relative (baseN+operand), never absolute. FRM-ADDR: wherever compile chooses between a local and a global opcode, the opcode and the index come from the same table on every path (path-sensitive symbolic execution). FRM-SLOTS: the slot count in FUNC.B and returned by compiler.run is read from Locals.Cap() after the body was compiled. FRM-PAIR: in mkFunc's closure the previous frame is saved before the switch and restored after exec, the backtrace is pushed before and popped after, BaseN = len(stack)-args is taken before locals are appended, topN-BaseN equals the recorded slot count and the result splice keeps stack[:BaseN]. HND-FIELDS: every operand field a handler reads is set by some emitter of that opcode, and a field is unpacked with splitParams iff every emitter packs it with joinParams. LAY-DEPTH: effect typing of the emitter — handler net effects on len(v.stack) as linear forms over the operands, compile-cases laid out symbolically, child positions typed by the grammar table (value / statement / as-many-as-targets), the net effect of every emitted sequence equals the effect of its node kind on every path, jump source and target depths agree, emitter loops contribute per-iteration effect times trip count, toData leaves one value per literal. PAR-GLOBALIDX, FRM-PARAMSLOT, LAY-EVALORDER, FRM-REDEFINE: see DESIGN.md. Not decided: `return` and the FUNC body (other rules), values.",
		Assumptions: []string{"grammar slots: for [init; cond; post], if [init; cond], switch [tag] { case exprs: }", "well-typed scripts supply matching value/target counts"},
		Quick: []ruleDef{
			{"PAR-ROLE", 8, ruleParRole},
			{"HND-LOCALBASE", 97, ruleHndLocalBase},
			{"FRM-ADDR", 14, ruleFrmAddr},
			{"FRM-SLOTS", 2, ruleFrmSlots},
			{"FRM-PAIR", 6, ruleFrmPair},
			{"HND-FIELDS", 60, ruleHndFields},
			{"PAR-RESIZE", 5, ruleParResize},
			{"INS-PATCH", 3, ruleInsPatch},
			{"PAR-GLOBALIDX", 3, ruleParGlobalIdx},
			{"LAY-DEPTH", 54, ruleLayDepth},
		},
	})
	register(&propDef{
		ID:          "C09",
		Explanation: "Structure of the call protocol. FRM-INVOKE: the field funcT.Value is invoked only in callReady and in newMethod's closure, and every exec handler that calls a script function reaches it through call/callReady, so the argument-count check cannot be bypassed. FRM-CHECKS: in callReady the xArgs != ft.Args check precedes the invocation on every path, and after it fewer results than requested panic and more are truncated to exactly top+xRets (length model). FRM-VARIADIC: in `call` the non-variadic path goes straight to callReady; on the variadic path surplus arguments are copied into a fresh slice, the stack shrinks by exactly that many plus one slot for the slice, and the count handed to callReady is linearly equal to ft.Args. LAY-FUNC: writer/reader agreement on the FUNC block — the compiler emits [FUNC A=join(args,rets) B=slots C=len(block)][one TYPE per argument][one TYPE per result][block]; exec takes codes[N+1 : N+1+|args|+rets+C] and skips the same amount; mkFunc types argument i with tokens[i], result i with tokens[args+i] and runs tokens[args+rets:]; a variadic function is a negative argument count on both sides. FRM-METHOD: newMethod copies the arguments, inserts the receiver below them and invokes the function. REP-TYPEDSTORE (shared with C04): parameters and results are converted with assign to their declared types. Not decided: values at depth, recursion depth.",
		Assumptions: []string{"splitParams inverts joinParams on 16-bit operands (rule JOINSPLIT of C02)"},
		Quick: []ruleDef{
			{"FRM-INVOKE", 5, ruleFrmInvoke},
			{"FRM-CHECKS", 3, ruleFrmChecks},
			{"FRM-VARIADIC", 4, ruleFrmVariadic},
			{"LAY-FUNC", 8, ruleLayFunc},
			{"FRM-METHOD", 3, ruleFrmMethod},
			{"PAR-RESULTTYPE", 1, ruleParResultType},
			{"FRM-REDEFINE", 3, ruleFrmRedefine},
			{"FRM-PARAMSLOT", 1, ruleFrmParamSlot},
			{"LAY-EVALORDER", 1, ruleLayEvalOrder},
			{"REP-TYPEDSTORE", 9, ruleRepTypedStore},
			{"JOINSPLIT", 100, ruleJoinSplit},
		},
	})
}

// ---- PAR-ROLE ----

// zeroPatchers: functions that apply the statement patch (Tokens[2].Text = "0" under Symbol == "call"),
// directly or by returning the result of such a function.
func (c *Ctx) zeroPatchers() map[types.Object]bool {
	out := map[types.Object]bool{}
	for _, name := range c.FuncNames() {
		fd := c.funcs[name]
		if fd.Body == nil {
			continue
		}
		ast.Inspect(fd.Body, func(n ast.Node) bool {
			as, ok := n.(*ast.AssignStmt)
			if !ok || len(as.Lhs) != 1 || len(as.Rhs) != 1 {
				return true
			}
			if s, ok := c.ConstString(as.Rhs[0]); !ok || s != "0" {
				return true
			}
			if strings.HasSuffix(nosp(c.Src(as.Lhs[0])), ".Tokens[2].Text") {
				out[c.Info.Defs[fd.Name]] = true
			}
			return true
		})
	}
	// wrappers: return P(...) with P a patcher
	for changed := true; changed; {
		changed = false
		for _, name := range c.FuncNames() {
			fd := c.funcs[name]
			o := c.Info.Defs[fd.Name]
			if fd.Body == nil || out[o] {
				continue
			}
			ast.Inspect(fd.Body, func(n ast.Node) bool {
				if rs, ok := n.(*ast.ReturnStmt); ok && len(rs.Results) == 1 {
					if call, ok := unparen(rs.Results[0]).(*ast.CallExpr); ok && out[c.Callee(call)] {
						out[o] = true
						changed = true
					}
				}
				return true
			})
		}
	}
	return out
}

type roleSlot struct {
	Fn, Slot string
	Stmt     bool // the grammar slot is a SimpleStmt / Statement
	Patched  bool // the appended child went through the statement patch
	Term     string
	Node     ast.Node
}

// parseSlots runs a parser function (loop bodies once) and classifies every appended parse result.
func (c *Ctx) parseSlots(fn string, slotOf func(semis, cases int, isFirst bool, path []string) (string, bool)) ([]roleSlot, []string) {
	root := c.Func(fn)
	if root == nil {
		return nil, []string{fn + " not found"}
	}
	// the function and the new helpers it was split into are each analysed with the same slot table
	var all []roleSlot
	var problems []string
	for _, fd := range c.withHelpers(root) {
		s, p := c.parseSlotsOf(fn, fd, slotOf)
		all = append(all, s...)
		problems = append(problems, p...)
	}
	return all, problems
}

func (c *Ctx) parseSlotsOf(fn string, fd *ast.FuncDecl, slotOf func(semis, cases int, isFirst bool, path []string) (string, bool)) ([]roleSlot, []string) {
	patch := c.zeroPatchers()
	in := newInterp(c)
	in.NoReturn = func(o types.Object) bool { return c.noReturnFuncs()[o] }
	in.Inline = c.isNewHelper
	// the parser moves on: p.Token read after a parse call is not the p.Token read before it
	// (without this a second `if p.Token.Symbol == "{"` contradicts the first and its branch —
	// the `for cond {` form — is never analysed)
	in.H.Post = func(in *Interp, st *State, e ast.Expr, t *T) *T {
		if t.Op == "field" && t.Name == "Token" && len(t.Args) == 1 && t.Args[0].Op == "var" {
			epoch := 0
			for _, ef := range st.Eff {
				if ef.Kind == "call" && ef.Value != nil && strings.HasPrefix(ef.Value.Name, "parser.") {
					epoch++
				}
			}
			if epoch > 0 {
				return &T{Op: "field", Name: fmt.Sprintf("Token@%d", epoch), Args: t.Args}
			}
		}
		return nil
	}
	in.H.Loop = func(in *Interp, st *State, s ast.Stmt) []*State {
		var body *ast.BlockStmt
		switch l := s.(type) {
		case *ast.ForStmt:
			body = l.Body
		case *ast.RangeStmt:
			return nil
		}
		res := in.execStmts(body.List, []*State{st})
		for _, r := range res {
			if r.Done == "break" || r.Done == "continue" {
				r.Done = ""
			}
		}
		return res
	}
	paths := in.ExecFunc(fd, nil)
	if os.Getenv("GOATCHECK_DEBUG") == fn {
		for _, p := range paths {
			fmt.Fprintln(os.Stderr, "SLOTPATH", condStrings(p))
		}
	}
	var out []roleSlot
	var problems []string
	if in.Overflow {
		problems = append(problems, "path overflow in "+fn)
	}
	isPatched := func(t *T) bool {
		for t != nil && t.Op == "call" {
			if fo, ok := t.Obj.(*types.Func); ok && patch[fo] {
				return true
			}
			return false
		}
		return false
	}
	isParse := func(t *T) bool {
		found := false
		walkT(t, func(x *T) {
			if x.Op == "call" && (x.Name == "parser.Expression" || x.Name == "parser.Statement" || x.Name == "parser.doExpression") {
				found = true
			}
		})
		return found
	}
	seen := map[string]bool{}
	for _, p := range paths {
		semis, cases := 0, 0
		var trail []string
		nParse := 0
		for _, e := range p.Eff {
			if e.Kind != "call" || e.Value == nil {
				continue
			}
			t := e.Value
			switch t.Name {
			case "parser.Advance":
				if len(t.Args) == 2 && t.Args[1].Op == "str" {
					trail = append(trail, t.Args[1].Name)
					switch t.Args[1].Name {
					case ";":
						semis++
					case "case":
						cases++
					}
				}
			case "token.Append":
				if len(t.Args) != 2 || !isParse(t.Args[1]) {
					continue
				}
				nParse++
				// how many `;` follow on this path decides for/if header roles: count all semis on the path
				total := 0
				for _, e2 := range p.Eff {
					if e2.Kind == "call" && e2.Value != nil && e2.Value.Name == "parser.Advance" && len(e2.Value.Args) == 2 && e2.Value.Args[1].Op == "str" && e2.Value.Args[1].Name == ";" {
						total++
					}
				}
				slot, isStmt := slotOf(semis, cases, nParse == 1, []string{fmt.Sprint(total)})
				key := fn + "/" + slot
				rs := roleSlot{Fn: fn, Slot: slot, Stmt: isStmt, Patched: isPatched(t.Args[1]), Term: t.Args[1].String(), Node: e.Node}
				k2 := key + fmt.Sprint(rs.Patched)
				if !seen[k2] {
					seen[k2] = true
					out = append(out, rs)
				}
			}
		}
	}
	return out, problems
}

func ruleParRole(c *Ctx, r *R) {
	if len(c.zeroPatchers()) == 0 {
		r.undecided("patch", "-", "no function applies the statement patch (a bare call requests zero results)")
		return
	}
	type spec struct {
		fn   string
		slot func(semis, cases int, first bool, extra []string) (string, bool)
	}
	specs := []spec{
		{"parse", func(s, cs int, f bool, x []string) (string, bool) { return "top-level statement", true }},
		{"parser.Block", func(s, cs int, f bool, x []string) (string, bool) { return "block statement", true }},
		{"getCase", func(s, cs int, f bool, x []string) (string, bool) { return "case-body statement", true }},
		{"forNud", func(s, cs int, f bool, x []string) (string, bool) {
			if x[0] == "0" {
				return "condition / range operand (no `;` in the header)", false
			}
			switch s {
			case 0:
				return "init statement (before the first `;`)", true
			case 1:
				return "condition (between the `;`s)", false
			}
			return "post statement (after the second `;`)", true
		}},
		{"ifNud", func(s, cs int, f bool, x []string) (string, bool) {
			if x[0] == "0" {
				return "condition (no `;` in the header)", false
			}
			if s == 0 {
				return "init statement (before the `;`)", true
			}
			return "condition (after the `;`)", false
		}},
		{"switchNud", func(s, cs int, f bool, x []string) (string, bool) {
			if cs == 0 {
				return "switch tag", false
			}
			return "case expression", false
		}},
	}
	for _, sp := range specs {
		slots, problems := c.parseSlots(sp.fn, sp.slot)
		for _, p := range problems {
			r.undecided(sp.fn, "-", p)
		}
		if len(slots) == 0 {
			r.undecided(sp.fn, "-", "no parsed child found in "+sp.fn)
			continue
		}
		// every grammar slot of the construct has been seen: a slot whose parse sits where the
		// analysis cannot follow it (an unbounded loop, a table) would otherwise go unjudged
		required := map[string][]string{
			"forNud":    {"init statement (before the first `;`)", "condition (between the `;`s)", "post statement (after the second `;`)", "condition / range operand (no `;` in the header)"},
			"ifNud":     {"init statement (before the `;`)", "condition (after the `;`)", "condition (no `;` in the header)"},
			"switchNud": {"switch tag"},
		}
		for _, want := range required[sp.fn] {
			seen := false
			for _, s := range slots {
				if s.Slot == want {
					seen = true
				}
			}
			if !seen {
				r.undecided(sp.fn+": "+want, c.Pos(c.Func(sp.fn)), "no parse of this slot was found on any analysed path of "+sp.fn+" (parsed inside a loop or through a table the analysis cannot follow): whether it goes through the statement patch is not decided")
			}
		}
		for _, s := range slots {
			key := s.Fn + ": " + s.Slot
			if s.Stmt {
				r.check(s.Patched, key, c.Pos(s.Node), "statement slot goes through the zero-results patch",
					fmt.Sprintf("%s appends its %s as `%s` without the statement patch: a call in that position keeps one result on the operand stack (e.g. `for inc(); ...; inc() {}` leaks a value per iteration)", s.Fn, s.Slot, s.Term))
			} else {
				r.check(!s.Patched, key, c.Pos(s.Node), "expression slot keeps its one result",
					fmt.Sprintf("%s parses its %s with the statement rule (`%s`): a call there requests 0 results, so the value the construct needs is missing and the branch pops a local slot", s.Fn, s.Slot, s.Term))
			}
		}
	}
}

// ---- HND-LOCALBASE ----

func ruleHndLocalBase(c *Ctx, r *R) {
	ex, err := c.execSwitch()
	if err != nil {
		r.undecided("exec", "-", err.Error())
		return
	}
	recv := ex.Fn.Recv.List[0].Names[0].Name
	isStack := func(e ast.Expr) bool {
		sel, ok := unparen(e).(*ast.SelectorExpr)
		if !ok || sel.Sel.Name != "stack" {
			return false
		}
		id, ok := unparen(sel.X).(*ast.Ident)
		return ok && id.Name == recv
	}
	// an index is fine when it mentions len(v.stack) or baseN
	var mentions func(e ast.Expr) (top, base bool)
	depth := 0
	mentions = func(e ast.Expr) (top, base bool) {
		ast.Inspect(e, func(n ast.Node) bool {
			switch x := n.(type) {
			case *ast.Ident:
				if x.Name == "baseN" {
					base = true
					return true
				}
				// a local that was assigned a stack-relative expression
				if v, ok := c.Obj(x).(*types.Var); ok && !v.IsField() && depth < 3 {
					ast.Inspect(ex.Fn.Body, func(k ast.Node) bool {
						if as, ok := k.(*ast.AssignStmt); ok {
							for i, l := range as.Lhs {
								if lid, ok := l.(*ast.Ident); ok && c.Info.Defs[lid] == types.Object(v) && i < len(as.Rhs) {
									depth++
									t2, b2 := mentions(as.Rhs[i])
									depth--
									top, base = top || t2, base || b2
								}
							}
						}
						return true
					})
				}
				return true
			case *ast.CallExpr:
				if c.CalleeName(x) == "builtin.len" && len(x.Args) == 1 && isStack(x.Args[0]) {
					top = true
				}
			case *ast.SelectorExpr:
				if x.Sel.Name == "BaseN" {
					base = true
				}
			}
			return true
		})
		return
	}
	for _, sc := range ex.Cases {
		label := strings.Join(sc.Labels, ",")
		n := 0
		ast.Inspect(sc.Clause, func(m ast.Node) bool {
			var idx []ast.Expr
			switch x := m.(type) {
			case *ast.IndexExpr:
				if isStack(x.X) {
					idx = []ast.Expr{x.Index}
				}
			case *ast.SliceExpr:
				if isStack(x.X) {
					for _, e := range []ast.Expr{x.Low, x.High, x.Max} {
						if e != nil {
							idx = append(idx, e)
						}
					}
				}
			}
			for _, e := range idx {
				n++
				top, base := mentions(e)
				key := fmt.Sprintf("%s v.stack[%s]", label, nosp(c.Src(e)))
				r.check(top || base, key, c.Pos(e), "top- or frame-relative",
					fmt.Sprintf("the handler of %s addresses the operand stack absolutely (%s): it reads or writes slots of another frame", label, c.Src(e)))
			}
			return true
		})
		if n == 0 {
			r.ok(label+" (no stack access)", "touches no stack slot")
		}
	}
}

// ---- FRM-ADDR ----

var localOps = map[string]bool{"LocalGet": true, "LocalSet": true, "LocalZero": true}
var globalOps = map[string]bool{"GlobalGet": true, "GlobalSet": true, "GlobalZero": true, "GlobalFunc": true, "GlobalStruct": true, "Const": true, "GlobalRef": true}

func ruleFrmAddr(c *Ctx, r *R) {
	cs, err := c.compileSwitch()
	if err != nil {
		r.undecided("compile", "-", err.Error())
		return
	}
	labels := []string{"++", "+=", "=", ":=", "const", "(name)", "range", "switch", "function", "method", "type", "true", "(string)", "(float)"}
	for _, lb := range labels {
		sc := cs.ByLabel[lb]
		if sc == nil {
			continue
		}
		m := newLayMachine(c)
		cl, err := m.runCase(cs, lb)
		if err != nil {
			r.undecided(lb, c.Pos(sc.Clause), err.Error())
			continue
		}
		var all []*atom
		for _, p := range cl.Paths {
			all = append(all, p.Atoms...)
		}
		for _, it := range cl.Iters {
			for _, ex := range it.Exits {
				all = append(all, ex.Atoms...)
			}
		}
		seen := map[string]bool{}
		for _, a := range all {
			if a.Seg != nil || a.Ins == nil || a.Ins.Op != "lit" {
				continue
			}
			op := opName(a.Ins)
			if !localOps[op] && !globalOps[op] {
				continue
			}
			av := litField(a.Ins, "A")
			if av == nil {
				continue
			}
			// which table produced the index?
			tables := map[string]bool{}
			walkT(av, func(x *T) {
				if x.Op != "call" {
					return
				}
				switch x.Name {
				case "lookup.Index", "lookup.Shadow":
					if len(x.Args) > 0 {
						tables[x.Args[0].String()] = true
					}
				case "compiler.Shadow":
					tables["c.Locals"] = true
				}
			})
			if len(tables) == 0 {
				continue // e.g. an index carried in a variable from another instruction
			}
			var ts []string
			for t := range tables {
				ts = append(ts, t)
			}
			sort.Strings(ts)
			key := fmt.Sprintf("%s %s <- %s", lb, op, strings.Join(ts, "+"))
			if seen[key] {
				continue
			}
			seen[key] = true
			want := "c.Globals"
			if localOps[op] {
				want = "c.Locals"
			}
			r.check(len(ts) == 1 && ts[0] == want, key, c.Pos(a.Node), "opcode and index agree",
				fmt.Sprintf("compile(%q) can emit %s with an index taken from %s: the instruction addresses the wrong table (a local opcode with a global index, or vice versa) on some path", lb, op, strings.Join(ts, "+")))
		}
	}
}

// ---- FRM-SLOTS ----

func ruleFrmSlots(c *Ctx, r *R) {
	cs, err := c.compileSwitch()
	if err != nil {
		r.undecided("compile", "-", err.Error())
		return
	}
	check := func(key string, scope ast.Node, compileCall func(*ast.CallExpr) bool) {
		var capPos, bodyPos ast.Node
		ast.Inspect(scope, func(n ast.Node) bool {
			call, ok := n.(*ast.CallExpr)
			if !ok {
				return true
			}
			if c.CalleeName(call) == "lookup.Cap" && capPos == nil {
				capPos = call
			}
			if compileCall(call) {
				bodyPos = call
			}
			return true
		})
		if capPos == nil || bodyPos == nil {
			r.undecided(key, c.Pos(scope), "slot count is not read from Locals.Cap() next to the body's compilation")
			return
		}
		r.check(capPos.Pos() > bodyPos.End(), key, c.Pos(capPos), "Locals.Cap() is read after the body is compiled",
			"the slot count is read from Locals.Cap() before the body has been compiled: locals declared in the body get no slot and overwrite the caller's operands")
	}
	if sc := cs.ByLabel["func"]; sc != nil {
		check("FUNC.B", sc.Clause, func(call *ast.CallExpr) bool {
			return c.CalleeName(call) == "compiler.compile" && strings.Contains(c.Src(call.Args[0]), "funcBlock")
		})
	} else {
		r.undecided("FUNC.B", "-", "no func case")
	}
	if fd := c.Func("compiler.run"); fd != nil {
		check("run slots", fd.Body, func(call *ast.CallExpr) bool { return c.CalleeName(call) == "compiler.compileAll" })
	} else {
		r.undecided("run slots", "-", "compiler.run not found")
	}
}

// ---- FRM-PAIR ----

// mkFuncClosure executes mkFunc up to its return and then the returned closure with the length model.
func (c *Ctx) mkFuncClosure() (*lenMachine, []*State, *ast.FuncLit, error) {
	fd := c.Func("mkFunc")
	if fd == nil {
		return nil, nil, nil, fmt.Errorf("mkFunc not found")
	}
	m := newLenMachine(c, "v")
	outer := m.in.ExecFunc(fd, nil)
	if len(outer) != 1 || len(outer[0].Ret) != 1 || outer[0].Ret[0].Op != "func" {
		return nil, nil, nil, fmt.Errorf("mkFunc does not return a single function literal")
	}
	fl := outer[0].Ret[0].Aux.(*ast.FuncLit)
	st := outer[0].Clone()
	st.Done, st.Ret = "", nil
	st.Eff = nil
	st.X = nil
	pname := fl.Type.Params.List[0].Names[0].Name
	m.vmVars = map[string]bool{"v": true}
	res := m.in.ExecLit(fl, st, map[string]*T{pname: tVar(nil, "v")})
	return m, res, fl, nil
}

func ruleFrmPair(c *Ctx, r *R) {
	m, paths, fl, err := c.mkFuncClosure()
	if err != nil {
		r.undecided("mkFunc", "-", err.Error())
		return
	}
	_ = m
	pos := c.Pos(fl)
	// the slots of a new frame are fresh zero Values: the stack grows by append only.  Re-slicing
	// it upwards into spare capacity exposes whatever an earlier, deeper call left there.
	grows := ""
	ast.Inspect(fl.Body, func(n ast.Node) bool {
		se, ok := n.(*ast.SliceExpr)
		if !ok || se.High == nil || !strings.HasSuffix(nosp(c.Src(se.X)), ".stack") {
			return true
		}
		hi := nosp(c.Src(se.High))
		if id, ok := unparen(se.High).(*ast.Ident); ok {
			if def := c.singleDef(id); def != nil {
				hi = nosp(c.Src(def))
			}
		}
		base := nosp(c.Src(se.X))
		if strings.Contains(hi, "len("+base+")+") || strings.Contains(hi, "cap("+base+")") {
			grows = c.Pos(se)
		}
		return true
	})
	r.check(grows == "", "frame-zeroed", pos, "the stack grows by appending zero values only", "mkFunc extends the operand stack by re-slicing it into its spare capacity (at "+grows+") instead of appending fresh zero Values: the locals of the new frame start with whatever a previous call left there — `n := 7; n / 2` is 3.5 after an unrelated call left a float64 in that slot (assign converts to the slot's old type)")
	if len(paths) != 1 {
		r.undecided("mkFunc", pos, fmt.Sprintf("the frame closure has %d paths; expected straight-line code", len(paths)))
		return
	}
	p := paths[0]
	// ordered events
	var ev []string
	for _, e := range p.Eff {
		switch e.Kind {
		case "store":
			ev = append(ev, "store "+e.Target.String()+" = "+e.Value.String())
		case "call":
			ev = append(ev, "call "+e.Value.Name)
		case "stack":
			ev = append(ev, "stack "+e.Value.Name)
		case "loop":
			ev = append(ev, "loop")
		}
	}
	idx := func(pred func(string) bool) int {
		for i, s := range ev {
			if pred(s) {
				return i
			}
		}
		return -1
	}
	has := func(sub ...string) func(string) bool {
		return func(s string) bool {
			for _, x := range sub {
				if !strings.Contains(s, x) {
					return false
				}
			}
			return true
		}
	}
	push := idx(has("store v.backtrace = ", "append("))
	sw := idx(has("store v.frame = frame{"))
	exec := idx(has("call VM.exec"))
	restore := -1
	pop := -1
	for i, s := range ev {
		if i > exec && strings.HasPrefix(s, "store v.frame = ") && !strings.Contains(s, "frame{") {
			restore = i
		}
		if i > exec && strings.HasPrefix(s, "store v.backtrace = ") && strings.Contains(s, "[_:") {
			pop = i
		}
	}
	r.check(push >= 0 && sw >= 0 && push < sw, "backtrace-push", pos, "call-site position pushed before the frame switch",
		"mkFunc does not push the caller's position on the backtrace before switching frames: the pushed position would be the callee's")
	r.check(exec > sw && sw >= 0, "exec-after-switch", pos, "body runs in the new frame", "mkFunc runs the body before installing the callee's frame")
	// restore value must be the frame saved before the switch
	savedOK := false
	if restore >= 0 {
		s := ev[restore]
		// the saved term is the initial value of v.frame, i.e. the plain field term
		savedOK = strings.HasSuffix(s, "= v.frame")
	}
	r.check(restore > exec && savedOK, "frame-restore", pos, "v.frame = <frame saved before the switch> after exec",
		"mkFunc does not restore the caller's frame (saved before the switch) after the body ran: the caller continues with the callee's code/base")
	r.check(pop > exec, "backtrace-pop", pos, "backtrace popped after exec", "mkFunc does not pop the backtrace after the body ran")
	// BaseN and topN
	var frameLit *T
	for _, e := range p.Eff {
		if e.Kind == "store" && e.Target.String() == "v.frame" && e.Value.Op == "lit" {
			frameLit = e.Value
		}
	}
	if frameLit == nil {
		r.undecided("BaseN", pos, "no frame literal assigned to v.frame")
		return
	}
	base := linOf(litField(frameLit, "BaseN"))
	r.check(base.String() == "<+L -args>", "BaseN", pos, "BaseN = len(stack) - args at entry",
		"the callee's BaseN is "+base.String()+", not len(stack)-args taken before the locals are appended: parameters and locals are addressed in the wrong slots")
	// the splice after exec: append(v.stack[:BaseN], v.stack[topN:]...)
	splice := ""
	for i, s := range ev {
		if i > exec && strings.HasPrefix(s, "stack len=") {
			splice = s
			break
		}
	}
	okSplice := false
	if splice != "" {
		// len after splice = BaseN + (L1 - topN) with BaseN = L-args and topN = L-args+slots  =>  L1 - slots
		okSplice = strings.Contains(splice, "len=<+L1 -slots>")
	}
	r.check(okSplice, "result-splice", pos, "after exec the frame (exactly `slots` entries above BaseN) is removed and the results kept: len = len' - slots",
		"the result splice after exec does not remove exactly the frame's `slots` entries above BaseN ("+splice+"): results land in the wrong place or the caller's operands are lost")
}

// ---- HND-FIELDS ----

func ruleHndFields(c *Ctx, r *R) {
	m, err := newHndMachine(c)
	if err != nil {
		r.undecided("exec", "-", err.Error())
		return
	}
	// emitters: fields set per opcode, and which are packed
	type emit struct {
		set    map[string]bool
		packed map[string]int // field -> number of emitters packing it
		n      int
		nSet   map[string]int
	}
	em := map[string]*emit{}
	get := func(op string) *emit {
		if em[op] == nil {
			em[op] = &emit{set: map[string]bool{}, packed: map[string]int{}, nSet: map[string]int{}}
		}
		return em[op]
	}
	mapVals := func(name string) []string {
		var out []string
		vals, _ := c.stringKeyed(c.mapLit(name))
		for _, v := range vals {
			if n := c.codeConstName(v); n != "" {
				out = append(out, n)
			}
		}
		return out
	}
	for _, f := range c.Pkg.Syntax {
		ast.Inspect(f, func(n ast.Node) bool {
			cl, ok := n.(*ast.CompositeLit)
			if !ok || !isNamed(c.TypeOf(cl), "instruction") {
				return true
			}
			var codes []string
			fields := map[string]ast.Expr{}
			for _, el := range cl.Elts {
				kv, ok := el.(*ast.KeyValueExpr)
				if !ok {
					continue
				}
				k := types.ExprString(kv.Key)
				if k == "Code" {
					v := unparen(kv.Value)
					if nm := c.codeConstName(v); nm != "" {
						codes = []string{nm}
					} else if id, ok := v.(*ast.Ident); ok {
						// a variable: every code constant assigned to it in the enclosing function
						if fd := c.EnclosingFunc(cl); fd != nil {
							o := c.Obj(id)
							ast.Inspect(fd.Body, func(m ast.Node) bool {
								if as, ok := m.(*ast.AssignStmt); ok {
									for i, l := range as.Lhs {
										if lid, ok := l.(*ast.Ident); ok && (c.Info.Defs[lid] == o || c.Info.Uses[lid] == o) && i < len(as.Rhs) {
											if nm := c.codeConstName(as.Rhs[i]); nm != "" {
												codes = append(codes, nm)
											} else if ix, ok := unparen(as.Rhs[i]).(*ast.IndexExpr); ok {
												if mid, ok := unparen(ix.X).(*ast.Ident); ok {
													codes = append(codes, mapVals(mid.Name)...)
												}
											}
										}
									}
								}
								return true
							})
						}
					} else if ix, ok := v.(*ast.IndexExpr); ok {
						if mid, ok := unparen(ix.X).(*ast.Ident); ok {
							codes = mapVals(mid.Name)
						}
					}
				} else {
					fields[k] = kv.Value
				}
			}
			// ins := instruction{...}; ins.C = ... — fields added to the literal before it is appended
			if as, ok := c.Parent(cl).(*ast.AssignStmt); ok && len(as.Lhs) == 1 {
				if id, ok := as.Lhs[0].(*ast.Ident); ok {
					o := c.Obj(id)
					if fd := c.EnclosingFunc(cl); fd != nil && o != nil {
						ast.Inspect(fd.Body, func(m ast.Node) bool {
							as2, ok := m.(*ast.AssignStmt)
							if !ok {
								return true
							}
							for i, l := range as2.Lhs {
								sel, ok := unparen(l).(*ast.SelectorExpr)
								if !ok {
									continue
								}
								bid, ok := unparen(sel.X).(*ast.Ident)
								if !ok || c.Obj(bid) != o || i >= len(as2.Rhs) {
									continue
								}
								ops := codes
								// restricted by an enclosing `if <x> == codeName`
								for p := c.Parent(as2); p != nil && p != ast.Node(fd); p = c.Parent(p) {
									if ifs, ok := p.(*ast.IfStmt); ok {
										if be, ok := unparen(ifs.Cond).(*ast.BinaryExpr); ok && be.Op == token.EQL {
											if nm := c.codeConstName(be.Y); nm != "" {
												ops = []string{nm}
											} else if nm := c.codeConstName(be.X); nm != "" {
												ops = []string{nm}
											}
										}
									}
								}
								for _, op := range ops {
									e := get(op)
									e.set[sel.Sel.Name] = true
									e.nSet[sel.Sel.Name]++
									if call, ok := unparen(as2.Rhs[i]).(*ast.CallExpr); ok && c.CalleeName(call) == "joinParams" {
										e.packed[sel.Sel.Name]++
									}
								}
							}
							return true
						})
					}
				}
			}
			for _, op := range codes {
				e := get(op)
				e.n++
				for k, v := range fields {
					e.set[k] = true
					e.nSet[k]++
					if call, ok := unparen(v).(*ast.CallExpr); ok && c.CalleeName(call) == "joinParams" {
						e.packed[k]++
					}
				}
			}
			return true
		})
	}
	// `returns[len(returns)-1].B = ...` style patches
	for _, f := range c.Pkg.Syntax {
		ast.Inspect(f, func(n ast.Node) bool {
			as, ok := n.(*ast.AssignStmt)
			if !ok {
				return true
			}
			for _, l := range as.Lhs {
				sel, ok := unparen(l).(*ast.SelectorExpr)
				if !ok || !isNamed(c.TypeOf(sel.X), "instruction") {
					continue
				}
				if sel.Sel.Name == "A" || sel.Sel.Name == "B" || sel.Sel.Name == "C" {
					// patched field: treat as set for call-like opcodes
					for _, op := range []string{"codeCall", "codeCallVariadic", "codeJump", "codeFastCall", "codeFastCallAttr"} {
						get(op).set[sel.Sel.Name] = true
					}
				}
			}
			return true
		})
	}
	for _, sc := range m.sw.Cases {
		for _, op := range sc.Labels {
			e := em[op]
			if e == nil {
				r.ok(op+" (never emitted)", "no emitter")
				continue
			}
			ps, err := m.single(op)
			if err != nil {
				r.undecided(op, c.Pos(sc.Clause), err.Error())
				continue
			}
			read := map[string]bool{}
			split := map[string]bool{}
			for _, p := range ps {
				s := p.String()
				for _, st := range p.St.Eff {
					if st.Value != nil {
						s += " " + st.Value.String()
					}
					if st.Target != nil {
						s += " " + st.Target.String()
					}
				}
				for _, cd := range p.Conds {
					s += " " + cd
				}
				for v := range p.St.Vars {
					_ = v
				}
				for _, f := range []string{"A", "B", "C"} {
					if strings.Contains(s, "I."+f) {
						read[f] = true
					}
					if strings.Contains(s, "splitParams(I."+f+")") {
						split[f] = true
					}
				}
			}
			// splitParams results may be unused in the summary strings: look at the clause directly
			ast.Inspect(sc.Clause, func(n ast.Node) bool {
				if call, ok := n.(*ast.CallExpr); ok && c.CalleeName(call) == "splitParams" && len(call.Args) == 1 {
					if sel, ok := unparen(call.Args[0]).(*ast.SelectorExpr); ok {
						split[sel.Sel.Name] = true
						read[sel.Sel.Name] = true
					}
				}
				return true
			})
			for _, f := range []string{"A", "B", "C"} {
				key := op + "." + f
				if read[f] {
					r.check(e.set[f], key+" read", c.Pos(sc.Clause), "set by an emitter",
						fmt.Sprintf("the handler of %s reads operand %s, which no emitter of %s sets: it always sees 0", op, f, op))
				}
				if split[f] || e.packed[f] > 0 {
					all := e.packed[f] == e.nSet[f] && e.nSet[f] > 0
					r.check(split[f] && all, key+" packing", c.Pos(sc.Clause), "packed with joinParams by every emitter and unpacked with splitParams",
						fmt.Sprintf("operand %s of %s is packed by %d of %d emitters and unpacked=%v: writer and reader disagree on the encoding", f, op, e.packed[f], e.nSet[f], split[f]))
				}
			}
		}
	}
}

// ---- PAR-CASE / PAR-RESIZE / INS-PATCH ----

// ruleParResize: every declaration/assignment built from a parsed right-hand side
// hands the call on it the number of targets (assignResize), and a case clause
// carries exactly one expression (a list is expanded or not parsed as a list).
func ruleParResize(c *Ctx, r *R) {
	// (1) every function that consumes "=" / is an assignment Led and parses a right-hand side calls assignResize on it
	resize := c.Func("assignResize")
	if resize == nil {
		r.undecided("assignResize", "-", "not found")
		return
	}
	for _, name := range c.FuncNames() {
		fd := c.funcs[name]
		if fd.Body == nil {
			continue
		}
		// sites: p.Advance("=") followed by a parse whose result is appended
		ast.Inspect(fd.Body, func(n ast.Node) bool {
			blk, ok := n.(*ast.BlockStmt)
			if !ok {
				return true
			}
			for i, st := range blk.List {
				es, ok := st.(*ast.ExprStmt)
				if !ok {
					continue
				}
				call, ok := es.X.(*ast.CallExpr)
				if !ok || c.CalleeName(call) != "parser.Advance" || len(call.Args) != 1 {
					continue
				}
				if s, ok := c.ConstString(call.Args[0]); !ok || s != "=" {
					continue
				}
				// the rest of the block: right := p.Expression(..); X.Append(right); assignResize(left, right)
				var rhs string
				appended, resized := false, false
				for _, st2 := range blk.List[i+1:] {
					ast.Inspect(st2, func(m ast.Node) bool {
						switch x := m.(type) {
						case *ast.AssignStmt:
							if len(x.Rhs) == 1 && len(x.Lhs) == 1 {
								if pc, ok := unparen(x.Rhs[0]).(*ast.CallExpr); ok && (c.CalleeName(pc) == "parser.Expression" || c.CalleeName(pc) == "parser.doExpression") {
									rhs = c.Src(x.Lhs[0])
								}
							}
						case *ast.CallExpr:
							switch c.CalleeName(x) {
							case "token.Append":
								if rhs != "" && len(x.Args) == 1 && c.Src(x.Args[0]) == rhs {
									appended = true
								}
							case "assignResize":
								if rhs != "" && len(x.Args) == 2 && c.Src(x.Args[1]) == rhs {
									resized = true
								}
							}
						}
						return true
					})
				}
				// the initialiser parsed in place — X.Append(p.Expression(0)) — has no name that
				// assignResize could have been given
				inline := false
				for _, st2 := range blk.List[i+1:] {
					ast.Inspect(st2, func(m ast.Node) bool {
						ac, ok := m.(*ast.CallExpr)
						if !ok || c.CalleeName(ac) != "token.Append" || len(ac.Args) != 1 {
							return true
						}
						if pc, ok := unparen(ac.Args[0]).(*ast.CallExpr); ok && (c.CalleeName(pc) == "parser.Expression" || c.CalleeName(pc) == "parser.doExpression") {
							inline = true
						}
						return true
					})
				}
				if inline && rhs == "" {
					r.fail(name+" `=` #"+fmt.Sprint(len(r.seen)), c.Pos(call), name+": after `=` the initialiser is parsed and attached to the declaration in one expression, without assignResize: `var a, b T = f()` requests one result but stores two (the second store pops a local slot)")
					continue
				}
				if rhs == "" {
					continue
				}
				key := fmt.Sprintf("%s after `=` at %s", name, c.Pos(call))
				key = name + " `=` #" + fmt.Sprint(len(r.seen))
				r.check(!appended || resized, key, c.Pos(call), "the initialiser call is resized to the number of targets",
					name+": after `=` the parsed initialiser is attached to the declaration without assignResize: `var a, b T = f()` requests one result but stores two (the second store pops a local slot)")
			}
			return true
		})
	}
	// the same on paths (the initialiser may be parsed under the `=` test and attached after it):
	// on every path of a declaration parser on which `=` was consumed, a parsed initialiser that
	// is appended to the declaration has been handed to assignResize
	for _, name := range []string{"getDecl"} {
		fd := c.Func(name)
		if fd == nil || fd.Body == nil {
			continue
		}
		in := newInterp(c)
		in.Inline = c.isNewHelper
		in.NoReturn = func(o types.Object) bool { return c.noReturnFuncs()[o] }
		// the parser moves on: p.Token read after a call that was handed the parser is another token
		in.H.Post = func(in *Interp, st *State, e ast.Expr, t *T) *T {
			if t.Op == "field" && t.Name == "Token" && len(t.Args) == 1 && t.Args[0].Op == "var" {
				epoch := 0
				for _, ef := range st.Eff {
					if ef.Kind == "call" && ef.Value != nil && (strings.HasPrefix(ef.Value.Name, "parser.") || strings.Contains(ef.Value.String(), "("+t.Args[0].Name)) {
						epoch++
					}
				}
				if epoch > 0 {
					return &T{Op: "field", Name: fmt.Sprintf("Token@%d", epoch), Args: t.Args}
				}
			}
			return nil
		}
		paths := in.ExecFunc(fd, nil)
		if in.Overflow {
			r.undecided(name+" paths", c.Pos(fd), "path overflow")
			continue
		}
		for _, p := range paths {
			if p.Done == "panic" {
				continue
			}
			sawEq := false
			var parsed []*T
			resized := map[string]bool{}
			var attached []*T
			for _, e := range p.Eff {
				if e.Kind != "call" || e.Value == nil {
					continue
				}
				t := e.Value
				switch t.Name {
				case "parser.Advance":
					if len(t.Args) == 2 && t.Args[1].Op == "str" && t.Args[1].Name == "=" {
						sawEq = true
					}
				case "parser.Expression", "parser.doExpression":
					if sawEq {
						parsed = append(parsed, t)
					}
				case "assignResize":
					if len(t.Args) == 2 {
						resized[t.Args[1].String()] = true
					}
				case "token.Append":
					if len(t.Args) == 2 {
						attached = append(attached, t.Args[1])
					}
				}
			}
			for _, pt := range parsed {
				isAttached := false
				for _, a := range attached {
					if a.String() == pt.String() {
						isAttached = true
					}
				}
				if isAttached && !resized[pt.String()] {
					r.fail(name+" `=` path", c.Pos(fd), name+": on the path ["+condStrings(p)+"] the initialiser parsed after `=` is attached to the declaration without having gone through assignResize: `var a, b T = f()` requests one result but stores two (the second store pops a local slot)")
				}
			}
		}
	}
	// the infix assignment handler
	rows, err := c.symbolTable()
	if err == nil {
		for _, op := range []string{"=", ":="} {
			if row := rows[op]; row != nil && row.Led != nil {
				fd := c.DeclOf(row.Led)
				ok := false
				if fd != nil {
					ast.Inspect(fd.Body, func(n ast.Node) bool {
						if call, isC := n.(*ast.CallExpr); isC && c.CalleeName(call) == "assignResize" {
							ok = true
						}
						return true
					})
				}
				r.check(ok, "Led "+op, c.Pos(row.Node), "resizes the right-hand call to the targets", "the Led of "+op+" does not call assignResize: a, b = f() requests one result")
			}
		}
	}
	// (2) case clauses carry one expression each
	if fd := c.Func("switchNud"); fd != nil {
		var parse *ast.CallExpr
		var parseLHS string
		ast.Inspect(fd.Body, func(n ast.Node) bool {
			blk, ok := n.(*ast.BlockStmt)
			if !ok {
				return true
			}
			for i, st := range blk.List {
				// c := p.Advance("case")
				as, ok := st.(*ast.AssignStmt)
				if !ok || len(as.Rhs) != 1 {
					continue
				}
				call, ok := unparen(as.Rhs[0]).(*ast.CallExpr)
				if !ok || c.CalleeName(call) != "parser.Advance" {
					continue
				}
				if s, ok := c.ConstString(call.Args[0]); !ok || s != "case" {
					continue
				}
				for _, st2 := range blk.List[i+1:] {
					ast.Inspect(st2, func(m ast.Node) bool {
						if pc, ok := m.(*ast.CallExpr); ok && parse == nil {
							switch c.CalleeName(pc) {
							case "parser.Expression", "parser.Statement", "parser.doExpression":
								parse = pc
								if pas, ok := c.Parent(pc).(*ast.AssignStmt); ok {
									parseLHS = c.Src(pas.Lhs[0])
								} else if outer, ok := c.Parent(pc).(*ast.CallExpr); ok && c.CalleeName(outer) == "plural" {
									if pas, ok := c.Parent(outer).(*ast.AssignStmt); ok {
										parseLHS = c.Src(pas.Lhs[0])
									}
								}
							}
						}
						return true
					})
					if parse != nil {
						break
					}
				}
			}
			return true
		})
		if parse == nil {
			r.undecided("case slot", c.Pos(fd), "the parse of a case expression was not found")
		} else {
			single := false
			if c.CalleeName(parse) != "parser.Statement" && len(parse.Args) >= 1 {
				if k, ok := c.ConstInt(parse.Args[0]); ok {
					if rows, err := c.symbolTable(); err == nil && rows[","] != nil && k >= rows[","].Lbp {
						single = true // a list is not parsed as one expression
					}
				}
			}
			expanded := false
			if parseLHS != "" {
				ast.Inspect(fd.Body, func(n ast.Node) bool {
					if rs, ok := n.(*ast.RangeStmt); ok && nosp(c.Src(rs.X)) == nosp(parseLHS+".Tokens") {
						if v, ok := rs.Value.(*ast.Ident); ok {
							ast.Inspect(rs.Body, func(m ast.Node) bool {
								if call, ok := m.(*ast.CallExpr); ok && c.CalleeName(call) == "token.Append" && len(call.Args) == 1 && isIdent(call.Args[0], v.Name) {
									expanded = true
								}
								return true
							})
						}
					}
					return true
				})
			}
			r.check(single || expanded, "case slot", c.Pos(parse), "one expression per case clause (a list is expanded into clauses)",
				"switchNud attaches a parsed expression list to a single case clause: `case a, b:` pushes both values but compares only the last (the clause does not match a, and each execution leaks a value)")
			r.check(c.CalleeName(parse) != "parser.Statement", "case slot expr", c.Pos(parse), "parsed as an expression", "case expressions are parsed with the statement rule")
		}
	} else {
		r.undecided("case slot", "-", "switchNud not found")
	}
}

// ruleInsPatch: a field of an already emitted instruction is only written under a test of that instruction's opcode.
func ruleInsPatch(c *Ctx, r *R) {
	n := 0
	for _, name := range c.FuncNames() {
		fd := c.funcs[name]
		if fd.Body == nil {
			continue
		}
		ast.Inspect(fd.Body, func(m ast.Node) bool {
			as, ok := m.(*ast.AssignStmt)
			if !ok {
				return true
			}
			for _, l := range as.Lhs {
				sel, ok := unparen(l).(*ast.SelectorExpr)
				if !ok || !isNamed(c.TypeOf(sel.X), "instruction") {
					continue
				}
				if sel.Sel.Name != "A" && sel.Sel.Name != "B" && sel.Sel.Name != "C" && sel.Sel.Name != "Code" {
					continue
				}
				// a local instruction value that is still being built (ins := instruction{...};
				// ins.C = ...; res = append(res, ins)) is not an emitted instruction
				if id, ok := unparen(sel.X).(*ast.Ident); ok {
					if def := c.singleDef(id); def != nil {
						if _, isLit := unparen(def).(*ast.CompositeLit); isLit {
							continue
						}
					}
				}
				n++
				elem := nosp(c.Src(sel.X))
				// enclosing if / switch that tests <elem>.Code (or a copy of the element ranged from the same slice)
				guarded := false
				var child ast.Node = as
				for p := c.Parent(as); p != nil && p != ast.Node(fd); child, p = p, c.Parent(p) {
					switch x := p.(type) {
					case *ast.IfStmt:
						if x.Body == child && strings.Contains(nosp(c.Src(x.Cond)), ".Code") {
							guarded = true
						}
					case *ast.CaseClause:
						if sw, ok := c.Parent(c.Parent(x)).(*ast.SwitchStmt); ok && sw.Tag != nil && strings.HasSuffix(nosp(c.Src(sw.Tag)), ".Code") {
							guarded = true
						}
					}
				}
				if sel.Sel.Name == "Code" && guarded {
					// retyping an emitted instruction: only the placeholders BREAK / CONTINUE (which have
					// no meaning of their own) may become something else. Any other instruction of a
					// compiled operand is part of an opaque segment — its last instruction need not be
					// the operand's top-level operation (`!(p && a == b)`)
					var tested []string
					child = as
					for p := c.Parent(as); p != nil && p != ast.Node(fd); child, p = p, c.Parent(p) {
						switch x := p.(type) {
						case *ast.IfStmt:
							if x.Body == child {
								for _, dj := range disjuncts(x.Cond) {
									for _, cj := range conjuncts(dj) {
										if be, ok := unparen(cj).(*ast.BinaryExpr); ok && be.Op == token.EQL && strings.HasSuffix(nosp(c.Src(be.X)), ".Code") {
											tested = append(tested, nosp(c.Src(be.Y)))
										}
									}
								}
							}
						case *ast.CaseClause:
							if sw, ok := c.Parent(c.Parent(x)).(*ast.SwitchStmt); ok && sw.Tag != nil && strings.HasSuffix(nosp(c.Src(sw.Tag)), ".Code") {
								for _, e := range x.List {
									tested = append(tested, nosp(c.Src(e)))
								}
							}
						}
					}
					placeholder := len(tested) > 0
					for _, t := range tested {
						if t != "codeBreak" && t != "codeContinue" {
							// a parameter of a helper (resolveJumps(block, placeholder, skip)): every
							// call of the helper passes BREAK or CONTINUE for it
							if !c.paramAlwaysOneOf(fd, t, "codeBreak", "codeContinue") {
								placeholder = false
							}
						}
					}
					r.check(placeholder, fmt.Sprintf("%s %s.Code placeholder", name, elem), c.Pos(as), "only BREAK/CONTINUE placeholders are retyped",
						fmt.Sprintf("%s changes the opcode of an already emitted instruction that is not a BREAK/CONTINUE placeholder (tested: %s): the code of a compiled operand is opaque — e.g. flipping a trailing EQ to NEQ for `!x` inverts the right operand of `p && a == b` instead of the whole expression, so !(false && 1 == 1) is false", name, strings.Join(tested, ", ")))
				}
				key := fmt.Sprintf("%s %s.%s", name, elem, sel.Sel.Name)
				r.check(guarded, key, c.Pos(as), "written under a test of the instruction's opcode",
					fmt.Sprintf("%s writes operand %s of an already emitted instruction (%s) without testing which opcode it is: the operand means something else for other opcodes (e.g. the result count patched into APPEND's spread flag by `return append(a, x)`)", name, sel.Sel.Name, elem))
			}
			return true
		})
	}
	if n == 0 {
		r.undecided("patches", "-", "no write to an emitted instruction's operand found")
	}
}

// paramAlwaysOneOf: name is a parameter of fd, fd is called at least once in the package, and
// at every call the argument for that parameter is one of the given constants.
func (c *Ctx) paramAlwaysOneOf(fd *ast.FuncDecl, name string, allowed ...string) bool {
	if fd == nil || fd.Type.Params == nil {
		return false
	}
	pos := -1
	k := 0
	for _, f := range fd.Type.Params.List {
		for _, nm := range f.Names {
			if nm.Name == name {
				pos = k
			}
			k++
		}
	}
	if pos < 0 {
		return false
	}
	self := c.Info.Defs[fd.Name]
	calls, good := 0, true
	for _, f := range c.Pkg.Syntax {
		ast.Inspect(f, func(n ast.Node) bool {
			call, ok := n.(*ast.CallExpr)
			if !ok || c.Callee(call) != self {
				return true
			}
			calls++
			if pos >= len(call.Args) {
				good = false
				return true
			}
			src := nosp(c.Src(call.Args[pos]))
			okArg := false
			for _, a := range allowed {
				if src == a {
					okArg = true
				}
			}
			if !okArg {
				good = false
			}
			return true
		})
	}
	// a function value taken of the helper could be called with anything
	for _, f := range c.Pkg.Syntax {
		ast.Inspect(f, func(n ast.Node) bool {
			id, ok := n.(*ast.Ident)
			if !ok || c.Info.Uses[id] != self {
				return true
			}
			if call, ok := c.Parent(id).(*ast.CallExpr); ok && unparen(call.Fun) == ast.Expr(id) {
				return true
			}
			if sel, ok := c.Parent(id).(*ast.SelectorExpr); ok {
				if call, ok := c.Parent(sel).(*ast.CallExpr); ok && unparen(call.Fun) == ast.Expr(sel) {
					return true
				}
			}
			good = false
			return true
		})
	}
	return calls > 0 && good
}
