package main

// Rule results, known-findings handling, evidence and violation files.

import (
	"bufio"
	"encoding/json"
	"fmt"
	"os"
	"path/filepath"
	"sort"
	"strings"
)

type Finding struct {
	Rule      string `json:"rule"`
	Construct string `json:"construct"`
	Pos       string `json:"pos"`
	Msg       string `json:"msg"`
	Undecided bool   `json:"undecided,omitempty"`
	Known     bool   `json:"known,omitempty"`
}

func (f Finding) Key() string { return f.Rule + ":" + f.Construct }

// R collects what one rule analysed.
type R struct {
	Rule     string
	Floor    int // minimum number of instances; fewer ⇒ the rule fails (no vacuous pass)
	N        int // instances (obligations) evaluated
	OK       int
	Samples  []string
	Findings []Finding
	Notes    []string
	seen     map[string]bool
}

func newR(rule string, floor int) *R { return &R{Rule: rule, Floor: floor, seen: map[string]bool{}} }

func (r *R) ok(construct, sample string) {
	r.N++
	r.OK++
	r.seen[construct] = true
	if len(r.Samples) < 14 {
		r.Samples = append(r.Samples, r.Rule+": "+construct+": "+sample)
	}
}

func (r *R) fail(construct, pos, msg string) {
	r.N++
	r.seen[construct] = true
	r.Findings = append(r.Findings, Finding{Rule: r.Rule, Construct: construct, Pos: pos, Msg: msg})
}

func (r *R) undecided(construct, pos, msg string) {
	r.N++
	r.seen[construct] = true
	r.Findings = append(r.Findings, Finding{Rule: r.Rule, Construct: construct, Pos: pos, Msg: "UNDECIDED: " + msg, Undecided: true})
}

func (r *R) note(s string, a ...any) { r.Notes = append(r.Notes, fmt.Sprintf(s, a...)) }

func (r *R) check(cond bool, construct, pos, okSample, failMsg string) bool {
	if cond {
		r.ok(construct, okSample)
	} else {
		r.fail(construct, pos, failMsg)
	}
	return cond
}

// ---- known findings ----

type knownEntry struct {
	Prop, Rule, Construct, Text string
}

func readKnown(path string) ([]knownEntry, []string, error) {
	f, err := os.Open(path)
	if err != nil {
		if os.IsNotExist(err) {
			return nil, nil, nil
		}
		return nil, nil, err
	}
	defer f.Close()
	var out []knownEntry
	var fixed []string
	sc := bufio.NewScanner(f)
	sc.Buffer(make([]byte, 1<<20), 1<<20)
	for sc.Scan() {
		line := strings.TrimSpace(sc.Text())
		if line == "" || strings.HasPrefix(line, "#") {
			continue
		}
		if strings.HasPrefix(line, "fixed:") {
			fixed = append(fixed, line)
			continue
		}
		if !strings.HasPrefix(line, "known:") {
			continue
		}
		rest := strings.TrimSpace(strings.TrimPrefix(line, "known:"))
		e := knownEntry{Text: rest}
		// fields: property=.. rule=.. construct=<up to " — ">
		head := rest
		if i := strings.Index(rest, " — "); i >= 0 {
			head = rest[:i]
		}
		for _, kv := range splitKV(head) {
			switch kv[0] {
			case "property":
				e.Prop = kv[1]
			case "rule":
				e.Rule = kv[1]
			case "construct":
				e.Construct = kv[1]
			}
		}
		out = append(out, e)
	}
	return out, fixed, sc.Err()
}

// splitKV splits `a=b c=d e f` into pairs; a value runs until the next " key=".
func splitKV(s string) [][2]string {
	var out [][2]string
	keys := []string{"property=", "rule=", "construct="}
	type at struct {
		i int
		k string
	}
	var pos []at
	for _, k := range keys {
		if i := strings.Index(s, k); i >= 0 {
			pos = append(pos, at{i, k})
		}
	}
	sort.Slice(pos, func(a, b int) bool { return pos[a].i < pos[b].i })
	for n, p := range pos {
		end := len(s)
		if n+1 < len(pos) {
			end = pos[n+1].i
		}
		out = append(out, [2]string{strings.TrimSuffix(p.k, "="), strings.TrimSpace(s[p.i+len(p.k) : end])})
	}
	return out
}

// ---- evidence ----

type propertyRun struct {
	ID          string
	Explanation string
	Assumptions []string
	Trusted     []string
	Rules       []*R
}

type evidence struct {
	PropertyID  string         `json:"property_id"`
	Tier        string         `json:"tier"`
	Seed        int            `json:"seed"`
	Level       string         `json:"level"`
	Coverage    map[string]any `json:"coverage"`
	Assumptions []string       `json:"assumptions"`
	WallS       float64        `json:"wall_s"`
	Violations  int            `json:"violations"`
}

func writeJSON(path string, v any) error {
	if err := os.MkdirAll(filepath.Dir(path), 0o755); err != nil {
		return err
	}
	b, err := json.MarshalIndent(v, "", " ")
	if err != nil {
		return err
	}
	tmp := path + ".tmp"
	if err := os.WriteFile(tmp, append(b, '\n'), 0o644); err != nil {
		return err
	}
	return os.Rename(tmp, path)
}
