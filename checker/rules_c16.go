package main

// C16 — declaration order and file layout inside a package do not matter.
// The hoisting is a stable sort by a priority table; the rules check the table,
// the comparator and the file join.

import (
	"fmt"
	"go/ast"
	"go/token"
	"go/types"
	"os"
	"regexp"
	"strings"
)

func init() {
	register(&propDef{
		ID:          "C16",
		Explanation: "TAB-PRIORITY decides, from treeSort's source, that top-level nodes are ordered by a *stable* sort whose comparator is the strict `>` on the looked-up priorities of the two elements; that every priority key is a node kind the compiler knows; that every node kind whose compile-case defines something at load time (emits GLOBALFUNC / SETMETHOD / GLOBALSTRUCT or writes a global at compile time) is hoisted (priority > 0), in the order package ≥ import > type > {const, method, function} > 0 > init; and that no other node kind is moved (so statements and initialisers keep their relative source order). JOIN checks joinFiles drops exactly the package clause of every file after the first. Not decided: that a compile-time alias may refer to a later alias; fs.Glob's file order.",
		Assumptions: []string{"sort.SliceStable is stable", "constants cannot depend on variables or functions (Go's constant-expression rule), which is why hoisting `const` above initialisers is unobservable"},
		Quick: []ruleDef{
			{"TAB-PRIORITY", 17, ruleTabPriority},
			{"ALIAS-EXPAND", 1, ruleAliasExpand},
			{"LOAD-TYPEDEPS", 2, ruleLoadTypeDeps},
			{"JOIN", 2, ruleJoinFiles},
			{"JOIN-IMPORTS", 2, ruleJoinImports},
		},
	})
}

// definingKinds: labels of compile-cases that define a global at load time.
func (c *Ctx) definingKinds(cs *bigSwitch) map[string]string {
	out := map[string]string{}
	for _, sc := range cs.Cases {
		why := ""
		ast.Inspect(sc.Clause, func(n ast.Node) bool {
			switch x := n.(type) {
			case *ast.Ident:
				switch c.codeConstName(x) {
				case "codeGlobalFunc", "codeSetMethod", "codeGlobalStruct":
					why = "emits " + x.Name
				}
			case *ast.CallExpr:
				if c.CalleeName(x) == "lookup.Write" {
					why = "writes a global at compile time"
				}
			}
			return true
		})
		if why != "" {
			for _, l := range sc.Labels {
				out[l] = why
			}
		}
	}
	return out
}

func ruleTabPriority(c *Ctx, r *R) {
	fd := c.Func("treeSort")
	if fd == nil {
		r.undecided("treeSort", "-", "treeSort not found")
		return
	}
	// the table is whatever map the comparator looks the node kinds up in (a local literal or a package-level table)
	var cl *ast.CompositeLit
	for _, hfd := range c.withHelpers(fd) {
		ast.Inspect(hfd.Body, func(n ast.Node) bool {
			ix, ok := n.(*ast.IndexExpr)
			if !ok || cl != nil {
				return true
			}
			if _, isMap := c.TypeOf(ix.X).Underlying().(*types.Map); !isMap {
				return true
			}
			if sel, ok := unparen(ix.Index).(*ast.SelectorExpr); !ok || sel.Sel.Name != "Symbol" {
				return true
			}
			if id, ok := unparen(ix.X).(*ast.Ident); ok {
				if v, ok := c.Obj(id).(*types.Var); ok && !c.mapMutated(v) || true {
					cl = c.mapLit(id.Name)
				}
			}
			return true
		})
	}
	if cl == nil {
		r.undecided("priority", c.Pos(fd), "the priority table the comparator indexes by node kind was not found")
		return
	}
	prio := map[string]int64{}
	vals, order := c.stringKeyed(cl)
	for _, k := range order {
		n, ok := c.ConstInt(vals[k])
		if !ok {
			r.undecided("priority["+k+"]", c.Pos(vals[k]), "non-constant priority")
			return
		}
		prio[k] = n
	}
	cs, err := c.compileSwitch()
	if err != nil {
		r.undecided("compile", "-", err.Error())
		return
	}
	// sub-ranks a rank function adds inside one kind: kind -> increment
	refined := map[string]int64{}
	// the sort call and its comparator
	in := newInterp(c)
	var sortCalls []string
	in.H.Call = func(in *Interp, st *State, call *ast.CallExpr, name string, recv *T, args []*T) *T {
		if !strings.HasPrefix(name, "sort.") && !strings.Contains(name, "slices.Sort") {
			return nil
		}
		sortCalls = append(sortCalls, name)
		if name != "sort.SliceStable" {
			r.fail("sort", c.Pos(call), "top-level nodes are sorted with "+name+", which is not the stable sort.SliceStable: nodes of equal priority (statements, initialisers) may be reordered")
			return nil
		}
		r.ok("sort", "sort.SliceStable")
		if len(args) != 2 || args[1].Op != "func" {
			r.undecided("comparator", c.Pos(call), "comparator is not a function literal")
			return nil
		}
		fl := args[1].Aux.(*ast.FuncLit)
		var pn []string
		for _, f := range fl.Type.Params.List {
			for _, n := range f.Names {
				pn = append(pn, n.Name)
			}
		}
		if len(pn) != 2 {
			r.undecided("comparator", c.Pos(fl), "comparator does not have two parameters")
			return nil
		}
		res := in.ExecLit(fl, st.Clone(), map[string]*T{pn[0]: tVar(nil, "I"), pn[1]: tVar(nil, "J")})
		if len(res) != 1 || len(res[0].Ret) != 1 {
			r.undecided("comparator", c.Pos(fl), fmt.Sprintf("comparator has %d paths; expected a single comparison", len(res)))
			return nil
		}
		ret := res[0].Ret[0]
		elem := func(ix string) *T { return tField(tIndex(args[0], tVar(nil, ix)), "Symbol") }
		good := false
		if ret.Op == "bin" && len(ret.Args) == 2 {
			a, b := ret.Args[0], ret.Args[1]
			if a.Op == "index" && b.Op == "index" && a.Args[0].Eq(b.Args[0]) && (a.Args[0].Op == "lit" || a.Args[0].Op == "var") {
				ai, bi := a.Args[1], b.Args[1]
				switch {
				case ret.Name == ">" && ai.Eq(elem("I")) && bi.Eq(elem("J")):
					good = true
				case ret.Name == "<" && ai.Eq(elem("J")) && bi.Eq(elem("I")):
					good = true
				}
			}
		}
		// a rank function of the element instead of the bare table lookup: rank(x[i]) > rank(x[j])
		if !good && ret.Op == "bin" && ret.Name == ">" && len(ret.Args) == 2 && ret.Args[0].Op == "call" && ret.Args[1].Op == "call" && ret.Args[0].Name == ret.Args[1].Name &&
			len(ret.Args[0].Args) == 1 && len(ret.Args[1].Args) == 1 &&
			ret.Args[0].Args[0].Eq(tIndex(args[0], tVar(nil, "I"))) && ret.Args[1].Args[0].Eq(tIndex(args[0], tVar(nil, "J"))) {
			var rps []*State
			var notHoisted []string
			varLifted := false
			_ = varLifted
			haveRank := false
			if rfl := c.localFuncLit(fd, strings.TrimPrefix(ret.Args[0].Name, "var.")); strings.HasPrefix(ret.Args[0].Name, "var.") && rfl != nil && len(rfl.Type.Params.List) == 1 && len(rfl.Type.Params.List[0].Names) == 1 {
				rin := newInterp(c)
				rin.Inline = c.isNewHelper
				rps = rin.ExecLit(rfl, st.Clone(), map[string]*T{rfl.Type.Params.List[0].Names[0].Name: tVar(nil, "E")})
				haveRank = true
			} else if hfd := c.Func(ret.Args[0].Name); hfd != nil && hfd.Body != nil && len(hfd.Type.Params.List) == 1 && len(hfd.Type.Params.List[0].Names) == 1 {
				if ho := c.Info.Defs[hfd.Name]; ho != nil && c.isNewHelper(ho) {
					rin := newInterp(c)
					rin.Inline = c.isNewHelper
					rps = rin.ExecFunc(hfd, map[string]*T{hfd.Type.Params.List[0].Names[0].Name: tVar(nil, "E")})
					haveRank = true
				}
			}
			if haveRank {
				okAll := len(rps) > 0
				for _, rp := range rps {
					if os.Getenv("GC_DEBUG") != "" {
						fmt.Println("RANKPATH", condStrings(rp), "=>", retStrings(rp))
					}
					// the kinds the path has positively established (top-level conjuncts only); a path
					// that establishes two kinds is infeasible (nested ifs instead of one && chain)
					posKinds := map[string]bool{}
					for _, cd := range rp.Conds {
						cs := cd.String()
						if strings.HasPrefix(cs, "!") {
							continue
						}
						for _, m := range regexp.MustCompile(`\(E\.Symbol == "(\w+)"\)`).FindAllStringSubmatch(cs, -1) {
							posKinds[m[1]] = true
						}
					}
					if len(posKinds) > 1 {
						continue
					}
					if len(rp.Ret) != 1 {
						okAll = false
						continue
					}
					rs := rp.Ret[0].String()
					base := false
					if rp.Ret[0].Op == "index" && strings.HasSuffix(rp.Ret[0].Args[1].String(), "E.Symbol") {
						base = true
					}
					if base {
						// a path that keeps the plain priority may single out struct and interface
						// definitions only: every other definition of a `type` is resolved at compile time
						// (conditions that belong to the refinement of another kind — the value-less var — do not count)
						typeConds := condStrings(rp)
						if i := strings.Index(typeConds, `(E.Symbol == "var")`); i >= 0 {
							typeConds = typeConds[:i]
						}
						for _, m := range regexp.MustCompile(`E\.Tokens\[1\]\.Symbol == "([^"]+)"`).FindAllStringSubmatch(typeConds, -1) {
							if m[1] != "struct" && m[1] != "interface" {
								notHoisted = append(notHoisted, m[1])
							}
						}
						continue
					}
					// the hoisted path may exclude struct and interface definitions only
					for _, m := range regexp.MustCompile(`E\.Tokens\[1\]\.Symbol != "([^"]+)"`).FindAllStringSubmatch(condStrings(rp), -1) {
						if m[1] != "struct" && m[1] != "interface" && !strings.HasPrefix(condStrings(rp), "!") {
							notHoisted = append(notHoisted, m[1])
						}
					}
					// a folded constant under E.Symbol == "kind" (the table is a package-level literal)
					if kc, isConst := linOf(rp.Ret[0]).isConst(); isConst {
						if posKinds["var"] {
							noInit := strings.Contains(condStrings(rp), "len(E.Tokens[1].Tokens) == 0") && !strings.Contains(condStrings(rp), "!((E.Tokens[1].Symbol == \",\") && (len(E.Tokens[1].Tokens) == 0))")
							r.check(noInit && kc > 0 && kc < prio["type"], "value-less var hoisted", c.Pos(fl), fmt.Sprintf("var declarations without an initialiser rank %d: above the statements, below the types", kc),
								fmt.Sprintf("treeSort lifts some var declarations to rank %d on a condition that is not `no initialiser` or outside (0, %d): an initialised var would be moved past code it depends on, or a typed zero would be set before its type exists", kc, prio["type"]))
							varLifted = true
							continue
						}
						if len(posKinds) == 1 {
							for k := range posKinds {
								refined[k] = kc - prio[k]
							}
							continue
						}
						if km := regexp.MustCompile(`\(E\.Symbol == "(\w+)"\)`).FindStringSubmatch(condStrings(rp)); km != nil && !strings.HasPrefix(condStrings(rp), "!") {
							refined[km[1]] = kc - prio[km[1]]
							continue
						}
						okAll = false
						continue
					}
					// a declaration without an initialiser (var x T) may be lifted anywhere between the
					// statements and the types: zeroing a typed slot depends on its type only, and an
					// initialiser that comes earlier in the source may call a function that assigns it
					if vm := regexp.MustCompile(`\["(\w+)"\] ([+-])(\d+)>$`).FindStringSubmatch(rs); vm != nil && strings.Contains(condStrings(rp), `(E.Symbol == "var")`) && !strings.Contains(condStrings(rp), `!((((E.Symbol == "var")`) {
						var k int64
						fmt.Sscan(vm[3], &k)
						if vm[2] == "-" {
							k = -k
						}
						abs := prio[vm[1]] + k
						noInit := strings.Contains(condStrings(rp), "len(E.Tokens[1].Tokens) == 0")
						r.check(noInit && abs > 0 && abs < prio["type"], "value-less var hoisted", c.Pos(fl), fmt.Sprintf("var declarations without an initialiser rank %d: above the statements, below the types", abs),
							fmt.Sprintf("treeSort lifts some var declarations to rank %d on a condition that is not `no initialiser` or outside (0, %d): an initialised var would be moved past code it depends on, or a typed zero would be set before its type exists", abs, prio["type"]))
						varLifted = true
						continue
					}
					// priority["kind"] + k under E.Symbol == "kind"
					m := regexp.MustCompile(`\["(\w+)"\] \+(\d+)>$`).FindStringSubmatch(rs)
					if m == nil || !strings.Contains(condStrings(rp), `(E.Symbol == "`+m[1]+`")`) {
						okAll = false
						continue
					}
					var k int64
					fmt.Sscan(m[2], &k)
					refined[m[1]] = k
				}
				if okAll {
					good = true
				}
				r.check(varLifted, "typed zero before initialisers", c.Pos(fl), "var declarations without an initialiser are lifted above the statements",
					"treeSort leaves `var x T` (no initialiser) in source order among the initialised declarations: an initialiser that comes earlier — `var cache = setup()` where setup assigns ratio, declared further down as `var ratio float64` — stores into a slot that has no type yet, so ratio becomes an int32 (ratio/2 is 0, a uint8 counter does not wrap), and the later typed zero is skipped because the slot is no longer nil")
				r.check(len(notHoisted) == 0, "every non-struct type hoisted", c.Pos(fl), "only struct and interface definitions keep the plain priority",
					"treeSort's rank leaves type declarations defined from "+strings.Join(notHoisted, ", ")+" with the struct types: `type Shade Small` (a type defined from a name) declared after a struct that uses it as a field type is compiled too late — the field becomes a struct type `Shade` (zero value nil, stores not converted)")
			}
		}
		r.check(good, "comparator", c.Pos(fl), "less(i,j) = priority[x[i].Symbol] > priority[x[j].Symbol]",
			"treeSort's comparator is not the strict `priority[x[i].Symbol] > priority[x[j].Symbol]` on the sorted slice's own elements (got "+ret.String()+"): hoisting order or stability is lost")
		return nil
	}
	in.ExecFunc(fd, nil)
	if len(sortCalls) == 0 {
		r.undecided("sort", c.Pos(fd), "no sort call found in treeSort")
	}
	// keys are node kinds
	for _, k := range order {
		r.check(cs.ByLabel[k] != nil, "key "+k, c.Pos(vals[k]), "is a compile-case label",
			"priority key \""+k+"\" is not a node kind of the compiler (typo: the kind it meant keeps priority 0 and is not hoisted)")
	}
	defs := c.definingKinds(cs)
	for _, k := range sortedKeys(defs) {
		r.check(prio[k] > 0, "hoist "+k, c.Pos(cl), fmt.Sprintf("%s (%s) has priority %d > 0", k, defs[k], prio[k]),
			fmt.Sprintf("node kind %q %s but is not hoisted (priority %d): a use that precedes the declaration in source order fails", k, defs[k], prio[k]))
	}
	// which kinds may be moved at all
	for _, k := range order {
		p := prio[k]
		_, isDef := defs[k]
		switch {
		case p > 0:
			ok := isDef || k == "package" || k == "import" || k == "const"
			r.check(ok, "moved "+k, c.Pos(vals[k]), "hoisting is unobservable for this kind",
				fmt.Sprintf("node kind %q is hoisted (priority %d) although its code runs at load time and may depend on declarations that are hoisted below it", k, p))
		case p < 0:
			r.check(k == "init", "moved "+k, c.Pos(vals[k]), "init runs last", fmt.Sprintf("node kind %q is moved after all statements (priority %d)", k, p))
		}
	}
	rel := func(a, b string, strict bool) {
		pa, pb := prio[a], prio[b]
		ok := pa > pb || (!strict && pa == pb)
		r.check(ok, "order "+a+">"+b, c.Pos(cl), fmt.Sprintf("%d vs %d", pa, pb),
			fmt.Sprintf("priority[%q]=%d must be above priority[%q]=%d: %s declarations are needed before %s ones are compiled/run", a, pa, b, pb, a, b))
	}
	for _, k := range order {
		if k != "package" {
			rel("package", k, false)
		}
	}
	rel("import", "type", true)
	for _, k := range []string{"const", "method", "function"} {
		rel("type", k, true)
		rel("import", k, true)
	}
	// "type" declarations depend on each other at compile time: `type MyInt int` is resolved
	// (Globals.Write of a type value) while compiling, and a struct declaration reads the
	// types of its fields (typeFromToken) while compiling.  With one priority for every
	// type declaration the stable sort keeps source/file order, so a struct declared before
	// the named type of one of its fields sees an unknown name.  The sort must rank the
	// alias-like declarations above the struct declarations.
	if tsc := cs.ByLabel["type"]; tsc != nil {
		writes, reads := false, false
		ast.Inspect(tsc.Clause, func(n ast.Node) bool {
			if call, ok := n.(*ast.CallExpr); ok {
				switch c.CalleeName(call) {
				case "lookup.Write":
					writes = true
				case "typeFromToken":
					reads = true
				}
			}
			return true
		})
		if writes && reads {
			r.check(refined["type"] > 0, "order type>struct", c.Pos(cl), "non-struct type declarations are ranked above struct declarations",
				"all `type` declarations have one priority, but compile(\"type\") both defines named non-struct types at compile time and reads field types at compile time: `type S struct{ f MyInt }` placed before (or in a file sorted before) `type MyInt int` gives S{}.f == nil instead of 0, so declaration order and file layout change behaviour")
		}
	}
	for k, inc := range refined {
		next := int64(1 << 40)
		for _, p := range prio {
			if p > prio[k] && p < next {
				next = p
			}
		}
		r.check(inc > 0 && prio[k]+inc < next, "sub-rank "+k, c.Pos(cl), fmt.Sprintf("%d < %d+%d < %d", prio[k], prio[k], inc, next),
			fmt.Sprintf("the rank function lifts some %q declarations by %d, which reaches the priority of the next kind (%d): they would be hoisted above declarations they depend on", k, inc, next))
	}
	r.check(prio["init"] < 0, "order 0>init", c.Pos(cl), "init after statements", "init must run after all top-level statements (negative priority)")
}

func ruleJoinFiles(c *Ctx, r *R) {
	fd := c.Func("joinFiles")
	if fd == nil {
		r.undecided("joinFiles", "-", "joinFiles not found")
		return
	}
	if len(fd.Type.Params.List) == 0 || len(fd.Type.Params.List[0].Names) == 0 {
		r.undecided("joinFiles", c.Pos(fd), "no files parameter")
		return
	}
	files := fd.Type.Params.List[0].Names[0].Name
	// Every append of a file's Tokens to the joined tree is judged: a whole token list may be
	// appended only for the first file (files[0] itself, or under i == 0 in a loop over files);
	// every other file contributes Tokens[1:] (its package clause dropped).  The later files are
	// reached by a loop over files (with i != 0) or over files[1:].
	firstIs := func(e ast.Expr) bool {
		// e denotes files[0] (directly or through a variable defined as files[0])
		e = unparen(e)
		if ix, ok := e.(*ast.IndexExpr); ok && nosp(c.Src(ix.X)) == files {
			if k, ok := c.ConstInt(ix.Index); ok && k == 0 {
				return true
			}
		}
		if id, ok := e.(*ast.Ident); ok {
			if def := c.singleDef(id); def != nil {
				if ix, ok := unparen(def).(*ast.IndexExpr); ok && nosp(c.Src(ix.X)) == files {
					if k, ok := c.ConstInt(ix.Index); ok && k == 0 {
						return true
					}
				}
			}
		}
		return false
	}
	nFirst, nLater := 0, 0
	ast.Inspect(fd.Body, func(m ast.Node) bool {
		call, ok := m.(*ast.CallExpr)
		if !ok || c.CalleeName(call) != "builtin.append" || !call.Ellipsis.IsValid() {
			return true
		}
		arg := unparen(call.Args[len(call.Args)-1])
		// enclosing loop over the files, if any
		var loop *ast.RangeStmt
		for p := c.Parent(call); p != nil && p != ast.Node(fd); p = c.Parent(p) {
			if rs, ok := p.(*ast.RangeStmt); ok && loop == nil {
				loop = rs
			}
		}
		switch a := arg.(type) {
		case *ast.SliceExpr:
			if sel, ok := unparen(a.X).(*ast.SelectorExpr); !ok || sel.Sel.Name != "Tokens" {
				return true
			}
			nLater++
			lo, okc := int64(0), true
			if a.Low != nil {
				lo, okc = c.ConstInt(a.Low)
			}
			r.check(okc && lo == 1 && a.High == nil, "later-files", c.Pos(call), "appends t.Tokens[1:]",
				"joinFiles does not drop exactly the package clause of later files ("+c.Src(arg)+")")
		case *ast.SelectorExpr:
			if a.Sel.Name != "Tokens" {
				return true
			}
			nFirst++
			ok := false
			if firstIs(a.X) {
				ok = true // the first file, named explicitly
			}
			// or: inside a loop over files, guarded by the first-file test
			for p := c.Parent(call); p != nil && p != ast.Node(fd) && !ok; p = c.Parent(p) {
				if ifs, isIf := p.(*ast.IfStmt); isIf {
					if be, isB := unparen(ifs.Cond).(*ast.BinaryExpr); isB && be.Op.String() == "==" {
						if v, isC := c.ConstInt(be.Y); isC && v == 0 {
							ok = true
						}
					}
				}
			}
			r.check(ok, "first-file", c.Pos(call), "a whole token list is appended only for the first file",
				"joinFiles appends a whole file (with its package clause) that is not the first file")
		}
		// the loop that reaches the later files must not start again at the first file unguarded
		if loop != nil {
			if _, isSlice := arg.(*ast.SliceExpr); isSlice {
				over := nosp(c.Src(loop.X))
				if over != files && over != files+"[1:]" {
					r.fail("later-files loop", c.Pos(loop), "joinFiles takes the later files from "+c.Src(loop.X)+", not from the files after the first")
				}
			}
		}
		return true
	})
	if nFirst < 1 || nLater < 1 {
		r.undecided("joinFiles", c.Pos(fd), "expected an append of the first file's tokens and an append of later files' tokens")
	}
	_ = types.Typ
}

// JOIN-IMPORTS: the files of a package are joined into one tree and compiled by one
// compiler, but an import name belongs to the *file* that declares it (two files may import
// different packages under the same name: math/rand and crypto/rand).  A table keyed by
// the alias alone makes the file that happens to be joined last win.  So compile("import")
// also records the import under a key that includes the importing file, and every reader of
// the alias table consults that per-file entry first.
func ruleJoinImports(c *Ctx, r *R) {
	cs, err := c.compileSwitch()
	if err != nil {
		r.undecided("compile", "-", err.Error())
		return
	}
	sc := cs.ByLabel["import"]
	if sc == nil {
		r.undecided("import", "-", "no compile-case")
		return
	}
	perFileWrite := false
	ast.Inspect(sc.Clause, func(n ast.Node) bool {
		if as, ok := n.(*ast.AssignStmt); ok {
			for _, l := range as.Lhs {
				if ix, ok := unparen(l).(*ast.IndexExpr); ok && strings.Contains(nosp(c.Src(ix.Index)), ".Pos.Filename") {
					perFileWrite = true
				}
			}
		}
		return true
	})
	r.check(perFileWrite, "import per-file", c.Pos(sc.Clause), "the import is also recorded under a key that names the importing file",
		"compile(\"import\") records an import under its alias only: all files of a package share one alias table, so when a.go imports \"x/util\" and b.go imports \"y/util\" both files call whichever package the file joined last imported — and the result changes when the files are renamed")
	// readers
	n := 0
	for _, name := range c.FuncNames() {
		fd := c.Func(name)
		if fd.Body == nil || !strings.HasSuffix(c.Fset.Position(fd.Pos()).Filename, "compiler.go") {
			continue
		}
		var reads []*ast.IndexExpr
		var perFileReads []*ast.IndexExpr
		ast.Inspect(fd.Body, func(nd ast.Node) bool {
			ix, ok := nd.(*ast.IndexExpr)
			if !ok {
				return true
			}
			if _, isMap := c.TypeOf(ix.X).Underlying().(*types.Map); !isMap {
				return true
			}
			// skip writes
			if as, ok := c.Parent(ix).(*ast.AssignStmt); ok {
				for _, l := range as.Lhs {
					if unparen(l) == ast.Expr(ix) {
						return true
					}
				}
			}
			if strings.HasSuffix(nosp(c.Src(ix.X)), ".Imports") {
				reads = append(reads, ix)
			}
			if strings.Contains(nosp(c.Src(ix.Index)), ".Pos.Filename") {
				perFileReads = append(perFileReads, ix)
			}
			return true
		})
		for _, rd := range reads {
			n++
			first := false
			for _, pf := range perFileReads {
				if pf.Pos() < rd.Pos() {
					first = true
				}
			}
			r.check(first, "alias read "+name, c.Pos(rd), "the per-file entry is consulted before the package-wide alias table",
				name+" resolves an import alias through the package-wide table without consulting the importing file's own entry first: a selector in a.go can resolve to the package b.go imported under the same name")
		}
	}
	if n == 0 {
		r.undecided("alias read", "-", "no reader of the import alias table found")
	}
}

// localFuncLit: the function literal assigned (once) to a local variable of fd.
func (c *Ctx) localFuncLit(fd *ast.FuncDecl, name string) *ast.FuncLit {
	var out *ast.FuncLit
	ast.Inspect(fd.Body, func(n ast.Node) bool {
		as, ok := n.(*ast.AssignStmt)
		if !ok || len(as.Lhs) != len(as.Rhs) {
			return true
		}
		for i, l := range as.Lhs {
			if id, ok := l.(*ast.Ident); ok && id.Name == name {
				if fl, ok := unparen(as.Rhs[i]).(*ast.FuncLit); ok {
					out = fl
				}
			}
		}
		return true
	})
	return out
}

// LOAD-TYPEDEPS: a named non-struct type (type Row []Cell) is resolved when its declaration
// is compiled, so among those declarations one that mentions another has to come after it.
// The priority sort alone keeps them in source order. Necessary condition decided here: the
// sorter (treeSort and what it calls) looks inside the type definitions for the names they
// mention — some function reachable from treeSort compares a node's Symbol with "(name)" —
// and writes a reordered sequence back into the tree. Not decided: that the order computed
// is a topological one.
func ruleLoadTypeDeps(c *Ctx, r *R) {
	fd := c.Func("treeSort")
	if fd == nil {
		r.undecided("treeSort", "-", "treeSort not found")
		return
	}
	fns := c.staticReach([]string{"treeSort"}, func(*ast.FuncDecl) bool { return false })
	scans := ""
	rootSeen := false // the test is applied to the node the scanner is given, not only to its children
	for _, f := range fns {
		params := map[types.Object]bool{}
		for _, fl := range f.Type.Params.List {
			for _, nm := range fl.Names {
				params[c.Info.Defs[nm]] = true
			}
		}
		subject := func(e ast.Expr) {
			// e is the expression compared with "(name)": <x>.Symbol
			sel, ok := unparen(e).(*ast.SelectorExpr)
			if !ok || sel.Sel.Name != "Symbol" {
				return
			}
			switch b := unparen(sel.X).(type) {
			case *ast.Ident:
				if params[c.Obj(b)] {
					rootSeen = true
				}
			case *ast.IndexExpr:
				// d.Tokens[1].Symbol at the call site: the definition itself
				if c.isTokensField(b.X) {
					if k, ok := c.ConstInt(b.Index); ok && k == 1 {
						rootSeen = true
					}
				}
			}
		}
		ast.Inspect(f.Body, func(n ast.Node) bool {
			switch x := n.(type) {
			case *ast.BinaryExpr:
				for i, e := range []ast.Expr{x.X, x.Y} {
					if v, ok := c.ConstString(e); ok && v == "(name)" && (x.Op == token.EQL || x.Op == token.NEQ) {
						scans = c.fnName(f)
						subject([]ast.Expr{x.Y, x.X}[i])
					}
				}
			case *ast.CaseClause:
				for _, e := range x.List {
					if v, ok := c.ConstString(e); ok && v == "(name)" {
						scans = c.fnName(f)
						if sw, ok := c.Parent(c.Parent(x)).(*ast.SwitchStmt); ok && sw.Tag != nil {
							subject(sw.Tag)
						}
					}
				}
			}
			return true
		})
	}
	r.check(scans != "", "type definitions scanned", c.Pos(fd), "the sorter looks at the names a type definition mentions",
		"treeSort hoists the named non-struct types but leaves them in source order: `type Grid []Row` declared before `type Row []int` (or `type C B; type B A`) is compiled while Row is unknown — elements lose their type, a struct made from C fails with `Object is nil, not *structT`")
	if scans != "" {
		// ... and to every child: the scanner calls itself on the value of a range over the
		// children of the node it was given (not on one chosen operand)
		allKids := false
		for _, f := range fns {
			if c.fnName(f) != scans {
				continue
			}
			params := map[types.Object]bool{}
			for _, fl := range f.Type.Params.List {
				for _, nm := range fl.Names {
					params[c.Info.Defs[nm]] = true
				}
			}
			ast.Inspect(f.Body, func(n ast.Node) bool {
				rs, ok := n.(*ast.RangeStmt)
				if !ok {
					return true
				}
				sel, ok := unparen(rs.X).(*ast.SelectorExpr)
				if !ok || sel.Sel.Name != "Tokens" {
					return true
				}
				base, ok := unparen(sel.X).(*ast.Ident)
				if !ok || !params[c.Obj(base)] {
					return true
				}
				v, ok := rs.Value.(*ast.Ident)
				if !ok {
					return true
				}
				ast.Inspect(rs.Body, func(m ast.Node) bool {
					switch x := m.(type) {
					case *ast.CallExpr:
						// the recursive call, or a helper that is handed the child
						for _, a := range x.Args {
							if id, ok := unparen(a).(*ast.Ident); ok && c.Obj(id) == c.Obj(v) {
								if h := c.DeclOf(c.Callee(x)); h != nil {
									allKids = true
								}
							}
						}
					case *ast.SelectorExpr:
						// or the child is examined in place (sub.Symbol)
						if id, ok := unparen(x.X).(*ast.Ident); ok && c.Obj(id) == c.Obj(v) && x.Sel.Name == "Symbol" {
							allKids = true
						}
					}
					return true
				})
				return true
			})
		}
		r.check(allKids, "every operand examined", c.Pos(fd), "the scan descends into every child of a type expression",
			"the scan for mentioned type names follows one operand of a type expression only: the key of `type Counts map[Word]int` is not examined, so Counts is compiled before `type Word string` and gets a non-string key type — all string keys collapse into one")
		r.check(rootSeen, "definition root examined", c.Pos(fd), "the name test applies to the definition node itself",
			"the scan for mentioned type names looks only at the children of the node it is given: a direct definition `type Celsius Temp` (whose definition IS the name) is not held back until `type Temp float64` is compiled, and Celsius becomes a struct type Temp")
	}
	// the reordered declarations reach the tree: an element of the top-level list is assigned
	writes := false
	ast.Inspect(fd.Body, func(n ast.Node) bool {
		switch x := n.(type) {
		case *ast.AssignStmt:
			for _, l := range x.Lhs {
				if ix, ok := unparen(l).(*ast.IndexExpr); ok {
					if t, ok := c.TypeOf(ix.X).Underlying().(*types.Slice); ok && c.isTokenPtr(t.Elem()) {
						writes = true
					}
				}
			}
		case *ast.CallExpr:
			if c.CalleeName(x) == "builtin.copy" && len(x.Args) == 2 {
				if t, ok := c.TypeOf(x.Args[0]).Underlying().(*types.Slice); ok && c.isTokenPtr(t.Elem()) {
					writes = true
				}
			}
		}
		return true
	})
	if scans != "" {
		r.check(writes, "order written back", c.Pos(fd), "the dependency order is stored into the top-level list", "treeSort computes an order of the named types but never stores it into the tree")
	}
}
