package main

// Panic-containment regions: which in-package functions run for a public entry
// point while no recover() guard is on the stack (U), and which run inside the
// deferred handlers of the guards (H).

import (
	"go/ast"
	"go/token"
	"go/types"
	"sort"
	"strings"

	"golang.org/x/tools/go/callgraph"
	"golang.org/x/tools/go/ssa"
)

type guardInfo struct {
	Fn      *ssa.Function
	Defer   *ssa.Defer
	Handler *ssa.Function // the deferred closure calling recover()
}

type regionInfo struct {
	Guards  []*guardInfo
	U       map[*ssa.Function]string // function -> how it was reached
	H       map[*ssa.Function]string
	Entries []*ssa.Function
	Notes   []string
}

func callsRecover(f *ssa.Function) bool {
	for _, b := range f.Blocks {
		for _, in := range b.Instrs {
			if c, ok := in.(*ssa.Call); ok {
				if bi, ok := c.Call.Value.(*ssa.Builtin); ok && bi.Name() == "recover" {
					return true
				}
			}
		}
	}
	return false
}

func inPkg(f *ssa.Function) bool {
	if f == nil {
		return false
	}
	for f.Parent() != nil {
		f = f.Parent()
	}
	if f.Pkg != nil {
		return f.Pkg.Pkg.Path() == modPath
	}
	// instantiated generic / synthetic
	if o := f.Origin(); o != nil && o.Pkg != nil {
		return o.Pkg.Pkg.Path() == modPath
	}
	return false
}

func (c *Ctx) findGuards() []*guardInfo {
	_, pkg := c.SSA()
	var out []*guardInfo
	var visit func(f *ssa.Function)
	visit = func(f *ssa.Function) {
		for _, b := range f.Blocks {
			for _, in := range b.Instrs {
				if d, ok := in.(*ssa.Defer); ok {
					var h *ssa.Function
					switch v := d.Call.Value.(type) {
					case *ssa.MakeClosure:
						h, _ = v.Fn.(*ssa.Function)
					case *ssa.Function:
						h = v
					}
					if h != nil && callsRecover(h) {
						out = append(out, &guardInfo{Fn: f, Defer: d, Handler: h})
					}
				}
			}
		}
		for _, a := range f.AnonFuncs {
			visit(a)
		}
	}
	for _, m := range pkg.Members {
		if f, ok := m.(*ssa.Function); ok {
			visit(f)
		}
	}
	// methods
	for _, m := range pkg.Members {
		if t, ok := m.(*ssa.Type); ok {
			for _, typ := range []types.Type{t.Type(), types.NewPointer(t.Type())} {
				ms := c.prog.MethodSets.MethodSet(typ)
				for i := 0; i < ms.Len(); i++ {
					if f := c.prog.MethodValue(ms.At(i)); f != nil && f.Pkg == pkg && f.Synthetic == "" {
						dup := false
						for _, g := range out {
							if g.Fn == f {
								dup = true
							}
						}
						if !dup {
							visit(f)
						}
					}
				}
			}
		}
	}
	// dedupe
	seen := map[*ssa.Defer]bool{}
	var res []*guardInfo
	for _, g := range out {
		if !seen[g.Defer] {
			seen[g.Defer] = true
			res = append(res, g)
		}
	}
	sort.Slice(res, func(i, j int) bool { return res[i].Fn.String() < res[j].Fn.String() })
	return res
}

// guardedAfter reports whether instruction (block bi, index ii) of guard g's
// function executes with the guard's defer already registered.
func guardedAt(g *guardInfo, b *ssa.BasicBlock, idx int) bool {
	db := g.Defer.Block()
	if db.Index != 0 {
		// conditional guard: only instructions dominated by the defer block and after it
		if b == db {
			for i, in := range b.Instrs {
				if in == ssa.Instruction(g.Defer) {
					return idx > i
				}
			}
		}
		return db.Dominates(b) && b != db
	}
	if b == db {
		for i, in := range b.Instrs {
			if in == ssa.Instruction(g.Defer) {
				return idx > i
			}
		}
		return false
	}
	return true
}

func (c *Ctx) regions(entryNames []string) *regionInfo {
	cg := c.CallGraph()
	ri := &regionInfo{U: map[*ssa.Function]string{}, H: map[*ssa.Function]string{}}
	ri.Guards = c.findGuards()
	guardOf := map[*ssa.Function]*guardInfo{}
	handler := map[*ssa.Function]bool{}
	for _, g := range ri.Guards {
		guardOf[g.Fn] = g
		handler[g.Handler] = true
	}
	for _, n := range entryNames {
		if f := c.SSAFunc(n); f != nil {
			ri.Entries = append(ri.Entries, f)
		} else {
			ri.Notes = append(ri.Notes, "entry point not found: "+n)
		}
	}
	explore := func(set map[*ssa.Function]string, roots []*ssa.Function, rootWhy string) {
		var work []*ssa.Function
		add := func(f *ssa.Function, why string) {
			if f == nil || !inPkg(f) || f.Blocks == nil {
				return
			}
			if _, ok := set[f]; ok {
				return
			}
			set[f] = why
			work = append(work, f)
		}
		for _, r := range roots {
			add(r, rootWhy)
		}
		for len(work) > 0 {
			f := work[len(work)-1]
			work = work[:len(work)-1]
			g := guardOf[f]
			node := cg.Nodes[f]
			edgesBySite := map[ssa.CallInstruction][]*callgraph.Edge{}
			if node != nil {
				for _, e := range node.Out {
					edgesBySite[e.Site] = append(edgesBySite[e.Site], e)
				}
			}
			for _, b := range f.Blocks {
				for i, in := range b.Instrs {
					if g != nil && guardedAt(g, b, i) {
						continue
					}
					switch x := in.(type) {
					case *ssa.MakeClosure:
						if fn, ok := x.Fn.(*ssa.Function); ok && !handler[fn] {
							add(fn, "closure created in "+f.Name())
						}
					case ssa.CallInstruction:
						if d, ok := x.(*ssa.Defer); ok && g != nil && d == g.Defer {
							continue
						}
						com := x.Common()
						if sc := com.StaticCallee(); sc != nil {
							add(sc, "called from "+f.Name())
							// function values passed as arguments may be called back
						} else {
							for _, e := range edgesBySite[x] {
								add(e.Callee.Func, "dynamic call from "+f.Name())
							}
						}
						for _, a := range com.Args {
							if fn, ok := a.(*ssa.Function); ok {
								add(fn, "function value passed by "+f.Name())
							}
						}
					}
					// function values stored or bound
					for _, op := range in.Operands(nil) {
						if op == nil || *op == nil {
							continue
						}
						if fn, ok := (*op).(*ssa.Function); ok && !handler[fn] {
							if _, isCall := in.(ssa.CallInstruction); !isCall {
								add(fn, "function value used in "+f.Name())
							}
						}
					}
				}
			}
		}
	}
	explore(ri.U, ri.Entries, "entry point")
	var hs []*ssa.Function
	for _, g := range ri.Guards {
		hs = append(hs, g.Handler)
	}
	explore(ri.H, hs, "deferred recover handler")
	return ri
}

// fnDisplay gives a stable readable name: Recv.Name or Name, closures as Parent$n.
func fnDisplay(f *ssa.Function) string {
	s := f.String()
	s = strings.ReplaceAll(s, modPath+".", "")
	s = strings.ReplaceAll(s, "(*", "")
	s = strings.ReplaceAll(s, "(", "")
	s = strings.ReplaceAll(s, ")", "")
	return s
}

// syntaxOf returns the AST body a function's sites are enumerated in, and the
// position after which (for guards) code is protected.
func (c *Ctx) syntaxOf(f *ssa.Function, guards []*guardInfo) (ast.Node, token.Pos) {
	syn := f.Syntax()
	if syn == nil {
		return nil, token.NoPos
	}
	var cut token.Pos
	for _, g := range guards {
		if g.Fn == f {
			cut = g.Defer.Pos()
		}
	}
	return syn, cut
}
