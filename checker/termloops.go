package main

// TERM-LOOPS: every loop of tokenizer, loader, tree sort, compiler and optimiser
// is of a catalogue shape with an evident variant; recursion descends the token tree.

import (
	"fmt"
	"go/ast"
	"go/token"
	"go/types"
	"sort"
	"strings"
)

var termRoots = []string{"tokenize", "loadPackage", "loadFile", "loadImports", "compilePkgs", "compile", "compiler.run", "treeSort", "VM.treeDump", "VM.codeDump"}

// staticReach: functions reachable through static in-package calls, not entering parser functions or the VM's exec.
func (c *Ctx) staticReach(roots []string, stop func(*ast.FuncDecl) bool) []*ast.FuncDecl {
	seen := map[*ast.FuncDecl]bool{}
	var order []*ast.FuncDecl
	var visit func(fd *ast.FuncDecl)
	visit = func(fd *ast.FuncDecl) {
		if fd == nil || fd.Body == nil || seen[fd] || stop(fd) {
			return
		}
		seen[fd] = true
		order = append(order, fd)
		ast.Inspect(fd.Body, func(n ast.Node) bool {
			switch x := n.(type) {
			case *ast.CallExpr:
				visit(c.DeclOf(c.Callee(x)))
			case *ast.Ident:
				if f, ok := c.Obj(x).(*types.Func); ok {
					visit(c.DeclOf(f)) // function values
				}
			}
			return true
		})
	}
	for _, r := range roots {
		visit(c.Func(r))
	}
	sort.Slice(order, func(i, j int) bool { return order[i].Pos() < order[j].Pos() })
	return order
}

func (c *Ctx) fnName(fd *ast.FuncDecl) string {
	if fd.Recv != nil && len(fd.Recv.List) == 1 {
		return recvTypeName(fd.Recv.List[0].Type) + "." + fd.Name.Name
	}
	return fd.Name.Name
}

// lenGT0: cond is `len(X) > 0` (or != 0, >= 1); returns X's source.
func (c *Ctx) lenGT0(e ast.Expr) string {
	be, ok := unparen(e).(*ast.BinaryExpr)
	if !ok {
		return ""
	}
	call, ok := unparen(be.X).(*ast.CallExpr)
	if !ok || c.CalleeName(call) != "builtin.len" {
		return ""
	}
	k, ok := c.ConstInt(be.Y)
	if !ok {
		return ""
	}
	if be.Op == token.GTR && k == 0 || be.Op == token.NEQ && k == 0 || be.Op == token.GEQ && k == 1 {
		return nosp(c.Src(call.Args[0]))
	}
	return ""
}

// shrinks: statement is X = X[1:] or X = X[:len(X)-1].
func (c *Ctx) shrinks(s ast.Stmt, x string) bool {
	as, ok := s.(*ast.AssignStmt)
	if !ok || len(as.Lhs) != 1 || len(as.Rhs) != 1 || nosp(c.Src(as.Lhs[0])) != x || as.Tok != token.ASSIGN {
		return false
	}
	se, ok := unparen(as.Rhs[0]).(*ast.SliceExpr)
	if !ok || nosp(c.Src(se.X)) != x || se.Max != nil {
		return false
	}
	if se.Low != nil && se.High == nil {
		k, ok := c.ConstInt(se.Low)
		return ok && k >= 1
	}
	if se.Low == nil && se.High != nil {
		k, ok := c.lenMinus(se.High, x)
		return ok && k >= 1
	}
	return false
}

// loopBranches: continue statements belonging to this loop (not to nested loops), by position.
func loopContinues(body *ast.BlockStmt) []token.Pos {
	var out []token.Pos
	var visit func(n ast.Node)
	visit = func(n ast.Node) {
		ast.Inspect(n, func(m ast.Node) bool {
			switch x := m.(type) {
			case *ast.ForStmt, *ast.RangeStmt, *ast.FuncLit:
				if m != n {
					return false
				}
			case *ast.BranchStmt:
				if x.Tok == token.CONTINUE {
					out = append(out, x.Pos())
				}
			}
			return true
		})
	}
	visit(body)
	return out
}

func (c *Ctx) classifyLoop(fd *ast.FuncDecl, s ast.Stmt) (string, string) {
	switch l := s.(type) {
	case *ast.RangeStmt:
		return "range", "ranges over a collection evaluated once"
	case *ast.ForStmt:
		if c.isCountedLoop(l) {
			return "counted", "counted loop: the variable moves monotonically towards a bound the body does not change"
		}
		// scanner loop
		if l.Post != nil && l.Cond != nil {
			if as, ok := l.Post.(*ast.AssignStmt); ok && len(as.Rhs) == 1 {
				if call, ok := unparen(as.Rhs[0]).(*ast.CallExpr); ok && strings.HasSuffix(c.CalleeName(call), "scanner.Scanner.Scan") {
					v := c.Src(as.Lhs[0])
					for _, cj := range conjuncts(l.Cond) {
						if be, ok := unparen(cj).(*ast.BinaryExpr); ok && be.Op == token.NEQ && c.Src(be.X) == v && strings.HasSuffix(c.Src(be.Y), "scanner.EOF") {
							return "scanner", "advances text/scanner once per iteration until EOF"
						}
					}
				}
			}
		}
		if l.Cond == nil {
			return "", "unconditional loop"
		}
		if l.Init == nil && l.Post == nil && c.isWhileCounted(l) {
			return "counted", "while-form counted loop: a conjunct bounds the variable by a constant and every iteration ends by stepping it towards the bound"
		}
		if sx := c.strNonEmpty(l.Cond); sx != nil {
			if why := c.stringDrain(fd, l, sx); why == "" {
				return "string-drain", "every iteration that continues replaces " + sx.Name() + " by a strictly shorter remainder of itself (strings.Cut / CutPrefix with a non-empty separator)"
			} else {
				return "", "loop over the string " + sx.Name() + ": " + why
			}
		}
		x := c.lenGT0(l.Cond)
		if x == "" {
			return "", "loop condition is not of a catalogue shape: " + c.Src(l.Cond)
		}
		// for ; len(x) > 0; x = x[1:] { ... }: the post statement shrinks x after every iteration (continue included)
		if l.Post != nil && c.shrinks(l.Post, x) {
			grows := false
			ast.Inspect(l.Body, func(n ast.Node) bool {
				if as, ok := n.(*ast.AssignStmt); ok {
					for _, lh := range as.Lhs {
						if nosp(c.Src(lh)) == x {
							grows = true
						}
					}
				}
				return true
			})
			if !grows {
				return "slice-drain", "the post statement removes an element from " + x + " after every iteration and the body does not assign it"
			}
		}
		// statements of the body that assign x
		var shrinkAt token.Pos
		nShrink := 0
		var pushes []ast.Node
		other := false
		for _, st := range l.Body.List {
			if c.shrinks(st, x) {
				nShrink++
				if !shrinkAt.IsValid() {
					shrinkAt = st.Pos()
				}
			}
		}
		ast.Inspect(l.Body, func(n ast.Node) bool {
			as, ok := n.(*ast.AssignStmt)
			if !ok {
				return true
			}
			for i, lh := range as.Lhs {
				if nosp(c.Src(lh)) != x {
					continue
				}
				if c.shrinks(as, x) {
					continue
				}
				if i < len(as.Rhs) {
					if call, ok := unparen(as.Rhs[i]).(*ast.CallExpr); ok && c.CalleeName(call) == "builtin.append" && nosp(c.Src(call.Args[0])) == x {
						pushes = append(pushes, as)
						continue
					}
				}
				other = true
			}
			return true
		})
		if nShrink >= 1 && !other {
			early := false
			for _, p := range loopContinues(l.Body) {
				if p < shrinkAt {
					early = true
				}
			}
			if !early && len(pushes) == 0 {
				return "slice-drain", "every iteration removes an element from " + x + " and nothing is added"
			}
			if !early && len(pushes) > 0 {
				if why := c.worklistVisited(l, x, pushes); why == "" {
					return "worklist", "worklist with a visited set: an iteration pushes only after recording a key that was not recorded before"
				} else {
					return "", "worklist loop: " + why
				}
			}
		}
		// map / selection drain
		if why := c.selectionDrain(l); why == "" {
			return "selection-drain", "each iteration selects an element of a candidate list (or returns) and removes it from the list"
		} else if nShrink == 0 {
			return "", "drain loop over " + x + ": " + why
		}
		return "", "loop over " + x + " is not a recognised drain"
	}
	return "", "unknown loop statement"
}

// worklistVisited: pushes happen only after `M[k] = ..` at top level, and a
// top-level `if _, ok := M[k]; ok { continue }` precedes that, with k popped from x.
func (c *Ctx) worklistVisited(l *ast.ForStmt, x string, pushes []ast.Node) string {
	list := l.Body.List
	// membership-continue
	memIdx, M, K := -1, "", ""
	for i, st := range list {
		ifs, ok := st.(*ast.IfStmt)
		if !ok || ifs.Init == nil {
			continue
		}
		as, ok := ifs.Init.(*ast.AssignStmt)
		if !ok || len(as.Lhs) != 2 || len(as.Rhs) != 1 {
			continue
		}
		ix, ok := unparen(as.Rhs[0]).(*ast.IndexExpr)
		if !ok {
			continue
		}
		if _, isMap := c.TypeOf(ix.X).Underlying().(*types.Map); !isMap {
			continue
		}
		if c.Src(ifs.Cond) != c.Src(as.Lhs[1]) || len(ifs.Body.List) != 1 {
			continue
		}
		if br, ok := ifs.Body.List[0].(*ast.BranchStmt); ok && br.Tok == token.CONTINUE {
			memIdx, M, K = i, nosp(c.Src(ix.X)), nosp(c.Src(ix.Index))
			break
		}
	}
	if memIdx < 0 {
		return "no `if _, ok := visited[k]; ok { continue }` at top level"
	}
	// K is popped from x
	popped := false
	for _, st := range list[:memIdx] {
		if as, ok := st.(*ast.AssignStmt); ok && len(as.Lhs) == 1 && nosp(c.Src(as.Lhs[0])) == K {
			if ix, ok := unparen(as.Rhs[0]).(*ast.IndexExpr); ok && nosp(c.Src(ix.X)) == x {
				popped = true
			}
		}
	}
	if !popped {
		return "the tested key is not the element popped from the worklist"
	}
	// record M[K] = .. at top level before every push
	recAt := token.NoPos
	for _, st := range list[memIdx+1:] {
		if as, ok := st.(*ast.AssignStmt); ok && len(as.Lhs) == 1 {
			if ix, ok := unparen(as.Lhs[0]).(*ast.IndexExpr); ok && nosp(c.Src(ix.X)) == M && nosp(c.Src(ix.Index)) == K {
				recAt = st.Pos()
				break
			}
		}
	}
	if !recAt.IsValid() {
		return "the popped key is not recorded in " + M + " at top level"
	}
	for _, p := range pushes {
		if p.Pos() < recAt {
			return "a push precedes the recording of the key"
		}
	}
	return ""
}

// ---- recursion ----

func isTokenish(t types.Type) bool {
	if isNamed(t, "token") {
		return true
	}
	if s, ok := t.(*types.Slice); ok {
		return isNamed(s.Elem(), "token")
	}
	return false
}

// tokenSteps: how many `.Tokens` steps below one of fd's token parameters the
// expression lies (-1 = cannot tell).
func (c *Ctx) tokenSteps(fd *ast.FuncDecl, e ast.Expr, depth int) int {
	if depth > 24 {
		return -1
	}
	switch x := unparen(e).(type) {
	case *ast.Ident:
		o := c.Obj(x)
		if isParamOrRecv(c, fd, o) {
			return 0
		}
		// single definition
		steps, defs := -1, 0
		ast.Inspect(fd.Body, func(n ast.Node) bool {
			switch s := n.(type) {
			case *ast.AssignStmt:
				for i, l := range s.Lhs {
					lid, ok := l.(*ast.Ident)
					if !ok || (c.Info.Defs[lid] != o && !(s.Tok == token.ASSIGN && c.Info.Uses[lid] == o)) {
						continue
					}
					defs++
					if len(s.Rhs) == len(s.Lhs) {
						steps = c.tokenSteps(fd, s.Rhs[i], depth+1)
					}
				}
			case *ast.RangeStmt:
				if vid, ok := s.Value.(*ast.Ident); ok && c.Info.Defs[vid] == o {
					defs++
					steps = c.tokenSteps(fd, s.X, depth+1)
				}
			case *ast.ValueSpec:
				for i, nm := range s.Names {
					if c.Info.Defs[nm] == o {
						defs++
						if i < len(s.Values) {
							steps = c.tokenSteps(fd, s.Values[i], depth+1)
						} else {
							steps = -1
						}
					}
				}
			}
			return true
		})
		if defs >= 1 {
			return steps // with several definitions the last one analysed wins only if all agree; be conservative
		}
		return -1
	case *ast.SelectorExpr:
		if x.Sel.Name == "Tokens" && isNamed(c.TypeOf(x.X), "token") {
			s := c.tokenSteps(fd, x.X, depth+1)
			if s < 0 {
				return -1
			}
			return s + 1
		}
	case *ast.IndexExpr:
		return c.tokenSteps(fd, x.X, depth+1)
	case *ast.SliceExpr:
		return c.tokenSteps(fd, x.X, depth+1)
	}
	return -1
}

type recEdge struct {
	From, To *ast.FuncDecl
	Steps    int
	Call     *ast.CallExpr
}

func ruleTermLoops(c *Ctx, r *R) {
	pa, err := c.newParAnalysis()
	if err != nil {
		r.undecided("parser", "-", err.Error())
		return
	}
	ex, err := c.execSwitch()
	if err != nil {
		r.undecided("exec", "-", err.Error())
		return
	}
	stop := func(fd *ast.FuncDecl) bool {
		if _, isP := pa.Funcs[fd]; isP {
			return true
		}
		return fd == ex.Fn
	}
	fns := c.staticReach(termRoots, stop)
	tri, err := loadTriage("term_loops.json")
	if err != nil {
		r.undecided("triage", "-", err.Error())
		return
	}
	inSet := map[*ast.FuncDecl]bool{}
	for _, fd := range fns {
		inSet[fd] = true
	}
	var names []string
	for _, fd := range fns {
		names = append(names, c.fnName(fd))
	}
	r.note("functions analysed (%d): %s", len(fns), strings.Join(names, ", "))
	// loops
	for _, fd := range fns {
		n := 0
		ast.Inspect(fd.Body, func(m ast.Node) bool {
			var st ast.Stmt
			switch x := m.(type) {
			case *ast.ForStmt:
				st = x
			case *ast.RangeStmt:
				st = x
			default:
				return true
			}
			n++
			key := fmt.Sprintf("%s loop#%d", c.fnName(fd), n)
			kind, why := c.classifyLoop(fd, st)
			if kind != "" {
				r.ok(key, kind+": "+why)
				return true
			}
			if t, ok := tri[key]; ok && t.Verdict == "safe" {
				if pok, pwhy := c.checkPremises(t.Premise); pok {
					r.ok(key, "triaged: "+t.Reason)
					return true
				} else {
					why += "; " + pwhy
				}
			}
			r.fail(key, c.Pos(st), fmt.Sprintf("loop in %s has no evident variant (%s): tokenizing/loading/compiling may not terminate on some input", c.fnName(fd), why))
			return true
		})
	}
	// recursion: SCCs of the static call graph
	var edges []*recEdge
	for _, fd := range fns {
		ast.Inspect(fd.Body, func(m ast.Node) bool {
			call, ok := m.(*ast.CallExpr)
			if !ok {
				return true
			}
			to := c.DeclOf(c.Callee(call))
			if to == nil || !inSet[to] {
				return true
			}
			steps := 1 << 20
			hasTok := false
			consider := func(e ast.Expr) {
				if !isTokenish(c.TypeOf(e)) {
					return
				}
				hasTok = true
				s := c.tokenSteps(fd, e, 0)
				if s < steps {
					steps = s
				}
			}
			if sel, ok := unparen(call.Fun).(*ast.SelectorExpr); ok && c.Info.Selections[sel] != nil {
				consider(sel.X)
			}
			for _, a := range call.Args {
				consider(a)
			}
			if !hasTok {
				steps = -2 // no token argument
			}
			edges = append(edges, &recEdge{From: fd, To: to, Steps: steps, Call: call})
			return true
		})
	}
	// find cycles whose every edge has Steps == 0 (or unknown): Tarjan on the subgraph of non-descending edges
	adj := map[*ast.FuncDecl][]*recEdge{}
	full := map[*ast.FuncDecl][]*recEdge{}
	for _, e := range edges {
		full[e.From] = append(full[e.From], e)
		if e.Steps <= 0 {
			adj[e.From] = append(adj[e.From], e)
		}
	}
	// recursive functions at all (for counting / reporting)
	onCycle := func(g map[*ast.FuncDecl][]*recEdge) map[*ast.FuncDecl]bool {
		res := map[*ast.FuncDecl]bool{}
		for _, start := range fns {
			seen := map[*ast.FuncDecl]bool{}
			var dfs func(f *ast.FuncDecl) bool
			dfs = func(f *ast.FuncDecl) bool {
				for _, e := range g[f] {
					if e.To == start {
						return true
					}
					if !seen[e.To] {
						seen[e.To] = true
						if dfs(e.To) {
							return true
						}
					}
				}
				return false
			}
			if dfs(start) {
				res[start] = true
			}
		}
		return res
	}
	recursive := onCycle(full)
	flat := onCycle(adj)
	for _, fd := range fns {
		if !recursive[fd] {
			continue
		}
		key := "recursion " + c.fnName(fd)
		if !flat[fd] {
			r.ok(key, "every call cycle through it passes a token at least one .Tokens step below its parameter")
			continue
		}
		if t, ok := tri[key]; ok && t.Verdict == "safe" {
			r.ok(key, "triaged: "+t.Reason)
			continue
		}
		// name an offending edge
		what := ""
		for _, e := range adj[fd] {
			if flat[e.To] || e.To == fd {
				what = fmt.Sprintf("%s -> %s at %s (steps=%d)", c.fnName(e.From), c.fnName(e.To), c.Pos(e.Call), e.Steps)
				break
			}
		}
		r.fail(key, c.Pos(fd), "recursion through "+c.fnName(fd)+" has a cycle that does not descend the token tree ("+what+"): unbounded recursion exhausts the Go stack, which is fatal to the host")
	}
}

// strNonEmpty: cond is `X != ""` (or len(X) > 0 handled elsewhere) for a string variable X.
func (c *Ctx) strNonEmpty(cond ast.Expr) types.Object {
	be, ok := unparen(cond).(*ast.BinaryExpr)
	if !ok || be.Op != token.NEQ {
		return nil
	}
	if v, ok := c.ConstString(be.Y); !ok || v != "" {
		return nil
	}
	id, ok := unparen(be.X).(*ast.Ident)
	if !ok {
		return nil
	}
	o := c.Obj(id)
	if o == nil {
		return nil
	}
	if b, ok := o.Type().Underlying().(*types.Basic); !ok || b.Info()&types.IsString == 0 {
		return nil
	}
	return o
}

// stringDrain: `for X != "" { .. }` terminates when (a) every assignment to X in the body
// stores a remainder of X (the `after` of strings.Cut(X, sep) or the `rest` of
// strings.CutPrefix(X, sep), sep a non-empty constant, optionally through strings.TrimSpace),
// which is never longer than X, (b) a CutPrefix remainder is stored only after its `found`
// result was tested (`if !found { return/break }`), so that it is strictly shorter, and
// (c) every way back to the loop head — each continue and the end of the body — is
// preceded by such a store on its own path.
func (c *Ctx) stringDrain(fd *ast.FuncDecl, l *ast.ForStmt, x types.Object) string {
	if l.Post != nil || l.Init != nil {
		return "init/post statements not expected"
	}
	type rem struct {
		strict bool         // strictly shorter without a test (Cut)
		found  types.Object // CutPrefix: the found flag
	}
	rems := map[types.Object]rem{}
	bad := ""
	ast.Inspect(l.Body, func(n ast.Node) bool {
		as, ok := n.(*ast.AssignStmt)
		if !ok || len(as.Rhs) != 1 {
			return true
		}
		call, ok := unparen(as.Rhs[0]).(*ast.CallExpr)
		if !ok || len(call.Args) != 2 {
			return true
		}
		nm := c.CalleeName(call)
		if nm != "strings.Cut" && nm != "strings.CutPrefix" {
			return true
		}
		a0, ok := unparen(call.Args[0]).(*ast.Ident)
		if !ok || c.Obj(a0) != x {
			return true
		}
		if sep, ok := c.ConstString(call.Args[1]); !ok || sep == "" {
			return true
		}
		if as.Tok != token.DEFINE {
			return true
		}
		if nm == "strings.Cut" && len(as.Lhs) == 3 {
			if id, ok := as.Lhs[1].(*ast.Ident); ok && id.Name != "_" {
				rems[c.Obj(id)] = rem{strict: true}
			}
		}
		if nm == "strings.CutPrefix" && len(as.Lhs) == 2 {
			id, ok1 := as.Lhs[0].(*ast.Ident)
			fl, ok2 := as.Lhs[1].(*ast.Ident)
			if ok1 && ok2 && id.Name != "_" && fl.Name != "_" {
				rems[c.Obj(id)] = rem{found: c.Obj(fl)}
			}
		}
		return true
	})
	// remainders are never reassigned
	ast.Inspect(l.Body, func(n ast.Node) bool {
		if as, ok := n.(*ast.AssignStmt); ok && as.Tok != token.DEFINE {
			for _, lh := range as.Lhs {
				if id, ok := unparen(lh).(*ast.Ident); ok {
					if _, isRem := rems[c.Obj(id)]; isRem {
						bad = "a remainder variable is reassigned"
					}
				}
			}
		}
		if u, ok := n.(*ast.UnaryExpr); ok && u.Op == token.AND {
			if id, ok := unparen(u.X).(*ast.Ident); ok && c.Obj(id) == x {
				bad = "the address of the string is taken"
			}
		}
		return true
	})
	if bad != "" {
		return bad
	}
	isStore := func(s ast.Stmt, tested map[types.Object]bool) (bool, string) {
		as, ok := s.(*ast.AssignStmt)
		if !ok {
			return false, ""
		}
		for i, lh := range as.Lhs {
			id, ok := unparen(lh).(*ast.Ident)
			if !ok || c.Obj(id) != x {
				continue
			}
			if as.Tok != token.ASSIGN || len(as.Lhs) != 1 || i >= len(as.Rhs) {
				return false, "assigned in an unrecognised statement: " + c.Src(as)
			}
			e := unparen(as.Rhs[0])
			if call, ok := e.(*ast.CallExpr); ok && c.CalleeName(call) == "strings.TrimSpace" && len(call.Args) == 1 {
				e = unparen(call.Args[0])
			}
			rid, ok := e.(*ast.Ident)
			if !ok {
				return false, "assigned something that is not a remainder of it: " + c.Src(as)
			}
			r, ok := rems[c.Obj(rid)]
			if !ok {
				return false, "assigned something that is not a remainder of it: " + c.Src(as)
			}
			if !r.strict && !tested[r.found] {
				return false, "the CutPrefix remainder " + rid.Name + " is stored without its found flag having been tested"
			}
			return true, ""
		}
		return false, ""
	}
	nCont := 0
	var walk func(list []ast.Stmt, shrunk bool, tested map[types.Object]bool) (bool, string)
	// returns whether the end of the list is reached with X shrunk
	walk = func(list []ast.Stmt, shrunk bool, tested map[types.Object]bool) (bool, string) {
		for _, st := range list {
			if ok, why := isStore(st, tested); why != "" {
				return false, why
			} else if ok {
				shrunk = true
				continue
			}
			switch s := st.(type) {
			case *ast.BranchStmt:
				if s.Tok == token.CONTINUE {
					nCont++
					if !shrunk {
						return false, "a continue is reached without the string having been shortened"
					}
					return true, ""
				}
				return true, "" // break leaves the loop
			case *ast.ReturnStmt:
				return true, ""
			case *ast.IfStmt:
				if s.Else != nil {
					return false, "if/else in the loop body not analysed"
				}
				t2 := map[types.Object]bool{}
				for k, v := range tested {
					t2[k] = v
				}
				if _, why := walk(s.Body.List, shrunk, t2); why != "" {
					return false, why
				}
				// `if !found { return/break }` establishes found afterwards
				if u, ok := unparen(s.Cond).(*ast.UnaryExpr); ok && u.Op == token.NOT && s.Init == nil {
					if id, ok := unparen(u.X).(*ast.Ident); ok && len(s.Body.List) > 0 {
						switch last := s.Body.List[len(s.Body.List)-1].(type) {
						case *ast.ReturnStmt:
							tested[c.Obj(id)] = true
						case *ast.BranchStmt:
							if last.Tok == token.BREAK {
								tested[c.Obj(id)] = true
							}
						}
					}
				}
				// the if body may or may not have shrunk: only what holds without it counts
			case *ast.ForStmt, *ast.RangeStmt, *ast.SwitchStmt, *ast.TypeSwitchStmt, *ast.SelectStmt, *ast.BlockStmt, *ast.LabeledStmt, *ast.GoStmt, *ast.DeferStmt:
				return false, "nested control statement in the loop body not analysed"
			}
		}
		if !shrunk {
			return false, "the end of the body is reached without the string having been shortened"
		}
		return true, ""
	}
	if _, why := walk(l.Body.List, false, map[types.Object]bool{}); why != "" {
		return why
	}
	if nCont != len(loopContinues(l.Body)) {
		return "a continue sits where the analysis did not look"
	}
	return ""
}

// isWhileCounted: `for v > k && .. { ..; v-- }` (or v < bound .. v++ with an unassigned
// bound): no continue in the body, the last statement of the body steps v towards the bound
// by a positive constant, and no other statement of the body moves v away from it.
func (c *Ctx) isWhileCounted(f *ast.ForStmt) bool {
	if len(f.Body.List) == 0 {
		return false
	}
	var o types.Object
	up := false
	switch last := f.Body.List[len(f.Body.List)-1].(type) {
	case *ast.IncDecStmt:
		id, ok := unparen(last.X).(*ast.Ident)
		if !ok {
			return false
		}
		o, up = c.Obj(id), last.Tok == token.INC
	case *ast.AssignStmt:
		if len(last.Lhs) != 1 || len(last.Rhs) != 1 {
			return false
		}
		id, ok := unparen(last.Lhs[0]).(*ast.Ident)
		k, isC := c.ConstInt(last.Rhs[0])
		if !ok || !isC || k <= 0 {
			return false
		}
		switch last.Tok {
		case token.ADD_ASSIGN:
			up = true
		case token.SUB_ASSIGN:
			up = false
		default:
			return false
		}
		o = c.Obj(id)
	default:
		return false
	}
	v, ok := o.(*types.Var)
	if !ok || v.IsField() || v.Parent() == c.Types.Scope() {
		return false
	}
	if b, ok := v.Type().Underlying().(*types.Basic); !ok || b.Info()&types.IsInteger == 0 {
		return false
	}
	bounded := false
	boundObjs := map[types.Object]bool{}
	for _, cj := range conjuncts(f.Cond) {
		be, ok := unparen(cj).(*ast.BinaryExpr)
		if !ok {
			continue
		}
		id, ok := unparen(be.X).(*ast.Ident)
		if !ok || c.Obj(id) != o {
			continue
		}
		if !up && (be.Op == token.GTR || be.Op == token.GEQ) || up && (be.Op == token.LSS || be.Op == token.LEQ) {
			bounded = true
			ast.Inspect(be.Y, func(n ast.Node) bool {
				if bid, ok := n.(*ast.Ident); ok {
					if bv, ok := c.Obj(bid).(*types.Var); ok {
						boundObjs[bv] = true
					}
				}
				return true
			})
		}
	}
	if !bounded {
		return false
	}
	okBody := true
	ast.Inspect(f.Body, func(n ast.Node) bool {
		switch x := n.(type) {
		case *ast.FuncLit:
			okBody = false
		case *ast.BranchStmt:
			if x.Tok == token.CONTINUE || x.Tok == token.GOTO {
				okBody = false
			}
		case *ast.AssignStmt:
			for _, l := range x.Lhs {
				if lid, ok := unparen(l).(*ast.Ident); ok {
					lo := c.Obj(lid)
					if lo == o && n != ast.Node(f.Body.List[len(f.Body.List)-1]) {
						okBody = false
					}
					if boundObjs[lo] && x.Tok != token.DEFINE {
						okBody = false
					}
				}
			}
		case *ast.IncDecStmt:
			if lid, ok := unparen(x.X).(*ast.Ident); ok && c.Obj(lid) == o && up != (x.Tok == token.INC) {
				okBody = false
			}
		case *ast.UnaryExpr:
			if x.Op == token.AND {
				if lid, ok := unparen(x.X).(*ast.Ident); ok && c.Obj(lid) == o {
					okBody = false
				}
			}
		}
		return true
	})
	return okBody
}
