package main

// PAN-KEYFIELD: the code dump (WithCodeDump) renders instructions outside any recover guard,
// and instruction.String looks operands up in the globals table with g.Key(int(i.F)), which
// indexes without a check. That is safe only for an operand that holds a globals index. The
// rule derives, from the emitters, which (opcode, field) pairs can hold one — a field set from
// c.Globals.Index(..) (directly or through a local), or copied by a peephole rewrite from such
// a field of a window instruction — and demands that every opcode of a `case` group of
// instruction.String that calls g.Key on field F is such a pair.

import (
	"fmt"
	"go/ast"
	"go/types"
	"sort"
	"strings"
)

func (c *Ctx) globalIndexFields() map[string]bool {
	G := map[string]bool{}
	var isGlobalExpr func(e ast.Expr, fd *ast.FuncDecl, depth int) bool
	isGlobalExpr = func(e ast.Expr, fd *ast.FuncDecl, depth int) bool {
		if depth > 4 {
			return false
		}
		e = unparen(e)
		switch x := e.(type) {
		case *ast.CallExpr:
			if _, isConv := c.IsConversion(x); isConv && len(x.Args) == 1 {
				return isGlobalExpr(x.Args[0], fd, depth+1)
			}
			switch c.CalleeName(x) {
			case "lookup.Index":
				sel, ok := unparen(x.Fun).(*ast.SelectorExpr)
				if !ok {
					return false
				}
				rs := nosp(c.Src(sel.X))
				if strings.HasSuffix(rs, "Globals") || strings.HasSuffix(rs, "globals") || rs == "g" {
					return true
				}
				// a table variable that may be the globals table
				if id, ok := unparen(sel.X).(*ast.Ident); ok && fd != nil {
					may := false
					ast.Inspect(fd.Body, func(n ast.Node) bool {
						if as, ok := n.(*ast.AssignStmt); ok && len(as.Lhs) == len(as.Rhs) {
							for i, l := range as.Lhs {
								if li, ok := l.(*ast.Ident); ok && c.Obj(li) == c.Obj(id) && strings.HasSuffix(nosp(c.Src(as.Rhs[i])), "Globals") {
									may = true
								}
							}
						}
						return true
					})
					return may
				}
			}
			// helpers returning a globals index together with ok: c.importedGlobal(..)
			if h := c.DeclOf(c.Callee(x)); h != nil && h.Body != nil && depth < 3 {
				g := false
				ast.Inspect(h.Body, func(n ast.Node) bool {
					if rs, ok := n.(*ast.ReturnStmt); ok && len(rs.Results) >= 1 && isGlobalExpr(rs.Results[0], h, depth+1) {
						g = true
					}
					return true
				})
				return g
			}
		case *ast.Ident:
			if fd == nil {
				return false
			}
			o := c.Obj(x)
			g := false
			ast.Inspect(fd.Body, func(n ast.Node) bool {
				as, ok := n.(*ast.AssignStmt)
				if !ok {
					return true
				}
				for i, l := range as.Lhs {
					li, ok := l.(*ast.Ident)
					if !ok || c.Obj(li) != o {
						continue
					}
					var rhs ast.Expr
					if len(as.Lhs) == len(as.Rhs) {
						rhs = as.Rhs[i]
					} else if len(as.Rhs) == 1 && i == 0 {
						rhs = as.Rhs[0] // idx, ok := helper(..)
					}
					if rhs != nil && unparen(rhs) != ast.Expr(x) && isGlobalExpr(rhs, fd, depth+1) {
						g = true
					}
				}
				return true
			})
			return g
		}
		return false
	}
	for _, f := range c.Pkg.Syntax {
		ast.Inspect(f, func(n ast.Node) bool {
			cl, ok := n.(*ast.CompositeLit)
			if !ok || !isNamed(c.TypeOf(cl), "instruction") {
				return true
			}
			fd := c.EnclosingFunc(cl)
			var codes []string
			fields := map[string]ast.Expr{}
			for _, el := range cl.Elts {
				kv, ok := el.(*ast.KeyValueExpr)
				if !ok {
					continue
				}
				k := types.ExprString(kv.Key)
				if k == "Code" {
					v := unparen(kv.Value)
					if nm := c.codeConstName(v); nm != "" {
						codes = []string{nm}
					} else if fd != nil {
						// a variable or table lookup: every code constant mentioned in the function that could flow here
						if id, ok := v.(*ast.Ident); ok {
							ast.Inspect(fd.Body, func(m ast.Node) bool {
								if as, ok := m.(*ast.AssignStmt); ok && len(as.Lhs) == len(as.Rhs) {
									for i, l := range as.Lhs {
										if li, ok := l.(*ast.Ident); ok && c.Obj(li) == c.Obj(id) {
											if nm := c.codeConstName(unparen(as.Rhs[i])); nm != "" {
												codes = append(codes, nm)
											}
										}
									}
								}
								return true
							})
						}
					}
				} else {
					fields[k] = kv.Value
				}
			}
			for _, op := range codes {
				for f, e := range fields {
					if (f == "A" || f == "B" || f == "C") && isGlobalExpr(e, fd, 0) {
						G[op+"."+f] = true
					}
				}
			}
			return true
		})
	}
	// peephole rewrites copy operands
	if p, err := c.peephole(); err == nil {
		for changed := true; changed; {
			changed = false
			for _, rw := range p.Rewrites {
				if rw.Lit == nil || rw.Produces == "" {
					continue
				}
				for _, f := range []string{"A", "B", "C"} {
					v := litField(rw.Lit, f)
					if v == nil {
						continue
					}
					s := v.String()
					for k, op := range rw.Window {
						for _, wf := range []string{"A", "B", "C"} {
							if s == fmt.Sprintf("I%d.%s", k, wf) && G[op+"."+wf] && !G[rw.Produces+"."+f] {
								G[rw.Produces+"."+f] = true
								changed = true
							}
						}
					}
				}
			}
		}
	}
	return G
}

// keyFieldAxioms: operands that hold a globals index by construction of the type word, which
// the emitter dataflow does not follow.
var keyFieldAxioms = map[string]string{
	"codeNewStruct.A": "the value() of a struct type word is the global index of its type object (typeFromToken builds it as structType(index))",
}

func rulePanKeyField(c *Ctx, r *R) {
	fd := c.Func("instruction.String")
	if fd == nil {
		r.undecided("instruction.String", "-", "not found")
		return
	}
	G := c.globalIndexFields()
	for k := range keyFieldAxioms {
		G[k] = true
	}
	var have []string
	for k := range G {
		have = append(have, strings.TrimPrefix(k, "code"))
	}
	sort.Strings(have)
	r.note("operands that can hold a globals index (%d): %s", len(have), strings.Join(have, " "))
	n := 0
	ast.Inspect(fd.Body, func(m ast.Node) bool {
		cc, ok := m.(*ast.CaseClause)
		if !ok {
			return true
		}
		var ops []string
		for _, e := range cc.List {
			if nm := c.codeConstName(e); nm != "" {
				ops = append(ops, nm)
			}
		}
		if len(ops) == 0 {
			return true
		}
		for _, st := range cc.Body {
			ast.Inspect(st, func(q ast.Node) bool {
				call, ok := q.(*ast.CallExpr)
				if !ok || c.CalleeName(call) != "lookup.Key" || len(call.Args) != 1 {
					return true
				}
				// g.Key(int(i.F))
				arg := unparen(call.Args[0])
				if cv, ok := arg.(*ast.CallExpr); ok && len(cv.Args) == 1 {
					arg = unparen(cv.Args[0])
				}
				sel, ok := arg.(*ast.SelectorExpr)
				if !ok {
					r.undecided("Key operand", c.Pos(call), "g.Key is not applied to an instruction field: "+c.Src(call.Args[0]))
					return true
				}
				f := sel.Sel.Name
				for _, op := range ops {
					n++
					r.check(G[op+"."+f], strings.TrimPrefix(op, "code")+"."+f, c.Pos(call), "holds a globals index (set from Globals.Index, or copied from such an operand by a rewrite)",
						fmt.Sprintf("instruction.String looks up operand %s of %s in the globals table (g.Key indexes unchecked), but no emitter puts a globals index there — for FASTGETINT/FASTSETINT it is the script's integer literal: with WithCodeDump, `buf[4095]` or `a[-1]` on a local panics in the host (the dump runs outside any recover guard), a small literal prints another global's name", f, strings.TrimPrefix(op, "code")))
				}
				return true
			})
		}
		return true
	})
	if n == 0 {
		r.undecided("instruction.String", c.Pos(fd), "no g.Key lookup found")
	}
}
