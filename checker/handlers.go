package main

// Handler summariser: symbolic execution of the case bodies of (*VM).exec over
// an abstract operand stack.  Terms: TopK (k-th entry from the top at entry),
// Local(f) (v.stack[baseN+int(f)]), I.A/I.B/I.C (operands of the current
// instruction), calls of the semantic operations.

import (
	"fmt"
	"go/ast"
	"go/types"
	"sort"
	"strings"
)

type stk struct {
	pop  int
	push []*T
	need int
	dyn  bool // the stack was changed by a run-time dependent amount
}

func (s *stk) Clone() any {
	n := *s
	n.push = append([]*T(nil), s.push...)
	return &n
}

func (s *stk) String() string {
	var p []string
	for _, t := range s.push {
		p = append(p, t.String())
	}
	d := ""
	if s.dyn {
		d = " dyn"
	}
	return fmt.Sprintf("pop%d push[%s]%s", s.pop, strings.Join(p, "; "), d)
}

func topTerm(k int) *T { return &T{Op: "var", Name: fmt.Sprintf("Top%d", k)} }

func (s *stk) height() int { return len(s.push) - s.pop }

// read returns the entry j positions below the top (j>=1).
func (s *stk) read(j int) *T {
	if j <= len(s.push) {
		return s.push[len(s.push)-j]
	}
	d := s.pop + (j - len(s.push))
	if d > s.need {
		s.need = d
	}
	return topTerm(d)
}

func (s *stk) write(j int, v *T) {
	for len(s.push) < j {
		s.pop++
		if s.pop > s.need {
			s.need = s.pop
		}
		s.push = append([]*T{topTerm(s.pop)}, s.push...)
	}
	s.push[len(s.push)-j] = v
}

func (s *stk) drop(n int) {
	if n <= len(s.push) {
		s.push = s.push[:len(s.push)-n]
		return
	}
	s.pop += n - len(s.push)
	s.push = nil
	if s.pop > s.need {
		s.need = s.pop
	}
}

// canon removes re-pushed untouched originals at the bottom.
func (s *stk) canon() {
	for len(s.push) > 0 && s.pop > 0 && s.push[0].Op == "var" && s.push[0].Name == fmt.Sprintf("Top%d", s.pop) {
		s.push = s.push[1:]
		s.pop--
	}
}

type hndMachine struct {
	c      *Ctx
	sw     *bigSwitch
	in     *Interp
	pre    *State // state after exec's preamble
	curIns *T
	recv   string
	noRet  map[types.Object]bool
}

const curInsKey = "v.frame.Codes[v.frame.N]"

func newHndMachine(c *Ctx) (*hndMachine, error) {
	sw, err := c.execSwitch()
	if err != nil {
		return nil, err
	}
	m := &hndMachine{c: c, sw: sw}
	fd := sw.Fn
	if fd.Recv == nil || len(fd.Recv.List[0].Names) != 1 {
		return nil, fmt.Errorf("exec has no named receiver")
	}
	m.recv = fd.Recv.List[0].Names[0].Name
	in := newInterp(c)
	m.in = in
	in.Inline = func(o types.Object) bool {
		// small helpers of the VM that manipulate the operand stack (e.g. an extracted pop) are executed in place;
		// the semantic operations (call, callReady, op methods, containers) stay named calls
		fn, ok := o.(*types.Func)
		if !ok || fn.Pkg() == nil || fn.Pkg().Path() != modPath {
			return false
		}
		switch fn.Name() {
		case "exec", "run", "Func", "Call", "Eval", "Load", "btErr", "mkFunc", "Yield":
			return false
		}
		if pk, rd := c.callProtocol(); (pk != nil && c.Info.Defs[pk.Name] == o) || (rd != nil && c.Info.Defs[rd.Name] == o) {
			return false
		}
		sig := fn.Type().(*types.Signature)
		takesVM := sig.Recv() != nil && isNamed(sig.Recv().Type(), "VM")
		for i := 0; i < sig.Params().Len() && !takesVM; i++ {
			takesVM = isNamed(sig.Params().At(i).Type(), "VM")
		}
		if !takesVM {
			return false
		}
		fd := c.DeclOf(fn)
		return fd != nil && fd.Body != nil && len(fd.Body.List) <= 6 && c.isNewHelper(fn)
	}
	in.H.Post = m.post
	in.H.Call = m.call
	in.H.Assign = m.assign
	// preamble: the statements of exec before the dispatch loop
	st := newState()
	st.X = &stk{}
	in.bindParams(st, fd.Recv, fd.Type, map[string]*T{m.recv: tVar(nil, "v")})
	var loop *ast.ForStmt
	for _, s := range fd.Body.List {
		if f, ok := s.(*ast.ForStmt); ok {
			loop = f
			break
		}
		res := in.execStmt(s, st)
		if len(res) != 1 {
			return nil, fmt.Errorf("exec preamble forks")
		}
		st = res[0]
	}
	if loop == nil {
		return nil, fmt.Errorf("exec has no dispatch loop")
	}
	m.pre = st
	return m, nil
}

func (m *hndMachine) model(st *State) *stk { return st.X.(*stk) }

func (m *hndMachine) stackTerm(st *State) *T {
	return &T{Op: "stack", Aux: m.model(st).Clone()}
}

func isStackField(t *T) bool { return t.Op == "field" && t.Name == "stack" && t.Args[0].Op == "var" && t.Args[0].Name == "v" }

func (m *hndMachine) post(in *Interp, st *State, e ast.Expr, t *T) *T {
	switch t.Op {
	case "field":
		if isStackField(t) {
			return m.stackTerm(st)
		}
		if t.Args[0].String() == curInsKey {
			return tField(m.curIns, t.Name)
		}
	case "index":
		if t.String() == curInsKey {
			return m.curIns
		}
		if t.Args[0].Op == "stack" {
			return m.readIndex(st, t.Args[0].Aux.(*stk), t.Args[1])
		}
	case "slice":
		if t.Args[0].Op == "stack" && t.Args[1] == nil && t.Args[2] != nil && len(t.Args) == 3 {
			s := t.Args[0].Aux.(*stk).Clone().(*stk)
			l := linOf(t.Args[2])
			if c, ok := m.relTop(l); ok {
				drop := s.height() - int(c)
				if drop >= 0 {
					s.drop(drop)
					return &T{Op: "stack", Aux: s}
				}
			}
			s.dyn = true
			return &T{Op: "stack", Aux: s, Name: "dynslice:" + l.String()}
		}
	}
	return nil
}

// relTop: l == L + c ?
func (m *hndMachine) relTop(l *linForm) (int64, bool) {
	if len(l.Coef) == 1 && l.Coef["L"] == 1 {
		return l.K, true
	}
	return 0, false
}

// relBase: l == baseN + rest ?
func (m *hndMachine) relBase(l *linForm) (*T, bool) {
	const b = "v.frame.BaseN"
	if l.Coef[b] != 1 || l.Coef["L"] != 0 {
		return nil, false
	}
	r := newLin()
	r.K = l.K
	for k, c := range l.Coef {
		if k != b {
			r.Coef[k] = c
			r.Atom[k] = l.Atom[k]
		}
	}
	return r.term(), true
}

func localTerm(slot *T) *T { return &T{Op: "call", Name: "Local", Args: []*T{stripIntConv(slot)}} }

func (m *hndMachine) readIndex(st *State, s *stk, idx *T) *T {
	l := linOf(idx)
	if c, ok := m.relTop(l); ok {
		j := s.height() - int(c)
		if j >= 1 {
			live := m.model(st)
			// reads through a snapshot must see the snapshot's contents
			v := s.read(j)
			if s.need > live.need {
				live.need = s.need
			}
			return v
		}
	}
	if slot, ok := m.relBase(l); ok {
		lt := localTerm(slot)
		if v, ok := st.Mem[lt.String()]; ok {
			return v
		}
		// other local stores happened before: the read may alias them
		var stores []string
		for k := range st.Mem {
			if strings.HasPrefix(k, "Local(") {
				stores = append(stores, k)
			}
		}
		if len(stores) > 0 {
			sort.Strings(stores)
			return &T{Op: "call", Name: "LocalAfter[" + strings.Join(stores, ",") + "]", Args: lt.Args}
		}
		return lt
	}
	return &T{Op: "call", Name: "StackAt", Args: []*T{l.term()}}
}

func (m *hndMachine) call(in *Interp, st *State, call *ast.CallExpr, name string, recv *T, args []*T) *T {
	switch name {
	case "builtin.len":
		if args[0].Op == "stack" {
			s := args[0].Aux.(*stk)
			l := newLin()
			l.Coef["L"] = 1
			l.Atom["L"] = tVar(nil, "L")
			l.K = int64(s.height())
			if s.dyn {
				return tOpaque("len(dynamic stack)")
			}
			return l.term()
		}
	case "builtin.append":
		if args[0].Op == "stack" {
			s := args[0].Aux.(*stk).Clone().(*stk)
			for _, a := range args[1:] {
				if a.Op == "un" && a.Name == "..." {
					s.dyn = true
					s.push = append(s.push, &T{Op: "call", Name: "Spread", Args: []*T{a.Args[0]}})
					continue
				}
				s.push = append(s.push, a)
			}
			return &T{Op: "stack", Aux: s}
		}
	}
	return nil
}

func (m *hndMachine) assign(in *Interp, st *State, lhs ast.Expr, lv *T, val *T) bool {
	if lv == nil {
		return false
	}
	if isStackField(lv) || lv.Op == "stack" {
		if val.Op == "stack" {
			live := m.model(st)
			n := val.Aux.(*stk).Clone().(*stk)
			if live.need > n.need {
				n.need = live.need
			}
			st.X = n
		} else {
			m.model(st).dyn = true
			st.Eff = append(st.Eff, Effect{Kind: "store", Target: tVar(nil, "v.stack"), Value: val, Node: lhs})
		}
		return true
	}
	if lv.Op == "index" && lv.Args[0].Op == "stack" {
		s := m.model(st)
		l := linOf(lv.Args[1])
		if c, ok := m.relTop(l); ok {
			// index operand was evaluated against the snapshot's height
			snap := lv.Args[0].Aux.(*stk)
			j := snap.height() - int(c)
			// translate to the live stack: same absolute position
			j += s.height() - snap.height()
			if j >= 1 {
				s.write(j, val)
				return true
			}
		}
		if slot, ok := m.relBase(l); ok {
			lt := localTerm(slot)
			st.Mem[lt.String()] = val
			st.Eff = append(st.Eff, Effect{Kind: "store", Target: lt, Value: val, Node: lhs})
			return true
		}
		s.dyn = true
		st.Eff = append(st.Eff, Effect{Kind: "store", Target: &T{Op: "call", Name: "StackAt", Args: []*T{l.term()}}, Value: val, Node: lhs})
		return true
	}
	return false
}

// hndPath is the summary of one path through one handler (or a sequence).
type hndPath struct {
	Conds  []string
	Pop    int
	Push   []*T
	Need   int
	Dyn    bool
	Stores []string // local / memory stores "target = value"
	Calls  []string // impure calls in order
	Jump   *T       // v.frame.N after the handler minus N before (nil: unchanged)
	Done   string   // "return" when the handler leaves exec
	Flags  []string
	St     *State
}

func (p *hndPath) String() string {
	var push []string
	for _, t := range p.Push {
		push = append(push, t.String())
	}
	s := fmt.Sprintf("pop%d push[%s]", p.Pop, strings.Join(push, "; "))
	if p.Dyn {
		s += " dyn"
	}
	if len(p.Stores) > 0 {
		s += " stores{" + strings.Join(p.Stores, "; ") + "}"
	}
	if len(p.Calls) > 0 {
		s += " calls{" + strings.Join(p.Calls, "; ") + "}"
	}
	if p.Jump != nil {
		s += " jump " + p.Jump.String()
	}
	if p.Done != "" {
		s += " " + p.Done
	}
	if len(p.Conds) > 0 {
		s = "if " + strings.Join(p.Conds, " && ") + ": " + s
	}
	return s
}

// runSeq executes handlers for the given (opcode, current-instruction term)
// sequence from a fresh symbolic state and returns the summaries of all paths.
func (m *hndMachine) runSeq(ops []string, ins []*T) ([]*hndPath, error) {
	states := []*State{m.pre.Clone()}
	for i, op := range ops {
		sc := m.sw.ByLabel[op]
		if sc == nil {
			return nil, fmt.Errorf("no handler for %s", op)
		}
		m.curIns = ins[i]
		var next []*State
		for _, st := range states {
			if st.Done != "" {
				next = append(next, st)
				continue
			}
			res := m.in.execStmts(sc.Clause.Body, []*State{st})
			for _, r := range res {
				if r.Done == "break" { // `break` leaves the switch, i.e. ends the handler
					r.Done = ""
				}
			}
			next = append(next, res...)
		}
		states = next
	}
	var out []*hndPath
	for _, st := range states {
		s := m.model(st)
		s.canon()
		p := &hndPath{Pop: s.pop, Push: s.push, Need: s.need, Dyn: s.dyn, St: st}
		for _, c := range st.Conds {
			p.Conds = append(p.Conds, c.String())
		}
		for _, e := range st.Eff {
			switch e.Kind {
			case "store":
				if e.Target.String() == "v.frame.N" {
					continue
				}
				p.Stores = append(p.Stores, e.Target.String()+" = "+normHnd(e.Value).String())
			case "call":
				p.Calls = append(p.Calls, normHnd(e.Value).String())
			case "panic":
				p.Calls = append(p.Calls, "panic:"+normHnd(e.Value).String())
			case "loop":
				p.Calls = append(p.Calls, e.Value.String())
			}
		}
		// only the final value of each local matters
		p.Stores = finalStores(st, p.Stores)
		if n, ok := st.Mem["v.frame.N"]; ok {
			l := linOf(n)
			d := newLin()
			d.Coef["v.frame.N"] = 1
			d.Atom["v.frame.N"] = tOpaque("N")
			p.Jump = l.add(d, -1).term()
			if p.Jump.Op == "int" && p.Jump.K == 0 {
				p.Jump = nil
			}
		}
		if st.Done == "return" {
			p.Done = "return"
		} else if st.Done == "panic" {
			p.Done = "panic"
		}
		for f := range st.Flags {
			p.Flags = append(p.Flags, f)
		}
		for i := range p.Push {
			p.Push[i] = normHnd(p.Push[i])
		}
		out = append(out, p)
	}
	if m.in.Overflow {
		return out, fmt.Errorf("path overflow")
	}
	return out, nil
}

func finalStores(st *State, all []string) []string {
	seen := map[string]int{}
	var keys []string
	for _, s := range all {
		k, _, _ := strings.Cut(s, " = ")
		if _, ok := seen[k]; !ok {
			keys = append(keys, k)
		}
		seen[k]++
	}
	last := map[string]string{}
	for _, s := range all {
		k, _, _ := strings.Cut(s, " = ")
		last[k] = s
	}
	var out []string
	for _, k := range keys {
		out = append(out, last[k])
	}
	sort.Strings(out)
	return out
}

// normHnd applies the documented normalisations (DESIGN.md §4 C02):
//  N1  assign(x, t) is transparent when x is the result of an op* call with a Local operand
//  N2  opSub(x, ctor(k))  ==  opAdd(x, ctor(-k)) for an immediate k
//  N3  the constructor of an immediate used as a container key is irrelevant (containers read keys through Int()/num)
func normHnd(t *T) *T {
	if t == nil {
		return nil
	}
	if len(t.Args) > 0 {
		n := *t
		n.str = ""
		n.Args = make([]*T, len(t.Args))
		for i, a := range t.Args {
			n.Args[i] = normHnd(a)
		}
		t = &n
	}
	if t.Op == "lin" {
		n := *t
		n.str = ""
		n.Atom = map[string]*T{}
		n.Lin = map[string]int64{}
		for k, a := range t.Atom {
			na := normHnd(a)
			n.Atom[na.String()] = na
			n.Lin[na.String()] += t.Lin[k]
		}
		t = &n
	}
	if t.Op == "proj" && t.Args[0].Op == "call" && t.Args[0].Name == "splitParams" && len(t.Args[0].Args) == 1 {
		// N4: splitParams(joinParams(a, b)) == (a, b) (checked separately by rule JOINSPLIT)
		if j := t.Args[0].Args[0]; j.Op == "call" && j.Name == "joinParams" && len(j.Args) == 2 && t.K < 2 {
			return j.Args[t.K]
		}
	}
	if t.Op != "call" {
		return t
	}
	switch t.Name {
	case "Value.assign":
		if len(t.Args) == 2 && t.Args[0].Op == "call" && strings.HasPrefix(t.Args[0].Name, "Value.op") {
			hasLocal := containsT(t.Args[0], func(x *T) bool { return x.Op == "call" && strings.HasPrefix(x.Name, "Local") })
			if hasLocal {
				return t.Args[0]
			}
		}
	case "Value.opAdd", "Value.opMul":
		// N5: arithmetic on two untyped constants is the untyped constant of the result
		// (the default case of the op methods: Value{t: untypedInt, num: v.num op b.num})
		if len(t.Args) == 2 && isUntypedImm(t.Args[0]) && isUntypedImm(t.Args[1]) {
			a, b := linOf(t.Args[0].Args[0]), linOf(t.Args[1].Args[0])
			if t.Name == "Value.opAdd" {
				return &T{Op: "call", Name: "newUntypedInt", Args: []*T{a.add(b, 1).term()}}
			}
			if k, ok := a.isConst(); ok {
				return &T{Op: "call", Name: "newUntypedInt", Args: []*T{b.scale(k).term()}}
			}
			if k, ok := b.isConst(); ok {
				return &T{Op: "call", Name: "newUntypedInt", Args: []*T{a.scale(k).term()}}
			}
			return &T{Op: "call", Name: "newUntypedInt", Args: []*T{tBin("*", a.term(), b.term())}}
		}
	case "Value.opSub":
		if len(t.Args) == 2 && isUntypedImm(t.Args[0]) && isUntypedImm(t.Args[1]) {
			a, b := linOf(t.Args[0].Args[0]), linOf(t.Args[1].Args[0])
			return &T{Op: "call", Name: "newUntypedInt", Args: []*T{a.add(b, -1).term()}}
		}
		if len(t.Args) == 2 && t.Args[1].Op == "call" && len(t.Args[1].Args) == 1 && isImmCtor(t.Args[1].Name) {
			imm := t.Args[1]
			neg := &T{Op: "call", Name: imm.Name, Args: []*T{negImm(imm.Args[0])}}
			return &T{Op: "call", Name: "Value.opAdd", Args: []*T{t.Args[0], neg}, Obj: t.Obj}
		}
	}
	// (An earlier normalisation identified Int(k) and newUntypedInt(k) as container keys.  That
	// is false for |k| >= 2^31 — Int truncates to 32 bits — and hid a real disagreement between
	// FASTGETINT/FASTSETINT and PUSH+GET/SET on uint32/float64-keyed maps; it was removed.)
	if isImmCtor(t.Name) && len(t.Args) == 1 {
		// constructors see the integer value only
		n := *t
		n.str = ""
		n.Args = []*T{linOf(t.Args[0]).term()}
		if inner := stripIntConv(t.Args[0]); inner.Op == "bin" && inner.Name == "*" {
			n.Args = []*T{tBin("*", linOf(inner.Args[0]).term(), linOf(inner.Args[1]).term())}
		}
		return &n
	}
	return t
}

func isUntypedImm(t *T) bool {
	return t != nil && t.Op == "call" && t.Name == "newUntypedInt" && len(t.Args) == 1
}

func isImmCtor(name string) bool { return name == "newUntypedInt" || name == "Int" }

func negImm(t *T) *T { return linOf(t).scale(-1).term() }

// summaries of single handlers with the current instruction named I.
func (m *hndMachine) single(op string) ([]*hndPath, error) {
	return m.runSeq([]string{op}, []*T{tVar(nil, "I")})
}
