package main

// C15 loader, C17 reload, C19 embedding API, C20 error positions.

import (
	"fmt"
	"go/ast"
	"go/constant"
	"go/token"
	"go/types"
	"os"
	"regexp"
	"strings"
)

func init() {
	register(&propDef{
		ID:          "C15",
		Explanation: "LOAD-FILTER: every file name reaching rawLoadFile from rawLoadPackage passed the `_test.go` suffix filter, the call passes checkBC = true, an excluded file yields an empty tree that is skipped, the constraint evaluator's tag predicate is exactly t == \"goat\" and a file without a //go:build line is included; more than one package clause is an error. LOAD-KAHN: the skeleton of Kahn's algorithm as checkable facts — (K1) for every import token the same unquoted path is pushed on the worklist and inserted into deps[pkg]; (K2) the selection of a package is preceded, in the selection loop, by the test that its dependency set is empty; (K3) on selection the package is deleted from packages, from deps and from every remaining dependency set, and nothing else deletes from those; (K4) exactly one tree is appended to the result per iteration; (K5) compilePkgs consumes the list in order and Load/Eval pass it unchanged. LOAD-CYCLE (shared with C03's selection-drain premise): when no package is selectable the loop returns an error instead of continuing with the zero key, and the candidate list shrinks every iteration (no panic, no spin on any graph). Given K1-K5, 'each package is emitted once, after all its imports' follows by induction on the loop (the facts are what is checked, the induction is stated). Not decided: that init functions run (FUNC; CALL by inspection), vendor/shortened-path search order.",
		Quick: []ruleDef{
			{"LOAD-FILTER", 6, ruleLoadFilter},
			{"LOAD-IMPORTALL", 2, ruleLoadImportAll},
			{"PAR-INITNAME", 1, ruleParInitName},
			{"LOAD-KAHN", 6, ruleLoadKahn},
			{"LOAD-CYCLE", 1, ruleLoadCycle},
			{"LOAD-SORT", 3, ruleLoadSort},
			{"LOAD-SLOTS", 1, ruleLoadSlots},
		},
	})
	register(&propDef{
		ID:          "C17",
		Explanation: "RELOAD-INPLACE: from the symbolic handler summaries — GLOBALFUNC: when the global already holds a function the handler stores *through* the existing *funcT (captured function values see the new body) and does not call globals.Write, otherwise it writes the new value; GLOBALZERO assigns the zero value only under IsNil of the current value (variables declared without initialiser keep their state); GLOBALSTRUCT: an existing type is merged with syncFields and never overwritten; addMethod overwrites an existing method's funcT in place and inserts otherwise; syncFields adds every field of the new type object through addField. GLOBALSET (variables with an initialiser) always assigns. Not decided: histories of loads; instances created before a field was added.",
		Quick: []ruleDef{
			{"RELOAD-INPLACE", 8, ruleReloadInPlace},
			{"RELOAD-TYPESLOT", 1, ruleReloadTypeSlot},
			{"LOAD-CLEANPATH", 1, ruleLoadCleanPath},
		},
	})
	register(&propDef{
		ID:          "C19",
		Explanation: "API-ADAPT: sibling agreement among the six NewFunc adapters, executed with the stack length model — every N-ary adapter takes stack[len-argc:] as the argument slice, truncates the stack to len-argc before calling the native function, then appends the callee's results in order (none / one / all); the variadic adapter registers -argc and passes a[:argc-1] plus the spread data() of the last argument; the 0-ary adapters leave the arguments alone. API-ACCESSOR: each constructor/accessor pair agrees on Go type and tag and converts only between float64 and that type. PAN-ERRDROP(re-entry): inside the module no call of Func/Call/Eval/Load/run discards its error (sort comparators re-panic it, which run's guard converts). FUNC-RESULT: Func returns the top xRets entries of its private stack. Not decided: scalar round-trips over each domain (value level, exact for 32-bit ranges by construction of API-ACCESSOR).",
		Quick: []ruleDef{
			{"API-ADAPT", 6, ruleApiAdapt},
			{"API-ACCESSOR", 8, ruleApiAccessor},
			{"PAN-ERRDROP", 3, ruleErrDropReentry},
			{"FUNC-RESULT", 1, ruleFuncResult},
			{"API-ERRCHAIN", 1, ruleApiErrChain},
			{"FUNC-ISOLATED", 2, ruleFuncIsolated},
		},
	})
	register(&propDef{
		ID:          "C20",
		Explanation: "POS-STAMP: in compile no return leaves the big switch, so the loop that stamps un-positioned instructions with the current node's position runs for every node kind. POS-FUSED: every instruction literal built by the optimiser takes Pos from a component of its own window, and from the last one — the first component of every window is a load that cannot fail, so in unoptimised code the failing instruction (and the call instruction whose position is pushed on the backtrace) is a later component; identical reports with the optimiser on or off need the fused instruction to carry that position. FRM-PAIR (shared with C07): the backtrace push precedes the frame switch and is popped after the body. BT-ORDER: btErr reports the faulting instruction first, then the backtrace from innermost to outermost. Not decided: that positions equal Go's notion of the line; windows with two failing-capable components on different lines.",
		Quick: []ruleDef{
			{"POS-STAMP", 2, rulePosStamp},
			{"POS-STORE", 3, rulePosStore},
			{"POS-LAYOUT", 4, rulePosLayout},
			{"POS-SOURCE", 1, rulePosSource},
			{"POS-FUSED", 15, rulePosFused},
			{"FRM-PAIR", 6, ruleFrmPair},
			{"BT-ORDER", 2, ruleBtOrder},
			{"POS-NODE", 1, rulePosNode},
		},
	})
}

// ---- C17 ----

func ruleReloadInPlace(c *Ctx, r *R) {
	structIdentityRule(c, r)
	lookupOwnerRule(c, r)
	m, err := newHndMachine(c)
	if err != nil {
		r.undecided("exec", "-", err.Error())
		return
	}
	get := func(op string) ([]*hndPath, string) {
		sc := m.sw.ByLabel[op]
		if sc == nil {
			r.fail(op, "-", "no handler for "+op)
			return nil, ""
		}
		ps, err := m.single(op)
		if err != nil {
			r.undecided(op, c.Pos(sc.Clause), err.Error())
			return nil, ""
		}
		return ps, c.Pos(sc.Clause)
	}
	const cur = "lookup.Read(v.globals, int(I.A))"
	if ps, pos := get("codeGlobalFunc"); ps != nil {
		inPlace, fresh := false, false
		for _, p := range ps {
			cs := strings.Join(p.Conds, " && ")
			stores := strings.Join(p.Stores, "; ")
			calls := strings.Join(p.Calls, "; ")
			if cs == "!Value.IsNil("+cur+")" {
				inPlace = strings.Contains(stores, "*"+cur+".value.(*funcT) = *Top1.value.(*funcT)") && !strings.Contains(calls, "lookup.Write") && p.Pop == 1
			}
			if cs == "Value.IsNil("+cur+")" {
				fresh = strings.Contains(calls, "lookup.Write(v.globals, int(I.A), Top1)") && p.Pop == 1
			}
		}
		r.check(inPlace, "GLOBALFUNC existing", pos, "stores through the existing *funcT, no Write", "GLOBALFUNC replaces the global's function object instead of overwriting it in place: function values, struct fields and bound methods captured before a reload keep running the old code")
		r.check(fresh, "GLOBALFUNC new", pos, "writes the new function when the global is nil", "GLOBALFUNC does not define a function that did not exist before")
	}
	if ps, pos := get("codeGlobalZero"); ps != nil {
		good := len(ps) == 2
		for _, p := range ps {
			cs := strings.Join(p.Conds, " && ")
			calls := strings.Join(p.Calls, "; ")
			switch cs {
			case "Value.IsNil(" + cur + ")":
				good = good && strings.Contains(calls, "lookup.Assign(v.globals, int(I.A), newZero(Type(I.B)))")
			case "!Value.IsNil(" + cur + ")":
				good = good && calls == "" && len(p.Stores) == 0
			default:
				good = false
			}
		}
		r.check(good, "GLOBALZERO", pos, "zero value assigned only while the variable is nil", "GLOBALZERO re-initialises a variable that already has a value (or never initialises): package variables declared without initialiser lose their state on reload")
	}
	if ps, pos := get("codeGlobalStruct"); ps != nil {
		merge, fresh := false, false
		for _, p := range ps {
			cs := strings.Join(p.Conds, " && ")
			calls := strings.Join(p.Calls, "; ")
			if cs == "!Value.IsNil("+cur+")" {
				merge = strings.Contains(calls, "Value.syncFields("+cur+", Top1)") && !strings.Contains(calls, "lookup.Write")
			}
			if cs == "Value.IsNil("+cur+")" {
				fresh = strings.Contains(calls, "lookup.Write(v.globals, int(I.A), Top1)")
			}
		}
		r.check(merge, "GLOBALSTRUCT existing", pos, "merges into the existing type object", "GLOBALSTRUCT overwrites an existing type object instead of merging fields into it: existing instances and method tables are detached from the reloaded type")
		r.check(fresh, "GLOBALSTRUCT new", pos, "writes a new type object", "GLOBALSTRUCT does not define a new type")
	}
	if ps, pos := get("codeGlobalSet"); ps != nil {
		// every path stores the value: through Assign, or raw (Write) for a constant declaration
		good := len(ps) >= 1
		for _, p := range ps {
			calls := strings.Join(p.Calls, ";")
			_ = calls
			if globalSetPathMode(p) == "" {
				good = false
			}
		}
		r.check(good, "GLOBALSET", pos, "always assigns (variables with an initialiser are re-initialised)", "GLOBALSET no longer assigns unconditionally")
	}
	// a declaration with an initialiser gives the variable its type anew: the GLOBALSET that
	// compile(":=") emits selects a handler path that does not convert the value to the type of
	// what an earlier load (or the REPL's previous line, or the host's Set) left in the slot
	if cs, err := c.compileSwitch(); err == nil && cs.ByLabel[":="] != nil {
		m := newLayMachine(c)
		if cl, err := m.runCase(cs, ":="); err == nil {
			n := 0
			for ii, it := range cl.Iters {
				for ei, ex := range it.Exits {
					for _, a := range ex.Atoms {
						if a.Ins == nil || opName(a.Ins) != "GlobalSet" {
							continue
						}
						n++
						b := litField(a.Ins, "B")
						okMode := b != nil && (globalSetModeIs(c, b, "declare") || globalSetModeIs(c, b, "raw"))
						r.check(okMode, fmt.Sprintf("declaration store iter%d exit%d", ii, ei), c.Pos(cs.ByLabel[":="].Clause), "a declared package variable does not take the type of the slot's previous value",
							"compile(\":=\") stores a declared package variable through the converting GLOBALSET (lookup.Assign): the initialiser is converted to the type of what an earlier Load / Eval / Set left in the slot — after `var speed uint8 = 200`, reloading the edited `var speed = 300` gives 44; in the REPL `x := 1.5` then `x := 2; x/4` gives 0.5")
					}
				}
			}
			if n == 0 {
				r.undecided("declaration store", c.Pos(cs.ByLabel[":="].Clause), "no GLOBALSET emitted by compile(\":=\")")
			}
		} else {
			r.undecided("declaration store", c.Pos(cs.ByLabel[":="].Clause), err.Error())
		}
	}
	// addMethod
	ps := c.pathsOf("Value.addMethod")
	if ps == nil {
		r.undecided("addMethod", "-", "not found")
	} else {
		inPlace, insert := false, true
		for _, p := range ps {
			cs := condStrings(p)
			effs := effStrings(p)
			if strings.Contains(cs, ".Methods, idx)#1") && !strings.HasPrefix(cs, "!") && strings.Contains(cs, ".(*funcT)#1") && !strings.Contains(cs, "!intMap.Get") {
				inPlace = anyContains(effs, "*intMap.Get(", ".(*funcT)#0 = *val.value.(*funcT)") && !anyContains(effs, "intMap.Set(")
			}
			if strings.HasPrefix(cs, "!intMap.Get(") {
				insert = insert && anyContains(effs, "call intMap.Set(", "idx, val)")
			}
		}
		r.check(inPlace && insert, "addMethod", c.Pos(c.Func("Value.addMethod")), "existing method overwritten in place, new one inserted", "addMethod replaces an existing method's function object instead of overwriting it in place: bound methods captured before a reload run the old code")
	}
	// syncFields adds every field of the new object
	if fd := c.Func("Value.syncFields"); fd != nil {
		good := false
		ast.Inspect(fd.Body, func(n ast.Node) bool {
			if rs, ok := n.(*ast.RangeStmt); ok && (strings.HasSuffix(c.Src(rs.X), ".Lookup") || strings.HasSuffix(c.Src(rs.X), ".Order")) {
				ast.Inspect(rs.Body, func(m ast.Node) bool {
					if call, ok := m.(*ast.CallExpr); ok && c.CalleeName(call) == "Value.addField" {
						good = true
					}
					return true
				})
			}
			return true
		})
		r.check(good, "syncFields", c.Pos(fd), "adds every field of the reloaded type through addField", "syncFields does not add the reloaded type's fields to the existing type object")
	} else {
		r.undecided("syncFields", "-", "not found")
	}
}

// ---- C19 ----

func ruleApiAdapt(c *Ctx, r *R) {
	fd := c.Func("NewFunc")
	if fd == nil {
		r.undecided("NewFunc", "-", "not found")
		return
	}
	m := newLenMachine(c, "vm", "v")
	outer := m.in.ExecFunc(fd, nil)
	if len(outer) < 6 {
		r.undecided("NewFunc", c.Pos(fd), fmt.Sprintf("expected six adapters, found %d paths", len(outer)))
	}
	for _, o := range outer {
		sig := ""
		for _, cd := range o.Conds {
			if cd.Op == "assert" && strings.HasPrefix(cd.Name, "type:") {
				sig = strings.TrimPrefix(cd.Name, "type:")
			}
		}
		if sig == "" || sig == "default" {
			continue
		}
		key := "adapter " + sig
		if len(o.Ret) != 1 || o.Ret[0].Op != "call" || o.Ret[0].Name != "newFunc" || len(o.Ret[0].Args) != 3 {
			r.fail(key, c.Pos(fd), "adapter does not return newFunc(argc, rets, ...)")
			continue
		}
		nf := o.Ret[0]
		variadic := strings.Contains(sig, "...")
		wantArgc := "argc"
		if variadic {
			wantArgc = "<-argc>"
		}
		if !r.check(linOf(nf.Args[0]).String() == wantArgc && nf.Args[1].String() == "rets", key+" counts", c.Pos(fd), "registers ("+wantArgc+", rets)",
			"the "+sig+" adapter registers ("+linOf(nf.Args[0]).String()+", "+nf.Args[1].String()+") instead of ("+wantArgc+", rets)") {
			continue
		}
		takesArgs := strings.Contains(sig, "args []Value")
		if nf.Args[2].Op != "func" {
			// 0->0: the native function itself
			r.check(!takesArgs && !strings.Contains(sig, ") Value") && !strings.Contains(sig, ") []Value"), key, c.Pos(fd), "native function used directly", "an adapter that must marshal arguments/results passes the native function through unchanged")
			continue
		}
		fl := nf.Args[2].Aux.(*ast.FuncLit)
		st := o.Clone()
		st.Done, st.Ret, st.Eff, st.X = "", nil, nil, nil
		pn := fl.Type.Params.List[0].Names[0].Name
		m.vmVars = map[string]bool{"vm": true}
		res := m.in.ExecLit(fl, st, map[string]*T{pn: tVar(nil, "vm")})
		if len(res) != 1 {
			r.undecided(key, c.Pos(fl), "adapter closure is not straight-line")
			continue
		}
		var ev []string
		var nativeCall *T
		copied := "" // the term the arguments were copied into, while they still were on the stack
		truncated := false
		for _, e := range res[0].Eff {
			switch e.Kind {
			case "stack":
				ev = append(ev, e.Value.Name)
				if strings.Contains(e.Value.Name, "len=<+L -argc>") {
					truncated = true
				}
			case "call":
				if strings.HasPrefix(e.Value.Name, "dyn:") || strings.HasPrefix(e.Value.Name, "var.") {
					nativeCall = e.Value
					ev = append(ev, "NATIVE")
				}
				if e.Value.Name == "builtin.copy" && len(e.Value.Args) == 2 && !truncated && nativeCall == nil {
					if dst := e.Value.Args[0]; dst.Op == "call" && dst.Name == "builtin.make" && len(dst.Args) == 2 && dst.Args[1].String() == "argc" &&
						strings.Contains(e.Value.Args[1].String(), "view[<+L -argc>:L]") {
						copied = dst.String()
					}
				}
			}
		}
		s := strings.Join(ev, " | ")
		final := m.finalLen(res[0]).String()
		good := true
		why := ""
		if takesArgs {
			// truncation before the native call, and the argument view is stack[L-argc:]
			i := strings.Index(s, "len=<+L -argc>")
			j := strings.Index(s, "NATIVE")
			if i < 0 || j < 0 || i > j {
				good, why = false, "the stack is not truncated to len-argc before the native function runs"
			}
			if nativeCall != nil && good {
				as := ""
				for _, a := range nativeCall.Args {
					as += a.String() + " ; "
				}
				if os.Getenv("GOATCHECK_DEBUG") != "" {
					fmt.Fprintln(os.Stderr, "API-ADAPT", sig, "args:", as, "events:", s)
				}
				// the native owns its arguments: it gets a copy of stack[len-argc:] made before the
				// truncation, not a window into the live stack (which its own result and every later
				// push overwrite)
				switch {
				case strings.Contains(as, "view["):
					good, why = false, "the native function receives a window into the live operand stack as its arguments ("+as+"): a native that keeps them — NewSlice(TypeInt32, args) — sees them overwritten by its own result and by later pushes"
				case copied == "" || !strings.Contains(as, copied):
					good, why = false, "the native function does not receive a copy of stack[len-argc:] as its arguments ("+as+")"
				}
				if good && variadic && !(strings.Contains(as, copied+"[_:<+argc -1>") && strings.Contains(as, "...Value.data("+copied+"[<+argc -1>])")) {
					good, why = false, "the variadic adapter does not pass a[:argc-1] and the spread data() of the last argument ("+as+")"
				}
			}
		}
		switch {
		case strings.HasSuffix(sig, ") []Value"):
			if !strings.Contains(final, "+len(") {
				good, why = false, "the results of the native function are not all appended"
			}
		case strings.HasSuffix(sig, ") Value"):
			if !regexp.MustCompile(`^<\+L\d* -argc \+1>$`).MatchString(final) {
				good, why = false, "after the native call the stack does not hold exactly the single result in place of the argc arguments (final length "+final+", expected <+L -argc +1>): the caller, which keeps the lowest entries above the frame, receives an argument instead of the result"
			}
		default:
			if takesArgs && !(strings.HasPrefix(final, "L") && !strings.Contains(final, " ")) && final != "<+L -argc>" {
				good, why = false, "an N->0 adapter changes the stack after the native call (final length "+final+")"
			}
		}
		r.check(good, key, c.Pos(fl), "arguments cut from the top in order, results appended in order", "the "+sig+" adapter: "+why)
	}
}

func ruleApiAccessor(c *Ctx, r *R) {
	// IsNil: typed nil slices/maps/struct pointers carry element/key/name bits above the base
	// tag, so the test must be on the base tag
	if fd := c.Func("Value.IsNil"); fd != nil {
		good, n := true, 0
		for _, p := range c.pathsOf("Value.IsNil") {
			if len(p.Ret) == 1 && p.Ret[0].String() == "(v.value == nil)" {
				n++
				cs := condStrings(p)
				for _, k := range []string{"TypeSlice", "TypeMap", "TypeStruct"} {
					if !strings.Contains(cs, "(Type.base(v.t) == "+k+")") {
						good = false
					}
				}
			}
		}
		r.check(good && n > 0, "IsNil", c.Pos(fd), "reference kinds are recognised by their base tag", "Value.IsNil compares the whole type word with TypeSlice/TypeMap/TypeStruct: a typed nil ([]int(nil), a nil map, a nil *T returned by a script) has element/key/name bits set and is reported as not nil to the host")
	} else {
		r.undecided("IsNil", "-", "Value.IsNil not found")
	}
	tags := c.ctorTags()
	for _, name := range []string{"Float64", "Int", "Int32", "Uint", "Uint32", "Int8", "Byte", "Uint8"} {
		cf, af := c.Func(name), c.Func("Value."+name)
		if cf == nil || af == nil {
			r.undecided(name, "-", "constructor or accessor not found")
			continue
		}
		ptype := c.TypeOf(cf.Type.Params.List[0].Type)
		rtype := c.TypeOf(af.Type.Results.List[0].Type)
		cps := c.pathsOf(name)
		aps := c.pathsOf("Value." + name)
		good := len(cps) == 1 && len(aps) == 1 && types.Identical(ptype, rtype) && tags[name] != ""
		why := ""
		if good {
			num := litField(cps[0].Ret[0], "num")
			pn := cf.Type.Params.List[0].Names[0].Name
			want := normGoType(ptype.String())
			// constructor: float64(v) possibly through the 32-bit type for int/uint
			okC := false
			if num != nil {
				s := num.String()
				okC = s == pn || s == "float64("+pn+")" || (want == "int" && s == "float64(int32("+pn+"))") || (want == "uint" && s == "float64(uint32("+pn+"))")
			}
			ret := aps[0].Ret[0].String()
			okA := ret == "v.num" || ret == ptype.String()+"(v.num)"
			wantTag := map[string]string{"float64": "TypeFloat64", "int": "TypeInt32", "int32": "TypeInt32", "uint": "TypeUint32", "uint32": "TypeUint32", "int8": "TypeInt8", "uint8": "TypeUint8"}[want]
			if !okC {
				good, why = false, "constructor stores "+fmt.Sprint(num)
			} else if !okA {
				good, why = false, "accessor returns "+ret
			} else if tags[name] != wantTag {
				good, why = false, "constructor tags the value "+tags[name]+", the Go type "+want+" is "+wantTag
			}
		} else {
			why = fmt.Sprintf("types %v / %v", ptype, rtype)
		}
		r.check(good, name, c.Pos(cf), fmt.Sprintf("%s(%v) <-> %s() %v, tag %s", name, ptype, name, rtype, tags[name]), "constructor/accessor pair "+name+" does not round-trip: "+why)
	}
}

func ruleErrDropReentry(c *Ctx, r *R) {
	reentry := map[string]bool{"VM.Func": true, "VM.Call": true, "VM.Eval": true, "VM.Load": true, "VM.run": true}
	n := 0
	for _, f := range c.Pkg.Syntax {
		ast.Inspect(f, func(m ast.Node) bool {
			call, ok := m.(*ast.CallExpr)
			if !ok || !reentry[c.CalleeName(call)] {
				return true
			}
			n++
			fd := c.EnclosingFunc(call)
			where := "?"
			if fd != nil {
				where = c.fnName(fd)
			}
			key := where + " -> " + c.CalleeName(call)
			dropped := false
			switch p := c.Parent(call).(type) {
			case *ast.ExprStmt:
				dropped = true
			case *ast.AssignStmt:
				if len(p.Rhs) == 1 && len(p.Lhs) >= 1 && isIdent(p.Lhs[len(p.Lhs)-1], "_") {
					dropped = true
				}
			case *ast.ReturnStmt, *ast.ValueSpec:
			case *ast.GoStmt, *ast.DeferStmt:
				dropped = true
			}
			r.check(!dropped, key, c.Pos(call), "error result is bound or returned",
				where+" calls "+c.CalleeName(call)+" and discards its error: a failure inside the nested call (a panicking native callback, a script error) is swallowed and the outer call continues as if it had succeeded")
			return true
		})
	}
	if n == 0 {
		r.undecided("re-entry", "-", "no re-entrant call found")
	}
}

func ruleFuncResult(c *Ctx, r *R) {
	fd := c.Func("VM.Func")
	if fd == nil {
		r.undecided("VM.Func", "-", "not found")
		return
	}
	good := false
	ast.Inspect(fd.Body, func(n ast.Node) bool {
		rs, ok := n.(*ast.ReturnStmt)
		if !ok || len(rs.Results) != 2 {
			return true
		}
		if se, ok := unparen(rs.Results[0]).(*ast.SliceExpr); ok && se.High == nil && se.Low != nil {
			base := nosp(c.Src(se.X))
			if k, ok := c.lenMinusVar(se.Low, base); ok && k == "xRets" && strings.HasSuffix(base, ".stack") {
				good = true
			}
		}
		return true
	})
	r.check(good, "VM.Func result", c.Pos(fd), "returns stack[len(stack)-xRets:]", "VM.Func does not return exactly the top xRets entries of its stack")
}

// lenMinusVar: e == len(base) - <ident> ; returns the identifier.
func (c *Ctx) lenMinusVar(e ast.Expr, base string) (string, bool) {
	be, ok := unparen(e).(*ast.BinaryExpr)
	if !ok || be.Op != token.SUB {
		return "", false
	}
	call, ok := unparen(be.X).(*ast.CallExpr)
	if !ok || c.CalleeName(call) != "builtin.len" || nosp(c.Src(call.Args[0])) != base {
		return "", false
	}
	id, ok := unparen(be.Y).(*ast.Ident)
	if !ok {
		return "", false
	}
	return id.Name, true
}

// ---- C20 ----

func rulePosStamp(c *Ctx, r *R) {
	cs, err := c.compileSwitch()
	if err != nil {
		r.undecided("compile", "-", err.Error())
		return
	}
	rets := 0
	ast.Inspect(cs.Switch, func(n ast.Node) bool {
		if _, ok := n.(*ast.FuncLit); ok {
			return false
		}
		if rs, ok := n.(*ast.ReturnStmt); ok {
			rets++
			r.fail("no-early-return", c.Pos(rs), "a compile-case returns from inside the switch: its instructions skip the position stamping loop and carry no source line")
		}
		return true
	})
	if rets == 0 {
		r.ok("no-early-return", fmt.Sprintf("%d cases, none returns before the stamping loop", len(cs.Cases)))
	}
	// the stamping loop after the switch
	stampFrom := ""
	good := false
	after := false
	for _, s := range cs.Fn.Body.List {
		if s == ast.Stmt(cs.Switch) {
			after = true
			continue
		}
		if !after {
			continue
		}
		rs, ok := s.(*ast.RangeStmt)
		if !ok {
			continue
		}
		ast.Inspect(rs.Body, func(n ast.Node) bool {
			as, ok := n.(*ast.AssignStmt)
			if !ok || len(as.Lhs) != 1 {
				return true
			}
			if sel, ok := unparen(as.Lhs[0]).(*ast.SelectorExpr); ok && sel.Sel.Name == "Pos" {
				call, ok := unparen(as.Rhs[0]).(*ast.CallExpr)
				// a one-line helper that builds the position of the token it is given
				// (c.posOf(tok)): look at its newPos call with the argument substituted
				var helperParam, helperArg types.Object
				if ok && c.CalleeName(call) != "newPos" {
					if o := c.Callee(call); o != nil && c.isNewHelper(o) {
						if h := c.DeclOf(o); h != nil && h.Body != nil && len(h.Body.List) == 1 {
							if rs, isRet := h.Body.List[0].(*ast.ReturnStmt); isRet && len(rs.Results) == 1 {
								if inner, isCall := unparen(rs.Results[0]).(*ast.CallExpr); isCall && c.CalleeName(inner) == "newPos" {
									k := 0
									for _, f := range h.Type.Params.List {
										for _, nm := range f.Names {
											if k < len(call.Args) {
												if id, isId := unparen(call.Args[k]).(*ast.Ident); isId {
													helperParam, helperArg = c.Info.Defs[nm], c.Obj(id)
												}
											}
											k++
										}
									}
									call = inner
								}
							}
						}
					}
				}
				if ok && c.CalleeName(call) == "newPos" {
					src := c.Src(call)
					if strings.Contains(src, ".Pos.Line") && strings.Contains(src, ".Pos.Filename") {
						good = true
					}
					// the position must be the one of the node this call of compile was given (its
					// parameter), not of a mutable field: nested compile calls overwrite c.cur, which
					// by now is the last descendant
					var tokParam types.Object
					if ps := cs.Fn.Type.Params.List; len(ps) > 0 && len(ps[0].Names) > 0 {
						tokParam = c.Info.Defs[ps[0].Names[0]]
					}
					for _, a := range call.Args {
						sel, ok := unparen(a).(*ast.SelectorExpr)
						if !ok {
							continue
						}
						// X.Pos.Line / X.Pos.Filename / X.Pos.Column
						if inner, ok := unparen(sel.X).(*ast.SelectorExpr); ok && inner.Sel.Name == "Pos" {
							root := rootIdent(inner.X)
							if root != nil && helperParam != nil && c.Obj(root) == helperParam && nosp(c.Src(inner.X)) == root.Name {
								if helperArg != tokParam {
									stampFrom = "another token than the node being compiled"
								}
								continue
							}
							if root == nil || c.Obj(root) != tokParam || nosp(c.Src(inner.X)) != root.Name {
								stampFrom = nosp(c.Src(inner.X))
							}
						}
					}
				}
			}
			return true
		})
	}
	if good {
		r.check(stampFrom == "", "stamp-node", c.Pos(cs.Fn), "instructions are stamped with the position of the node being compiled", "compile stamps the instructions it created with the position of "+stampFrom+" instead of its own node parameter: nested compile calls have moved that on to the last descendant, so in a multi-line expression (a fluent call chain, `a /` newline `b`) the failing instruction and the backtrace entries carry the line of another token")
	}
	r.check(good, "stamp-loop", c.Pos(cs.Fn), "after the switch every un-positioned instruction gets the node's file/function/line", "compile no longer stamps un-positioned instructions with the current node's position after the switch")
}

func rulePosFused(c *Ctx, r *R) {
	p, err := c.peephole()
	if err != nil {
		r.undecided("doOptimize", "-", err.Error())
		return
	}
	hm, _ := newHndMachine(c)
	for _, rw := range p.Rewrites {
		key := rw.Key()
		pos := litField(rw.Lit, "Pos")
		last := fmt.Sprintf("I%d.Pos", len(rw.Window)-1)
		if pos == nil {
			r.fail(key, c.Pos(rw.Clause), "the fused instruction is built without a Pos: run-time errors inside it carry no source line")
			continue
		}
		// a fused instruction has one position: a window with two components that can fail
		// (their handlers call into value code) may be folded only when both are on the same line
		if hm != nil {
			failing := 0
			for _, op := range rw.Window {
				if ps, err := hm.single(op); err == nil {
					can := false
					for _, hp := range ps {
						if len(hp.Calls) > 0 || hp.Done == "panic" {
							can = true
						}
					}
					if can {
						failing++
					}
				}
			}
			if failing >= 2 {
				r.check(len(rw.PosSide) > 0, key+" lines", c.Pos(rw.Clause), "two failing-capable components are folded only under a same-position condition",
					fmt.Sprintf("the window %v folds %d components that can each fail at run time into one instruction with one position, without requiring them to be on the same line: for `t.` / `F(1)` split over two lines a nil t is reported at the selector's line with the optimiser off and at the call's line with it on", rw.Window, failing))
			}
		}
		r.check(pos.String() == last, key, c.Pos(rw.Clause), "Pos of the window's last component",
			fmt.Sprintf("the fused instruction takes its position from %s, not from the window's last component %s: the first component is a load that cannot fail, so with a construct spread over several lines (a multi-line call) the reported line and the backtrace's call line differ with the optimiser on and off", pos, last))
	}
}

// btOwnerRule (part of BT-ORDER): the error report is built from the frame and backtrace of
// the VM that ran the failing code.  Func and run create a fresh VM for the call; their
// recover handler must ask *that* VM for the report, not the receiver (whose frame is empty).
func btOwnerRule(c *Ctx, r *R) {
	n := 0
	// VM methods that build the report from their own receiver (a declared recover handler)
	reportMethod := map[string]bool{"VM.btErr": true}
	for _, name := range c.FuncNames() {
		fd := c.Func(name)
		if fd.Body == nil || fd.Recv == nil || !strings.HasPrefix(name, "VM.") || len(fd.Recv.List) != 1 || len(fd.Recv.List[0].Names) != 1 {
			continue
		}
		recv := c.Info.Defs[fd.Recv.List[0].Names[0]]
		ast.Inspect(fd.Body, func(nd ast.Node) bool {
			if call, ok := nd.(*ast.CallExpr); ok && c.CalleeName(call) == "VM.btErr" {
				if sel, ok := unparen(call.Fun).(*ast.SelectorExpr); ok {
					if id, ok := unparen(sel.X).(*ast.Ident); ok && c.Obj(id) == recv {
						reportMethod[name] = true
					}
				}
			}
			return true
		})
	}
	for _, name := range c.FuncNames() {
		fd := c.Func(name)
		if fd.Body == nil {
			continue
		}
		var execOn, btOn []*ast.Ident
		ast.Inspect(fd.Body, func(nd ast.Node) bool {
			call, ok := nd.(*ast.CallExpr)
			if !ok {
				return true
			}
			sel, ok := unparen(call.Fun).(*ast.SelectorExpr)
			if !ok {
				return true
			}
			id, ok := unparen(sel.X).(*ast.Ident)
			if !ok {
				return true
			}
			switch cn := c.CalleeName(call); {
			case cn == "VM.exec":
				execOn = append(execOn, id)
			case reportMethod[cn] && cn != name:
				btOn = append(btOn, id)
			}
			return true
		})
		if len(execOn) == 0 || len(btOn) == 0 {
			continue
		}
		for _, b := range btOn {
			n++
			same := false
			for _, e := range execOn {
				if c.Obj(e) == c.Obj(b) {
					same = true
				}
			}
			r.check(same, "report owner "+name, c.Pos(b), "btErr is asked of the VM that ran exec", name+" runs the code on "+execOn[0].Name+" but builds the error report from "+b.Name+", whose frame and backtrace are empty: a failing script function called through Call/Func (an event handler, a sort callback) is reported with the bare message — no function, no line, no call chain")
		}
	}
	if n == 0 {
		r.undecided("report owner", "-", "no function both runs exec and builds a report in its recover handler")
	}
}

func ruleBtOrder(c *Ctx, r *R) {
	btOwnerRule(c, r)
	fd := c.Func("VM.btErr")
	if fd == nil {
		r.undecided("btErr", "-", "not found")
		return
	}
	// the faulting instruction line is appended before the loop; the loop walks the backtrace from the end
	var loop *ast.ForStmt
	firstAppend := token.NoPos
	ast.Inspect(fd.Body, func(n ast.Node) bool {
		switch x := n.(type) {
		case *ast.ForStmt:
			if loop == nil {
				loop = x
			}
		case *ast.CallExpr:
			if c.CalleeName(x) == "builtin.append" && !firstAppend.IsValid() {
				firstAppend = x.Pos()
			}
		case *ast.CompositeLit:
			// lines := []string{<first line>}: the list starts with the failing operation's line
			if t, ok := c.TypeOf(x).Underlying().(*types.Slice); ok && len(x.Elts) > 0 && !firstAppend.IsValid() {
				if b, ok := t.Elem().Underlying().(*types.Basic); ok && b.Kind() == types.String {
					firstAppend = x.Pos()
				}
			}
		}
		return true
	})
	if loop == nil {
		r.undecided("btErr", c.Pos(fd), "no loop over the backtrace")
		return
	}
	r.check(firstAppend.IsValid() && firstAppend < loop.Pos(), "fault-first", c.Pos(fd), "the failing operation's line comes first", "btErr no longer reports the failing instruction before the call chain")
	// an instruction without a position (the CALL that Func synthesises for the host) is not
	// given an invented one: every pos.String(..) of btErr is under a test that the position is set
	nStr, nBare := 0, 0
	for _, hfd := range c.withHelpers(fd) {
		hfd := hfd
		fd := hfd
		ast.Inspect(fd.Body, func(n ast.Node) bool {
			call, ok := n.(*ast.CallExpr)
			if !ok || c.CalleeName(call) != "pos.String" {
				return true
			}
			nStr++
			sel, _ := unparen(call.Fun).(*ast.SelectorExpr)
			recv := ""
			if sel != nil {
				recv = nosp(c.Src(sel.X))
			}
			tested := false
			var child ast.Node = call
			for p := c.Parent(call); p != nil && p != ast.Node(fd.Body); child, p = p, c.Parent(p) {
				ifs, ok := p.(*ast.IfStmt)
				if !ok {
					continue
				}
				cond := nosp(c.Src(ifs.Cond))
				pos := cond == recv+"!=0" || cond == "!"+recv+".IsZero()"
				neg := cond == recv+"==0" || cond == recv+".IsZero()"
				if ifs.Body == child && pos || ifs.Else == child && neg {
					tested = true
				}
			}
			// or a preceding `if p == 0 { continue }` in an enclosing block
			child = call
			for p := c.Parent(call); p != nil && !tested; child, p = p, c.Parent(p) {
				if _, isFn := p.(*ast.FuncDecl); isFn {
					break
				}
				blk, ok := p.(*ast.BlockStmt)
				if !ok {
					continue
				}
				for _, st := range blk.List {
					if st.Pos() >= child.Pos() {
						break
					}
					if ifs, ok := st.(*ast.IfStmt); ok && ifs.Else == nil && len(ifs.Body.List) == 1 {
						cond := nosp(c.Src(ifs.Cond))
						_, isBr := ifs.Body.List[0].(*ast.BranchStmt)
						_, isRet := ifs.Body.List[0].(*ast.ReturnStmt)
						if (isBr || isRet) && (cond == recv+"==0" || cond == recv+".IsZero()") {
							tested = true
						}
					}
				}
			}
			if !tested {
				nBare++
			}
			return true
		})
	}
	r.check(nStr > 0 && nBare == 0, "no invented position", c.Pos(fd), "a position is printed only when the instruction has one",
		"btErr formats the position of an instruction that has none: an error raised by the CALL that Func/Call makes for the host is reported as `il(...) il:0:0: CALL: ...` (global 0 is \"nil\", minus its first character) — a function and file that do not exist")
	desc := false
	if init, ok := loop.Init.(*ast.AssignStmt); ok && len(init.Rhs) == 1 {
		if be, ok := unparen(init.Rhs[0]).(*ast.BinaryExpr); ok {
			if lc, ok := unparen(be.X).(*ast.CallExpr); ok && c.CalleeName(lc) == "builtin.len" && len(lc.Args) == 1 {
				if _, ok := c.lenMinus(init.Rhs[0], nosp(c.Src(lc.Args[0]))); ok {
					if p, ok := loop.Post.(*ast.IncDecStmt); ok && p.Tok == token.DEC {
						desc = true
					}
				}
			}
		}
	}
	r.check(desc, "innermost-first", c.Pos(loop), "walks the backtrace from the most recent call outwards", "btErr does not list active calls innermost first")
}

// ---- C15 ----

func ruleLoadFilter(c *Ctx, r *R) {
	fd := c.Func("rawLoadPackage")
	if fd == nil {
		r.undecided("rawLoadPackage", "-", "not found")
		return
	}
	// the _test.go filter (in rawLoadPackage or a helper it calls)
	var filt *ast.IfStmt
	var filtLoop *ast.RangeStmt
	var filtFn *ast.FuncDecl
	positiveKept := ""
	for _, hfd := range c.withHelpers(fd) {
		if filt != nil {
			break
		}
		filtFn = hfd
		ast.Inspect(hfd.Body, func(n ast.Node) bool {
			rs, ok := n.(*ast.RangeStmt)
			if !ok {
				return true
			}
			for _, s := range rs.Body.List {
				ifs, ok := s.(*ast.IfStmt)
				if !ok {
					continue
				}
				// positive form: if !strings.HasSuffix(f, "_test.go") { kept = append(kept, f) }
				if u, ok := unparen(ifs.Cond).(*ast.UnaryExpr); ok && u.Op == token.NOT && ifs.Else == nil {
					if pc, ok := unparen(u.X).(*ast.CallExpr); ok && c.CalleeName(pc) == "strings.HasSuffix" && len(pc.Args) == 2 {
						if suf, ok := c.ConstString(pc.Args[1]); ok && suf == "_test.go" {
							for _, bs := range ifs.Body.List {
								if as, ok := bs.(*ast.AssignStmt); ok && len(as.Rhs) == 1 {
									if ac, ok := unparen(as.Rhs[0]).(*ast.CallExpr); ok && c.CalleeName(ac) == "builtin.append" {
										filt, filtLoop = ifs, rs
										positiveKept = c.Src(as.Lhs[0])
									}
								}
							}
						}
					}
				}
				call, ok := unparen(ifs.Cond).(*ast.CallExpr)
				if !ok || c.CalleeName(call) != "strings.HasSuffix" || len(call.Args) != 2 {
					continue
				}
				if suf, ok := c.ConstString(call.Args[1]); ok && suf == "_test.go" && len(ifs.Body.List) == 1 {
					if br, ok := ifs.Body.List[0].(*ast.BranchStmt); ok && br.Tok == token.CONTINUE {
						filt, filtLoop = ifs, rs
					}
				}
			}
			return true
		})
	}
	// any other spelling of the filter (predicate helper, positive form, merged conditions): the
	// loop whose iteration, evaluated on sample names, keeps main.go and drops main_test.go
	var evalLoop *ast.RangeStmt
	if filt == nil {
		for _, hfd := range c.withHelpers(fd) {
			if evalLoop != nil {
				break
			}
			hfd := hfd
			ast.Inspect(hfd.Body, func(n ast.Node) bool {
				rs, ok := n.(*ast.RangeStmt)
				if !ok || evalLoop != nil {
					return true
				}
				k1, t1, ok1 := c.keepsElement(rs, "pkg/main.go")
				k2, _, ok2 := c.keepsElement(rs, "pkg/main_test.go")
				if ok1 && ok2 && k1 && !k2 {
					evalLoop, filtLoop, filtFn, positiveKept = rs, rs, hfd, t1
					for _, s := range rs.Body.List {
						if ifs, ok := s.(*ast.IfStmt); ok && filt == nil {
							filt = ifs
						}
					}
				}
				return true
			})
		}
	}
	if !r.check(filt != nil, "_test.go filter", c.Pos(fd), "files ending in _test.go are skipped", "rawLoadPackage no longer skips files ending in _test.go") {
		return
	}
	// value flow: the list iterated for rawLoadFile is the filtered one
	kept := positiveKept
	for _, s := range filtLoop.Body.List {
		if s.Pos() > filt.Pos() {
			if as, ok := s.(*ast.AssignStmt); ok && len(as.Rhs) == 1 {
				if call, ok := unparen(as.Rhs[0]).(*ast.CallExpr); ok && c.CalleeName(call) == "builtin.append" {
					kept = c.Src(as.Lhs[0])
				}
			}
		}
	}
	var loadLoop *ast.RangeStmt
	var loadCall *ast.CallExpr
	ast.Inspect(fd.Body, func(n ast.Node) bool {
		if rs, ok := n.(*ast.RangeStmt); ok {
			ast.Inspect(rs.Body, func(m ast.Node) bool {
				if call, ok := m.(*ast.CallExpr); ok && c.CalleeName(call) == "rawLoadFile" {
					loadLoop, loadCall = rs, call
				}
				return true
			})
		}
		return true
	})
	if loadLoop == nil {
		r.fail("load loop", c.Pos(fd), "rawLoadPackage does not load the files of the package")
		return
	}
	iter := c.Src(loadLoop.X)
	flows := iter == kept && filtFn == fd
	if !flows && filtFn != fd {
		// the list comes from the helper that holds the filter: every successful return of the helper hands back the kept list
		fromHelper := false
		ast.Inspect(fd.Body, func(n ast.Node) bool {
			if as, ok := n.(*ast.AssignStmt); ok && len(as.Rhs) == 1 && c.Src(as.Lhs[0]) == iter {
				if call, ok := unparen(as.Rhs[0]).(*ast.CallExpr); ok && c.DeclOf(c.Callee(call)) == filtFn {
					fromHelper = true
				}
			}
			return true
		})
		okRets := true
		ast.Inspect(filtFn.Body, func(n ast.Node) bool {
			if _, isLit := n.(*ast.FuncLit); isLit {
				return false
			}
			if rs, ok := n.(*ast.ReturnStmt); ok && len(rs.Results) == 2 && isIdent(rs.Results[1], "nil") {
				if got := c.Src(rs.Results[0]); got != kept && got != "nil" {
					okRets = false
				}
			}
			if rs, ok := n.(*ast.ReturnStmt); ok && len(rs.Results) == 1 && c.EnclosingFunc(rs) == filtFn {
				if got := c.Src(rs.Results[0]); got != kept && got != "nil" {
					okRets = false
				}
			}
			return true
		})
		flows = fromHelper && okRets
	}
	if !flows && filtFn == fd {
		// matches = m
		ast.Inspect(fd.Body, func(n ast.Node) bool {
			if as, ok := n.(*ast.AssignStmt); ok && len(as.Lhs) == 1 && c.Src(as.Lhs[0]) == iter && c.Src(as.Rhs[0]) == kept && as.Pos() > filt.Pos() && as.Pos() < loadLoop.Pos() {
				flows = true
			}
			return true
		})
	}
	r.check(flows && kept != "", "filtered list", c.Pos(loadLoop), "the loaded files are the filtered list", "the files loaded by rawLoadPackage are not the list that passed the _test.go filter")
	// the file name passed is the loop variable; checkBC is true
	bc, ok := c.ConstOf(loadCall.Args[2])
	r.check(ok && bc.String() == "true", "checkBC", c.Pos(loadCall), "build constraints are evaluated for package files", "rawLoadPackage loads files without evaluating their //go:build constraint")
	// excluded file -> empty tree -> skipped
	skip := false
	for _, s := range loadLoop.Body.List {
		if ifs, ok := s.(*ast.IfStmt); ok && terminating(ifs.Body) {
			if _, f := c.lenBound(ifs.Cond, "tree.Tokens"); f == 1 {
				skip = true
			}
		}
	}
	r.check(skip, "excluded skipped", c.Pos(loadLoop), "an excluded (empty) file contributes nothing", "a file excluded by its build constraint is not skipped")
	// more than one package clause is an error
	multi := false
	ast.Inspect(fd.Body, func(n ast.Node) bool {
		if ifs, ok := n.(*ast.IfStmt); ok {
			if t, _ := c.lenBound(ifs.Cond, "pkgs"); t == 2 && len(ifs.Body.List) == 1 {
				if rs, ok := ifs.Body.List[0].(*ast.ReturnStmt); ok && len(rs.Results) == 2 && !isIdent(rs.Results[1], "nil") {
					multi = true
				}
			}
		}
		return true
	})
	r.check(multi, "package clauses", c.Pos(fd), "conflicting package clauses are an error", "conflicting package clauses no longer yield an error")
	// constraint evaluation
	if cf := c.Func("checkConstraint"); cf != nil {
		tagOK, noLineOK := false, false
		ast.Inspect(cf.Body, func(n ast.Node) bool {
			switch x := n.(type) {
			case *ast.FuncLit:
				if len(x.Body.List) == 1 {
					if rs, ok := x.Body.List[0].(*ast.ReturnStmt); ok && len(rs.Results) == 1 {
						if be, ok := unparen(rs.Results[0]).(*ast.BinaryExpr); ok && be.Op == token.EQL {
							if s, ok := c.ConstString(be.Y); ok && s == "goat" {
								tagOK = true
							}
						}
					}
				}
			case *ast.IfStmt:
				if u, ok := unparen(x.Cond).(*ast.UnaryExpr); ok && u.Op == token.NOT {
					if call, ok := unparen(u.X).(*ast.CallExpr); ok && strings.HasSuffix(c.CalleeName(call), "constraint.IsGoBuild") {
						if rs, ok := x.Body.List[0].(*ast.ReturnStmt); ok && len(rs.Results) == 2 && isIdent(rs.Results[0], "true") {
							noLineOK = true
						}
					}
				}
			}
			return true
		})
		// the line handed to IsGoBuild is trimmed
		trimmed := false
		ast.Inspect(cf.Body, func(n ast.Node) bool {
			call, ok := n.(*ast.CallExpr)
			if !ok || !strings.HasSuffix(c.CalleeName(call), "constraint.IsGoBuild") || len(call.Args) != 1 {
				return true
			}
			if strings.Contains(nosp(c.Src(call.Args[0])), "strings.TrimSpace(") {
				trimmed = true
			}
			if id, ok := unparen(call.Args[0]).(*ast.Ident); ok {
				// the last assignment to the variable ahead of the call, in the statements of the
				// enclosing blocks, trims it
				o := c.Obj(id)
				var lastRHS ast.Expr
				var child ast.Node = call
				for p := c.Parent(call); p != nil && lastRHS == nil; child, p = p, c.Parent(p) {
					if _, isFn := p.(*ast.FuncDecl); isFn {
						break
					}
					blk, ok := p.(*ast.BlockStmt)
					if !ok {
						continue
					}
					for _, st := range blk.List {
						if st.Pos() >= child.Pos() {
							break
						}
						if as, ok := st.(*ast.AssignStmt); ok {
							for k, l := range as.Lhs {
								if li, ok := unparen(l).(*ast.Ident); ok && c.Obj(li) == o && k < len(as.Rhs) {
									lastRHS = as.Rhs[k]
								}
							}
						}
					}
				}
				if lastRHS != nil && strings.Contains(nosp(c.Src(lastRHS)), "strings.TrimSpace(") {
					trimmed = true
				}
			}
			return true
		})
		r.check(trimmed, "constraint line", c.Pos(cf), "the line tested for //go:build is trimmed", "checkConstraint no longer trims the line before looking for //go:build: an indented constraint, or one after blank lines, is ignored and the file is loaded")
		// the constraint is looked for in the whole file header: a loop over the lines that
		// skips blank lines and other comments (Go allows a licence comment before it)
		header := false
		ast.Inspect(cf.Body, func(n ast.Node) bool {
			rs, ok := n.(*ast.RangeStmt)
			if !ok {
				return true
			}
			hasBuild, skipsBlank, skipsComment, commentAnswers := false, false, false, false
			// the loop body and the new helpers it calls
			bodies := []ast.Node{rs.Body}
			ast.Inspect(rs.Body, func(m ast.Node) bool {
				if call, ok := m.(*ast.CallExpr); ok {
					if o := c.Callee(call); o != nil && c.isNewHelper(o) {
						if h := c.DeclOf(o); h != nil && h.Body != nil {
							bodies = append(bodies, h.Body)
						}
					}
				}
				return true
			})
			for _, body := range bodies {
				ast.Inspect(body, func(m ast.Node) bool {
					switch x := m.(type) {
					case *ast.CallExpr:
						nm := c.CalleeName(x)
						if strings.HasSuffix(nm, "constraint.IsGoBuild") {
							hasBuild = true
						}
						if nm == "strings.HasPrefix" && len(x.Args) == 2 {
							if v, ok := c.ConstString(x.Args[1]); ok && v == "//" {
								skipsComment = true
								// a comment line is passed over (the scan goes on): the branch taken for
								// it does not answer for the whole file
								if ifs, ok := c.Parent(x).(*ast.IfStmt); ok && unparen(ifs.Cond) == ast.Expr(x) && c.EnclosingFunc(x) == cf {
									ast.Inspect(ifs.Body, func(q ast.Node) bool {
										if _, isRet := q.(*ast.ReturnStmt); isRet {
											commentAnswers = true
										}
										return true
									})
								}
							}
						}
					case *ast.BinaryExpr:
						if v, ok := c.ConstString(x.Y); ok && v == "" && x.Op == token.EQL {
							skipsBlank = true
						}
					case *ast.ForStmt:
						// `for line != "" { .. }`: a blank line runs no iteration and so is skipped
						if c.strNonEmpty(x.Cond) != nil {
							skipsBlank = true
						}
					}
					return true
				})
			}
			if hasBuild && skipsBlank && skipsComment && !commentAnswers {
				header = true
			}
			return true
		})
		r.check(header, "constraint header", c.Pos(cf), "blank lines and comments before the constraint are skipped", "checkConstraint only looks at the first line of the file: a //go:build line that follows a copyright/licence comment (allowed by Go) is ignored, so a file excluded for goat is loaded — its init runs, or it raises a false `multiple packages` conflict")
		// the first line of code ends the header: the scan over the lines is left with "build
		// this file" there, it does not go on to a //go:build line further down (in a raw string,
		// in a comment that quotes one)
		codeEnds := false
		ast.Inspect(cf.Body, func(n ast.Node) bool {
			rs, ok := n.(*ast.RangeStmt)
			if !ok {
				return true
			}
			ast.Inspect(rs.Body, func(m ast.Node) bool {
				if _, isLit := m.(*ast.FuncLit); isLit {
					return false
				}
				if ret, ok := m.(*ast.ReturnStmt); ok && len(ret.Results) == 2 && isIdent(ret.Results[0], "true") && isIdent(ret.Results[1], "nil") {
					codeEnds = true
				}
				return true
			})
			return true
		})
		r.check(codeEnds, "code ends the header", c.Pos(cf), "the scan stops with `build` at the first line of code", "checkConstraint keeps scanning after the first line of code: a line that starts with //go:build below the package clause (a code-generator template in a raw string, a quoted constraint) is evaluated as the file's constraint — the file is silently dropped, its top-level code and init never run")
		// what follows the end of a block comment on the same line is looked at again (code
		// there ends the header; a later //go:build in the body must not exclude the file)
		afterBlock := false
		for _, hcf := range c.withHelpers(cf) {
			cf := hcf
			ast.Inspect(cf.Body, func(n ast.Node) bool {
				as, ok := n.(*ast.AssignStmt)
				if !ok || len(as.Rhs) != 1 || len(as.Lhs) != 3 {
					return true
				}
				call, ok := unparen(as.Rhs[0]).(*ast.CallExpr)
				if !ok || c.CalleeName(call) != "strings.Cut" || len(call.Args) != 2 {
					return true
				}
				if v, ok := c.ConstString(call.Args[1]); !ok || v != "*/" {
					return true
				}
				rid, ok := as.Lhs[1].(*ast.Ident)
				if !ok || rid.Name == "_" {
					return true
				}
				ro := c.Obj(rid)
				ast.Inspect(cf.Body, func(m ast.Node) bool {
					if a2, ok := m.(*ast.AssignStmt); ok && len(a2.Lhs) == 1 && len(a2.Rhs) == 1 && nosp(c.Src(a2.Lhs[0])) == nosp(c.Src(call.Args[0])) {
						ast.Inspect(a2.Rhs[0], func(k ast.Node) bool {
							if id, ok := k.(*ast.Ident); ok && c.Obj(id) == ro {
								afterBlock = true
							}
							return true
						})
					}
					return true
				})
				return true
			})
		}
		r.check(afterBlock, "block comment remainder", c.Pos(cf), "the text after the end of a block comment is examined as the rest of the line", "checkConstraint treats a line that starts with /* as comment to its end: `/* generated */ package main` does not end the header, so a //go:build line further down (inside the code) excludes a file Go would build")
		// files the go tool leaves out by name: *_test.go (above) and names beginning with _ or .
		if lp := c.Func("rawLoadPackage"); lp != nil {
			under, dot := false, false
			// decided on sample names when the filter loop can be evaluated
			for _, hfd := range c.withHelpers(lp) {
				ast.Inspect(hfd.Body, func(n ast.Node) bool {
					rs, ok := n.(*ast.RangeStmt)
					if !ok {
						return true
					}
					k0, _, ok0 := c.keepsElement(rs, "pkg/main.go")
					k1, _, ok1 := c.keepsElement(rs, "pkg/_old.go")
					k2, _, ok2 := c.keepsElement(rs, "pkg/.#main.go")
					k3, _, ok3 := c.keepsElement(rs, "_pkg/.x/main.go")
					if ok0 && ok1 && ok2 && ok3 && k0 && k3 && !k1 && !k2 {
						under, dot = true, true
					}
					return true
				})
			}
			ast.Inspect(lp.Body, func(n ast.Node) bool {
				call, ok := n.(*ast.CallExpr)
				if !ok || c.CalleeName(call) != "strings.HasPrefix" || len(call.Args) != 2 {
					return true
				}
				if v, ok := c.ConstString(call.Args[1]); ok {
					// applied to the file's base name
					a0 := nosp(c.Src(call.Args[0]))
					isBase := strings.Contains(a0, "Base(")
					if id, ok := unparen(call.Args[0]).(*ast.Ident); ok {
						if def := c.singleDef(id); def != nil && strings.Contains(nosp(c.Src(def)), "Base(") {
							isBase = true
						}
					}
					if isBase && v == "_" {
						under = true
					}
					if isBase && v == "." {
						dot = true
					}
				}
				return true
			})
			r.check(under && dot, "underscore and dot files", c.Pos(lp), "files whose base name begins with _ or . are not package files",
				"rawLoadPackage takes every *.go file but *_test.go: a parked _old.go (its init runs) or an editor's .#main.go lock file (a parse error for the whole package) is loaded, where the go tool ignores files whose names begin with _ or .")
		}
		r.check(tagOK, "tag predicate", c.Pos(cf), `only the tag "goat" is set`, `the build-constraint evaluator's tag predicate is not exactly t == "goat"`)
		ast.Inspect(cf.Body, func(n ast.Node) bool {
			if rs, ok := n.(*ast.ReturnStmt); ok && len(rs.Results) == 2 && isIdent(rs.Results[0], "true") && isIdent(rs.Results[1], "nil") {
				noLineOK = true
			}
			return true
		})
		r.check(noLineOK, "no constraint", c.Pos(cf), "a file without //go:build is included", "a file without a //go:build line is no longer included")
	} else {
		r.undecided("checkConstraint", "-", "not found")
	}
	// rawLoadFile honours the verdict
	if lf := c.Func("rawLoadFile"); lf != nil {
		good := false
		ast.Inspect(lf.Body, func(n ast.Node) bool {
			if ifs, ok := n.(*ast.IfStmt); ok {
				if u, ok := unparen(ifs.Cond).(*ast.UnaryExpr); ok && u.Op == token.NOT && isIdent(u.X, "ok") && len(ifs.Body.List) == 1 {
					if rs, ok := ifs.Body.List[0].(*ast.ReturnStmt); ok && len(rs.Results) == 2 && isIdent(rs.Results[1], "nil") {
						good = true
					}
				}
			}
			return true
		})
		r.check(good, "excluded -> empty tree", c.Pos(lf), "an excluded file yields an empty tree", "rawLoadFile does not return an empty tree for a file whose constraint is false")
		// an excluded file is never tokenized or parsed: the verdict is taken first
		ps := c.pathsOf("rawLoadFile")
		nBC, early := 0, ""
		for _, p := range ps {
			isBC := false
			for _, cd := range p.Conds {
				if cd.String() == "checkBC" {
					isBC = true
				}
			}
			if !isBC {
				continue
			}
			nBC++
			verdictAt := -1
			for i, e := range p.Eff {
				if e.Kind != "call" || e.Value == nil {
					continue
				}
				switch e.Value.Name {
				case "checkConstraint":
					if verdictAt < 0 {
						verdictAt = i
					}
				case "tokenize", "parse":
					if verdictAt < 0 && early == "" {
						early = e.Value.Name + " at " + c.Pos(e.Node)
					}
				}
			}
			// excluded path: no tokenize/parse at all
			cs := condStrings(p)
			if strings.Contains(cs, "!checkConstraint(") {
				for _, e := range p.Eff {
					if e.Kind == "call" && e.Value != nil && (e.Value.Name == "tokenize" || e.Value.Name == "parse") && early == "" {
						early = e.Value.Name + " at " + c.Pos(e.Node) + " on the excluded path"
					}
				}
			}
		}
		if nBC == 0 {
			r.undecided("excluded -> not parsed", c.Pos(lf), "no path of rawLoadFile is conditioned on checkBC")
		} else {
			r.check(early == "", "excluded -> not parsed", c.Pos(lf), "with checkBC the constraint verdict precedes tokenize/parse on every path",
				"rawLoadFile runs "+early+" before the build-constraint verdict: a file excluded by //go:build is still tokenized and parsed, so Go code the goat subset cannot parse (which is why such files are excluded) aborts the load of the package instead of being ignored")
		}
	}
}

func ruleLoadKahn(c *Ctx, r *R) {
	fd, first, second := c.loadImportsLoops()
	if fd == nil || first == nil || second == nil {
		r.undecided("loadImports", "-", "the discovery and ordering loops were not found")
		return
	}
	// K1: same path pushed and recorded
	var pushed, recorded string
	ast.Inspect(first.Body, func(n ast.Node) bool {
		as, ok := n.(*ast.AssignStmt)
		if !ok || len(as.Lhs) != 1 || len(as.Rhs) != 1 {
			return true
		}
		if call, ok := unparen(as.Rhs[0]).(*ast.CallExpr); ok && c.CalleeName(call) == "builtin.append" && c.Src(as.Lhs[0]) == "todo" && len(call.Args) == 2 {
			pushed = nosp(c.Src(call.Args[1]))
		}
		if ix, ok := unparen(as.Lhs[0]).(*ast.IndexExpr); ok {
			if in, ok := unparen(ix.X).(*ast.IndexExpr); ok && c.Src(in.X) == "deps" && isIdent(as.Rhs[0], "true") {
				recorded = nosp(c.Src(ix.Index))
			}
		}
		return true
	})
	// K0: every top-level token of the package is examined for imports (no early exit from the scan)
	var scan *ast.RangeStmt
	for _, st := range first.Body.List {
		if rs, ok := st.(*ast.RangeStmt); ok && strings.HasSuffix(c.Src(rs.X), ".Tokens") {
			scan = rs
		}
	}
	if scan == nil {
		r.fail("K0", c.Pos(first), "the discovery loop does not scan the package's top-level tokens for imports")
	} else {
		early := false
		ast.Inspect(scan.Body, func(n ast.Node) bool {
			switch x := n.(type) {
			case *ast.ForStmt, *ast.RangeStmt, *ast.FuncLit:
				return false
			case *ast.BranchStmt:
				if x.Tok == token.BREAK {
					early = true
				}
			case *ast.ReturnStmt:
				// returning an error is fine; a bare success return is not
				if len(x.Results) == 2 && isIdent(x.Results[1], "nil") {
					early = true
				}
			}
			return true
		})
		r.check(!early, "K0", c.Pos(scan), "all top-level tokens are scanned for imports", "the import scan of loadImports stops before the end of the package's tokens: an import that follows another statement (as in an Eval snippet, which is not sorted) is never loaded")
	}
	// K1b: no import is skipped: a continue/break in front of the push is acceptable only
	// when it is keyed by the very path that would be pushed (a harmless de-duplication)
	if pushed != "" {
		var pushStmt ast.Node
		ast.Inspect(first.Body, func(n ast.Node) bool {
			if as, ok := n.(*ast.AssignStmt); ok && len(as.Lhs) == 1 && c.Src(as.Lhs[0]) == "todo" {
				pushStmt = as
			}
			return true
		})
		var loop ast.Node
		for p := c.Parent(pushStmt); p != nil && p != ast.Node(first); p = c.Parent(p) {
			switch p.(type) {
			case *ast.ForStmt, *ast.RangeStmt:
				if loop == nil {
					loop = p
				}
			}
		}
		if loop != nil && pushStmt != nil {
			skipped := ""
			ast.Inspect(loop, func(n ast.Node) bool {
				if _, ok := n.(*ast.FuncLit); ok {
					return false
				}
				br, ok := n.(*ast.BranchStmt)
				if !ok || br.Pos() > pushStmt.Pos() || (br.Tok != token.CONTINUE && br.Tok != token.BREAK) {
					return true
				}
				keyed := false
				for p := c.Parent(br); p != nil && p != loop; p = c.Parent(p) {
					if ifs, ok := p.(*ast.IfStmt); ok && strings.Contains(nosp(c.Src(ifs.Cond)), pushed) {
						keyed = true
					}
				}
				if !keyed && skipped == "" {
					skipped = c.Pos(br)
				}
				return true
			})
			r.check(skipped == "", "K1 every import", c.Pos(loop), "no import is skipped before it is pushed and recorded", "the import loop of loadImports can skip an import (at "+skipped+") on a condition that is not about the import's path: two imports that share a local name (two blank imports, or \"left/util\" and \"right/util\" in two files) collapse to one, and the second package is never loaded or initialised")
		}
	}
	r.check(pushed != "" && pushed == recorded, "K1", c.Pos(first), "the same import path is pushed on the worklist and recorded as a dependency ("+pushed+")",
		fmt.Sprintf("loadImports pushes %q on the worklist but records %q in the dependency set: a dependency is loaded without being ordered before its importer (or vice versa)", pushed, recorded))
	// K2: selection preceded by the emptiness test of the dependency set
	var rng *ast.RangeStmt
	for _, s := range second.Body.List {
		if x, ok := s.(*ast.RangeStmt); ok {
			rng = x
			break
		}
	}
	k2 := false
	if rng != nil {
		if val, ok := rng.Value.(*ast.Ident); ok {
			for i, s := range rng.Body.List {
				ifs, ok := s.(*ast.IfStmt)
				if !ok || !terminating(ifs.Body) {
					continue
				}
				if t, _ := c.lenBound(ifs.Cond, "deps["+val.Name+"]"); t == 1 {
					// a later statement selects
					for _, s2 := range rng.Body.List[i+1:] {
						if as, ok := s2.(*ast.AssignStmt); ok {
							for _, rh := range as.Rhs {
								if id, ok := unparen(rh).(*ast.Ident); ok && c.Obj(id) == c.Info.Defs[val] {
									k2 = true
								}
							}
						}
					}
				}
			}
		}
	}
	if !k2 {
		// indexed selection: slices.IndexFunc(keys, func(k) bool { return len(deps[k]) == 0 })
		ast.Inspect(second.Body, func(n ast.Node) bool {
			call, ok := n.(*ast.CallExpr)
			if !ok || !strings.HasSuffix(c.CalleeName(call), "slices.IndexFunc") || len(call.Args) != 2 {
				return true
			}
			fl, ok := unparen(call.Args[1]).(*ast.FuncLit)
			if !ok || len(fl.Body.List) != 1 || len(fl.Type.Params.List) != 1 {
				return true
			}
			rs, ok := fl.Body.List[0].(*ast.ReturnStmt)
			if !ok || len(rs.Results) != 1 {
				return true
			}
			pn := fl.Type.Params.List[0].Names[0].Name
			if t, f := c.lenBound(rs.Results[0], "deps["+pn+"]"); t == 0 && f == 1 {
				k2 = true
			}
			return true
		})
	}
	r.check(k2, "K2", c.Pos(second), "a package is selected only after its dependency set was tested empty", "the ordering loop can select a package whose dependency set is not empty: a package is initialised before a package it imports")
	// K3: deletes
	dels := map[string]int{}
	ast.Inspect(second.Body, func(n ast.Node) bool {
		if call, ok := n.(*ast.CallExpr); ok && c.CalleeName(call) == "builtin.delete" && len(call.Args) == 2 {
			dels[c.Src(call.Args[0])]++
		}
		return true
	})
	inner := false
	for _, s := range second.Body.List {
		if rs, ok := s.(*ast.RangeStmt); ok && c.Src(rs.X) == "deps" {
			if v, ok := rs.Value.(*ast.Ident); ok && dels[v.Name] == 1 {
				inner = true
			}
		}
	}
	r.check(dels["packages"] == 1 && dels["deps"] == 1 && inner, "K3", c.Pos(second), "the selected package is removed from packages, deps and every remaining dependency set", "the ordering loop does not remove the selected package from packages, deps and every remaining dependency set: importers never become selectable (or a package is emitted twice)")
	other := 0
	ast.Inspect(fd.Body, func(n ast.Node) bool {
		if call, ok := n.(*ast.CallExpr); ok && c.CalleeName(call) == "builtin.delete" && (call.Pos() < second.Pos() || call.End() > second.End()) {
			other++
		}
		return true
	})
	r.check(other == 0, "K3-only", c.Pos(fd), "nothing else deletes from the sets", "loadImports deletes from its sets outside the ordering loop")
	// K4: exactly one append to res per iteration, at top level
	apps := 0
	top := 0
	ast.Inspect(second.Body, func(n ast.Node) bool {
		if as, ok := n.(*ast.AssignStmt); ok && len(as.Rhs) == 1 && c.Src(as.Lhs[0]) == "res" {
			if call, ok := unparen(as.Rhs[0]).(*ast.CallExpr); ok && c.CalleeName(call) == "builtin.append" {
				apps++
			}
		}
		return true
	})
	for _, s := range second.Body.List {
		if as, ok := s.(*ast.AssignStmt); ok && len(as.Rhs) == 1 && c.Src(as.Lhs[0]) == "res" {
			top++
		}
	}
	r.check(apps == 1 && top == 1, "K4", c.Pos(second), "exactly one tree appended per iteration", "the ordering loop does not append exactly one tree per iteration")
	// K5: consumers keep the order
	if cp := c.Func("compilePkgs"); cp != nil {
		ok := false
		ast.Inspect(cp.Body, func(n ast.Node) bool {
			if rs, isR := n.(*ast.RangeStmt); isR && c.Src(rs.X) == "pkgs" {
				ok = true
			}
			return true
		})
		sorted := false
		for _, fn := range []string{"compilePkgs", "VM.Load", "VM.Eval", "loadPackage", "loadFile"} {
			if f := c.Func(fn); f != nil {
				ast.Inspect(f.Body, func(n ast.Node) bool {
					if call, isC := n.(*ast.CallExpr); isC {
						cn := c.CalleeName(call)
						if strings.HasPrefix(cn, "sort.") || strings.Contains(cn, "slices.Sort") || strings.Contains(cn, "slices.Reverse") {
							sorted = true
						}
					}
					return true
				})
			}
		}
		r.check(ok && !sorted, "K5", c.Pos(cp), "packages are compiled and run in list order", "the package list is reordered (or not iterated in order) between loadImports and execution")
	} else {
		r.undecided("K5", "-", "compilePkgs not found")
	}
}

func ruleLoadCycle(c *Ctx, r *R) {
	_, _, second := c.loadImportsLoops()
	if second == nil {
		r.undecided("ordering loop", "-", "not found")
		return
	}
	why := c.selectionDrain(second)
	r.check(why == "", "selection", c.Pos(second), "no selectable package -> error; the candidate list shrinks every iteration",
		"the ordering loop of loadImports: "+why+" — with an import cycle it panics (slices.Delete with -1, nil tree) or spins instead of returning an error")
}

// ---- additional delegation / flow rules found necessary by seeded changes ----

// LIT-DELEGATE (C13): literal decoders return what strconv returns for the token text.
func ruleLitDelegate(c *Ctx, r *R) {
	want := map[string][]string{
		"token.Char":    {"strconv.UnquoteChar(t.Text[1:<+len(t.Text) -1>], 39)#0"},
		"token.Unquote": {"strconv.Unquote(t.Text)#0"},
		"token.Float64": {"strconv.ParseFloat(t.Text, 64)#0"},
		"token.Int":     {"strconv.ParseInt(t.Text[2:_], 16, 0)#0", "strconv.ParseInt(t.Text[1:_], 8, 0)#0", "strconv.Atoi(t.Text)#0"},
	}
	for _, fn := range sortedKeys(want) {
		ps := c.pathsOf(fn, func(in *Interp) {
			in.NoLin = false
			in.NoReturn = func(o types.Object) bool { return o.Name() == "panicf" }
		})
		// the panicking paths of an inlined helper are dropped by the interpreter; only returning paths remain
		if ps == nil {
			r.undecided(fn, "-", "not found")
			continue
		}
		rets := map[string]bool{}
		for _, p := range ps {
			if p.Done == "return" && len(p.Ret) == 1 {
				rets[stripIntConv(p.Ret[0]).String()] = true // integer conversions of the decoded value are immaterial
			}
		}
		good := len(rets) == len(want[fn])
		for _, w := range want[fn] {
			if !rets[w] {
				good = false
			}
		}
		r.check(good, fn, c.Pos(c.Func(fn)), "returns strconv's decoding of the token text", fmt.Sprintf("%s does not return strconv's own decoding of the literal text (returns %v, expected %v): escapes such as '\\xff' or \"\\377\" denote different bytes than in Go", fn, sortedKeys(rets), want[fn]))
	}
}

// LOAD-SORT (C16): every tree loaded from files passes through treeSort before it is ordered/compiled.
func ruleLoadSort(c *Ctx, r *R) {
	n := 0
	var fns []*ast.FuncDecl
	for _, name := range []string{"loadImports", "loadPackage", "loadFile"} {
		fd := c.Func(name)
		if fd == nil {
			r.undecided(name, "-", "not found")
			continue
		}
		fns = append(fns, c.withHelpers(fd)...)
	}
	done := map[*ast.FuncDecl]bool{}
	for _, fd := range fns {
		if done[fd] {
			continue
		}
		done[fd] = true
		name := c.fnName(fd)
		ast.Inspect(fd.Body, func(m ast.Node) bool {
			as, ok := m.(*ast.AssignStmt)
			if !ok || len(as.Rhs) != 1 {
				return true
			}
			call, ok := unparen(as.Rhs[0]).(*ast.CallExpr)
			if !ok {
				return true
			}
			cn := c.CalleeName(call)
			if cn != "rawLoadPackage" && cn != "rawLoadFile" {
				return true
			}
			n++
			v := c.Src(as.Lhs[0])
			// some later statement in the function: v = treeSort(v), before v is stored/passed on
			sortedAt, usedAt := token.NoPos, token.NoPos
			ast.Inspect(fd.Body, func(k ast.Node) bool {
				switch x := k.(type) {
				case *ast.AssignStmt:
					if x.Pos() > as.End() && len(x.Rhs) == 1 {
						if sc, ok := unparen(x.Rhs[0]).(*ast.CallExpr); ok && c.CalleeName(sc) == "treeSort" && len(sc.Args) == 1 && c.Src(sc.Args[0]) == v && c.Src(x.Lhs[0]) == v && !sortedAt.IsValid() {
							sortedAt = x.Pos()
						}
						// stored into the package table
						if ix, ok := unparen(x.Lhs[0]).(*ast.IndexExpr); ok && c.Src(ix.X) == "packages" && c.Src(x.Rhs[0]) == v && x.Pos() > as.End() && !usedAt.IsValid() {
							usedAt = x.Pos()
						}
					}
				case *ast.CallExpr:
					if c.CalleeName(x) == "loadImports" && x.Pos() > as.End() && !usedAt.IsValid() {
						for _, a := range x.Args {
							if c.Src(a) == v {
								usedAt = x.Pos()
							}
						}
					}
				}
				return true
			})
			key := name + " <- " + cn
			r.check(sortedAt.IsValid() && usedAt.IsValid() && sortedAt < usedAt, key, c.Pos(as), "sorted with treeSort before it is recorded / handed to loadImports",
				fmt.Sprintf("%s: the tree returned by %s reaches the package list without passing through treeSort: declarations of that package run in source order, so a use that precedes its declaration fails", name, cn))
			return true
		})
	}
	if n == 0 {
		r.undecided("loads", "-", "no rawLoadPackage/rawLoadFile call found")
	}
}

// FUNC-ISOLATED (C19): the private VM of Func/run does not build its stack in the caller VM's stack.
func ruleFuncIsolated(c *Ctx, r *R) {
	for _, fn := range []string{"VM.Func", "VM.run"} {
		fd := c.Func(fn)
		if fd == nil {
			r.undecided(fn, "-", "not found")
			continue
		}
		recv := fd.Recv.List[0].Names[0].Name
		found := false
		judge := func(value ast.Expr, at ast.Node) {
			found = true
			aliases := false
			ast.Inspect(value, func(m ast.Node) bool {
				if sel, ok := m.(*ast.SelectorExpr); ok && sel.Sel.Name == "stack" && isIdent(sel.X, recv) {
					aliases = true
				}
				if id, ok := m.(*ast.Ident); ok {
					// a local built from the receiver's stack
					if v, ok := c.Obj(id).(*types.Var); ok && !v.IsField() {
						ast.Inspect(fd.Body, func(k ast.Node) bool {
							if as, ok := k.(*ast.AssignStmt); ok {
								for i, l := range as.Lhs {
									if lid, ok := l.(*ast.Ident); ok && c.Obj(lid) == types.Object(v) && i < len(as.Rhs) {
										if strings.Contains(nosp(c.Src(as.Rhs[i])), recv+".stack") {
											aliases = true
										}
									}
								}
							}
							return true
						})
					}
				}
				return true
			})
			// the stack must be rooted in a fresh allocation, not in a slice the caller owns
			var root func(e ast.Expr, depth int) string
			root = func(e ast.Expr, depth int) string {
				e = unparen(e)
				switch x := e.(type) {
				case *ast.CallExpr:
					switch c.CalleeName(x) {
					case "builtin.append":
						if len(x.Args) > 0 {
							return root(x.Args[0], depth+1)
						}
					case "builtin.make":
						return "fresh"
					}
					return "call"
				case *ast.CompositeLit:
					return "fresh"
				case *ast.SliceExpr:
					return root(x.X, depth+1)
				case *ast.Ident:
					if x.Name == "nil" {
						return "fresh"
					}
					o := c.Obj(x)
					if isParamOrRecv(c, fd, o) {
						return "param " + x.Name
					}
					if def := c.singleDef(x); def != nil && depth < 6 {
						return root(def, depth+1)
					}
				}
				return "unknown"
			}
			if rt := root(value, 0); strings.HasPrefix(rt, "param ") {
				r.fail(fn+" stack owner", c.Pos(at), fn+" builds the nested VM's stack by appending to its own "+strings.TrimPrefix(rt, "param ")+" parameter: when the host's argument slice has spare capacity the callee's locals and results are written into the host's backing array (a second Call with the same slice sees the first call's result as its argument) and the returned results alias it")
			} else {
				r.ok(fn+" stack owner", "rooted in "+rt)
			}
			r.check(!aliases, fn+" stack", c.Pos(at), "the nested VM gets its own stack",
				fn+" builds the nested VM's operand stack inside the calling VM's stack: the arguments a native callback received (which live in that spare capacity) are overwritten by a nested Call/Func")
		}
		ast.Inspect(fd.Body, func(n ast.Node) bool {
			switch x := n.(type) {
			case *ast.CompositeLit:
				if !isNamed(c.TypeOf(x), "VM") {
					return true
				}
				for _, el := range x.Elts {
					if kv, ok := el.(*ast.KeyValueExpr); ok && types.ExprString(kv.Key) == "stack" {
						judge(kv.Value, kv)
					}
				}
			case *ast.CallExpr:
				// a new helper that builds the nested VM around a stack it is handed
				o := c.Callee(x)
				h := c.DeclOf(o)
				if o == nil || h == nil || h.Body == nil || !c.isNewHelper(o) {
					return true
				}
				var params []types.Object
				for _, f := range h.Type.Params.List {
					for _, nm := range f.Names {
						params = append(params, c.Info.Defs[nm])
					}
				}
				ast.Inspect(h.Body, func(m ast.Node) bool {
					cl, ok := m.(*ast.CompositeLit)
					if !ok || !isNamed(c.TypeOf(cl), "VM") {
						return true
					}
					for _, el := range cl.Elts {
						kv, ok := el.(*ast.KeyValueExpr)
						if !ok || types.ExprString(kv.Key) != "stack" {
							continue
						}
						if id, ok := unparen(kv.Value).(*ast.Ident); ok {
							for i, po := range params {
								if c.Obj(id) == po && i < len(x.Args) {
									judge(x.Args[i], x)
								}
							}
						}
					}
					return true
				})
			}
			return true
		})
		// the nested VM made as a copy of the calling one (vm := *v): every piece of per-run
		// state the copy inherits has to be replaced — the stack (judged as above), and the
		// backtrace, or the calls active in the outer run are listed again in the nested one
		ast.Inspect(fd.Body, func(n ast.Node) bool {
			as, ok := n.(*ast.AssignStmt)
			if !ok || len(as.Lhs) != 1 || len(as.Rhs) != 1 {
				return true
			}
			star, ok := unparen(as.Rhs[0]).(*ast.StarExpr)
			if !ok || !isIdent(star.X, recv) {
				return true
			}
			cp, ok := as.Lhs[0].(*ast.Ident)
			if !ok {
				return true
			}
			cpObj := c.Obj(cp)
			stackSet, btReset := false, false
			ast.Inspect(fd.Body, func(m ast.Node) bool {
				a2, ok := m.(*ast.AssignStmt)
				if !ok || len(a2.Lhs) != len(a2.Rhs) {
					return true
				}
				for i, l := range a2.Lhs {
					sel, ok := unparen(l).(*ast.SelectorExpr)
					if !ok {
						continue
					}
					if id, ok := unparen(sel.X).(*ast.Ident); !ok || c.Obj(id) != cpObj {
						continue
					}
					switch sel.Sel.Name {
					case "stack":
						stackSet = true
						judge(a2.Rhs[i], a2)
					case "backtrace":
						rs := nosp(c.Src(a2.Rhs[i]))
						if rs == "nil" || strings.HasSuffix(rs, "{}") || strings.Contains(rs, "[:0]") {
							btReset = true
						}
					}
				}
				return true
			})
			found = true
			r.check(stackSet, fn+" stack", c.Pos(as), "the copied VM gets its own stack", fn+" runs the nested call on a copy of the calling VM that still shares its operand stack")
			r.check(btReset, fn+" backtrace", c.Pos(as), "the copied VM starts with an empty backtrace",
				fn+" makes the nested VM as a copy of the calling one (`"+cp.Name+" := *"+recv+"`) and keeps its backtrace: a native that calls back through the *VM it was handed starts the nested run with the outer chain already recorded, so an error inside the callback lists every call active above the native twice")
			return true
		})
		if !found {
			r.undecided(fn+" stack", c.Pos(fd), "no VM literal with a stack field")
		}
	}
}

// POS-NODE: the position of a call is the position of its "(" — the token the Led handler
// is invoked for — as in Go's stack traces, not the position of whatever token follows it
// (the first argument, possibly on a later line).  The call node's position is what the
// CALL instruction and the backtrace entry carry.
func rulePosNode(c *Ctx, r *R) {
	posCopyRule(c, r)
	rows, err := c.symbolTable()
	if err != nil {
		r.undecided("symbols", "-", err.Error())
		return
	}
	n := 0
	seen := map[*ast.FuncDecl]bool{}
	for _, row := range rows {
		fn, _ := row.Led.(*types.Func)
		if fn == nil {
			continue
		}
		fd := c.DeclOf(fn)
		if fd == nil || fd.Body == nil || seen[fd] || len(fd.Type.Params.List) < 2 {
			continue
		}
		seen[fd] = true
		// the handler's own token parameter (second parameter: t *token)
		var tokParam types.Object
		i := 0
		for _, f := range fd.Type.Params.List {
			for _, nm := range f.Names {
				if i == 1 {
					tokParam = c.Info.Defs[nm]
				}
				i++
			}
		}
		for _, h := range c.withHelpers(fd) {
			ast.Inspect(h.Body, func(nd ast.Node) bool {
				call, ok := nd.(*ast.CallExpr)
				if !ok || c.CalleeName(call) != "symAtPos" || len(call.Args) != 2 {
					return true
				}
				if kind, ok := c.ConstString(call.Args[1]); !ok || kind != "call" {
					return true
				}
				n++
				good := false
				if sel, ok := unparen(call.Args[0]).(*ast.SelectorExpr); ok && sel.Sel.Name == "Pos" {
					if id, ok := unparen(sel.X).(*ast.Ident); ok && h == fd && c.Obj(id) == tokParam {
						good = true
					}
				}
				r.check(good, "call position "+h.Name.Name, c.Pos(call), "the call node is positioned at its \"(\" token", h.Name.Name+" positions the call node at "+c.Src(call.Args[0])+" — the token after the \"(\" — so a call whose first argument is on the next line (gofmt's layout for long calls) is reported, in the error and in every backtrace entry, at the line of its first argument instead of the line of the call")
				return true
			})
		}
	}
	if n == 0 {
		r.undecided("call position", "-", "no Led handler creates a call node with symAtPos")
	}
}

// RELOAD-TYPESLOT: named non-struct types are written into their global slot while
// compiling and read back from it by typeFromToken while compiling; struct and interface
// types are stored only when their declaration runs. A reload that turns `type T int` into
// `type T struct{..}` must therefore not leave the old compile-time value in the slot: the
// struct/interface branch clears a slot that holds a type value.
func ruleReloadTypeSlot(c *Ctx, r *R) {
	cs, err := c.compileSwitch()
	if err != nil {
		r.undecided("compile", "-", err.Error())
		return
	}
	sc := cs.ByLabel["type"]
	if sc == nil {
		r.undecided("type", "-", "no compile-case")
		return
	}
	nWrite, clears := 0, false
	ast.Inspect(sc.Clause, func(n ast.Node) bool {
		call, ok := n.(*ast.CallExpr)
		if !ok || c.CalleeName(call) != "lookup.Write" || len(call.Args) != 2 {
			return true
		}
		nWrite++
		// a write of the zero Value under a test of the slot's current type, on the struct/interface branch
		cl, ok := unparen(call.Args[1]).(*ast.CompositeLit)
		if !ok || len(cl.Elts) != 0 {
			return true
		}
		testsType, structBranch := false, false
		for p := c.Parent(call); p != nil && p != ast.Node(sc.Clause); p = c.Parent(p) {
			ifs, ok := p.(*ast.IfStmt)
			if !ok {
				continue
			}
			src := nosp(c.Src(ifs.Cond))
			if strings.Contains(src, "typeType") && strings.Contains(src, ".Read(") {
				testsType = true
			}
			if strings.Contains(src, `"struct"`) && strings.Contains(src, `"interface"`) {
				structBranch = true
			}
		}
		if testsType && structBranch {
			clears = true
		}
		return true
	})
	if nWrite == 0 {
		r.ok("type slot", "no compile-time write of type values: nothing to go stale")
		return
	}
	r.check(clears, "type slot cleared", c.Pos(sc.Clause), "compiling a struct or interface declaration clears a compile-time type value left in its slot",
		"compile(\"type\") writes non-struct types into their global slot at compile time but never clears it when the name becomes a struct or interface: after `type rec int` a reload with `type rec struct{a, b int}` fails to compile (`untyped data`) for ever, because typeFromToken still reads the stale int")
}

// structIdentityRule: a type object's identity and its method table are what instances and
// bound method values created before a reload hold on to: nothing overwrites a structT
// wholesale (`*dst = *cur`) and nothing re-points the Methods field of an existing object.
func structIdentityRule(c *Ctx, r *R) {
	n := 0
	for _, name := range c.FuncNames() {
		fd := c.funcs[name]
		if fd.Body == nil {
			continue
		}
		ast.Inspect(fd.Body, func(m ast.Node) bool {
			as, ok := m.(*ast.AssignStmt)
			if !ok {
				return true
			}
			for _, l := range as.Lhs {
				switch x := unparen(l).(type) {
				case *ast.StarExpr:
					if isNamed(c.TypeOf(x), "structT") {
						n++
						r.fail("overwrite "+name, c.Pos(as), name+" overwrites a struct type object wholesale ("+c.Src(l)+" = ..): the object takes over the other one's method table pointer, so instances and bound methods created before (which hold the old table) keep running the old method bodies after a reload, while new instances run the new ones")
					}
				case *ast.SelectorExpr:
					if x.Sel.Name == "Methods" && isNamed(c.TypeOf(x.X), "structT") {
						n++
						r.fail("Methods re-pointed "+name, c.Pos(as), name+" assigns the Methods field of an existing struct object: the method table is shared by pointer between the type and all its instances and must keep its identity")
					}
				}
			}
			return true
		})
	}
	if n == 0 {
		r.ok("struct identity", "no wholesale overwrite of a structT and no re-pointing of Methods")
	}
}

// lookupOwnerRule: the globals table's storage is touched only by lookup's own methods. A
// handler that keeps its own copy of the backing slice (`globals := v.globals.data`) goes on
// reading the old array after a reload made during the call grew the table: frames that were
// already running see variables at their pre-reload values.
func lookupOwnerRule(c *Ctx, r *R) {
	n, bad := 0, 0
	for _, name := range c.FuncNames() {
		fd := c.funcs[name]
		if fd.Body == nil {
			continue
		}
		own := name == "newLookup" || strings.HasPrefix(name, "lookup.")
		ast.Inspect(fd.Body, func(m ast.Node) bool {
			sel, ok := m.(*ast.SelectorExpr)
			if !ok {
				return true
			}
			s := c.Info.Selections[sel]
			if s == nil || s.Kind() != types.FieldVal {
				return true
			}
			rt := s.Recv()
			if p, ok := rt.(*types.Pointer); ok {
				rt = p.Elem()
			}
			if !isNamed(rt, "lookup") || sel.Sel.Name != "data" {
				return true // the value storage is what a reload reallocates
			}
			n++
			if !own {
				bad++
				r.fail("lookup."+sel.Sel.Name+" in "+name, c.Pos(sel), name+" reaches into the globals table's storage (lookup."+sel.Sel.Name+") instead of going through Read/Write/Index: a copy of the backing slice taken on entry of exec goes stale when a reload during the call grows the table — frames already running keep reading the old array")
			}
			return true
		})
	}
	if bad == 0 {
		r.ok("globals table ownership", fmt.Sprintf("%d field accesses, all inside lookup's own methods", n))
	}
}

// posCopyRule: token.Copy (used for the implicitly repeated expression lists of a const
// group) yields a node with every field of the original: the copy's instructions are stamped
// from its Pos, so a copy without Pos reports run-time errors at file "" line 0.
func posCopyRule(c *Ctx, r *R) {
	fd := c.Func("token.Copy")
	if fd == nil {
		r.undecided("token.Copy", "-", "not found")
		return
	}
	nt := c.NamedType("token")
	st, _ := nt.Underlying().(*types.Struct)
	if st == nil {
		r.undecided("token.Copy", c.Pos(fd), "token is not a struct")
		return
	}
	set := map[string]bool{}
	ast.Inspect(fd.Body, func(n ast.Node) bool {
		switch x := n.(type) {
		case *ast.CompositeLit:
			if isNamed(c.TypeOf(x), "token") {
				for _, e := range x.Elts {
					if kv, ok := e.(*ast.KeyValueExpr); ok {
						if id, ok := kv.Key.(*ast.Ident); ok {
							set[id.Name] = true
						}
					}
				}
			}
		case *ast.AssignStmt:
			for _, l := range x.Lhs {
				if sel, ok := unparen(l).(*ast.SelectorExpr); ok && c.isTokenPtr(c.TypeOf(sel.X)) {
					set[sel.Sel.Name] = true
				}
			}
		case *ast.StarExpr:
			// c := *t copies every field
			if isNamed(c.TypeOf(x), "token") {
				if _, isAssignRHS := c.Parent(x).(*ast.AssignStmt); isAssignRHS {
					for i := 0; i < st.NumFields(); i++ {
						set[st.Field(i).Name()] = true
					}
				}
			}
		}
		return true
	})
	var missing []string
	for i := 0; i < st.NumFields(); i++ {
		if !set[st.Field(i).Name()] {
			missing = append(missing, st.Field(i).Name())
		}
	}
	r.check(len(missing) == 0, "token.Copy copies every field", c.Pos(fd), "Pos, Symbol, Text and Tokens are all carried over",
		"token.Copy does not carry over "+strings.Join(missing, ", ")+": the implicitly repeated specs of a const group (`A = f(iota); B; C`) are compiled from copies, so a failure in B's expression is reported as `main.f(...) :0:0` — no file, no line")
}

// LOAD-IMPORTALL: the loader builds the import graph from the children of the `import` nodes
// and nothing else, so every path the parser reads in an import declaration reaches that node
// — also one whose alias is `_` (a package imported for its initialisation only). Decided on
// importNud and the new helpers it calls: each parsed path string is appended directly, or
// held in a variable that is appended in the same block with no way out in between.
func ruleLoadImportAll(c *Ctx, r *R) {
	fd := c.Func("importNud")
	if fd == nil {
		r.undecided("importNud", "-", "not found")
		return
	}
	n := 0
	// importNud and the plain functions it calls directly
	fns := []*ast.FuncDecl{fd}
	ast.Inspect(fd.Body, func(m ast.Node) bool {
		if call, ok := m.(*ast.CallExpr); ok {
			if h := c.DeclOf(c.Callee(call)); h != nil && h.Body != nil && h.Recv == nil && h != fd {
				dup := false
				for _, f := range fns {
					if f == h {
						dup = true
					}
				}
				if !dup {
					fns = append(fns, h)
				}
			}
		}
		return true
	})
	for _, h := range fns {
		ast.Inspect(h.Body, func(m ast.Node) bool {
			call, ok := m.(*ast.CallExpr)
			if !ok || c.CalleeName(call) != "parser.Advance" || len(call.Args) != 1 {
				return true
			}
			if v, ok := c.ConstString(call.Args[0]); !ok || v != "(string)" {
				return true
			}
			n++
			key := fmt.Sprintf("%s path #%d", h.Name.Name, n)
			// appended directly
			if pc, ok := c.Parent(call).(*ast.CallExpr); ok && c.CalleeName(pc) == "token.Append" {
				r.ok(key, "appended to the import node as it is read")
				return true
			}
			// or bound to a variable
			var blk *ast.BlockStmt
			var at ast.Stmt
			var obj types.Object
			for p := c.Parent(call); p != nil; p = c.Parent(p) {
				if as, ok := p.(*ast.AssignStmt); ok && at == nil {
					at = as
					for i, rh := range as.Rhs {
						if unparen(rh) == ast.Expr(call) && i < len(as.Lhs) {
							if id, ok := as.Lhs[i].(*ast.Ident); ok {
								obj = c.Obj(id)
							}
						}
					}
				}
				if b, ok := p.(*ast.BlockStmt); ok && at != nil {
					blk = b
					break
				}
			}
			good := false
			why := "the path read is neither appended nor bound to a variable"
			if blk != nil && obj != nil {
				why = "the path is read into " + obj.Name() + " but not appended unconditionally afterwards"
				after := false
				for _, st := range blk.List {
					if st == at {
						after = true
						continue
					}
					if !after {
						continue
					}
					// a way out before the append (continue / break / return / goto, at any depth)
					escapes := false
					ast.Inspect(st, func(q ast.Node) bool {
						switch q.(type) {
						case *ast.BranchStmt, *ast.ReturnStmt:
							escapes = true
						}
						return true
					})
					if es, ok := st.(*ast.ExprStmt); ok {
						if ac, ok := unparen(es.X).(*ast.CallExpr); ok && c.CalleeName(ac) == "token.Append" && len(ac.Args) == 1 {
							if id, ok := unparen(ac.Args[0]).(*ast.Ident); ok && c.Obj(id) == obj {
								good = true
								break
							}
						}
					}
					if escapes {
						why = "between reading the path into " + obj.Name() + " and appending it there is a way out (" + c.Pos(st) + ")"
						break
					}
				}
			}
			r.check(good, key, c.Pos(call), "every import path read reaches the import node",
				"importNud drops an import it has parsed ("+why+"): the loader builds the import graph from the import node's children only, so e.g. a package imported as `_ \"codec\"` for its init is never loaded, ordered or run, and no error is reported")
			return true
		})
	}
	if n == 0 {
		r.undecided("importNud", c.Pos(fd), "no path string is read")
	}
	// the name an unnamed import binds is the imported package's declared name: the parser can
	// only guess it from the path, so the loader — which has both trees — writes the package
	// clause's name into the import's name token
	if li := c.Func("loadImports"); li != nil {
		renames := false
		for _, h := range c.withHelpers(li) {
			ast.Inspect(h.Body, func(m ast.Node) bool {
				as, ok := m.(*ast.AssignStmt)
				if !ok || len(as.Lhs) != 1 || len(as.Rhs) != 1 {
					return true
				}
				sel, ok := unparen(as.Lhs[0]).(*ast.SelectorExpr)
				if !ok || sel.Sel.Name != "Text" || !c.isTokenPtr(c.TypeOf(sel.X)) {
					return true
				}
				rs := nosp(c.Src(as.Rhs[0]))
				if strings.HasSuffix(rs, ".Tokens[0].Text") {
					renames = true
				}
				// ... or a name obtained from it: `name := clause.Tokens[0].Text`, or
				// `name, ok := declaredName(pkg)` with a new helper that returns it
				if id, ok := unparen(as.Rhs[0]).(*ast.Ident); ok {
					o := c.Obj(id)
					ast.Inspect(h.Body, func(k ast.Node) bool {
						def, ok := k.(*ast.AssignStmt)
						if !ok {
							return true
						}
						for i, l := range def.Lhs {
							lid, ok := l.(*ast.Ident)
							if !ok || c.Obj(lid) != o {
								continue
							}
							if len(def.Rhs) == len(def.Lhs) && strings.HasSuffix(nosp(c.Src(def.Rhs[i])), ".Tokens[0].Text") {
								renames = true
							}
							if len(def.Rhs) == 1 {
								if call, ok := unparen(def.Rhs[0]).(*ast.CallExpr); ok {
									if ho := c.Callee(call); ho != nil && c.isNewHelper(ho) {
										if hd := c.DeclOf(ho); hd != nil && hd.Body != nil {
											ast.Inspect(hd.Body, func(q ast.Node) bool {
												if ret, ok := q.(*ast.ReturnStmt); ok && i < len(ret.Results) && strings.HasSuffix(nosp(c.Src(ret.Results[i])), ".Tokens[0].Text") {
													renames = true
												}
												return true
											})
										}
									}
								}
							}
						}
						return true
					})
				}
				return true
			})
		}
		r.check(renames, "import name from the package clause", c.Pos(li), "an unnamed import takes the imported package's declared name",
			"loadImports leaves an unnamed import bound to the parser's guess (the last path element): import \"example.com/lib/v2\" with `package lib` binds v2, so lib.Name() compiles to an undeclared global and fails with a nil dereference at run time — after the packages were initialised, with no load error")
	} else {
		r.undecided("import name", "-", "loadImports not found")
	}
}

// LOAD-CLEANPATH: the name a package is loaded (and re-loaded) under is the cleaned,
// slash-separated path: "./rules" and "rules" are one package. VM.Load normalises its argument
// with filepath.Clean before anything uses it; otherwise a reload through a differently spelled
// path registers every global a second time (./rules.X next to rules.X) and nothing is
// replaced in place.
func ruleLoadCleanPath(c *Ctx, r *R) {
	fd := c.Func("VM.Load")
	if fd == nil || fd.Type.Params.NumFields() < 2 {
		r.undecided("VM.Load", "-", "not found")
		return
	}
	// the path parameter: the first string parameter
	var arg types.Object
	for _, f := range fd.Type.Params.List {
		for _, nm := range f.Names {
			if b, ok := c.Info.Defs[nm].Type().Underlying().(*types.Basic); ok && b.Kind() == types.String && arg == nil {
				arg = c.Info.Defs[nm]
			}
		}
	}
	if arg == nil {
		r.undecided("VM.Load", c.Pos(fd), "no string parameter")
		return
	}
	cleaned := false
	firstUse := token.NoPos
	cleanAt := token.NoPos
	ast.Inspect(fd.Body, func(n ast.Node) bool {
		switch x := n.(type) {
		case *ast.CallExpr:
			nm := c.CalleeName(x)
			if nm == "path/filepath.Clean" || nm == "path.Clean" || nm == "filepath.Clean" {
				for _, a := range x.Args {
					if id, ok := unparen(a).(*ast.Ident); ok && c.Obj(id) == arg {
						cleaned = true
						if !cleanAt.IsValid() {
							cleanAt = x.Pos()
						}
					}
				}
			}
		case *ast.Ident:
			if c.Obj(x) == arg && !firstUse.IsValid() && c.Info.Uses[x] != nil {
				if as, ok := c.Parent(x).(*ast.AssignStmt); ok {
					for _, l := range as.Lhs {
						if l == ast.Expr(x) {
							return true // being assigned, not read
						}
					}
				}
				firstUse = x.Pos()
			}
		}
		return true
	})
	// the first read of the parameter is the normalisation itself
	okOrder := cleaned && firstUse.IsValid() && cleanAt.IsValid() && firstUse >= cleanAt && firstUse <= cleanAt+token.Pos(40)
	r.check(cleaned && okOrder, "Load cleans its path", c.Pos(fd), "the package path is normalised with filepath.Clean before it is used",
		"VM.Load no longer normalises the package path with filepath.Clean before using it: Load(fs, \"./rules\") registers the package's globals as ./rules.X beside the live rules.X, so a reload replaces nothing in place — captured functions keep running the old code and variables are not reinitialised, without any error")
}

// POS-STORE: an element or field access that an assignment makes on its target (the SET /
// SETATTR of `x[i] = v`, `p.f = v`, and the GET / GETATTR + SET / SETATTR of `x[i] += v`,
// `p.f++`) is a faulting operation of the target expression: it carries the position of the
// target (its `[` or `.`), as the load of the same element does, not the position of the
// assignment operator that the stamping loop would give it — the two can be on different
// lines.  Decided on every instruction literal with one of those four opcodes inside a branch
// of compile that tests `X.Symbol == "index"` or `X.Symbol == "."`: its Pos field is built
// from X.
func rulePosStore(c *Ctx, r *R) {
	cs, err := c.compileSwitch()
	if err != nil {
		r.undecided("compile", "-", err.Error())
		return
	}
	faulting := map[string]bool{"codeSet": true, "codeSetAttr": true, "codeGet": true, "codeGetAttr": true}
	var tokParam types.Object
	if ps := cs.Fn.Type.Params.List; len(ps) > 0 && len(ps[0].Names) > 0 {
		tokParam = c.Info.Defs[ps[0].Names[0]]
	}
	// mentions: the expression (following single-assignment locals and new helpers one level)
	// is built from obj
	var mentions func(e ast.Expr, obj types.Object, depth int) bool
	mentions = func(e ast.Expr, obj types.Object, depth int) bool {
		found := false
		ast.Inspect(e, func(n ast.Node) bool {
			id, ok := n.(*ast.Ident)
			if !ok || found {
				return !found
			}
			o := c.Obj(id)
			if o == obj {
				found = true
				return false
			}
			if v, ok := o.(*types.Var); ok && depth < 3 && v != tokParam {
				if fd := c.EnclosingFunc(e); fd != nil {
					ast.Inspect(fd.Body, func(m ast.Node) bool {
						as, ok := m.(*ast.AssignStmt)
						if !ok || len(as.Lhs) != len(as.Rhs) {
							return true
						}
						for i, l := range as.Lhs {
							if lid, ok := unparen(l).(*ast.Ident); ok && (c.Info.Defs[lid] == v || c.Info.Uses[lid] == v) && as.Rhs[i].Pos() < e.Pos() {
								if mentions(as.Rhs[i], obj, depth+1) {
									found = true
								}
							}
						}
						return !found
					})
				}
			}
			return !found
		})
		return found
	}
	n := 0
	var scan func(body ast.Node, target types.Object, depth int)
	scan = func(body ast.Node, target types.Object, depth int) {
		ast.Inspect(body, func(k ast.Node) bool {
			if _, ok := k.(*ast.FuncLit); ok {
				return false
			}
			// a new helper that is handed the target emits the access on its behalf
			if call, ok := k.(*ast.CallExpr); ok && depth < 2 {
				if o := c.Callee(call); o != nil && c.isNewHelper(o) {
					if h := c.DeclOf(o); h != nil && h.Body != nil {
						pi := 0
						for _, f := range h.Type.Params.List {
							for _, nm := range f.Names {
								if pi < len(call.Args) {
									if id, ok := unparen(call.Args[pi]).(*ast.Ident); ok && c.Obj(id) == target {
										scan(h.Body, c.Info.Defs[nm], depth+1)
									}
								}
								pi++
							}
						}
					}
				}
				return true
			}
			cl, ok := k.(*ast.CompositeLit)
			if !ok {
				return true
			}
			if tn, ok := c.TypeOf(cl).(*types.Named); !ok || tn.Obj().Name() != "instruction" {
				return true
			}
			code := ""
			var posExpr ast.Expr
			for _, el := range cl.Elts {
				kv, ok := el.(*ast.KeyValueExpr)
				if !ok {
					continue
				}
				k, _ := kv.Key.(*ast.Ident)
				if k == nil {
					continue
				}
				switch k.Name {
				case "Code":
					code = c.codeConstName(kv.Value)
				case "Pos":
					posExpr = kv.Value
				}
			}
			if !faulting[code] {
				return true
			}
			n++
			good := posExpr != nil && mentions(posExpr, target, 0)
			r.check(good, "store at its target", c.Pos(cl), code+" of an assignment target carries the target's position",
				"the "+code+" that an assignment makes on its `"+target.Name()+"` target carries no position of its own: the stamping loop gives it the position of the assignment operator — `grid[row*4+` newline `col] = 1` reports the fault on the line of the `=`, while the load of the same element (and Go) report the line of the `[`")
			return true
		})
	}
	symbolOf := func(e ast.Expr) types.Object {
		sel, ok := unparen(e).(*ast.SelectorExpr)
		if !ok || sel.Sel.Name != "Symbol" {
			return nil
		}
		if id, ok := unparen(sel.X).(*ast.Ident); ok && c.Obj(id) != tokParam {
			return c.Obj(id)
		}
		return nil
	}
	ast.Inspect(cs.Switch, func(m ast.Node) bool {
		switch x := m.(type) {
		case *ast.IfStmt:
			for _, cj := range conjuncts(x.Cond) {
				be, ok := unparen(cj).(*ast.BinaryExpr)
				if !ok || be.Op != token.EQL {
					continue
				}
				s, ok := c.ConstString(be.Y)
				if !ok || (s != "index" && s != ".") {
					continue
				}
				if target := symbolOf(be.X); target != nil {
					scan(x.Body, target, 0)
				}
			}
		case *ast.SwitchStmt:
			// switch arg.Symbol { case "index": ... case ".": ... }
			if x.Tag == nil {
				return true
			}
			target := symbolOf(x.Tag)
			if target == nil {
				return true
			}
			for _, cc := range x.Body.List {
				cl := cc.(*ast.CaseClause)
				for _, e := range cl.List {
					if s, ok := c.ConstString(e); ok && (s == "index" || s == ".") {
						for _, st := range cl.Body {
							scan(st, target, 0)
						}
					}
				}
			}
		}
		return true
	})
	if n == 0 {
		r.undecided("store at its target", c.Pos(cs.Switch), "no SET/SETATTR/GET/GETATTR literal found under a target-symbol test in compile")
	}
}

// API-ERRCHAIN: "an error raised inside a native callback or a nested call surfaces as the
// error of the outer call".  A native raises a Go error by panic(err); run / Func recover it
// and hand the recovered value to btErr, whose result is what the host gets.  The result must
// keep the raised error in its chain (errors.Is / errors.As): on the path where the recovered
// value is an error, btErr returns either fmt.Errorf with a %w verb applied to it, or a value
// of a type whose Unwrap method returns the field the error was stored in.
func ruleApiErrChain(c *Ctx, r *R) {
	fd := c.Func("VM.btErr")
	if fd == nil {
		r.undecided("btErr", "-", "VM.btErr not found")
		return
	}
	var rec types.Object
	if ps := fd.Type.Params.List; len(ps) > 0 && len(ps[0].Names) > 0 {
		rec = c.Info.Defs[ps[0].Names[0]]
	}
	// variables bound to the recovered value asserted to error
	causes := map[types.Object]bool{}
	ast.Inspect(fd.Body, func(n ast.Node) bool {
		switch x := n.(type) {
		case *ast.AssignStmt:
			if len(x.Rhs) == 1 {
				if ta, ok := unparen(x.Rhs[0]).(*ast.TypeAssertExpr); ok && ta.Type != nil {
					if id, ok := unparen(ta.X).(*ast.Ident); ok && c.Obj(id) == rec && types.TypeString(c.TypeOf(ta.Type), nil) == "error" {
						if l, ok := x.Lhs[0].(*ast.Ident); ok {
							causes[c.Obj(l)] = true
						}
					}
				}
			}
		case *ast.TypeSwitchStmt:
			// switch e := r.(type) { case error: ... }
			if as, ok := x.Assign.(*ast.AssignStmt); ok && len(as.Rhs) == 1 {
				if ta, ok := unparen(as.Rhs[0]).(*ast.TypeAssertExpr); ok {
					if id, ok := unparen(ta.X).(*ast.Ident); ok && c.Obj(id) == rec {
						for _, cc := range x.Body.List {
							cl := cc.(*ast.CaseClause)
							if len(cl.List) == 1 && types.TypeString(c.TypeOf(cl.List[0]), nil) == "error" {
								if o := c.Info.Implicits[cl]; o != nil {
									causes[o] = true
								}
							}
						}
					}
				}
			}
		}
		return true
	})
	isCause := func(e ast.Expr) bool {
		id, ok := unparen(e).(*ast.Ident)
		return ok && causes[c.Obj(id)]
	}
	kept := false
	where := c.Pos(fd)
	ast.Inspect(fd.Body, func(n ast.Node) bool {
		rs, ok := n.(*ast.ReturnStmt)
		if !ok || len(rs.Results) != 1 {
			return true
		}
		e := unparen(rs.Results[0])
		if call, ok := e.(*ast.CallExpr); ok && c.CalleeName(call) == "fmt.Errorf" && len(call.Args) >= 2 {
			if f, ok := c.ConstString(call.Args[0]); ok && strings.Contains(f, "%w") {
				for _, a := range call.Args[1:] {
					if isCause(a) {
						kept, where = true, c.Pos(rs)
					}
				}
			}
		}
		if u, ok := e.(*ast.UnaryExpr); ok && u.Op == token.AND {
			e = unparen(u.X)
		}
		cl, ok := e.(*ast.CompositeLit)
		if !ok {
			return true
		}
		named, _ := c.TypeOf(cl).(*types.Named)
		if named == nil {
			return true
		}
		field := ""
		for _, el := range cl.Elts {
			if kv, ok := el.(*ast.KeyValueExpr); ok && isCause(kv.Value) {
				if k, ok := kv.Key.(*ast.Ident); ok {
					field = k.Name
				}
			}
		}
		if field == "" {
			return true
		}
		// the type's Unwrap returns that field
		for _, name := range []string{named.Obj().Name() + ".Unwrap"} {
			um := c.Func(name)
			if um == nil || um.Body == nil {
				continue
			}
			ast.Inspect(um.Body, func(m ast.Node) bool {
				if ur, ok := m.(*ast.ReturnStmt); ok && len(ur.Results) == 1 {
					if sel, ok := unparen(ur.Results[0]).(*ast.SelectorExpr); ok && sel.Sel.Name == field {
						kept, where = true, c.Pos(rs)
					}
				}
				return true
			})
		}
		return true
	})
	// no return ahead of the error test: a path that leaves btErr before the recovered value has
	// been looked at returns a flattened text for an error too
	var firstTest token.Pos
	ast.Inspect(fd.Body, func(n ast.Node) bool {
		if ta, ok := n.(*ast.TypeAssertExpr); ok {
			if id, ok := unparen(ta.X).(*ast.Ident); ok && c.Obj(id) == rec && (!firstTest.IsValid() || ta.Pos() < firstTest) {
				firstTest = ta.Pos()
			}
		}
		return true
	})
	if kept && firstTest.IsValid() {
		ast.Inspect(fd.Body, func(n ast.Node) bool {
			if _, ok := n.(*ast.FuncLit); ok {
				return false
			}
			rs, ok := n.(*ast.ReturnStmt)
			if !ok || rs.Pos() > firstTest || len(rs.Results) != 1 || isIdent(rs.Results[0], "nil") {
				return true
			}
			// fmt.Errorf("...%w...", r) wraps whatever error r holds
			if call, ok := unparen(rs.Results[0]).(*ast.CallExpr); ok && c.CalleeName(call) == "fmt.Errorf" && len(call.Args) >= 2 {
				if f, ok := c.ConstString(call.Args[0]); ok && strings.Contains(f, "%w") {
					for _, a := range call.Args[1:] {
						if id, ok := unparen(a).(*ast.Ident); ok && c.Obj(id) == rec {
							return true
						}
					}
				}
			}
			r.fail("raised error stays in the chain", c.Pos(rs), "btErr returns here before it has looked at whether the recovered value is an error: on this path (an instruction without a source position — the call that Func / Call make for the host, a native comparator called back through Func) the error a native callback raised is flattened into text and errors.Is / errors.As cannot find it")
			return true
		})
	}
	r.check(kept, "raised error stays in the chain", where, "btErr's result unwraps to the error a callback raised",
		"btErr formats the recovered value into a new error text and drops the value: when a native callback raises a Go error (panic(errQuota), as slices.SortFunc does with the error of its nested call), errors.Is / errors.As on the error Call, Func or Load returns cannot find it — only its text surfaces")
}

// PAR-INITNAME: only a plain function named init is a package initialiser.  `func (g *Game)
// init()` is a method like any other (Go allows it): funcNud turns a declaration into an
// "init" node only on the branch that parsed no receiver — inside the else-part of the
// receiver test, or under a test that the receiver variable is nil.
func ruleParInitName(c *Ctx, r *R) {
	fd := c.Func("funcNud")
	if fd == nil {
		r.undecided("funcNud", "-", "not found")
		return
	}
	// the receiver test: if p.Token.Symbol == "(" at declaration level
	var recvIf *ast.IfStmt
	ast.Inspect(fd.Body, func(n ast.Node) bool {
		ifs, ok := n.(*ast.IfStmt)
		if !ok || recvIf != nil {
			return true
		}
		be, ok := unparen(ifs.Cond).(*ast.BinaryExpr)
		if !ok || be.Op != token.EQL {
			return true
		}
		if v, ok := c.ConstString(be.Y); ok && v == "(" && strings.HasSuffix(nosp(c.Src(be.X)), ".Token.Symbol") {
			recvIf = ifs
		}
		return true
	})
	if recvIf == nil {
		r.undecided("receiver test", c.Pos(fd), "no `p.Token.Symbol == \"(\"` test found in funcNud")
		return
	}
	recvVars := map[types.Object]bool{}
	ast.Inspect(recvIf.Body, func(n ast.Node) bool {
		if as, ok := n.(*ast.AssignStmt); ok {
			for _, l := range as.Lhs {
				if id, ok := l.(*ast.Ident); ok && id.Name != "_" {
					if o := c.Obj(id); o != nil {
						recvVars[o] = true
					}
				}
			}
		}
		return true
	})
	n := 0
	ast.Inspect(fd.Body, func(m ast.Node) bool {
		call, ok := m.(*ast.CallExpr)
		if !ok {
			return true
		}
		mk := false
		switch c.CalleeName(call) {
		case "symAtPos":
			if len(call.Args) == 2 {
				if v, ok := c.ConstString(call.Args[1]); ok && v == "init" {
					mk = true
				}
			}
		case "token.rename":
			if len(call.Args) == 1 {
				if v, ok := c.ConstString(call.Args[0]); ok && v == "init" {
					mk = true
				}
			}
		}
		if !mk {
			return true
		}
		n++
		good := false
		var child ast.Node = call
		for p := c.Parent(call); p != nil && p != ast.Node(fd); child, p = p, c.Parent(p) {
			ifs, ok := p.(*ast.IfStmt)
			if !ok {
				continue
			}
			if ifs == recvIf && ifs.Else != nil && child == ast.Node(ifs.Else) {
				good = true
			}
			if ifs.Body == child {
				for _, cj := range conjuncts(ifs.Cond) {
					if be, ok := unparen(cj).(*ast.BinaryExpr); ok && be.Op == token.EQL && isIdent(be.Y, "nil") {
						if id, ok := unparen(be.X).(*ast.Ident); ok && recvVars[c.Obj(id)] {
							good = true
						}
					}
				}
			}
		}
		r.check(good, "init is a plain function", c.Pos(call), "the init node is made only where no receiver was parsed",
			"funcNud makes a package initialiser of every declaration named init, methods included: `func (g *Game) init()` is run (without a receiver) while the package loads — the load fails with CALL: incorrect args — and the method is never registered on its type")
		return true
	})
	if n == 0 {
		r.undecided("init node", c.Pos(fd), "funcNud does not make an init node")
	}
}

// POS-LAYOUT: a position is packed by newPos and unpacked by pos.info and by pos.line (the
// shortcut the optimiser uses to keep a selector and its call on different lines apart).
// The three agree on the layout: evaluated on constants, for sample (line, column) pairs and
// sample name indexes, info(newPos(..)) gives back every component and line(newPos(..)) the
// line.  (Values beyond the field widths are a stated limit of the format, not sampled.)
func rulePosLayout(c *Ctx, r *R) {
	np, info, line := c.Func("newPos"), c.Func("pos.info"), c.Func("pos.line")
	if np == nil || info == nil || line == nil {
		r.undecided("layout", "-", "newPos / pos.info / pos.line not found")
		return
	}
	// evalSeq: run the top-level assignments of fd under env; an integer local whose
	// initialiser is not constant (l.Index(..)) takes the sample given for its name
	evalSeq := func(fd *ast.FuncDecl, env map[types.Object]constant.Value, samples map[string]int64) (ret constant.Value, ok bool) {
		old := evalEnv
		evalEnv = env
		defer func() { evalEnv = old }()
		for _, st := range fd.Body.List {
			switch x := st.(type) {
			case *ast.AssignStmt:
				if len(x.Lhs) != len(x.Rhs) {
					return nil, false
				}
				for i, l := range x.Lhs {
					id, isId := l.(*ast.Ident)
					if !isId {
						return nil, false
					}
					o := c.Info.Defs[id]
					if o == nil {
						o = c.Info.Uses[id]
					}
					if v, ok := c.evalWith(x.Rhs[i], nil, nil); ok {
						env[o] = v
					} else if s, has := samples[id.Name]; has {
						env[o] = constant.MakeInt64(s)
					} else if b, isB := o.Type().Underlying().(*types.Basic); isB && b.Info()&types.IsString != 0 {
						env[o] = constant.MakeString("?")
					} else {
						return nil, false
					}
				}
			case *ast.ReturnStmt:
				if len(x.Results) == 1 {
					v, ok := c.evalWith(x.Results[0], nil, nil)
					return v, ok
				}
				return nil, true
			default:
				return nil, false
			}
		}
		return nil, true
	}
	params := func(fd *ast.FuncDecl) map[string]types.Object {
		out := map[string]types.Object{}
		if fd.Recv != nil {
			for _, f := range fd.Recv.List {
				for _, nm := range f.Names {
					out[nm.Name] = c.Info.Defs[nm]
				}
			}
		}
		for _, f := range fd.Type.Params.List {
			for _, nm := range f.Names {
				out[nm.Name] = c.Info.Defs[nm]
			}
		}
		if fd.Type.Results != nil {
			for _, f := range fd.Type.Results.List {
				for _, nm := range f.Names {
					out[nm.Name] = c.Info.Defs[nm]
				}
			}
		}
		return out
	}
	npP, infoP, lineP := params(np), params(info), params(line)
	samples := [][2]int64{{1, 1}, {14, 3}, {15, 200}, {16, 1}, {300, 7}, {4097, 1}, {65535, 65535}}
	for _, s := range samples {
		key := fmt.Sprintf("line %d col %d", s[0], s[1])
		env := map[types.Object]constant.Value{}
		if npP["line"] == nil || npP["column"] == nil {
			r.undecided(key, c.Pos(np), "newPos has no line / column parameters")
			return
		}
		env[npP["line"]] = constant.MakeInt64(s[0])
		env[npP["column"]] = constant.MakeInt64(s[1])
		packed, ok := evalSeq(np, env, map[string]int64{"fileNameIdx": 7, "funcNameIdx": 9})
		if !ok || packed == nil {
			r.undecided(key, c.Pos(np), "cannot evaluate newPos on constants")
			return
		}
		// pos.line
		var recvName string
		for n := range lineP {
			recvName = n
		}
		lv, ok := evalSeq(line, map[types.Object]constant.Value{lineP[recvName]: packed}, nil)
		if !ok || lv == nil {
			r.undecided(key, c.Pos(line), "cannot evaluate pos.line on constants")
			return
		}
		good := constant.Compare(lv, token.EQL, constant.MakeInt64(s[0]))
		// pos.info
		ienv := map[types.Object]constant.Value{}
		for n, o := range infoP {
			if n != "l" && n != "fileName" && n != "funcName" && n != "line" && n != "column" {
				ienv[o] = packed
			}
		}
		if _, ok := evalSeq(info, ienv, nil); !ok {
			r.undecided(key, c.Pos(info), "cannot evaluate pos.info on constants")
			return
		}
		infoOK := infoP["line"] != nil && infoP["column"] != nil && ienv[infoP["line"]] != nil && ienv[infoP["column"]] != nil &&
			constant.Compare(ienv[infoP["line"]], token.EQL, constant.MakeInt64(s[0])) && constant.Compare(ienv[infoP["column"]], token.EQL, constant.MakeInt64(s[1]))
		r.check(good && infoOK, key, c.Pos(line), "info and line read back what newPos packed",
			fmt.Sprintf("newPos, pos.info and pos.line disagree on the layout of a position: for line %d column %d pos.line() gives %v and info gives line %v column %v — the optimiser's \"selector and call on the same line\" guard compares pos.line(), so `c.` newline `Close()` is folded into one instruction again and a nil receiver is reported on the line of the `(` with the optimiser on, the line of the `.` with it off", s[0], s[1], lv, ienv[infoP["line"]], ienv[infoP["column"]]))
	}
	// a component wider than its field does not spill into its neighbour (every component is
	// masked when it is packed): a column beyond the field leaves the line alone
	{
		env := map[types.Object]constant.Value{npP["line"]: constant.MakeInt64(5), npP["column"]: constant.MakeInt64(1<<20 + 3)}
		if packed, ok := evalSeq(np, env, map[string]int64{"fileNameIdx": 7, "funcNameIdx": 9}); ok && packed != nil {
			var recvName string
			for n := range lineP {
				recvName = n
			}
			if lv, ok := evalSeq(line, map[types.Object]constant.Value{lineP[recvName]: packed}, nil); ok && lv != nil {
				r.check(constant.Compare(lv, token.EQL, constant.MakeInt64(5)), "no spill from the column", c.Pos(np), "an over-wide column is cut, the line is untouched",
					"newPos does not mask the column to its field: a failing operation far to the right on a very long line (column beyond the field) spills into the line bits and is reported on another line")
			}
		}
	}
}

// POS-SOURCE: line and column numbers are those of the text the host handed over: the
// tokenizer's scanner reads that text unchanged.  Trimming or otherwise rewriting the input
// ahead of the scanner (strings.TrimSpace drops leading line breaks) shifts every reported
// line.  Decided on tokenize: the reader given to Scanner.Init is built directly from the
// function's text parameter.
func rulePosSource(c *Ctx, r *R) {
	fd := c.Func("tokenize")
	if fd == nil {
		r.undecided("tokenize", "-", "not found")
		return
	}
	strParams := map[types.Object]bool{}
	for _, f := range fd.Type.Params.List {
		for _, nm := range f.Names {
			if b, ok := c.Info.Defs[nm].Type().Underlying().(*types.Basic); ok && b.Info()&types.IsString != 0 {
				strParams[c.Info.Defs[nm]] = true
			}
		}
	}
	n := 0
	for _, h := range c.withHelpers(fd) {
		ast.Inspect(h.Body, func(m ast.Node) bool {
			call, ok := m.(*ast.CallExpr)
			if !ok || !strings.HasSuffix(c.CalleeName(call), "Scanner.Init") || len(call.Args) != 1 {
				return true
			}
			n++
			good := false
			readerExpr := unparen(call.Args[0])
			if rid, ok := readerExpr.(*ast.Ident); ok {
				// the reader held in a local: src := strings.NewReader(in); s.Init(src)
				if def := c.singleDef(rid); def != nil {
					readerExpr = unparen(def)
				}
			}
			if rd, ok := readerExpr.(*ast.CallExpr); ok && len(rd.Args) == 1 && (strings.HasSuffix(c.CalleeName(rd), "strings.NewReader") || strings.HasSuffix(c.CalleeName(rd), "bytes.NewBufferString")) {
				arg := unparen(rd.Args[0])
				if id, ok := arg.(*ast.Ident); ok {
					if strParams[c.Obj(id)] && h == fd {
						good = true
					} else if def := c.singleDef(id); def != nil {
						if did, ok := unparen(def).(*ast.Ident); ok && strParams[c.Obj(did)] {
							good = true
						}
					} else if h != fd {
						// a helper that is handed the text: its own string parameter
						if v, ok := c.Obj(id).(*types.Var); ok && isParamOrRecv(c, h, v) {
							good = true
						}
					}
				}
			}
			r.check(good, "scanner reads the text unchanged", c.Pos(call), "Scanner.Init gets a reader over the input parameter itself",
				"tokenize hands the scanner a rewritten copy of the source text ("+c.Src(call.Args[0])+"): positions are counted in that copy — after strings.TrimSpace every leading line break is gone and the failing line and every backtrace line of a script that starts with blank lines (a Go raw string opening with a newline) come out too low")
			return true
		})
	}
	if n == 0 {
		r.undecided("scanner", c.Pos(fd), "no Scanner.Init call found in tokenize")
	}
}
