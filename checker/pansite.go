package main

// Enumeration of explicit may-panic constructs in the unguarded region U and in
// the recover handlers H, with local discharge recognisers and a frozen
// triage table for the rest.

import (
	"encoding/json"
	"fmt"
	"go/ast"
	"go/token"
	"go/types"
	"os"
	"path/filepath"
	"sort"
	"strings"
)

type panSite struct {
	Fn     string
	Region string // U or H
	Kind   string
	Node   ast.Node
	Src    string
	Pos    string
	Why    string // discharge reason ("" = not discharged)
}

func (s *panSite) Key() string { return s.Fn + "|" + s.Kind + "|" + nosp(s.Src) }

type triageEntry struct {
	Key     string `json:"key"`
	Verdict string `json:"verdict"` // safe
	Reason  string `json:"reason"`
	Premise string `json:"premise,omitempty"`
}

func loadTriage(name string) (map[string]triageEntry, error) {
	out := map[string]triageEntry{}
	b, err := os.ReadFile(filepath.Join(triageDir, name))
	if err != nil {
		if os.IsNotExist(err) {
			return out, nil
		}
		return nil, err
	}
	var list []triageEntry
	if err := json.Unmarshal(b, &list); err != nil {
		return nil, fmt.Errorf("%s: %w", name, err)
	}
	for _, e := range list {
		out[e.Key] = e
	}
	return out, nil
}

// noReturnFuncs: in-package functions all of whose paths end in panic.
func (c *Ctx) noReturnFuncs() map[types.Object]bool {
	out := map[types.Object]bool{}
	for _, name := range []string{"panicf", "nullNud", "nullLed"} {
		if fd := c.Func(name); fd != nil {
			// confirm: body's first statement is a call to panic or to panicf
			if len(fd.Body.List) > 0 {
				if es, ok := fd.Body.List[0].(*ast.ExprStmt); ok {
					if call, ok := es.X.(*ast.CallExpr); ok {
						cn := c.CalleeName(call)
						if cn == "builtin.panic" || cn == "panicf" {
							out[c.Info.Defs[fd.Name]] = true
						}
					}
				}
			}
		}
	}
	return out
}

func (c *Ctx) enumSites(fnName, region string, body ast.Node, cut token.Pos) []*panSite {
	var out []*panSite
	add := func(kind string, n ast.Node, src string) {
		out = append(out, &panSite{Fn: fnName, Region: region, Kind: kind, Node: n, Src: src, Pos: c.Pos(n)})
	}
	noret := c.noReturnFuncs()
	okAssert := map[*ast.TypeAssertExpr]bool{}
	ast.Inspect(body, func(n ast.Node) bool {
		switch x := n.(type) {
		case *ast.AssignStmt:
			if len(x.Lhs) == 2 && len(x.Rhs) == 1 {
				if ta, ok := unparen(x.Rhs[0]).(*ast.TypeAssertExpr); ok {
					okAssert[ta] = true
				}
			}
		case *ast.ValueSpec:
			if len(x.Names) == 2 && len(x.Values) == 1 {
				if ta, ok := unparen(x.Values[0]).(*ast.TypeAssertExpr); ok {
					okAssert[ta] = true
				}
			}
		case *ast.TypeSwitchStmt:
			ast.Inspect(x.Assign, func(m ast.Node) bool {
				if ta, ok := m.(*ast.TypeAssertExpr); ok {
					okAssert[ta] = true
				}
				return true
			})
		}
		return true
	})
	var walk func(n ast.Node) bool
	walk = func(n ast.Node) bool {
		if n == nil {
			return true
		}
		if fl, ok := n.(*ast.FuncLit); ok && n != body {
			_ = fl
			return false
		}
		if cut.IsValid() && n.Pos() >= cut {
			return false
		}
		switch x := n.(type) {
		case *ast.IndexExpr:
			t := c.TypeOf(x.X)
			if t == nil {
				return true
			}
			switch u := t.Underlying().(type) {
			case *types.Slice, *types.Array:
				add("index", x, c.Src(x))
			case *types.Basic:
				if u.Info()&types.IsString != 0 {
					add("index", x, c.Src(x))
				}
			case *types.Pointer:
				if _, ok := u.Elem().Underlying().(*types.Array); ok {
					add("index", x, c.Src(x))
				}
			case *types.Map:
				// deref of a pointer obtained by a map lookup
				if _, isPtr := u.Elem().Underlying().(*types.Pointer); isPtr {
					if sel, ok := c.Parent(x).(*ast.SelectorExpr); ok && sel.X == ast.Expr(x) {
						add("deref-maplookup", sel, c.Src(sel))
					}
				}
			}
		case *ast.SliceExpr:
			add("slice", x, c.Src(x))
		case *ast.TypeAssertExpr:
			if !okAssert[x] && x.Type != nil {
				add("assert", x, c.Src(x))
			}
		case *ast.CallExpr:
			o := c.Callee(x)
			name := objName(o)
			switch {
			case name == "builtin.panic":
				add("panic", x, c.Src(x))
			case o != nil && noret[o]:
				add("panic", x, c.Src(x))
			case name == "builtin.make":
				if len(x.Args) >= 2 {
					if _, isConst := c.ConstOf(x.Args[1]); !isConst && !isLenDerived(c, x.Args[1]) {
						add("make-size", x, c.Src(x))
					}
				}
			case strings.HasSuffix(name, "slices.Delete") || strings.HasSuffix(name, "slices.Insert"):
				add("lib-precondition", x, c.Src(x))
			case name == "strings.Repeat":
				if _, isConst := c.ConstOf(x.Args[1]); !isConst {
					add("lib-precondition", x, c.Src(x))
				}
			}
		case *ast.BinaryExpr:
			if (x.Op == token.QUO || x.Op == token.REM) && isIntegerType(c.TypeOf(x)) {
				if _, isConst := c.ConstOf(x.Y); !isConst {
					add("div", x, c.Src(x))
				}
			}
		case *ast.AssignStmt:
			for _, l := range x.Lhs {
				if ix, ok := unparen(l).(*ast.IndexExpr); ok {
					if _, isMap := c.TypeOf(ix.X).Underlying().(*types.Map); isMap {
						if !c.freshMap(ix.X, body) {
							add("nilmap-write", l, c.Src(l))
						}
					}
				}
			}
		case *ast.SelectorExpr:
			// pointer obtained from a map lookup / may-return-nil call and dereferenced
			if id, ok := unparen(x.X).(*ast.Ident); ok {
				if v, ok := c.Obj(id).(*types.Var); ok && !v.IsField() {
					if _, isPtr := v.Type().Underlying().(*types.Pointer); isPtr && c.Info.Selections[x] != nil {
						if how := c.nilOrigin(v, body); how != "" {
							add("deref-"+how, x, c.Src(x))
						}
					}
				}
			}
			// in handlers: dereference through a pointer-typed struct field
			if region == "H" {
				if inner, ok := unparen(x.X).(*ast.SelectorExpr); ok {
					if s := c.Info.Selections[inner]; s != nil && s.Kind() == types.FieldVal {
						if _, isPtr := s.Type().Underlying().(*types.Pointer); isPtr {
							add("deref-field", x, c.Src(x))
						}
					}
				}
			}
		}
		return true
	}
	ast.Inspect(body, walk)
	return out
}

func isLenDerived(c *Ctx, e ast.Expr) bool {
	ok := true
	hasLen := false
	ast.Inspect(e, func(n ast.Node) bool {
		switch x := n.(type) {
		case *ast.CallExpr:
			if c.CalleeName(x) == "builtin.len" {
				hasLen = true
				return false
			}
			ok = false
		case *ast.Ident:
			if _, isConst := c.ConstOf(x); !isConst {
				if _, isVar := c.Obj(x).(*types.Var); isVar {
					ok = false
				}
			}
		case *ast.BinaryExpr:
			if x.Op == token.SUB {
				ok = false
			}
		}
		return true
	})
	return ok && hasLen
}

// freshMap: the map expression is a local variable initialised in this body by make or a literal.
func (c *Ctx) freshMap(e ast.Expr, body ast.Node) bool {
	id, ok := unparen(e).(*ast.Ident)
	if !ok {
		return false
	}
	o := c.Obj(id)
	fresh := false
	ast.Inspect(body, func(n ast.Node) bool {
		if as, ok := n.(*ast.AssignStmt); ok {
			for i, l := range as.Lhs {
				if lid, ok := l.(*ast.Ident); ok && c.Info.Defs[lid] == o && i < len(as.Rhs) {
					switch r := unparen(as.Rhs[i]).(type) {
					case *ast.CompositeLit:
						fresh = true
					case *ast.CallExpr:
						if c.CalleeName(r) == "builtin.make" {
							fresh = true
						}
					}
				}
			}
		}
		return true
	})
	return fresh
}

// nilOrigin: the local pointer variable may be nil because it comes from a map
// lookup ("maplookup") or from an in-package call that can return nil ("mayreturnnil").
func (c *Ctx) nilOrigin(v *types.Var, body ast.Node) string {
	how := ""
	ast.Inspect(body, func(n ast.Node) bool {
		as, ok := n.(*ast.AssignStmt)
		if !ok {
			return true
		}
		for i, l := range as.Lhs {
			lid, ok := l.(*ast.Ident)
			if !ok || (c.Info.Defs[lid] != types.Object(v) && c.Info.Uses[lid] != types.Object(v)) {
				continue
			}
			var rhs ast.Expr
			if len(as.Rhs) == len(as.Lhs) {
				rhs = as.Rhs[i]
			} else if len(as.Rhs) == 1 {
				rhs = as.Rhs[0]
			}
			switch r := unparen(rhs).(type) {
			case *ast.IndexExpr:
				if _, isMap := c.TypeOf(r.X).Underlying().(*types.Map); isMap && len(as.Lhs) == 1 {
					how = "maplookup"
				}
			}
		}
		return true
	})
	return how
}

// ---- discharge recognisers ----

func terminating(b *ast.BlockStmt) bool {
	if b == nil || len(b.List) == 0 {
		return false
	}
	switch s := b.List[len(b.List)-1].(type) {
	case *ast.ReturnStmt:
		return true
	case *ast.BranchStmt:
		return s.Tok == token.CONTINUE || s.Tok == token.BREAK
	case *ast.ExprStmt:
		if call, ok := s.X.(*ast.CallExpr); ok {
			if id, ok := call.Fun.(*ast.Ident); ok && (id.Name == "panic" || id.Name == "panicf") {
				return true
			}
		}
	}
	return false
}

// lenBound parses `len(B) OP k` (or reversed) and returns the implied lower
// bound on len(B) when the comparison is TRUE and when it is FALSE (-1 = nothing).
func (c *Ctx) lenBound(e ast.Expr, base string) (whenTrue, whenFalse int64) {
	whenTrue, whenFalse = -1, -1
	be, ok := unparen(e).(*ast.BinaryExpr)
	if !ok {
		return
	}
	isLen := func(x ast.Expr) bool {
		call, ok := unparen(x).(*ast.CallExpr)
		return ok && c.CalleeName(call) == "builtin.len" && len(call.Args) == 1 && nosp(c.Src(call.Args[0])) == base
	}
	op := be.Op
	var k int64
	switch {
	case isLen(be.X):
		v, ok := c.ConstInt(be.Y)
		if !ok {
			return
		}
		k = v
	case isLen(be.Y):
		v, ok := c.ConstInt(be.X)
		if !ok {
			return
		}
		k = v
		switch op {
		case token.LSS:
			op = token.GTR
		case token.GTR:
			op = token.LSS
		case token.LEQ:
			op = token.GEQ
		case token.GEQ:
			op = token.LEQ
		}
	default:
		return
	}
	switch op {
	case token.GTR: // len > k
		whenTrue = k + 1
	case token.GEQ:
		whenTrue = k
	case token.LSS: // len < k  false => len >= k
		whenFalse = k
	case token.LEQ:
		whenFalse = k + 1
	case token.EQL:
		whenTrue = k
		if k == 0 {
			whenFalse = 1
		}
	case token.NEQ:
		whenFalse = k
		if k == 0 {
			whenTrue = 1
		}
	}
	return
}

// conjuncts splits a && b && c.
func conjuncts(e ast.Expr) []ast.Expr {
	if be, ok := unparen(e).(*ast.BinaryExpr); ok && be.Op == token.LAND {
		return append(conjuncts(be.X), conjuncts(be.Y)...)
	}
	return []ast.Expr{e}
}

// minLenAt: the least length of base guaranteed at node n by enclosing/preceding guards.
func (c *Ctx) minLenAt(n ast.Node, base string, stop ast.Node) int64 {
	best := int64(0)
	upd := func(v int64) {
		if v > best {
			best = v
		}
	}
	child := n
	for p := c.Parent(n); p != nil; child, p = p, c.Parent(p) {
		switch x := p.(type) {
		case *ast.BinaryExpr:
			// short circuit: in `a && b` the operand b is evaluated only when a held,
			// in `a || b` only when a did not
			if x.Y == child {
				switch x.Op {
				case token.LAND:
					for _, cj := range conjuncts(x.X) {
						t, _ := c.lenBound(cj, base)
						upd(t)
					}
				case token.LOR:
					if len(conjuncts(x.X)) == 1 {
						_, f := c.lenBound(x.X, base)
						upd(f)
					}
				}
			}
		case *ast.IfStmt:
			if x.Body == child {
				for _, cj := range conjuncts(x.Cond) {
					t, _ := c.lenBound(cj, base)
					upd(t)
				}
			} else if x.Else == child {
				if len(conjuncts(x.Cond)) == 1 {
					_, f := c.lenBound(x.Cond, base)
					upd(f)
				}
			}
		case *ast.ForStmt:
			if x.Post == child && x.Cond != nil && !c.assignedBefore(x.Body, base, x.Post) {
				// the post statement runs after an iteration whose condition held and whose body left the operand alone
				for _, cj := range conjuncts(x.Cond) {
					t, _ := c.lenBound(cj, base)
					upd(t)
				}
			}
			if x.Body == child && x.Cond != nil && !c.assignedBefore(x.Body, base, n) {
				for _, cj := range conjuncts(x.Cond) {
					t, _ := c.lenBound(cj, base)
					upd(t)
				}
			}
		case *ast.BlockStmt:
			// preceding siblings: if len(B) <bad> { terminating }
			for _, s := range x.List {
				if s == child || s.Pos() >= child.Pos() {
					break
				}
				// a preceding statement that indexed base[k] unconditionally succeeded, so len(base) > k
				if !c.assignedBefore(x, base, n) {
					switch s.(type) {
					case *ast.AssignStmt, *ast.ExprStmt, *ast.DeclStmt:
						ast.Inspect(s, func(q ast.Node) bool {
							switch y := q.(type) {
							case *ast.FuncLit, *ast.IfStmt, *ast.ForStmt, *ast.RangeStmt, *ast.SwitchStmt:
								return false
							case *ast.BinaryExpr:
								if y.Op == token.LAND || y.Op == token.LOR {
									return false // short-circuit operands are conditional
								}
							case *ast.IndexExpr:
								if nosp(c.Src(y.X)) == nosp(base) {
									if k, ok := c.ConstInt(y.Index); ok && k >= 0 {
										upd(k + 1)
									}
								}
							}
							return true
						})
					}
				}
				if ifs, ok := s.(*ast.IfStmt); ok && ifs.Else == nil && terminating(ifs.Body) {
					// past `if a || b { return }` neither a nor b held
					for _, dj := range disjuncts(ifs.Cond) {
						if len(conjuncts(dj)) == 1 {
							_, f := c.lenBound(dj, base)
							upd(f)
						}
					}
				}
			}
		case *ast.CaseClause:
			for _, s := range x.Body {
				if s == child || s.Pos() >= child.Pos() {
					break
				}
				if ifs, ok := s.(*ast.IfStmt); ok && ifs.Else == nil && terminating(ifs.Body) && len(conjuncts(ifs.Cond)) == 1 {
					_, f := c.lenBound(ifs.Cond, base)
					upd(f)
				}
			}
		}
		if p == stop {
			break
		}
	}
	return best
}

// assignedBefore: base is assigned inside body at a position before n.
func (c *Ctx) assignedBefore(body ast.Node, base string, n ast.Node) bool {
	found := false
	ast.Inspect(body, func(m ast.Node) bool {
		if as, ok := m.(*ast.AssignStmt); ok && as.End() <= n.Pos() {
			for _, l := range as.Lhs {
				if nosp(c.Src(l)) == base {
					found = true
				}
			}
		}
		return true
	})
	return found
}

func (c *Ctx) dischargeIndex(s *panSite, fnBody ast.Node) string {
	var base, idx ast.Expr
	var lo, hi ast.Expr
	isSlice := false
	switch x := s.Node.(type) {
	case *ast.IndexExpr:
		base, idx = x.X, x.Index
	case *ast.SliceExpr:
		base, lo, hi = x.X, x.Low, x.High
		isSlice = true
		if x.Max != nil {
			return ""
		}
	default:
		return ""
	}
	bsrc := nosp(c.Src(base))
	if !isSlice {
		// strings.Split(...)[0]
		if call, ok := unparen(base).(*ast.CallExpr); ok && c.CalleeName(call) == "strings.Split" {
			if k, ok := c.ConstInt(idx); ok && k == 0 {
				if sep, ok := c.ConstString(call.Args[1]); ok && sep != "" {
					return "strings.Split with a non-empty separator returns at least one element"
				}
			}
		}
		// range key over the same operand
		if id, ok := unparen(idx).(*ast.Ident); ok {
			o := c.Obj(id)
			for p := c.Parent(s.Node); p != nil; p = c.Parent(p) {
				switch r := p.(type) {
				case *ast.RangeStmt:
					if kid, ok := r.Key.(*ast.Ident); ok && c.Info.Defs[kid] == o && nosp(c.Src(r.X)) == bsrc {
						return "index is the key of the enclosing range over the same operand"
					}
				case *ast.ForStmt:
					if why := c.countedLoopBound(r, o, bsrc); why != "" {
						return why
					}
				case *ast.FuncLit:
					// parameters of a sort comparator index the sorted slice
					if call, ok := c.Parent(r).(*ast.CallExpr); ok {
						cn := c.CalleeName(call)
						if (strings.HasPrefix(cn, "sort.Slice") || strings.Contains(cn, "slices.Sort")) && len(call.Args) >= 1 && nosp(c.Src(call.Args[0])) == bsrc {
							for _, f := range r.Type.Params.List {
								for _, nm := range f.Names {
									if c.Info.Defs[nm] == o {
										return "index is a parameter of the comparator of a sort over the same slice"
									}
								}
							}
						}
					}
				}
			}
		}
		// index returned by slices.Index/IndexFunc over the same slice, after `if idx < 0 { return }`
		if id, ok := unparen(idx).(*ast.Ident); ok {
			if why := c.foundIndex(s.Node, id, bsrc, fnBody); why != "" {
				return why
			}
		}
		// variable index under `0 <= i && i < len(B)`
		if id, ok := unparen(idx).(*ast.Ident); ok {
			if why := c.boundedByGuard(s.Node, id, bsrc, fnBody); why != "" {
				return why
			}
		}
		// variable index after a terminating `if i < 0 || i >= len(B) { return }`
		if id, ok := unparen(idx).(*ast.Ident); ok {
			if why := c.rangeCheckedBefore(s.Node, id, bsrc, fnBody); why != "" {
				return why
			}
		}
		// variable index clamped from above and rejected below: `if i >= len(B) { i = len(B)-1 }`
		// and a terminating `if i < 0 {..}` ahead of the site
		if id, ok := unparen(idx).(*ast.Ident); ok {
			if why := c.clampedIndex(s.Node, id, bsrc); why != "" {
				return why
			}
		}
		// constant index under a length guard
		if k, ok := c.ConstInt(idx); ok && k >= 0 {
			if c.minLenAt(s.Node, bsrc, fnBody) >= k+1 {
				return fmt.Sprintf("constant index %d under a guard that implies len >= %d", k, k+1)
			}
		}
		// x[len(x)-1]
		if k, ok := c.lenMinus(idx, bsrc); ok && k >= 1 {
			if c.minLenAt(s.Node, bsrc, fnBody) >= k {
				return fmt.Sprintf("index len-%d under a guard that implies len >= %d", k, k)
			}
		}
		return ""
	}
	// slice expression B[lo:hi]
	need := int64(0)
	okLo, okHi := true, true
	if lo != nil {
		if k, ok := c.ConstInt(lo); ok && k >= 0 {
			if k > need {
				need = k
			}
		} else {
			okLo = false
		}
	}
	if hi != nil {
		if k, ok := c.ConstInt(hi); ok && k >= 0 {
			// B[lo:k] with constants needs len >= k (and lo <= k); B[:0] needs nothing
			lk := int64(0)
			if lo != nil {
				lk, _ = c.ConstInt(lo)
			}
			if lk > k {
				okHi = false
			}
			if k > need {
				need = k
			}
		} else if k, ok := c.lenMinus(hi, bsrc); ok && k >= 0 {
			// hi = len-k needs len >= k and lo <= len-k
			lk := int64(0)
			if lo != nil {
				lk, _ = c.ConstInt(lo)
			}
			if k+lk > need {
				need = k + lk
			}
		} else {
			okHi = false
		}
	}
	if okLo && okHi && c.minLenAt(s.Node, bsrc, fnBody) >= need {
		return fmt.Sprintf("slice bounds need len >= %d, implied by the enclosing guard", need)
	}
	return ""
}

// lenMinus: e == len(base) - k ?
func (c *Ctx) lenMinus(e ast.Expr, base string) (int64, bool) {
	be, ok := unparen(e).(*ast.BinaryExpr)
	if !ok || be.Op != token.SUB {
		if call, ok := unparen(e).(*ast.CallExpr); ok && c.CalleeName(call) == "builtin.len" && nosp(c.Src(call.Args[0])) == base {
			return 0, true
		}
		return 0, false
	}
	call, ok := unparen(be.X).(*ast.CallExpr)
	if !ok || c.CalleeName(call) != "builtin.len" || nosp(c.Src(call.Args[0])) != base {
		return 0, false
	}
	k, ok := c.ConstInt(be.Y)
	return k, ok
}

// countedLoopBound: for i := a; i < len(B)[-k]; i += s { ... B[i] ... }
func (c *Ctx) countedLoopBound(f *ast.ForStmt, idx types.Object, base string) string {
	if f.Cond == nil || f.Init == nil || f.Post == nil {
		return ""
	}
	init, ok := f.Init.(*ast.AssignStmt)
	if !ok || len(init.Lhs) != 1 {
		return ""
	}
	id, ok := init.Lhs[0].(*ast.Ident)
	if !ok || c.Info.Defs[id] != idx {
		return ""
	}
	be0, _ := unparen(f.Cond).(*ast.BinaryExpr)
	if a, ok := c.ConstInt(init.Rhs[0]); (!ok || a < 0) && !(be0 != nil && be0.Op == token.GEQ) {
		return ""
	}
	be, ok := unparen(f.Cond).(*ast.BinaryExpr)
	if !ok {
		return ""
	}
	if be.Op == token.GEQ {
		// for i := len(B)-1; i >= 0; i--
		if k, ok := c.lenMinus(init.Rhs[0], base); ok && k >= 1 {
			if cid, ok := unparen(be.X).(*ast.Ident); ok && c.Obj(cid) == idx {
				if z, ok := c.ConstInt(be.Y); ok && z == 0 {
					if p, ok := f.Post.(*ast.IncDecStmt); ok && p.Tok == token.DEC {
						return "index is the variable of a descending counted loop from len-1 to 0 over the same operand"
					}
				}
			}
		}
		return ""
	}
	if be.Op != token.LSS {
		return ""
	}
	if cid, ok := unparen(be.X).(*ast.Ident); !ok || c.Obj(cid) != idx {
		return ""
	}
	if k, ok := c.lenMinus(be.Y, base); !ok || k < 0 {
		return ""
	}
	// the index only grows
	grows := false
	switch p := f.Post.(type) {
	case *ast.IncDecStmt:
		grows = p.Tok == token.INC
	case *ast.AssignStmt:
		if p.Tok == token.ADD_ASSIGN {
			if k, ok := c.ConstInt(p.Rhs[0]); ok && k > 0 {
				grows = true
			}
		}
	}
	if !grows {
		return ""
	}
	return "index is the variable of a counted loop bounded by len of the same operand"
}

func sortSites(s []*panSite) {
	sort.Slice(s, func(i, j int) bool { return s[i].Key() < s[j].Key() })
}

// dischargeNilChecked: the dereferenced pointer expression is tested against nil
// on the way to the site (enclosing `if X != nil`, or a preceding `if X == nil { return }`).
func (c *Ctx) dischargeNilChecked(s *panSite, fnBody ast.Node) string {
	sel, ok := s.Node.(*ast.SelectorExpr)
	if !ok {
		return ""
	}
	ptr := nosp(c.Src(sel.X))
	isNilTest := func(e ast.Expr, op token.Token) bool {
		be, ok := unparen(e).(*ast.BinaryExpr)
		if !ok || be.Op != op {
			return false
		}
		return nosp(c.Src(be.X)) == ptr && isIdent(be.Y, "nil") || nosp(c.Src(be.Y)) == ptr && isIdent(be.X, "nil")
	}
	var child ast.Node = s.Node
	for p := c.Parent(s.Node); p != nil; child, p = p, c.Parent(p) {
		switch x := p.(type) {
		case *ast.IfStmt:
			if x.Body == child {
				for _, cj := range conjuncts(x.Cond) {
					if isNilTest(cj, token.NEQ) {
						return "dereference is inside `if " + ptr + " != nil`"
					}
				}
			}
			if x.Else == child && isNilTest(x.Cond, token.EQL) {
				return "dereference is in the else branch of `if " + ptr + " == nil`"
			}
		case *ast.BlockStmt:
			for _, st := range x.List {
				if st == child || st.Pos() >= child.Pos() {
					break
				}
				if ifs, ok := st.(*ast.IfStmt); ok && ifs.Else == nil && terminating(ifs.Body) && isNilTest(ifs.Cond, token.EQL) {
					return "preceded by `if " + ptr + " == nil { return }`"
				}
			}
		}
		if p == fnBody {
			break
		}
	}
	return ""
}

// boundedByGuard: an enclosing `if` whose conjuncts include both `i >= 0` (or 0 <= i)
// and `i < len(B)`, with neither i nor B assigned between the test and the use.
func (c *Ctx) boundedByGuard(n ast.Node, id *ast.Ident, base string, stop ast.Node) string {
	o := c.Obj(id)
	var child ast.Node = n
	for p := c.Parent(n); p != nil; child, p = p, c.Parent(p) {
		if ifs, ok := p.(*ast.IfStmt); ok && ifs.Body == child {
			lower, upper := false, false
			for _, cj := range conjuncts(ifs.Cond) {
				be, ok := unparen(cj).(*ast.BinaryExpr)
				if !ok {
					continue
				}
				isI := func(e ast.Expr) bool { x, ok := unparen(e).(*ast.Ident); return ok && c.Obj(x) == o }
				if isI(be.X) && be.Op == token.GEQ {
					if z, ok := c.ConstInt(be.Y); ok && z == 0 {
						lower = true
					}
				}
				if isI(be.Y) && be.Op == token.LEQ {
					if z, ok := c.ConstInt(be.X); ok && z == 0 {
						lower = true
					}
				}
				if isI(be.X) && be.Op == token.LSS {
					if k, ok := c.lenMinus(be.Y, base); ok && k >= 0 {
						upper = true
					}
				}
			}
			if !lower && upper && c.nonNegCounter(o, n) {
				lower = true
			}
			if lower && upper && !c.assignedBefore(ifs.Body, id.Name, n) && !c.assignedBefore(ifs.Body, base, n) {
				return "index is tested `0 <= i && i < len(operand)` by the enclosing if"
			}
		}
		if p == stop {
			break
		}
	}
	return ""
}

// foundIndex: id := slices.Index/IndexFunc(B, ..) and a preceding terminating `if id < 0` in the same block.
func (c *Ctx) foundIndex(n ast.Node, id *ast.Ident, base string, stop ast.Node) string {
	o := c.Obj(id)
	var child ast.Node = n
	for p := c.Parent(n); p != nil; child, p = p, c.Parent(p) {
		var list []ast.Stmt
		switch x := p.(type) {
		case *ast.BlockStmt:
			list = x.List
		case *ast.CaseClause:
			list = x.Body
		}
		def, guard := false, false
		for _, st := range list {
			if st == child || st.Pos() >= child.Pos() {
				break
			}
			if as, ok := st.(*ast.AssignStmt); ok && len(as.Lhs) == 1 && len(as.Rhs) == 1 {
				if lid, ok := as.Lhs[0].(*ast.Ident); ok && c.Obj(lid) == o {
					def = false
					if call, ok := unparen(as.Rhs[0]).(*ast.CallExpr); ok {
						cn := c.CalleeName(call)
						if (strings.HasSuffix(cn, "slices.Index") || strings.HasSuffix(cn, "slices.IndexFunc")) && len(call.Args) == 2 && nosp(c.Src(call.Args[0])) == base {
							def = true
						}
					}
					guard = false
				}
				if nosp(c.Src(as.Lhs[0])) == base {
					def, guard = false, false // the slice changed
				}
			}
			if ifs, ok := st.(*ast.IfStmt); ok && def && ifs.Else == nil && terminating(ifs.Body) {
				if be, ok := unparen(ifs.Cond).(*ast.BinaryExpr); ok {
					if xid, ok := unparen(be.X).(*ast.Ident); ok && c.Obj(xid) == o {
						if k, ok := c.ConstInt(be.Y); ok && (be.Op == token.LSS && k == 0 || be.Op == token.EQL && k == -1 || be.Op == token.LEQ && k == -1) {
							guard = true
						}
					}
				}
			}
		}
		if def && guard {
			return "index is the position slices.Index/IndexFunc found in the same slice, after the not-found case returned"
		}
		if p == stop {
			break
		}
	}
	return ""
}

// disjuncts of a || b || c.
func disjuncts(e ast.Expr) []ast.Expr {
	e = unparen(e)
	if be, ok := e.(*ast.BinaryExpr); ok && be.Op == token.LOR {
		return append(disjuncts(be.X), disjuncts(be.Y)...)
	}
	return []ast.Expr{e}
}

// nonNegCounter: every assignment to the integer variable in its function is a
// non-negative constant, an increment, or `+= positive constant`: it is never negative
// (overflow aside: it counts elements of an in-memory slice).
func (c *Ctx) nonNegCounter(o types.Object, at ast.Node) bool {
	fd := c.EnclosingFunc(at)
	if fd == nil || fd.Body == nil || o == nil {
		return false
	}
	if v, ok := o.(*types.Var); !ok || v.IsField() || v.Pos() < fd.Body.Pos() || v.Pos() > fd.Body.End() {
		return false // parameters and package variables are not ours to bound
	}
	ok, n := true, 0
	ast.Inspect(fd.Body, func(m ast.Node) bool {
		switch x := m.(type) {
		case *ast.AssignStmt:
			for i, l := range x.Lhs {
				id, isId := unparen(l).(*ast.Ident)
				if !isId || c.Obj(id) != o {
					continue
				}
				n++
				if len(x.Lhs) != len(x.Rhs) {
					ok = false
					continue
				}
				k, isC := c.ConstInt(x.Rhs[i])
				switch x.Tok {
				case token.DEFINE, token.ASSIGN:
					if !isC || k < 0 {
						ok = false
					}
				case token.ADD_ASSIGN:
					if !isC || k < 0 {
						ok = false
					}
				default:
					ok = false
				}
			}
		case *ast.IncDecStmt:
			if id, isId := unparen(x.X).(*ast.Ident); isId && c.Obj(id) == o {
				n++
				if x.Tok != token.INC {
					ok = false
				}
			}
		case *ast.UnaryExpr:
			if id, isId := unparen(x.X).(*ast.Ident); isId && x.Op == token.AND && c.Obj(id) == o {
				ok = false
			}
		case *ast.RangeStmt:
			for _, e := range []ast.Expr{x.Key, x.Value} {
				if id, isId := e.(*ast.Ident); isId && c.Obj(id) == o {
					ok = false
				}
			}
		case *ast.ValueSpec:
			for i, nm := range x.Names {
				if c.Info.Defs[nm] == o {
					n++
					if i < len(x.Values) {
						if k, isC := c.ConstInt(x.Values[i]); !isC || k < 0 {
							ok = false
						}
					}
				}
			}
		}
		return true
	})
	return ok && n > 0
}

// rangeCheckedBefore: an earlier statement of an enclosing block is a terminating
// `if i < 0 || i >= len(B)` (in either order, possibly among further disjuncts), and neither
// i nor B is assigned between it and the use.
func (c *Ctx) rangeCheckedBefore(n ast.Node, id *ast.Ident, base string, stop ast.Node) string {
	o := c.Obj(id)
	var child ast.Node = n
	for p := c.Parent(n); p != nil; child, p = p, c.Parent(p) {
		if blk, ok := p.(*ast.BlockStmt); ok {
			for _, st := range blk.List {
				if st.Pos() >= child.Pos() {
					break
				}
				ifs, ok := st.(*ast.IfStmt)
				if !ok || ifs.Else != nil || ifs.Init != nil || !terminating(ifs.Body) {
					continue
				}
				lower, upper := false, false
				for _, dj := range disjuncts(ifs.Cond) {
					be, ok := unparen(dj).(*ast.BinaryExpr)
					if !ok {
						continue
					}
					isI := func(e ast.Expr) bool { x, ok := unparen(e).(*ast.Ident); return ok && c.Obj(x) == o }
					if isI(be.X) && be.Op == token.LSS {
						if z, ok := c.ConstInt(be.Y); ok && z == 0 {
							lower = true
						}
					}
					if isI(be.X) && be.Op == token.GEQ {
						if k, ok := c.lenMinus(be.Y, base); ok && k == 0 {
							upper = true
						}
					}
				}
				if lower && upper {
					// nothing assigns i or B between the check and the use
					assigned := false
					ast.Inspect(blk, func(m ast.Node) bool {
						if as, ok := m.(*ast.AssignStmt); ok && as.Pos() > ifs.End() && as.End() <= n.Pos() {
							for _, l := range as.Lhs {
								if nosp(c.Src(l)) == id.Name || nosp(c.Src(l)) == base {
									assigned = true
								}
							}
						}
						if inc, ok := m.(*ast.IncDecStmt); ok && inc.Pos() > ifs.End() && inc.End() <= n.Pos() && nosp(c.Src(inc.X)) == id.Name {
							assigned = true
						}
						return true
					})
					if !assigned {
						return "index was range-checked by a preceding `if i < 0 || i >= len(operand) { return }`"
					}
				}
			}
		}
		if p == stop {
			break
		}
	}
	return ""
}

// clampedIndex: in the statement list that holds the site, ahead of it and with no other
// assignment to the index variable in between: `if i >= len(B) { i = len(B) - 1 }` and a
// terminating `if i < 0 { .. }` (in either order, the clamp first or second: after both,
// 0 <= i < len(B) whenever the site is reached).
func (c *Ctx) clampedIndex(n ast.Node, id *ast.Ident, base string) string {
	o := c.Obj(id)
	var stmt ast.Node = n
	for p := c.Parent(n); p != nil; stmt, p = p, c.Parent(p) {
		var list []ast.Stmt
		switch b := p.(type) {
		case *ast.BlockStmt:
			list = b.List
		case *ast.CaseClause:
			list = b.Body
		default:
			continue
		}
		clamp, low := token.NoPos, token.NoPos
		for _, st := range list {
			if st.Pos() >= stmt.Pos() {
				break
			}
			if ifs, ok := st.(*ast.IfStmt); ok && ifs.Init == nil && ifs.Else == nil {
				if be, ok := unparen(ifs.Cond).(*ast.BinaryExpr); ok {
					if xid, ok := unparen(be.X).(*ast.Ident); ok && c.Obj(xid) == o {
						// i >= len(B) { i = len(B) - 1 }
						if (be.Op == token.GEQ || be.Op == token.GTR) && nosp(c.Src(be.Y)) == "len("+base+")" && len(ifs.Body.List) == 1 {
							if as, ok := ifs.Body.List[0].(*ast.AssignStmt); ok && as.Tok == token.ASSIGN && len(as.Lhs) == 1 {
								if lid, ok := as.Lhs[0].(*ast.Ident); ok && c.Obj(lid) == o && nosp(c.Src(as.Rhs[0])) == "len("+base+")-1" {
									clamp = st.Pos()
									continue
								}
							}
						}
						// i < 0 { return / panic / continue / break }
						if be.Op == token.LSS && terminating(ifs.Body) {
							if k, ok := c.ConstInt(be.Y); ok && k == 0 {
								low = st.Pos()
								continue
							}
						}
					}
				}
			}
			// any other write to i (or to the base) invalidates what was established
			bad := false
			ast.Inspect(st, func(m ast.Node) bool {
				switch x := m.(type) {
				case *ast.AssignStmt:
					for _, l := range x.Lhs {
						if lid, ok := unparen(l).(*ast.Ident); ok && c.Obj(lid) == o && c.Info.Defs[lid] == nil {
							bad = true
						}
						if nosp(c.Src(l)) == base {
							bad = true
						}
					}
				case *ast.IncDecStmt:
					if lid, ok := unparen(x.X).(*ast.Ident); ok && c.Obj(lid) == o {
						bad = true
					}
				}
				return true
			})
			if bad {
				clamp, low = token.NoPos, token.NoPos
			}
		}
		if clamp.IsValid() && low.IsValid() && clamp < low {
			return "index clamped to len-1 and rejected when negative ahead of the access"
		}
		return ""
	}
	return ""
}
