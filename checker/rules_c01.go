package main

// C01 — programs in the Go subset run as the Go toolchain runs them.
// Only three wiring clauses are in the shape of the code.

import (
	"fmt"
	"go/ast"
	"go/token"
	"go/types"
	"sort"
	"strings"
)

func init() {
	register(&propDef{
		ID: "C01",
		Explanation: "End-to-end equivalence with `go run` over all programs is behavioural and not decided. Three wiring clauses are: TAB-EXHAUST — every opcode the compiler or optimiser can emit has a handler in exec (unhandled = run-time 'unknown code' for every script reaching it), every placeholder opcode has a rewrite site, with one derived exemption (an opcode emitted only inside the FUNC header, which exec skips); TAB-BASICNAMES — the five places enumerating basic type names (getType, convMap, the conversion-call list, the alias list, the nudSelf rows) agree and convMap maps int/int32/rune->Int32, byte/uint8->Uint8, int8->Int8, uint/uint32->Uint32, float64, bool, string to the matching tag; TAB-SHIM — every bundled stdlib shim that delegates to the Go package named in its registration key calls exactly the function of that name, passes the script's arguments once each in parameter order, and registers the callee's parameter and result counts. Operator, control-flow, scoping and call clauses are decided under C04-C09.",
		Assumptions: []string{"hand-written shims (fmt.Sprint*, slices.*, maps.*, os.* indirections) are listed as manual and not judged"},
		Quick: []ruleDef{
			{"TAB-EXHAUST", 60, ruleTabExhaust},
			{"TAB-BASICNAMES", 46, ruleTabBasicNames},
			{"TAB-SHIM", 89, ruleTabShim},
			{"LAY-ONCE", 32, ruleLayOnce},
			{"TAB-KEYWORDS", 25, ruleTabKeywords},
			{"TAB-IOTA", 3, ruleTabIota},
		},
	})
}

// emittedOpcodes: code constants used as values (not as case labels / comparison operands).
func (c *Ctx) emittedOpcodes() map[string][]ast.Node {
	out := map[string][]ast.Node{}
	for _, f := range c.Pkg.Syntax {
		ast.Inspect(f, func(n ast.Node) bool {
			id, ok := n.(*ast.Ident)
			if !ok {
				return true
			}
			name := c.codeConstName(id)
			if name == "" || c.Info.Defs[id] != nil {
				return true
			}
			// classify by context
			var child ast.Node = id
			for p := c.Parent(id); p != nil; child, p = p, c.Parent(p) {
				switch x := p.(type) {
				case *ast.ParenExpr:
					continue
				case *ast.CaseClause:
					for _, e := range x.List {
						if e == child {
							return true // label
						}
					}
				case *ast.BinaryExpr:
					if x.Op == token.EQL || x.Op == token.NEQ {
						return true // comparison
					}
				case *ast.KeyValueExpr:
					if x.Key == child {
						// key of codeToString etc.
						if cl, ok := c.Parent(x).(*ast.CompositeLit); ok {
							if _, isMap := c.TypeOf(cl).Underlying().(*types.Map); isMap {
								return true
							}
						}
					}
				case *ast.ValueSpec:
					// const declarations
					if gd, ok := c.Parent(x).(*ast.GenDecl); ok && gd.Tok == token.CONST {
						return true
					}
				}
				break
			}
			if fd := c.EnclosingFunc(id); fd != nil && fd.Name.Name == "String" {
				return true // instruction.String / code.String dumps
			}
			out[name] = append(out[name], id)
			return true
		})
	}
	return out
}

func ruleTabExhaust(c *Ctx, r *R) {
	ex, err := c.execSwitch()
	if err != nil {
		r.undecided("exec", "-", err.Error())
		return
	}
	ops := c.opcodes()
	emitted := c.emittedOpcodes()
	// rewrite sites of placeholders, from the layouts
	rewritten := map[string]bool{}
	if ly, err := c.buildLayouts([]string{"for", "range", "switch"}); err == nil {
		for _, vs := range ly.Views {
			for _, v := range vs {
				for _, rules := range ly.m.ls(v.Path.St).rew {
					for from := range rules {
						rewritten[from] = true
					}
				}
			}
		}
	}
	for _, name := range sortedKeys(emitted) {
		sites := emitted[name]
		k := ops.ByName[name]
		if k == nil {
			continue
		}
		val := k.Val().String()
		pos := c.Pos(sites[0])
		if strings.HasPrefix(val, "-") {
			r.check(rewritten[name], "placeholder "+name, pos, "has a rewrite site",
				"placeholder opcode "+name+" is emitted but no construct rewrites it: it reaches the VM as an unknown opcode")
			continue
		}
		if ex.ByLabel[name] != nil {
			r.ok("handled "+name, fmt.Sprintf("%d emission site(s), handler at %s", len(sites), c.Pos(ex.ByLabel[name].Clause)))
			continue
		}
		// derived exemption: emitted only by a helper that is called only from the FUNC case (header data)
		exempt := true
		var helper *ast.FuncDecl
		for _, s := range sites {
			fd := c.EnclosingFunc(s)
			if fd == nil || (helper != nil && fd != helper) {
				exempt = false
				break
			}
			helper = fd
		}
		if exempt && helper != nil {
			cs, err := c.compileSwitch()
			if err != nil || cs.Fn == helper {
				exempt = false
			} else {
				fsc := cs.ByLabel["func"]
				for _, f := range c.Pkg.Syntax {
					ast.Inspect(f, func(n ast.Node) bool {
						if call, ok := n.(*ast.CallExpr); ok && c.Callee(call) == c.Info.Defs[helper.Name] {
							if fsc == nil || call.Pos() < fsc.Clause.Pos() || call.End() > fsc.Clause.End() {
								exempt = false
							}
						}
						return true
					})
				}
			}
		}
		r.check(exempt, "handled "+name, pos, "header data of FUNC (emitted only via "+func() string {
			if helper != nil {
				return helper.Name.Name
			}
			return "?"
		}()+" inside the func case; exec skips the header)",
			"opcode "+name+" can be emitted ("+pos+") but exec has no case for it: every script that reaches it fails with 'unknown code'")
	}
}

func (c *Ctx) stringList(e ast.Expr) []string {
	var out []string
	if cl, ok := unparen(e).(*ast.CompositeLit); ok {
		for _, el := range cl.Elts {
			if s, ok := c.ConstString(el); ok {
				out = append(out, s)
			}
		}
	}
	return out
}

func ruleTabBasicNames(c *Ctx, r *R) {
	tags := c.typeTags()
	vals, order := c.stringKeyed(c.mapLit("convMap"))
	if len(order) == 0 {
		r.undecided("convMap", "-", "convMap not found")
		return
	}
	conv := map[string]string{}
	for _, k := range order {
		if o, ok := c.Obj(unparen(vals[k])).(*types.Const); ok {
			conv[k] = o.Name()
		}
	}
	composite := map[string]bool{"TypeSlice": true, "TypeMap": true, "TypeFunc": true, "TypeStruct": true}
	basic := map[string]bool{}
	for k, v := range conv {
		if !composite[v] {
			basic[k] = true
		}
	}
	// oracle for the names of the subset
	want := map[string]string{"int": "TypeInt32", "int32": "TypeInt32", "rune": "TypeInt32", "byte": "TypeUint8", "uint8": "TypeUint8",
		"int8": "TypeInt8", "uint": "TypeUint32", "uint32": "TypeUint32", "float64": "TypeFloat64", "bool": "TypeBool", "string": "TypeString"}
	for _, k := range sortedKeys(want) {
		r.check(conv[k] == want[k], "convMap "+k, c.Pos(c.mapLit("convMap")), k+" -> "+want[k],
			fmt.Sprintf("convMap[%q] = %s, Go's %s is %s (int means int32; byte/rune are aliases)", k, conv[k], k, want[k]))
	}
	_ = tags
	// (1) getType's list
	var getTypeList []string
	if fd := c.Func("getType"); fd != nil {
		ast.Inspect(fd.Body, func(n ast.Node) bool {
			if cl, ok := n.(*ast.CaseClause); ok && len(cl.List) > len(getTypeList) && len(cl.List) >= 5 {
				var l []string
				for _, e := range cl.List {
					if s, ok := c.ConstString(e); ok {
						l = append(l, s)
					}
				}
				getTypeList = l
			}
			return true
		})
	}
	if len(getTypeList) == 0 {
		// ... or a package-level set of names (map[string]bool, never written) that getType
		// consults with the token's symbol
		if fd := c.Func("getType"); fd != nil {
			for _, h := range c.withHelpers(fd) {
				ast.Inspect(h.Body, func(n ast.Node) bool {
					ix, ok := n.(*ast.IndexExpr)
					if !ok || len(getTypeList) > 0 {
						return true
					}
					id, ok := unparen(ix.X).(*ast.Ident)
					if !ok || !strings.HasSuffix(nosp(c.Src(ix.Index)), ".Symbol") {
						return true
					}
					v, ok := c.Obj(id).(*types.Var)
					if !ok || v.Parent() != c.Types.Scope() || c.mapMutated(v) {
						return true
					}
					if cl := c.mapLit(v.Name()); cl != nil {
						vals, order := c.stringKeyed(cl)
						for _, k := range order {
							if tid, ok := unparen(vals[k]).(*ast.Ident); ok && tid.Name == "true" {
								getTypeList = append(getTypeList, k)
							}
						}
					}
					return true
				})
			}
		}
	}
	if len(getTypeList) == 0 {
		r.undecided("getType", "-", "getType's list of basic type names not found")
	}
	inGetType := map[string]bool{}
	for _, n := range getTypeList {
		inGetType[n] = true
		if n == "any" {
			continue
		}
		_, ok := conv[n]
		r.check(ok, "getType "+n, c.Pos(c.Func("getType")), "has a convMap entry",
			"the parser accepts type name "+n+" but convMap has no entry for it: variables of that type silently become `any`")
	}
	for _, n := range sortedKeys(basic) {
		r.check(inGetType[n], "parse "+n, c.Pos(c.Func("getType")), "accepted by getType", "basic type "+n+" of convMap is not accepted by the type parser")
	}
	// (3) conversion-call list and (4) alias list inside compile
	cs, err := c.compileSwitch()
	if err != nil {
		r.undecided("compile", "-", err.Error())
		return
	}
	if sc := cs.ByLabel["call"]; sc != nil {
		var list []string
		ast.Inspect(sc.Clause, func(n ast.Node) bool {
			if call, ok := n.(*ast.CallExpr); ok && strings.HasSuffix(c.CalleeName(call), "slices.Contains") && len(call.Args) == 2 {
				if l := c.stringList(call.Args[0]); len(l) > len(list) {
					list = l
				}
			}
			return true
		})
		in := map[string]bool{}
		for _, n := range list {
			in[n] = true
			_, ok := conv[n]
			r.check(ok, "conversion "+n, c.Pos(sc.Clause), "has a convMap entry", "conversion call "+n+"(x) is compiled with convMap["+n+"], which has no entry (CONVERT to the nil type)")
		}
		for _, n := range sortedKeys(want) {
			if n == "bool" {
				continue
			}
			r.check(in[n], "conversion-call "+n, c.Pos(sc.Clause), "compiled as CONVERT", "`"+n+"(x)` is not in the conversion-call list: it is compiled as a call of an undefined function")
		}
	}
	if sc := cs.ByLabel["type"]; sc != nil {
		alias := map[string]bool{}
		ast.Inspect(sc.Clause, func(n ast.Node) bool {
			if be, ok := n.(*ast.BinaryExpr); ok && be.Op == token.EQL {
				if id, ok := unparen(be.X).(*ast.Ident); ok && id.Name == "ts" {
					if s, ok := c.ConstString(be.Y); ok {
						alias[s] = true
					}
				}
			}
			return true
		})
		for _, n := range sortedKeys(want) {
			r.check(alias[n], "alias "+n, c.Pos(sc.Clause), "`type T "+n+"` is an alias of the basic tag", "`type T "+n+"` is not in the alias list of compile(\"type\"): T becomes a struct type")
		}
	}
	// (5) nudSelf rows
	rows, err := c.symbolTable()
	if err != nil {
		r.undecided("symbols", "-", err.Error())
		return
	}
	for _, n := range sortedKeys(basic) {
		row := rows[n]
		r.check(row != nil && row.Nud != nil && row.Nud.Name() == "nudSelf", "symbol "+n, "symbol.go", "own symbol with nudSelf",
			"basic type "+n+" has no nudSelf row in symbols: it is tokenised as a plain name and getType does not recognise it")
	}
}

// ---- shims ----

type shim struct {
	Key   string
	Pkg   string
	Name  string
	Call  *ast.CallExpr // the g.Set call
	Value ast.Expr
}

func (c *Ctx) shims() []*shim {
	var out []*shim
	for _, f := range c.Pkg.Syntax {
		ast.Inspect(f, func(n ast.Node) bool {
			call, ok := n.(*ast.CallExpr)
			if !ok || len(call.Args) != 2 {
				return true
			}
			cn := c.CalleeName(call)
			if cn != "lookup.Set" && cn != "VM.Set" {
				return true
			}
			key, ok := c.ConstString(call.Args[0])
			if !ok {
				return true
			}
			i := strings.LastIndex(key, ".")
			if i < 0 {
				return true
			}
			out = append(out, &shim{Key: key, Pkg: key[:i], Name: key[i+1:], Call: call, Value: call.Args[1]})
			return true
		})
	}
	sort.Slice(out, func(i, j int) bool { return out[i].Key < out[j].Key })
	return out
}

var shimExceptions = map[string]string{
	"fmt.Print":   "Fprint",   // writer variant on the VM's stdout
	"fmt.Println": "Fprintln", // writer variant on the VM's stdout
	"golang.org/x/exp/slices.Equal": "EqualFunc", // element comparison must go through Value.opEq
	"golang.org/x/exp/slices.Sort":  "SortFunc",  // element order must go through Value.opLt
}

// fmtOperandsRule (part of TAB-SHIM): Go's formatting verbs work on Go numbers, strings and
// booleans.  A shim that forwards script operands to a fmt function with a format string
// (Sprintf, Printf, Fprintf, Errorf) must hand over Go values, not the VM's Value structs —
// for a Value only the Stringer verbs (%v, %s) come out right, %d prints the struct.
func fmtOperandsRule(c *Ctx, r *R) {
	n := 0
	for _, name := range c.FuncNames() {
		fd := c.Func(name)
		if fd.Body == nil {
			continue
		}
		ast.Inspect(fd.Body, func(nd ast.Node) bool {
			call, ok := nd.(*ast.CallExpr)
			if !ok || !call.Ellipsis.IsValid() || len(call.Args) < 2 {
				return true
			}
			switch c.CalleeName(call) {
			case "fmt.Sprintf", "fmt.Printf", "fmt.Fprintf", "fmt.Errorf":
			default:
				return true
			}
			// the operand slice: a local of the shim, or what a helper of the package builds and returns
			encl := c.EnclosingFunc(call)
			var o types.Object
			spread := unparen(call.Args[len(call.Args)-1])
			if va, ok := spread.(*ast.Ident); ok {
				o = c.Obj(va)
				if def := c.singleDef(va); def != nil {
					if hc, ok := unparen(def).(*ast.CallExpr); ok && c.DeclOf(c.Callee(hc)) != nil {
						spread = hc
					}
				}
			}
			if hc, ok := spread.(*ast.CallExpr); ok {
				if h := c.DeclOf(c.Callee(hc)); h != nil && h.Body != nil {
					ast.Inspect(h.Body, func(m ast.Node) bool {
						if rs, ok := m.(*ast.ReturnStmt); ok && len(rs.Results) == 1 {
							if id, ok := unparen(rs.Results[0]).(*ast.Ident); ok {
								o, encl = c.Obj(id), h
							}
						}
						return true
					})
				}
			}
			if encl == nil || o == nil {
				return true
			}
			// every value stored into the operand slice by index
			ast.Inspect(encl.Body, func(m ast.Node) bool {
				as, ok := m.(*ast.AssignStmt)
				if !ok || len(as.Lhs) != len(as.Rhs) {
					return true
				}
				for i, l := range as.Lhs {
					ix, ok := unparen(l).(*ast.IndexExpr)
					if !ok {
						continue
					}
					if id, ok := unparen(ix.X).(*ast.Ident); !ok || c.Obj(id) != o {
						continue
					}
					n++
					raw := isNamed(c.TypeOf(as.Rhs[i]), "Value")
					r.check(!raw, "fmt operand "+name, c.Pos(as), "operands are converted to Go values before formatting", "the shim around "+c.CalleeName(call)+" passes the VM's Value struct as a formatting operand ("+c.Src(as.Rhs[i])+"): only %v and %s work; fmt.Sprintf(\"%d %5.2f %x %c %t\", 42, 3.14159, 255, 'A', true) prints the struct's fields instead of `42  3.14 ff A true`")
				}
				return true
			})
			// every value appended to the operand slice
			ast.Inspect(encl.Body, func(m ast.Node) bool {
				ap, ok := m.(*ast.CallExpr)
				if !ok || c.CalleeName(ap) != "builtin.append" || len(ap.Args) < 2 {
					return true
				}
				if id, ok := unparen(ap.Args[0]).(*ast.Ident); !ok || c.Obj(id) != o {
					return true
				}
				for _, a := range ap.Args[1:] {
					n++
					raw := isNamed(c.TypeOf(a), "Value")
					r.check(!raw, "fmt operand "+name, c.Pos(ap), "operands are converted to Go values before formatting", "the shim around "+c.CalleeName(call)+" passes the VM's Value struct as a formatting operand ("+c.Src(a)+"): only %v and %s work; fmt.Sprintf(\"%d %5.2f %x %c %t\", 42, 3.14159, 255, 'A', true) prints the struct's fields instead of `42  3.14 ff A true`")
				}
				return true
			})
			return true
		})
	}
	if n == 0 {
		r.undecided("fmt operand", "-", "no shim that forwards operands to a fmt formatting function was found")
	}
}

// shimErrorValueRule: Go's parsers return a value together with a range error (the nearest
// representable one: MaxInt32 for ParseInt("99999999999", 10, 32), ±Inf for ParseFloat("1e999"));
// a shim that delegates with `res, err := pkg.F(..)` hands res on in every result list it
// returns, also next to the error — not a constant in its place.
func shimErrorValueRule(c *Ctx, r *R) {
	n := 0
	for _, sh := range c.shims() {
		call, ok := unparen(sh.Value).(*ast.CallExpr)
		if !ok || c.CalleeName(call) != "NewFunc" || len(call.Args) != 3 {
			continue
		}
		fl, ok := unparen(call.Args[2]).(*ast.FuncLit)
		if !ok {
			continue
		}
		// res, err := <sh.Pkg>.<F>(..)
		var res types.Object
		ast.Inspect(fl.Body, func(m ast.Node) bool {
			as, ok := m.(*ast.AssignStmt)
			if !ok || len(as.Lhs) != 2 || len(as.Rhs) != 1 {
				return true
			}
			cc, ok := unparen(as.Rhs[0]).(*ast.CallExpr)
			if !ok {
				return true
			}
			fn, ok := c.Callee(cc).(*types.Func)
			if !ok || fn.Pkg() == nil || fn.Pkg().Path() != sh.Pkg {
				return true
			}
			sig := fn.Type().(*types.Signature)
			if sig.Results().Len() != 2 || !types.Identical(sig.Results().At(1).Type(), types.Universe.Lookup("error").Type()) {
				return true
			}
			if id, ok := as.Lhs[0].(*ast.Ident); ok && id.Name != "_" {
				res = c.Obj(id)
			}
			return true
		})
		if res == nil {
			continue
		}
		ast.Inspect(fl.Body, func(m ast.Node) bool {
			rs, ok := m.(*ast.ReturnStmt)
			if !ok || len(rs.Results) != 1 {
				return true
			}
			cl, ok := unparen(rs.Results[0]).(*ast.CompositeLit)
			if !ok || len(cl.Elts) < 2 {
				return true
			}
			n++
			uses := false
			ast.Inspect(cl.Elts[0], func(q ast.Node) bool {
				if id, ok := q.(*ast.Ident); ok && c.Obj(id) == res {
					uses = true
				}
				return true
			})
			r.check(uses, "error value "+sh.Key, c.Pos(rs), "the delegated function's value is returned next to its error",
				"the shim "+sh.Key+" returns `"+c.Src(cl.Elts[0])+"` instead of the value "+sh.Pkg+"."+sh.Name+" returned with the error: ParseInt(\"99999999999\", 10, 32) gives 0 where Go gives 2147483647 (the clamped value comes with the range error), ParseFloat(\"1e999\", 64) gives 0 instead of +Inf")
			return true
		})
	}
	if n == 0 {
		r.ok("error value", "no shim returns a (value, error) pair from a delegated call")
	}
}

func ruleTabShim(c *Ctx, r *R) {
	fmtOperandsRule(c, r)
	shimErrorValueRule(c, r)
	manual := 0
	for _, sh := range c.shims() {
		pos := c.Pos(sh.Call)
		val := unparen(sh.Value)
		call, isCall := val.(*ast.CallExpr)
		if !isCall {
			continue
		}
		if c.CalleeName(call) != "NewFunc" {
			// value registration: Float64(math.Pi)
			var sel *ast.SelectorExpr
			ast.Inspect(call, func(n ast.Node) bool {
				if s, ok := n.(*ast.SelectorExpr); ok {
					if o := c.Info.Uses[s.Sel]; o != nil && o.Pkg() != nil && o.Pkg().Path() == sh.Pkg {
						sel = s
					}
				}
				return true
			})
			if sel != nil {
				r.check(sel.Sel.Name == sh.Name, "value "+sh.Key, pos, "is "+sh.Pkg+"."+sel.Sel.Name,
					fmt.Sprintf("%s is registered with the value of %s.%s", sh.Key, sh.Pkg, sel.Sel.Name))
			}
			continue
		}
		if len(call.Args) != 3 {
			continue
		}
		argc, ok1 := c.ConstInt(call.Args[0])
		rets, ok2 := c.ConstInt(call.Args[1])
		var fl *ast.FuncLit
		ok3 := false
		switch f := unparen(call.Args[2]).(type) {
		case *ast.FuncLit:
			fl, ok3 = f, true
		case *ast.Ident:
			// a package-level function used as the native: judge its body
			if hd := c.DeclOf(c.Obj(f)); hd != nil && hd.Body != nil {
				fl, ok3 = &ast.FuncLit{Type: hd.Type, Body: hd.Body}, true
			}
		}
		if !ok1 || !ok2 || !ok3 {
			r.undecided("shim "+sh.Key, pos, "NewFunc registration with non-constant counts or a function that is neither a literal nor a declared function")
			continue
		}
		// calls into the package named by the key
		var delegs []*ast.CallExpr
		ast.Inspect(fl.Body, func(n ast.Node) bool {
			if cc, ok := n.(*ast.CallExpr); ok {
				if fn, ok := c.Callee(cc).(*types.Func); ok && fn.Pkg() != nil && fn.Pkg().Path() == sh.Pkg && fn.Type().(*types.Signature).Recv() == nil {
					delegs = append(delegs, cc)
				}
			}
			return true
		})
		if len(delegs) == 0 {
			manual++
			r.note("manual (hand-written, not judged): %s", sh.Key)
			continue
		}
		for _, d := range delegs {
			fn := c.Callee(d).(*types.Func)
			wantName := sh.Name
			if e, ok := shimExceptions[sh.Key]; ok {
				wantName = e
			}
			if !r.check(fn.Name() == wantName, "name "+sh.Key, c.Pos(d), "delegates to "+sh.Pkg+"."+fn.Name(),
				fmt.Sprintf("the shim registered as %s calls %s.%s", sh.Key, sh.Pkg, fn.Name())) {
				continue
			}
			if _, exc := shimExceptions[sh.Key]; exc {
				// delegating to the writer variant does not change what the script-visible function
				// returns: the registered result count is that of the function the key names
				if named := c.importedFunc(sh.Pkg, sh.Name); named != nil {
					ns := named.Type().(*types.Signature)
					r.check(int(rets) == ns.Results().Len(), "rets "+sh.Key, pos, fmt.Sprintf("rets %d = results of %s.%s", rets, sh.Pkg, sh.Name),
						fmt.Sprintf("shim %s registers %d results but %s.%s returns %d: `n, err := %s(..)` (valid Go) stops with `incorrect returns`", sh.Key, rets, sh.Pkg, sh.Name, ns.Results().Len(), sh.Key))
				}
				continue
			}
			sig := fn.Type().(*types.Signature)
			// argument provenance: which script argument (args[k]) feeds each callee argument
			var idxs []int64
			argsOK, how := true, ""
			usesArgs := false
			resolved := 0
			judged := 0
			for ai, a := range d.Args {
				if _, isLit := unparen(a).(*ast.FuncLit); isLit {
					continue // a callback: not an argument passed through
				}
				if d.Ellipsis.IsValid() && ai == len(d.Args)-1 {
					continue // the variadic tail
				}
				judged++
				found := argsIndexes(c, fl, a, 2)
				if len(found) == 1 {
					usesArgs = true
					resolved++
					idxs = append(idxs, found[0])
				} else if len(found) > 1 {
					usesArgs = true
					argsOK, how = false, "one callee argument mixes several script arguments"
				}
			}
			if usesArgs {
				for i, k := range idxs {
					if i > 0 && k <= idxs[i-1] {
						argsOK, how = false, fmt.Sprintf("script arguments reach the callee out of order or twice: args%v", idxs)
						break
					}
				}
				if argsOK && resolved == judged {
					for i, k := range idxs {
						if k != int64(i) {
							argsOK, how = false, fmt.Sprintf("callee argument %d is built from args[%d] (%v)", i, k, idxs)
							break
						}
					}
				}
				r.check(argsOK, "args "+sh.Key, c.Pos(d), fmt.Sprintf("script arguments %v in parameter order", idxs),
					fmt.Sprintf("shim %s: %s — the Go function receives different arguments than the script passed", sh.Key, how))
			} else if len(d.Args) > 0 {
				// stack helpers: a, b := get2Pop1f(v); f(a, b)
				var names []string
				for _, a := range d.Args {
					root := rootIdent(stripConvExpr(c, a))
					if root == nil {
						names = nil
						break
					}
					names = append(names, root.Name)
				}
				order := stackHelperOrder(c, fl)
				if names != nil && order != nil {
					good := len(names) == len(order)
					for i := range names {
						if i < len(order) && names[i] != order[i] {
							good = false
						}
					}
					r.check(good, "args "+sh.Key, c.Pos(d), "popped operands "+strings.Join(order, ",")+" passed in stack order",
						fmt.Sprintf("shim %s passes (%s) but the operands were popped as (%s): arguments are swapped or duplicated", sh.Key, strings.Join(names, ","), strings.Join(order, ",")))
				}
			}
			if !sig.Variadic() {
				r.check(int(argc) == sig.Params().Len(), "argc "+sh.Key, pos, fmt.Sprintf("argc %d = parameters of %s", argc, fn.Name()),
					fmt.Sprintf("shim %s registers %d arguments but %s.%s takes %d", sh.Key, argc, sh.Pkg, fn.Name(), sig.Params().Len()))
			}
			r.check(int(rets) == sig.Results().Len(), "rets "+sh.Key, pos, fmt.Sprintf("rets %d = results of %s", rets, fn.Name()),
				fmt.Sprintf("shim %s registers %d results but %s.%s returns %d", sh.Key, rets, sh.Pkg, fn.Name(), sig.Results().Len()))
		}
	}
	r.note("%d hand-written shims not judged", manual)
}

func stripConvExpr(c *Ctx, e ast.Expr) ast.Expr {
	for {
		e = unparen(e)
		call, ok := e.(*ast.CallExpr)
		if !ok {
			return e
		}
		if _, isConv := c.IsConversion(call); isConv && len(call.Args) == 1 {
			e = call.Args[0]
			continue
		}
		return e
	}
}

// stackHelperOrder: the variables bound from get2Pop1f / get1f / pop1f (deeper operand first).
func stackHelperOrder(c *Ctx, fl *ast.FuncLit) []string {
	var out []string
	ast.Inspect(fl.Body, func(n ast.Node) bool {
		as, ok := n.(*ast.AssignStmt)
		if !ok || len(as.Rhs) != 1 {
			return true
		}
		call, ok := unparen(stripConvExpr(c, as.Rhs[0])).(*ast.CallExpr)
		if !ok {
			return true
		}
		switch c.CalleeName(call) {
		case "get2Pop1f", "get2Pop1v", "get1f", "get1v", "pop1f":
			for _, l := range as.Lhs {
				if id, ok := l.(*ast.Ident); ok {
					out = append(out, id.Name)
				}
			}
		}
		return true
	})
	return out
}

// argsIndexes: constant indexes k of args[k] that flow into e, following local
// variable definitions inside the shim up to depth levels.
func argsIndexes(c *Ctx, fl *ast.FuncLit, e ast.Expr, depth int) []int64 {
	seen := map[int64]bool{}
	var out []int64
	var visit func(e ast.Node, d int)
	visit = func(e ast.Node, d int) {
		ast.Inspect(e, func(n ast.Node) bool {
			switch x := n.(type) {
			case *ast.FuncLit:
				return false
			case *ast.IndexExpr:
				if id, ok := unparen(x.X).(*ast.Ident); ok && id.Name == "args" {
					if k, ok := c.ConstInt(x.Index); ok && !seen[k] {
						seen[k] = true
						out = append(out, k)
					}
					return false
				}
			case *ast.Ident:
				if d <= 0 || x.Name == "args" {
					return true
				}
				o := c.Obj(x)
				if _, isVar := o.(*types.Var); !isVar {
					return true
				}
				// definition inside the shim
				ast.Inspect(fl.Body, func(m ast.Node) bool {
					as, ok := m.(*ast.AssignStmt)
					if !ok {
						return true
					}
					for i, l := range as.Lhs {
						if lid, ok := l.(*ast.Ident); ok && c.Info.Defs[lid] == o {
							if len(as.Rhs) == len(as.Lhs) {
								visit(as.Rhs[i], d-1)
							} else if len(as.Rhs) == 1 {
								visit(as.Rhs[0], d-1)
							}
						}
					}
					return true
				})
			}
			return true
		})
	}
	visit(e, depth)
	sort.Slice(out, func(i, j int) bool { return out[i] < out[j] })
	return out
}

// TAB-KEYWORDS: every Go keyword is a symbol of the parser.  A keyword that is missing
// from the table is tokenized as an identifier, and the statement it introduces is then
// compiled as a read of an undefined variable followed by whatever comes next:
// `defer g()` runs g at once and `fallthrough` is a no-op — silently.  Listed keywords
// either have a handler or fail with a parse error ("null nud"), never silently.
func ruleTabKeywords(c *Ctx, r *R) {
	rows, err := c.symbolTable()
	if err != nil {
		r.undecided("symbols", "-", err.Error())
		return
	}
	n := 0
	for tk := token.BREAK; tk <= token.VAR; tk++ {
		if !tk.IsKeyword() {
			continue
		}
		kw := tk.String()
		n++
		r.check(rows[kw] != nil, "keyword "+kw, "symbol.go", "is a parser symbol",
			"the Go keyword `"+kw+"` is not in the parser's symbol table: it is tokenized as an identifier, so a statement that uses it is accepted and mis-executed without any error (e.g. `defer g()` calls g immediately and the function's result is lost; `fallthrough` does nothing)")
	}
	if n < 25 {
		r.undecided("keywords", "-", "go/token keyword range not enumerated")
	}
}

// TAB-IOTA: within a parenthesised const group iota is the index of the ConstSpec (the
// line), not of the constant, and a spec without values repeats the whole expression list of
// the previous spec, expression i for name i. Decided on constNud: the text substituted for
// iota is a counter stepped once per spec (not the number of values collected so far), and
// the remembered previous expressions are a list indexed by the position of the name.
func ruleTabIota(c *Ctx, r *R) {
	fd := c.Func("constNud")
	if fd == nil {
		r.undecided("constNud", "-", "not found")
		return
	}
	n := 0
	var bad []string
	var counters []types.Object
	// the substitution may sit in a helper that is handed the text: then the text is what the
	// call sites in constNud pass for that parameter
	type subst struct {
		call *ast.CallExpr
		arg  ast.Expr
	}
	var substs []subst
	collect := func(body ast.Node, bind map[types.Object]ast.Expr) {
		ast.Inspect(body, func(m ast.Node) bool {
			call, ok := m.(*ast.CallExpr)
			if !ok || c.CalleeName(call) != "token.Replace" || len(call.Args) != 3 {
				return true
			}
			if v, ok := c.ConstString(call.Args[0]); !ok || v != "iota" {
				return true
			}
			arg := unparen(call.Args[2])
			if id, ok := arg.(*ast.Ident); ok && bind != nil {
				if b, ok := bind[c.Obj(id)]; ok {
					arg = unparen(b)
				}
			}
			substs = append(substs, subst{call, arg})
			return true
		})
	}
	collect(fd.Body, nil)
	ast.Inspect(fd.Body, func(m ast.Node) bool {
		call, ok := m.(*ast.CallExpr)
		if !ok {
			return true
		}
		o := c.Callee(call)
		h := c.DeclOf(o)
		if o == nil || h == nil || h == fd || h.Body == nil || !c.isNewHelper(o) {
			return true
		}
		bind := map[types.Object]ast.Expr{}
		i := 0
		for _, f := range h.Type.Params.List {
			for _, nm := range f.Names {
				if i < len(call.Args) {
					bind[c.Info.Defs[nm]] = call.Args[i]
				}
				i++
			}
		}
		collect(h.Body, bind)
		return true
	})
	for _, sb := range substs {
		call := sb.call
		n++
		arg := sb.arg
		// follow one definition: n := fmt.Sprint(spec)
		if id, ok := arg.(*ast.Ident); ok {
			if def := c.singleDefIn(fd, c.Obj(id)); def != nil {
				arg = unparen(def)
			}
		}
		src := nosp(c.Src(arg))
		if strings.Contains(src, "len(") {
			bad = append(bad, c.Pos(call)+": "+c.Src(arg))
			continue
		}
		ast.Inspect(arg, func(k ast.Node) bool {
			if id, ok := k.(*ast.Ident); ok {
				if v, ok := c.Obj(id).(*types.Var); ok && !v.IsField() {
					if b, ok := v.Type().Underlying().(*types.Basic); ok && b.Info()&types.IsInteger != 0 {
						counters = append(counters, v)
					}
				}
			}
			return true
		})
	}
	if n == 0 {
		r.undecided("iota", c.Pos(fd), "no Replace(\"iota\", ..) in constNud")
		return
	}
	r.check(len(bad) == 0, "iota counts specs", c.Pos(fd), "iota is not the number of values collected so far",
		"constNud substitutes the number of constants seen so far for iota ("+strings.Join(bad, "; ")+"): in `A, B = iota, iota*10; C, D` Go gives 0 0 1 10, this gives 0 10 20 30")
	if len(bad) == 0 {
		// the counter is stepped once per spec: its increment is not inside a loop over the names/values of one spec
		stepped := false
		ast.Inspect(fd.Body, func(m ast.Node) bool {
			inc, ok := m.(*ast.IncDecStmt)
			if !ok || inc.Tok != token.INC {
				return true
			}
			id, ok := unparen(inc.X).(*ast.Ident)
			if !ok {
				return true
			}
			isCounter := false
			for _, o := range counters {
				if c.Obj(id) == o {
					isCounter = true
				}
			}
			if !isCounter {
				return true
			}
			loops := 0
			for p := c.Parent(inc); p != nil && p != ast.Node(fd.Body); p = c.Parent(p) {
				switch p.(type) {
				case *ast.ForStmt, *ast.RangeStmt:
					loops++
				}
			}
			if loops == 1 {
				stepped = true
			}
			return true
		})
		r.check(stepped, "iota steps per spec", c.Pos(fd), "the iota counter is incremented once per ConstSpec", "the counter substituted for iota is not incremented exactly once per ConstSpec of the group (directly in the loop over the specs)")
	}
	// the previous spec's expressions are kept as a list
	list := false
	ast.Inspect(fd.Body, func(m ast.Node) bool {
		call, ok := m.(*ast.CallExpr)
		if !ok || c.CalleeName(call) != "token.Copy" {
			return true
		}
		sel, ok := unparen(call.Fun).(*ast.SelectorExpr)
		if !ok {
			return true
		}
		if ix, ok := unparen(sel.X).(*ast.IndexExpr); ok {
			if t, ok := c.TypeOf(ix.X).Underlying().(*types.Slice); ok && c.isTokenPtr(t.Elem()) {
				if _, isLit := unparen(ix.Index).(*ast.BasicLit); !isLit {
					list = true
				}
			}
		}
		return true
	})
	r.check(list, "implicit repetition per position", c.Pos(fd), "a spec without values copies expression i of the previous spec for name i",
		"constNud remembers only the last expression of the previous spec: `Bit0, Name0 = 1<<iota, string('a'+iota); Bit1, Name1` gives Bit1 the Name expression (1 b instead of 2 b)")
}

// singleDefIn: the right-hand side of the only `x := e` / `x = e` for the object in fd.
func (c *Ctx) singleDefIn(fd *ast.FuncDecl, o types.Object) ast.Expr {
	var out ast.Expr
	n := 0
	ast.Inspect(fd.Body, func(m ast.Node) bool {
		if as, ok := m.(*ast.AssignStmt); ok && len(as.Lhs) == len(as.Rhs) {
			for i, l := range as.Lhs {
				if id, ok := l.(*ast.Ident); ok && c.Obj(id) == o {
					n++
					out = as.Rhs[i]
				}
			}
		}
		return true
	})
	if n != 1 {
		return nil
	}
	return out
}

// importedFunc: the function pkgPath.name of a package this package imports.
func (c *Ctx) importedFunc(pkgPath, name string) *types.Func {
	for _, imp := range c.Pkg.Types.Imports() {
		if imp.Path() == pkgPath {
			if f, ok := imp.Scope().Lookup(name).(*types.Func); ok {
				return f
			}
		}
	}
	return nil
}
