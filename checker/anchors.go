package main

// Structural resolution of the mechanisms the properties are anchored in.
// Anchors are found by shape and type, not by position.

import (
	"fmt"
	"go/ast"
	"go/constant"
	"go/token"
	"go/types"
	"sort"
	"strings"
)

// ---- generic: map literal tables ----

// mapLit finds the composite literal initialising the package-level (or
// function-local, when fn != "") map variable name.
func (c *Ctx) mapLit(name string) *ast.CompositeLit {
	var found *ast.CompositeLit
	for _, f := range c.Pkg.Syntax {
		ast.Inspect(f, func(n ast.Node) bool {
			switch x := n.(type) {
			case *ast.ValueSpec:
				for i, id := range x.Names {
					if id.Name == name && i < len(x.Values) {
						if cl, ok := unparen(x.Values[i]).(*ast.CompositeLit); ok {
							if _, isMap := c.TypeOf(cl).Underlying().(*types.Map); isMap {
								found = cl
							}
						}
					}
				}
			case *ast.AssignStmt:
				for i, l := range x.Lhs {
					if id, ok := l.(*ast.Ident); ok && id.Name == name && i < len(x.Rhs) {
						if cl, ok := unparen(x.Rhs[i]).(*ast.CompositeLit); ok {
							if _, isMap := c.TypeOf(cl).Underlying().(*types.Map); isMap {
								found = cl
							}
						}
					}
				}
			}
			return true
		})
	}
	return found
}

// stringKeyed returns key -> value expression for a map literal with constant string keys.
func (c *Ctx) stringKeyed(cl *ast.CompositeLit) (map[string]ast.Expr, []string) {
	m := map[string]ast.Expr{}
	var order []string
	if cl == nil {
		return m, nil
	}
	for _, el := range cl.Elts {
		kv, ok := el.(*ast.KeyValueExpr)
		if !ok {
			continue
		}
		k, ok := c.ConstString(kv.Key)
		if !ok {
			continue
		}
		m[k] = kv.Value
		order = append(order, k)
	}
	return m, order
}

// ---- the Pratt table ----

type symRow struct {
	Key      string
	Lbp      int64
	HasLbp   bool
	Nud, Led types.Object
	Node     ast.Expr
}

func (c *Ctx) symbolTable() (map[string]*symRow, error) {
	cl := c.mapLit("symbols")
	if cl == nil {
		return nil, fmt.Errorf("the `symbols` map literal was not found")
	}
	rows := map[string]*symRow{}
	for _, el := range cl.Elts {
		kv, ok := el.(*ast.KeyValueExpr)
		if !ok {
			return nil, fmt.Errorf("symbols: element without key at %s", c.Pos(el))
		}
		k, ok := c.ConstString(kv.Key)
		if !ok {
			return nil, fmt.Errorf("symbols: non-constant key at %s", c.Pos(kv.Key))
		}
		row := &symRow{Key: k, Node: kv.Value}
		v := unparen(kv.Value)
		if u, ok := v.(*ast.UnaryExpr); ok && u.Op == token.AND {
			v = unparen(u.X)
		}
		lit, ok := v.(*ast.CompositeLit)
		if !ok {
			return nil, fmt.Errorf("symbols[%q]: value is not a literal at %s", k, c.Pos(kv.Value))
		}
		for _, f := range lit.Elts {
			fkv, ok := f.(*ast.KeyValueExpr)
			if !ok {
				return nil, fmt.Errorf("symbols[%q]: positional field at %s", k, c.Pos(f))
			}
			fname := types.ExprString(fkv.Key)
			switch fname {
			case "Lbp":
				n, ok := c.ConstInt(fkv.Value)
				if !ok {
					return nil, fmt.Errorf("symbols[%q].Lbp is not constant at %s", k, c.Pos(fkv.Value))
				}
				row.Lbp, row.HasLbp = n, true
			case "Nud":
				row.Nud = c.Obj(fkv.Value)
			case "Led":
				row.Led = c.Obj(fkv.Value)
			}
		}
		if _, dup := rows[k]; dup {
			return nil, fmt.Errorf("symbols[%q] listed twice", k)
		}
		rows[k] = row
	}
	return rows, nil
}

// ---- opcodes ----

type opcodeSet struct {
	ByName map[string]*types.Const
	ByVal  map[int64]string
}

func (c *Ctx) opcodes() *opcodeSet {
	os := &opcodeSet{ByName: map[string]*types.Const{}, ByVal: map[int64]string{}}
	sc := c.Types.Scope()
	for _, n := range sc.Names() {
		k, ok := sc.Lookup(n).(*types.Const)
		if !ok || !isNamed(k.Type(), "code") {
			continue
		}
		os.ByName[n] = k
		if v, ok := constant.Int64Val(k.Val()); ok {
			os.ByVal[v] = n
		}
	}
	return os
}

// codeConstName returns the opcode constant an expression denotes ("" if none).
func (c *Ctx) codeConstName(e ast.Expr) string {
	o := c.Obj(unparen(e))
	k, ok := o.(*types.Const)
	if !ok || !isNamed(k.Type(), "code") {
		return ""
	}
	return k.Name()
}

// ---- big switches ----

type switchCase struct {
	Labels []string // opcode constant names or string labels
	Clause *ast.CaseClause
}

type bigSwitch struct {
	Fn      *ast.FuncDecl
	Switch  *ast.SwitchStmt
	Cases   []*switchCase
	Default *ast.CaseClause
	ByLabel map[string]*switchCase
}

// execSwitch: the method on *VM holding the largest switch over a value of type code.
func (c *Ctx) execSwitch() (*bigSwitch, error) {
	var best *bigSwitch
	for _, name := range c.FuncNames() {
		fd := c.funcs[name]
		if fd.Recv == nil || fd.Body == nil || !strings.HasPrefix(name, "VM.") {
			continue
		}
		ast.Inspect(fd.Body, func(n ast.Node) bool {
			sw, ok := n.(*ast.SwitchStmt)
			if !ok || sw.Tag == nil || !isNamed(c.TypeOf(sw.Tag), "code") {
				return true
			}
			bs := &bigSwitch{Fn: fd, Switch: sw, ByLabel: map[string]*switchCase{}}
			for _, cc := range sw.Body.List {
				cl := cc.(*ast.CaseClause)
				if cl.List == nil {
					bs.Default = cl
					continue
				}
				sc := &switchCase{Clause: cl}
				for _, e := range cl.List {
					if nm := c.codeConstName(e); nm != "" {
						sc.Labels = append(sc.Labels, nm)
						bs.ByLabel[nm] = sc
					}
				}
				bs.Cases = append(bs.Cases, sc)
			}
			if best == nil || len(bs.Cases) > len(best.Cases) {
				best = bs
			}
			return true
		})
	}
	if best == nil || len(best.Cases) < 20 {
		return nil, fmt.Errorf("the VM dispatch switch over `code` was not found")
	}
	return best, nil
}

// compileSwitch: the compiler method with the largest switch over token.Symbol.
func (c *Ctx) compileSwitch() (*bigSwitch, error) {
	var best *bigSwitch
	for _, name := range c.FuncNames() {
		fd := c.funcs[name]
		if fd.Body == nil || !strings.HasPrefix(name, "compiler.") {
			continue
		}
		for _, s := range fd.Body.List {
			sw, ok := s.(*ast.SwitchStmt)
			if !ok || sw.Tag == nil {
				continue
			}
			sel, ok := unparen(sw.Tag).(*ast.SelectorExpr)
			if !ok || sel.Sel.Name != "Symbol" || !isNamed(c.TypeOf(sel.X), "token") {
				continue
			}
			bs := &bigSwitch{Fn: fd, Switch: sw, ByLabel: map[string]*switchCase{}}
			for _, cc := range sw.Body.List {
				cl := cc.(*ast.CaseClause)
				if cl.List == nil {
					bs.Default = cl
					continue
				}
				sc := &switchCase{Clause: cl}
				for _, e := range cl.List {
					if s, ok := c.ConstString(e); ok {
						sc.Labels = append(sc.Labels, s)
						bs.ByLabel[s] = sc
					}
				}
				bs.Cases = append(bs.Cases, sc)
			}
			if best == nil || len(bs.Cases) > len(best.Cases) {
				best = bs
			}
		}
	}
	if best == nil || len(best.Cases) < 20 {
		return nil, fmt.Errorf("the compiler's switch over tok.Symbol was not found")
	}
	return best, nil
}

// ---- type tags ----

func (c *Ctx) typeTags() map[string]int64 {
	out := map[string]int64{}
	sc := c.Types.Scope()
	for _, n := range sc.Names() {
		k, ok := sc.Lookup(n).(*types.Const)
		if !ok || !isNamed(k.Type(), "Type") {
			continue
		}
		if v, ok := constant.Int64Val(k.Val()); ok {
			out[n] = v
		}
	}
	return out
}

var numericTags = []string{"TypeUint8", "TypeInt8", "TypeUint32", "TypeInt32", "TypeFloat64"}

// goTypeOfTag: the Go type whose arithmetic a typed tag stands for.
var goTypeOfTag = map[string]string{"TypeUint8": "uint8", "TypeInt8": "int8", "TypeUint32": "uint32", "TypeInt32": "int32", "TypeFloat64": "float64"}

func normGoType(s string) string {
	switch s {
	case "byte":
		return "uint8"
	case "rune":
		return "int32"
	}
	return s
}

func sortedKeys[V any](m map[string]V) []string {
	var ks []string
	for k := range m {
		ks = append(ks, k)
	}
	sort.Strings(ks)
	return ks
}

// mapMutated reports whether a package-level map variable is written anywhere
// other than its initialiser (element assignment, delete, or reassignment).
func (c *Ctx) mapMutated(v *types.Var) bool {
	mut := false
	for _, f := range c.Pkg.Syntax {
		ast.Inspect(f, func(n ast.Node) bool {
			switch x := n.(type) {
			case *ast.AssignStmt:
				for _, l := range x.Lhs {
					switch y := unparen(l).(type) {
					case *ast.IndexExpr:
						if id, ok := unparen(y.X).(*ast.Ident); ok && c.Obj(id) == types.Object(v) {
							mut = true
						}
					}
				}
			case *ast.CallExpr:
				if c.CalleeName(x) == "builtin.delete" && len(x.Args) > 0 {
					if id, ok := unparen(x.Args[0]).(*ast.Ident); ok && c.Obj(id) == types.Object(v) {
						mut = true
					}
				}
			}
			return true
		})
	}
	return mut
}

// callProtocol resolves the two functions of the call protocol structurally:
// the "ready" function is the package-level function that invokes the field
// funcT.Value (argument check before, result trim after); the "packing" function
// is the one that calls it and looks at the Variadic flag.
func (c *Ctx) callProtocol() (pack, ready *ast.FuncDecl) {
	for _, name := range c.FuncNames() {
		fd := c.funcs[name]
		if fd.Body == nil || fd.Recv != nil {
			continue
		}
		direct := false
		ast.Inspect(fd.Body, func(n ast.Node) bool {
			if _, isLit := n.(*ast.FuncLit); isLit {
				return false // a closure invoking Value (newMethod) is not the protocol function
			}
			if call, ok := n.(*ast.CallExpr); ok {
				if sel, ok := unparen(call.Fun).(*ast.SelectorExpr); ok && sel.Sel.Name == "Value" && isNamed(c.TypeOf(sel.X), "funcT") {
					if s := c.Info.Selections[sel]; s != nil && s.Kind() == types.FieldVal {
						direct = true
					}
				}
			}
			return true
		})
		if direct {
			ready = fd
		}
	}
	if ready == nil {
		return nil, nil
	}
	for _, name := range c.FuncNames() {
		fd := c.funcs[name]
		if fd.Body == nil || fd == ready || fd.Recv != nil {
			continue
		}
		calls, variadic := false, false
		ast.Inspect(fd.Body, func(n ast.Node) bool {
			switch x := n.(type) {
			case *ast.CallExpr:
				if c.DeclOf(c.Callee(x)) == ready {
					calls = true
				}
			case *ast.SelectorExpr:
				if x.Sel.Name == "Variadic" && isNamed(c.TypeOf(x.X), "funcT") {
					variadic = true
				}
			}
			return true
		})
		if calls && variadic {
			pack = fd
		}
	}
	return pack, ready
}
