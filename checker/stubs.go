package main

func rulePeepGlue(c *Ctx, r *R)     {}
func rulePeepMeasured(c *Ctx, r *R) {}
