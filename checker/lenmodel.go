package main

// Length model of the operand stack for frame/call protocol code (mkFunc, call,
// callReady, newMethod, the NewFunc adapters): only len(v.stack) is tracked, as
// a linear expression over the entry length L and the function's parameters.

import (
	"fmt"
	"go/ast"
	"go/token"
	"go/types"
	"strings"
)

type lstk struct {
	Len *linForm
	Gen int
}

func (l *lstk) Clone() any { n := *l; return &n }

type lenMachine struct {
	c      *Ctx
	in     *Interp
	vmVars map[string]bool // names of the *VM variable(s)
	gen    int
	Events []string // ordered protocol events on the current path are kept in State.Eff
}

func lstackTerm(l *linForm) *T { return &T{Op: "lstack", Aux: &lstk{Len: l}} }

func (t *T) lstackLen() (*linForm, bool) {
	if t != nil && t.Op == "lstack" {
		return t.Aux.(*lstk).Len, true
	}
	return nil, false
}

func newLenMachine(c *Ctx, vmNames ...string) *lenMachine {
	m := &lenMachine{c: c, vmVars: map[string]bool{}}
	for _, n := range vmNames {
		m.vmVars[n] = true
	}
	in := newInterp(c)
	m.in = in
	in.NoReturn = func(o types.Object) bool { return o.Name() == "panicf" }
	in.Inline = c.isNewHelper
	in.H.Post = m.post
	in.H.Call = m.call
	in.H.Assign = m.assign
	return m
}

func (m *lenMachine) cur(st *State) *linForm {
	if st.X == nil {
		l := newLin()
		l.Coef["L"] = 1
		l.Atom["L"] = tVar(nil, "L")
		st.X = &lstk{Len: l}
	}
	return st.X.(*lstk).Len
}

func (m *lenMachine) isStackField(t *T) bool {
	return t.Op == "field" && t.Name == "stack" && t.Args[0].Op == "var" && m.vmVars[t.Args[0].Name]
}

func (m *lenMachine) post(in *Interp, st *State, e ast.Expr, t *T) *T {
	switch t.Op {
	case "field":
		if m.isStackField(t) {
			return lstackTerm(m.cur(st))
		}
	case "slice":
		if l, ok := t.Args[0].lstackLen(); ok && len(t.Args) == 3 {
			lo, hi := newLin(), l
			if t.Args[1] != nil {
				lo = linOf(t.Args[1])
			}
			if t.Args[2] != nil {
				hi = linOf(t.Args[2])
			}
			v := lstackTerm(hi.add(lo, -1))
			v.Name = "view[" + lo.String() + ":" + hi.String() + "]"
			v.Args = []*T{lo.term(), hi.term()}
			return v
		}
	}
	return nil
}

func (m *lenMachine) call(in *Interp, st *State, call *ast.CallExpr, name string, recv *T, args []*T) *T {
	switch name {
	case "builtin.len":
		if l, ok := args[0].lstackLen(); ok {
			return l.term()
		}
		if args[0].Op == "call" && args[0].Name == "builtin.make" && len(args[0].Args) >= 2 {
			return args[0].Args[1]
		}
		if args[0].Op == "un" && args[0].Name == "..." {
			return tCall("len", args[0].Args[0])
		}
		return nil
	case "builtin.append":
		if l, ok := args[0].lstackLen(); ok {
			n := l
			for _, a := range args[1:] {
				if a.Op == "un" && a.Name == "..." {
					x := a.Args[0]
					if xl, ok := x.lstackLen(); ok {
						n = n.add(xl, 1)
					} else if x.Op == "call" && x.Name == "builtin.make" && len(x.Args) >= 2 {
						n = n.add(linOf(x.Args[1]), 1)
					} else if x.Op == "nil" {
					} else {
						n = n.add(toLin(tCall("len", x)), 1)
					}
					continue
				}
				one := newLin()
				one.K = 1
				n = n.add(one, 1)
			}
			r := lstackTerm(n)
			r.Name = "append"
			r.Args = args
			return r
		}
		return nil
	}
	// a straight-line new helper is inlined by the interpreter: its own statements say what it does to the stack
	if callee := m.c.Callee(call); callee != nil && in.Inline != nil && in.Inline(callee) {
		if fd := m.c.DeclOf(callee); fd != nil && fd.Body != nil && (straightLine(fd.Body) || in.forkCall == call && loopFree(fd.Body)) {
			// (a branching helper is inlined only where the statement forks on its paths)
			return nil
		}
	}
	// a call that receives the VM may change the stack arbitrarily
	touches := false
	if recv != nil && recv.Op == "var" && m.vmVars[recv.Name] {
		touches = true
	}
	for _, a := range args {
		if a.Op == "var" && m.vmVars[a.Name] {
			touches = true
		}
	}
	if touches && !strings.HasPrefix(name, "builtin.") && !in.isPureCall(m.c.Callee(call), name) {
		all := args
		if recv != nil {
			all = append([]*T{recv}, args...)
		}
		t := &T{Op: "call", Name: name, Args: all, Obj: m.c.Callee(call), Node: call}
		st.Eff = append(st.Eff, Effect{Kind: "call", Value: t, Node: call})
		m.gen++
		l := newLin()
		k := fmt.Sprintf("L%d", m.gen)
		l.Coef[k] = 1
		l.Atom[k] = tVar(nil, k)
		st.X = &lstk{Len: l, Gen: m.gen}
		st.Eff = append(st.Eff, Effect{Kind: "stack", Value: tOpaque("stack changed by " + name + " -> len " + k), Node: call})
		return t
	}
	return nil
}

func (m *lenMachine) assign(in *Interp, st *State, lhs ast.Expr, lv *T, val *T) bool {
	if lv == nil {
		return false
	}
	if lv.Op == "lstack" && lv.Name == "" || m.isStackField(lv) {
		if l, ok := val.lstackLen(); ok {
			st.X = &lstk{Len: l}
			st.Eff = append(st.Eff, Effect{Kind: "stack", Value: tOpaque("len=" + l.String() + " via " + val.Name), Node: lhs})
		} else {
			m.gen++
			l := newLin()
			k := fmt.Sprintf("L%d", m.gen)
			l.Coef[k] = 1
			l.Atom[k] = tVar(nil, k)
			st.X = &lstk{Len: l}
			st.Eff = append(st.Eff, Effect{Kind: "stack", Value: tOpaque("stack = " + val.String()), Node: lhs})
		}
		return true
	}
	if lv.Op == "index" && lv.Args[0].Op == "lstack" {
		st.Eff = append(st.Eff, Effect{Kind: "store", Target: &T{Op: "call", Name: "stack", Args: []*T{linOf(lv.Args[1]).term()}}, Value: val, Node: lhs})
		return true
	}
	return false
}

// finalLen: the stack length at the end of a path.
func (m *lenMachine) finalLen(st *State) *linForm { return m.cur(st) }

// straightLine: no branching, loops, closures, defers or gotos in the body.
func straightLine(b *ast.BlockStmt) bool {
	ok := true
	ast.Inspect(b, func(n ast.Node) bool {
		switch n.(type) {
		case *ast.IfStmt, *ast.ForStmt, *ast.RangeStmt, *ast.SwitchStmt, *ast.TypeSwitchStmt, *ast.SelectStmt, *ast.FuncLit, *ast.DeferStmt, *ast.GoStmt, *ast.BranchStmt, *ast.LabeledStmt:
			ok = false
		}
		return ok
	})
	return ok
}

// loopFree: branching allowed, but no loops, closures, defers or gotos in the body.
func loopFree(b *ast.BlockStmt) bool {
	ok := true
	ast.Inspect(b, func(n ast.Node) bool {
		switch x := n.(type) {
		case *ast.ForStmt, *ast.RangeStmt, *ast.SelectStmt, *ast.FuncLit, *ast.DeferStmt, *ast.GoStmt, *ast.LabeledStmt:
			ok = false
		case *ast.BranchStmt:
			if x.Tok == token.GOTO {
				ok = false
			}
		}
		return ok
	})
	return ok
}
