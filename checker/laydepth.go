package main

// LAY-DEPTH — operand-stack effect typing of the code the compiler emits.
//
// Every VM handler has a net effect on len(v.stack) that is a linear expression over its
// instruction operands (handlerNets, computed with the stack-length model).  Every
// compile-case emits, on every path, a sequence of child segments and literal
// instructions; with the effect class of each child position taken from the grammar
// table below, the net effect of the sequence must be the effect class of the node kind
// itself, and the depth at the source and at the target of every jump must agree.

import (
	"fmt"
	"go/ast"
	"go/types"
	"regexp"
	"sort"
	"strings"
)

type netPath struct {
	Cond  string
	Delta *linForm // fall-through effect on len(v.stack)
	Jump  bool     // this path leaves by a jump (pc change)
	Exit  bool     // this path leaves exec (return)
	Panic bool
}

// opcodes whose handler invokes the call protocol (filled by handlerNets)
var callingOpcodesSeen = map[string]bool{}

var insFieldRe = regexp.MustCompile(`\(?\*?&?codes\[v\.frame\.N\]\)?\.`)

// handlerNets: for every opcode with a handler, the paths of the handler with their net
// effect on the operand stack length as a linear form over I.A / I.B / I.C.
func (c *Ctx) handlerNets() (map[string][]netPath, error) {
	sw, err := c.execSwitch()
	if err != nil {
		return nil, err
	}
	fd := sw.Fn
	recv := fd.Recv.List[0].Names[0].Name
	pk, rd := c.callProtocol()
	out := map[string][]netPath{}
	for _, sc := range sw.Cases {
		for _, label := range sc.Labels {
			m := newLenMachine(c, recv)
			inner := m.in.H.Call
			m.in.H.Call = func(in *Interp, st *State, call *ast.CallExpr, name string, rcv *T, args []*T) *T {
				callee := c.Callee(call)
				isProto := false
				if callee != nil {
					if pk != nil && c.Info.Defs[pk.Name] == callee {
						isProto = true
					}
					if rd != nil && c.Info.Defs[rd.Name] == callee {
						isProto = true
					}
				}
				if !isProto && callee != nil && in.Inline != nil && in.Inline(callee) && !loopReturns2(c, callee) {
					return nil // a new helper (e.g. an extracted pop/push): executed in place
				}
				if isProto {
					callingOpcodesSeen[label] = true
				}
				if isProto && len(args) == 4 {
					// axiom (FRM-CHECKS): the call protocol replaces xArgs arguments by xRets results
					cur := m.cur(st)
					n := cur.add(linOf(args[2]), -1).add(linOf(args[3]), 1)
					st.X = &lstk{Len: n}
					return tOpaque("protocol-call")
				}
				if callee != nil && !c.stackTouchers()[callee] {
					if _, isFn := callee.(*types.Func); isFn {
						// a module function that (transitively) never assigns a VM's stack nor
						// invokes a function value with the VM: stack-neutral
						all := args
						if rcv != nil {
							all = append([]*T{rcv}, args...)
						}
						return &T{Op: "call", Name: name, Args: all, Obj: callee, Node: call}
					}
				}
				return inner(in, st, call, name, rcv, args)
			}
			st := newState()
			m.in.bindParams(st, fd.Recv, fd.Type, nil)
			m.in.fnStack = append(m.in.fnStack, fd.Type)
			res := m.in.execStmts(sc.Clause.Body, []*State{st})
			m.in.fnStack = m.in.fnStack[:len(m.in.fnStack)-1]
			for _, r := range res {
				np := netPath{Cond: normIns(condStrings(r))}
				fin := m.finalLen(r)
				d := fin.add(func() *linForm { l := newLin(); l.Coef["L"] = 1; l.Atom["L"] = tVar(nil, "L"); return l }(), -1)
				np.Delta = d
				switch r.Done {
				case "return":
					np.Exit = true
				case "panic":
					np.Panic = true
				}
				for _, e := range r.Eff {
					if e.Kind == "store" && e.Target != nil && strings.HasSuffix(e.Target.String(), ".frame.N") {
						np.Jump = true
					}
				}
				out[label] = append(out[label], np)
			}
		}
	}
	return out, nil
}

func normIns(s string) string {
	s = insFieldRe.ReplaceAllString(s, "I.")
	s = strings.ReplaceAll(s, "i.A", "I.A")
	s = strings.ReplaceAll(s, "i.B", "I.B")
	s = strings.ReplaceAll(s, "i.C", "I.C")
	return s
}

func debugNets(c *Ctx) {
	nets, err := c.handlerNets()
	if err != nil {
		fmt.Println(err)
		return
	}
	var ops []string
	for k := range nets {
		ops = append(ops, k)
	}
	sort.Strings(ops)
	for _, op := range ops {
		for _, p := range nets[op] {
			fmt.Printf("%-22s %-30s jump=%v exit=%v panic=%v [%s]\n", op, normIns(p.Delta.String()), p.Jump, p.Exit, p.Panic, p.Cond)
		}
	}
	_ = types.Typ
}

var stackTouchersCache map[types.Object]bool

// stackTouchers: the module functions that may change a VM's operand stack — they assign
// `.stack` of a VM, or invoke a function value / interface method handing it a *VM, or
// call such a function.
func (c *Ctx) stackTouchers() map[types.Object]bool {
	if stackTouchersCache != nil {
		return stackTouchersCache
	}
	isVM := func(t types.Type) bool {
		if t == nil {
			return false
		}
		if p, ok := t.Underlying().(*types.Pointer); ok {
			t = p.Elem()
		}
		return isNamed(t, "VM")
	}
	touch := map[types.Object]bool{}
	calls := map[types.Object][]types.Object{}
	for _, name := range c.FuncNames() {
		fd := c.Func(name)
		o := c.Info.Defs[fd.Name]
		if fd.Body == nil || o == nil {
			continue
		}
		ast.Inspect(fd.Body, func(n ast.Node) bool {
			switch x := n.(type) {
			case *ast.FuncLit:
				return false // runs when the function value is invoked, which is judged at that call
			case *ast.AssignStmt:
				for _, l := range x.Lhs {
					root := l
					for {
						if ix, ok := unparen(root).(*ast.IndexExpr); ok {
							root = ix.X
							continue
						}
						if sx, ok := unparen(root).(*ast.SliceExpr); ok {
							root = sx.X
							continue
						}
						break
					}
					if sel, ok := unparen(root).(*ast.SelectorExpr); ok && sel.Sel.Name == "stack" && isVM(c.TypeOf(sel.X)) {
						if unparen(root) == unparen(l) { // the slice header itself is assigned
							touch[o] = true
						}
					}
				}
			case *ast.CallExpr:
				callee := c.Callee(x)
				if fn, ok := callee.(*types.Func); ok && fn.Pkg() != nil && fn.Pkg().Path() == modPath {
					// interface methods are dynamic
					if sig, ok := fn.Type().(*types.Signature); ok && sig.Recv() != nil {
						if _, isIface := sig.Recv().Type().Underlying().(*types.Interface); isIface {
							for _, a := range x.Args {
								if isVM(c.TypeOf(a)) {
									touch[o] = true
								}
							}
							return true
						}
					}
					calls[o] = append(calls[o], callee)
					return true
				}
				if callee == nil || func() bool { _, isVar := callee.(*types.Var); return isVar }() {
					// a function value: dynamic
					if _, isConv := c.IsConversion(x); isConv {
						return true
					}
					for _, a := range x.Args {
						if isVM(c.TypeOf(a)) {
							touch[o] = true
						}
					}
				}
			}
			return true
		})
	}
	for changed := true; changed; {
		changed = false
		for f, cs := range calls {
			if touch[f] {
				continue
			}
			for _, g := range cs {
				if touch[g] {
					touch[f] = true
					changed = true
					break
				}
			}
		}
	}
	stackTouchersCache = touch
	return touch
}

// ---------------------------------------------------------------------------------
// effect typing of the compile-cases

// expected net effect of a node kind: "V" one value, "V2" two, "S" none, "R" the
// requested result count of a call, "" not judged here.
var kindEffect = map[string]string{
	"(int)": "V", "(char)": "V", "(float)": "V", "(string)": "V", "<": "V", "&&": "V",
	"true": "V", "(name)": "V", ".": "V", "slice": "V", "lambda": "V", "...": "V", "make": "V",
	"[]": "V", "map": "V", "index": "V", "indexOk": "V2", "negate": "V", "complement": "V", "new": "V",
	"|=": "S", "const": "S", ":=": "S", "function": "S", "=": "S", "block": "S", "init": "S", "if": "S",
	"switch": "S", "for": "S", "range": "S", "break": "S", "continue": "S", "type": "S", "method": "S",
	"~": "S", "package": "S", "import": "S",
	"call": "R",
	"func":   "", // FUNC pushes the function and jumps over header and body: LAY-FUNC
	"return": "", // the values stay for the caller: INS-PATCH / FRM-PAIR
}

// child positions that are statements (no value); every other compiled child is an
// expression (one value).  "T": as many values as the statement has targets (PAR-RESIZE).
var childClass = map[string]map[string]string{
	"if":     {"0": "S", "2": "S", "3": "S"},
	"for":    {"0": "S", "2": "S", "3": "S"},
	"range":  {"3": "S"},
	"switch": {"1/i/1/*": "S", "2/*": "S"},
	"block":  {"*": "S"},
	":=":     {"1": "T"},
	"=":      {"1": "T"},
}

// kinds whose compile-case takes all children at once: the number of children is fixed by the grammar
var fixedArity = map[string]int64{"<": 2}

// Go's arities of the builtins that compile to one instruction
var builtinArity = map[string]int64{"len": 1, "copy": 2, "delete": 2, "panic": 1}

type depthJudge struct {
	c     *Ctx
	r     *R
	nets  map[string][]netPath
	m     *layMachine
	label string
}

// targetsTerm: tok.Tokens[0].Tokens as the interpreter names it.
func (d *depthJudge) targetsTerm(st *State) *T {
	var tok *T
	for o, v := range st.Vars {
		if o != nil && o.Name() == "tok" && v != nil && v.Op == "var" {
			tok = v
		}
	}
	if tok == nil {
		tok = tVar(nil, "tok")
	}
	return tField(tIndex(tField(tok, "Tokens"), tInt(0)), "Tokens")
}

func lconst(k int64) *linForm { l := newLin(); l.K = k; return l }

// insEffect: fall-through and taken effect of a literal instruction.
func (d *depthJudge) insEffect(ins *T) (fall, taken *linForm, jumps, uncond bool, err error) {
	code := litField(ins, "Code")
	if code == nil || code.Op != "const" {
		return nil, nil, false, false, fmt.Errorf("opcode is not a constant (%v)", code)
	}
	ps, ok := d.nets[code.Name]
	if !ok {
		switch code.Name {
		case "codeBreak", "codeContinue":
			return lconst(0), nil, false, true, nil // placeholders, rewritten to JUMP by the enclosing loop/switch
		case "codeType", "codeTODO":
			return lconst(0), nil, false, false, nil // FUNC header data, never executed
		}
		return nil, nil, false, false, fmt.Errorf("no handler for %s", code.Name)
	}
	subst := func(l *linForm) (*linForm, error) {
		out := l
		for k := range l.Coef {
			nk := normIns(k)
			var val *T
			switch {
			case strings.Contains(nk, "splitParams(I."):
				f := nk[strings.Index(nk, "splitParams(I.")+len("splitParams(I."):][:1]
				packed := litField(ins, f)
				idx := 0
				if strings.Contains(nk, "#1") {
					idx = 1
				}
				pk := packed
				for pk != nil && pk.Op == "conv" && len(pk.Args) == 1 {
					pk = pk.Args[0]
				}
				if pk == nil || pk.Op != "call" || pk.Name != "joinParams" || len(pk.Args) != 2 {
					return nil, fmt.Errorf("%s.%s is unpacked by the handler but not built with joinParams", code.Name, f)
				}
				val = pk.Args[idx]
			case strings.Contains(nk, "I.A"), strings.Contains(nk, "I.B"), strings.Contains(nk, "I.C"):
				f := "A"
				if strings.Contains(nk, "I.B") {
					f = "B"
				} else if strings.Contains(nk, "I.C") {
					f = "C"
				}
				val = litField(ins, f)
				if val == nil {
					val = tInt(0)
				}
			default:
				return nil, fmt.Errorf("the effect of %s depends on %s", code.Name, nk)
			}
			out = out.subst(k, linOf(val))
		}
		return out, nil
	}
	allJump, anyFall := true, false
	allPanic := true
	for _, p := range ps {
		if !p.Panic {
			allPanic = false
		}
	}
	if allPanic {
		return lconst(0), nil, false, true, nil // never falls through
	}
	// an effect that depends on an operand being zero or not: [X != 0] is kept as an atom nz(X)
	for _, f := range []string{"A", "B", "C"} {
		var ez, en *linForm
		okPart, nZ, nN := true, 0, 0
		for _, p := range ps {
			if p.Jump || p.Exit || p.Panic {
				okPart = false
				break
			}
			e, err := subst(p.Delta)
			if err != nil {
				okPart = false
				break
			}
			cs := nosp(p.Cond)
			switch {
			case strings.Contains(cs, "I."+f+"==0"):
				nZ++
				if ez != nil && ez.String() != e.String() {
					okPart = false
				}
				ez = e
			case strings.Contains(cs, "I."+f+"!=0"):
				nN++
				if en != nil && en.String() != e.String() {
					okPart = false
				}
				en = e
			default:
				okPart = false
			}
		}
		if okPart && nZ > 0 && nN > 0 {
			diff := en.add(ez, -1)
			if k, isC := diff.isConst(); isC {
				val := litField(ins, f)
				if val == nil {
					return ez, nil, false, false, nil
				}
				nz := tCall("nz", stripIntConv(val))
				return ez.add(toLin(nz).scale(k), 1), nil, false, false, nil
			}
		}
	}
	for _, p := range ps {
		if p.Panic {
			continue
		}
		e, err := subst(p.Delta)
		if err != nil {
			return nil, nil, false, false, err
		}
		if p.Jump || p.Exit {
			jumps = jumps || p.Jump
			if p.Jump {
				if taken != nil && taken.String() != e.String() {
					return nil, nil, false, false, fmt.Errorf("%s has taken paths with different effects", code.Name)
				}
				taken = e
			}
			continue
		}
		allJump = false
		anyFall = true
		if fall != nil && fall.String() != e.String() {
			return nil, nil, false, false, fmt.Errorf("%s has fall-through paths with different effects (%s vs %s)", code.Name, fall, e)
		}
		fall = e
	}
	uncond = allJump && !anyFall
	if fall == nil {
		fall = lconst(0)
	}
	return fall, taken, jumps, uncond, nil
}

// segEffect: the effect of a child segment.
func (d *depthJudge) segEffect(st *State, a *atom, iterEff map[*loopIter]*linForm) (*linForm, error) {
	seg := a.Seg
	if d.m.ls(st).zero[seg.lenKey()] {
		return lconst(0), nil
	}
	switch seg.Kind {
	case "loop-entry":
		return lconst(0), nil
	case "loop-result":
		if e, ok := iterEff[seg.Iter]; ok && e != nil {
			return e, nil
		}
		return nil, fmt.Errorf("the effect of the loop at %s is not known", d.c.Pos(seg.Node))
	}
	if seg.Src != nil && seg.Src.Op == "lit" && strings.HasPrefix(seg.Src.Name, "[]") {
		// a literal slice of instructions
		total := lconst(0)
		for _, el := range seg.Src.Args {
			fall, _, _, _, err := d.insEffect(el)
			if err != nil {
				return nil, err
			}
			total = total.add(fall, 1)
		}
		return total, nil
	}
	src := seg.Src
	for src != nil && src.Op == "call" && src.Name == "compiler.optimize" && len(src.Args) == 1 {
		src = src.Args[0]
	}
	if src == nil || src.Op != "call" {
		return nil, fmt.Errorf("segment %s has no recognisable source", seg.lenKey())
	}
	switch src.Name {
	case "compiler.toData":
		return lconst(1), nil // a composite literal or expression leaves one value (judged in toData itself)
	case "compiler.compile", "compiler.compileAll":
	default:
		// a new helper that returns instructions (e.g. an extracted "cast to the declared
		// type"): its own layouts, all with one effect
		if e, ok := d.helperEffect(src.Name); ok {
			return e, nil
		}
		return nil, fmt.Errorf("segment produced by %s", src.Name)
	}
	child := src.Args[len(src.Args)-1]
	path := strings.Join(childPath(src), "/")
	class := "E"
	if cc, ok := childClass[d.label][path]; ok {
		class = cc
	}
	switch class {
	case "S":
		return lconst(0), nil
	case "T":
		// as many values as targets: tok.Tokens[0].Tokens
		return toLin(tCall("len", d.targetsTerm(st))), nil
	}
	if src.Name == "compiler.compileAll" {
		if n, ok := fixedArity[d.label]; ok && child.String() == "tok.Tokens" {
			return lconst(n), nil
		}
		return toLin(tCall("len", child)), nil
	}
	return lconst(1), nil
}

// tripCount: how often a sequence-building loop runs, as a linear form (and a divisor for
// `i += k` loops).
func (d *depthJudge) tripCount(it *loopIter) (*linForm, int64, error) {
	switch l := it.Node.(type) {
	case *ast.RangeStmt:
		return toLin(tCall("len", d.m.in.eval(it.Exits[0].St.Clone(), l.X))), 1, nil
	case *ast.ForStmt:
		be, ok := unparen(l.Cond).(*ast.BinaryExpr)
		if !ok {
			return nil, 0, fmt.Errorf("loop condition")
		}
		// descending: for i := len(X) - 1; i >= 0; i-- runs len(X) times
		if as, ok := l.Init.(*ast.AssignStmt); ok && len(as.Rhs) == 1 && len(as.Lhs) == 1 && be.Op.String() == ">=" {
			if z, ok := d.c.ConstInt(be.Y); ok && z == 0 && nosp(d.c.Src(be.X)) == nosp(d.c.Src(as.Lhs[0])) {
				if ib, ok := unparen(as.Rhs[0]).(*ast.BinaryExpr); ok && ib.Op.String() == "-" {
					if one, ok := d.c.ConstInt(ib.Y); ok && one == 1 {
						if lc, ok := unparen(ib.X).(*ast.CallExpr); ok && d.c.CalleeName(lc) == "builtin.len" {
							if p, ok := l.Post.(*ast.IncDecStmt); ok && p.Tok.String() == "--" && nosp(d.c.Src(p.X)) == nosp(d.c.Src(as.Lhs[0])) {
								return toLin(tCall("len", d.m.in.eval(it.Exits[0].St.Clone(), lc.Args[0]))), 1, nil
							}
						}
					}
				}
			}
		}
		call, ok := unparen(be.Y).(*ast.CallExpr)
		if !ok || d.c.CalleeName(call) != "builtin.len" {
			return nil, 0, fmt.Errorf("loop bound is not len(...)")
		}
		cnt := toLin(tCall("len", d.m.in.eval(it.Exits[0].St.Clone(), call.Args[0])))
		start := int64(-1)
		if as, ok := l.Init.(*ast.AssignStmt); ok && len(as.Rhs) == 1 {
			if v, ok := d.c.ConstInt(as.Rhs[0]); ok {
				start = v
			}
		}
		step := int64(0)
		switch p := l.Post.(type) {
		case *ast.IncDecStmt:
			step = 1
		case *ast.AssignStmt:
			if len(p.Rhs) == 1 {
				if v, ok := d.c.ConstInt(p.Rhs[0]); ok && p.Tok.String() == "+=" {
					step = v
				}
			}
		}
		switch {
		case be.Op.String() == "<" && start == 0 && step >= 1:
			return cnt, step, nil
		case be.Op.String() == "<=" && start == 1 && step == 1:
			return cnt, 1, nil
		}
		return nil, 0, fmt.Errorf("loop header is not a recognised counting form")
	}
	return nil, 0, fmt.Errorf("not a loop")
}

// seqEffect walks one atom sequence; returns the net effect and reports jump inconsistencies.
func (d *depthJudge) seqEffect(p *layoutPath, atoms []*atom, iterEff map[*loopIter]*linForm, key string, pos string) (*linForm, bool) {
	starts := d.m.starts(p, atoms)
	depthAt := make([]*linForm, len(atoms)+1)
	depthAt[0] = lconst(0)
	okAll := true
	for i, a := range atoms {
		cur := depthAt[i]
		if a.Seg != nil {
			e, err := d.segEffect(p.St, a, iterEff)
			if err != nil {
				d.r.undecided(key, pos, err.Error())
				return nil, false
			}
			if cur != nil {
				d.setDepth(depthAt, i+1, cur.add(e, 1), key, pos, &okAll)
			}
			continue
		}
		fall, taken, jumps, uncond, err := d.insEffect(a.Ins)
		if err != nil {
			d.r.undecided(key, pos, err.Error())
			return nil, false
		}
		if cur != nil && jumps && taken != nil {
			// target = start of this instruction + 1 + A
			if av := litField(a.Ins, "A"); av != nil || opName(a.Ins) == "Range" || opName(a.Ins) == "Iter" {
				operand := av
				switch opName(a.Ins) {
				case "Range":
					operand = litField(a.Ins, "B")
				case "Iter":
					operand = litField(a.Ins, "C")
				}
				if operand != nil {
					tgt := d.m.applyZero(p.St, starts[i].add(lconst(1), 1).add(linOf(operand), 1))
					for j := range starts {
						if d.m.applyZero(p.St, starts[j]).String() == tgt.String() {
							d.setDepth(depthAt, j, cur.add(taken, 1), key+" jump "+opName(a.Ins), pos, &okAll)
							break
						}
					}
				}
			}
		}
		if uncond {
			continue // the next atom is reached through jumps only
		}
		if cur != nil {
			d.setDepth(depthAt, i+1, cur.add(fall, 1), key, pos, &okAll)
		}
	}
	end := depthAt[len(atoms)]
	if end == nil {
		// ends in an unconditional transfer: take the last known depth
		for i := len(atoms); i >= 0; i-- {
			if depthAt[i] != nil {
				end = depthAt[i]
				break
			}
		}
	}
	return end, okAll
}

func (d *depthJudge) setDepth(depthAt []*linForm, j int, v *linForm, key, pos string, okAll *bool) {
	if depthAt[j] == nil {
		depthAt[j] = v
		return
	}
	if depthAt[j].String() != v.String() {
		*okAll = false
		d.r.fail(key, pos, fmt.Sprintf("compile(%q): the operand stack has depth %s at one arrival and %s at another arrival of the same point of the emitted code: a branch leaves a value behind (or consumes one too many), so the statement is not stack-neutral on every path", d.label, depthAt[j], v))
	}
}

func ruleLayDepth(c *Ctx, r *R) {
	cs, err := c.compileSwitch()
	if err != nil {
		r.undecided("compile", "-", err.Error())
		return
	}
	nets, err := c.handlerNets()
	if err != nil {
		r.undecided("exec", "-", err.Error())
		return
	}
	judged := 0
	judge := func(label string, bind map[string]*T, expectOverride *linForm, tag string) {
		sc := cs.ByLabel[label]
		kind, known := kindEffect[label]
		if sc == nil || !known || kind == "" {
			return
		}
		m := newLayMachine(c)
		cl, err := m.runCaseWith(cs, label, bind)
		pos := c.Pos(sc.Clause)
		key := "depth " + label + tag
		if err != nil {
			r.undecided(key, pos, err.Error())
			return
		}
		d := &depthJudge{c: c, r: r, nets: nets, m: m, label: label}
		// loops first: per-iteration effect times trip count
		iterEff := map[*loopIter]*linForm{}
		for ii, it := range cl.Iters {
			var per *linForm
			okIt := true
			for _, ex := range it.Exits {
				e, ok := d.seqEffect(ex, ex.Atoms, iterEff, fmt.Sprintf("%s loop%d", key, ii), c.Pos(it.Node))
				if e == nil || !ok {
					okIt = false
					break
				}
				if per != nil && per.String() != e.String() {
					r.fail(fmt.Sprintf("%s loop%d", key, ii), c.Pos(it.Node), fmt.Sprintf("compile(%q): one iteration of the loop at %s changes the stack depth by %s on one path and by %s on another", label, c.Pos(it.Node), per, e))
					okIt = false
					break
				}
				per = e
			}
			if !okIt || per == nil {
				continue
			}
			total := lconst(0)
			if k, isC := per.isConst(); !isC || k != 0 {
				trip, div, err := d.tripCount(it)
				if err != nil {
					r.undecided(fmt.Sprintf("%s loop%d", key, ii), c.Pos(it.Node), "per-iteration effect "+per.String()+" but "+err.Error())
					continue
				}
				kk, isC := per.isConst()
				if !isC || kk%div != 0 {
					r.undecided(fmt.Sprintf("%s loop%d", key, ii), c.Pos(it.Node), "per-iteration effect "+per.String()+" with step "+fmt.Sprint(div))
					continue
				}
				total = trip.scale(kk / div)
			}
			if it.IncludesBefore && len(it.Before) > 0 {
				pre := &layoutPath{Atoms: it.Before, St: it.Exits[0].St}
				e, ok := d.seqEffect(pre, it.Before, iterEff, fmt.Sprintf("%s loop%d prefix", key, ii), c.Pos(it.Node))
				if e == nil || !ok {
					continue
				}
				total = total.add(e, 1)
			}
			iterEff[it] = total
		}
		for pi, p := range cl.Paths {
			atoms := m.live(p)
			pkey := fmt.Sprintf("%s path%d", key, pi)
			e, ok := d.seqEffect(p, atoms, iterEff, pkey, pos)
			if e == nil {
				continue
			}
			judged++
			var want *linForm
			switch kind {
			case "V":
				want = lconst(1)
			case "V2":
				want = lconst(2)
			case "S":
				want = lconst(0)
			case "R":
				want = expectOverride
			}
			if want == nil {
				continue
			}
			if len(atoms) == 0 && kind != "S" {
				r.ok(pkey, "emits nothing: not a value-producing path of a valid program")
				continue
			}
			got := m.applyZero(p.St, e)
			if ok {
				r.check(got.String() == want.String(), pkey, pos, "net stack effect "+want.String(),
					fmt.Sprintf("compile(%q) emits code whose net effect on the operand stack is %s on the path [%s], but a %s node must leave %s: %s", label, got, condStrings(p.St), label, want, depthWhy(kind)))
			}
		}
	}
	var labels []string
	for l := range kindEffect {
		labels = append(labels, l)
	}
	sort.Strings(labels)
	for _, l := range labels {
		if l == "call" {
			continue
		}
		judge(l, nil, nil, "")
	}
	// calls: the requested result count R = tok.Tokens[2].Int(); one run per builtin name
	rTerm := toLin(tCall("token.Int", tOpaque("tok.Tokens[2]")))
	_ = rTerm
	judgeCalls(c, r, cs, nets, &judged)
	judgeToData(c, r, nets, &judged)
	if judged < 40 {
		r.undecided("depth", "-", fmt.Sprintf("only %d emitted sequences could be judged", judged))
	}
}

func depthWhy(kind string) string {
	switch kind {
	case "S":
		return "a statement that leaves a value behind grows the operand stack on every execution (in a loop: without bound), one that consumes too much eats a local slot"
	default:
		return "the consumer of the expression pops a value that was never pushed (or a stray value shifts every later operand)"
	}
}

// judgeCalls: compile("call") — user calls leave the requested number of results; each
// builtin instruction leaves what Go's builtin yields.
func judgeCalls(c *Ctx, r *R, cs *bigSwitch, nets map[string][]netPath, judged *int) {
	sc := cs.ByLabel["call"]
	if sc == nil {
		return
	}
	pos := c.Pos(sc.Clause)
	names := []string{""}
	vals, order := c.stringKeyed(c.mapLit("builtinMap"))
	_ = vals
	names = append(names, order...)
	for _, name := range names {
		var bind map[string]*T
		tag := " user"
		if name != "" {
			bind = map[string]*T{"tok.Tokens[0].Text": tStr(name)}
			tag = " builtin " + name
		}
		m := newLayMachine(c)
		cl, err := m.runCaseWith(cs, "call", bind)
		if err != nil {
			r.undecided("depth call"+tag, pos, err.Error())
			continue
		}
		d := &depthJudge{c: c, r: r, nets: nets, m: m, label: "call"}
		for pi, p := range cl.Paths {
			cond := condStrings(p.St)
			// keep the paths that belong to this run
			isBuiltinPath := false
			for _, a := range p.Atoms {
				if a.Ins != nil {
					if code := litField(a.Ins, "Code"); code != nil && code.Op == "const" {
						if _, isB := builtinOpcodes(c)[code.Name]; isB {
							isBuiltinPath = true
						}
					}
				}
			}
			if (name == "") == isBuiltinPath {
				continue
			}
			if name == "" && strings.Contains(cond, "builtinMap[") && !strings.Contains(cond, "== 0)") {
				continue
			}
			atoms := m.live(p)
			pkey := fmt.Sprintf("depth call%s path%d", tag, pi)
			e, ok := d.seqEffect(p, atoms, map[*loopIter]*linForm{}, pkey, pos)
			if e == nil || !ok {
				continue
			}
			*judged++
			got := e
			argsLen := "len(tok.Tokens[1].Tokens)"
			// substitute the builtin's arity for the argument count
			if n, ok := builtinArity[name]; ok {
				for k := range got.Coef {
					if nosp(k) == argsLen {
						got = got.subst(k, lconst(n))
					}
				}
			}
			rs := "token.Int(tok.Tokens[2])"
			switch {
			case name == "":
				// conversions: one argument, one value
				isConv := false
				for _, a := range atoms {
					if a.Ins != nil && opName(a.Ins) == "Convert" {
						isConv = true
					}
				}
				if isConv {
					for k := range got.Coef {
						if nosp(k) == argsLen {
							got = got.subst(k, lconst(1))
						}
					}
					r.check(got.String() == "1", pkey, pos, "a conversion leaves one value", fmt.Sprintf("compile(\"call\"): a conversion leaves %s values on the stack (path [%s])", got, cond))
					continue
				}
				r.check(nosp(got.String()) == rs, pkey, pos, "a call leaves the requested number of results", fmt.Sprintf("compile(\"call\") emits code that leaves %s values where the call node asks for %s (path [%s]): arguments or results are miscounted and the stack is misaligned after the call", got, rs, cond))
			case name == "copy":
				// Go's copy yields its count: 0 values as a statement, 1 when the result is used
				ok0 := got.String() == "0" // no result at all
				hasR := false
				for k := range got.Coef {
					if nosp(k) == rs {
						hasR = true
					}
				}
				_ = ok0
				if nosp(got.String()) == "nz("+rs+")" {
					hasR = true
				}
				r.check(hasR || nosp(got.String()) == rs, pkey, pos, "copy leaves its count when asked for a result", fmt.Sprintf("compile(\"call\") for the builtin copy leaves %s values whatever the context asks for: `n := copy(a, b)`, `return copy(a, b)`, `if copy(a, b) == 2` consume a stack entry that was never pushed", got))
			case name == "len", name == "append":
				r.check(got.String() == "1", pkey, pos, name+" leaves one value", fmt.Sprintf("compile(\"call\") for the builtin %s leaves %s values (Go: one)", name, got))
			case name == "panic":
				r.ok(pkey, "panic does not return")
			case name == "delete":
				r.check(got.String() == "0", pkey, pos, name+" leaves nothing", fmt.Sprintf("compile(\"call\") for the builtin %s leaves %s values (Go: none)", name, got))
			default:
				r.ok(pkey, "builtin "+name+": net effect "+got.String()+" (not judged)")
			}
		}
	}
}

var builtinOpcodesCache map[string]bool

func builtinOpcodes(c *Ctx) map[string]bool {
	if builtinOpcodesCache != nil {
		return builtinOpcodesCache
	}
	out := map[string]bool{}
	vals, _ := c.stringKeyed(c.mapLit("builtinMap"))
	for _, v := range vals {
		if n := c.codeConstName(v); n != "" {
			out[n] = true
		}
	}
	builtinOpcodesCache = out
	return out
}

// runFunc: execute a function that returns []instruction with the layout machine
// (used for compiler.toData); the layouts are the returned sequences.
func (m *layMachine) runFunc(fd *ast.FuncDecl) (*caseLayouts, error) {
	st := newState()
	m.in.bindParams(st, fd.Recv, fd.Type, nil)
	m.in.Overflow = false
	m.iters = nil
	m.in.fnStack = append(m.in.fnStack, fd.Type)
	defer func() { m.in.fnStack = m.in.fnStack[:len(m.in.fnStack)-1] }()
	res := m.in.execStmts(fd.Body.List, []*State{st})
	out := &caseLayouts{Label: fd.Name.Name, Iters: m.iters}
	for _, r := range res {
		if r.Done != "return" || len(r.Ret) != 1 {
			continue
		}
		atoms, ok := seqAtoms(r.Ret[0])
		if !ok && r.Ret[0].Op == "lit" && strings.HasPrefix(r.Ret[0].Name, "[]") {
			// a literal slice of instructions
			ok = true
			for _, el := range r.Ret[0].Args {
				atoms = append(atoms, &atom{Ins: el})
			}
		}
		if !ok {
			out.Flags = append(out.Flags, "result is not a sequence on some path")
			continue
		}
		out.Paths = append(out.Paths, &layoutPath{Atoms: atoms, St: r})
	}
	if len(out.Paths) == 0 {
		return nil, fmt.Errorf("%s: no returning path yields an instruction sequence", fd.Name.Name)
	}
	return out, nil
}

// judgeToData: compiler.toData leaves exactly one value for every shape of literal.
func judgeToData(c *Ctx, r *R, nets map[string][]netPath, judged *int) {
	fd := c.Func("compiler.toData")
	if fd == nil {
		r.undecided("depth toData", "-", "compiler.toData not found")
		return
	}
	m := newLayMachine(c)
	cl, err := m.runFunc(fd)
	if err != nil {
		r.undecided("depth toData", c.Pos(fd), err.Error())
		return
	}
	d := &depthJudge{c: c, r: r, nets: nets, m: m, label: "toData"}
	iterEff := map[*loopIter]*linForm{}
	for ii, it := range cl.Iters {
		var per *linForm
		okIt := true
		for _, ex := range it.Exits {
			e, ok := d.seqEffect(ex, ex.Atoms, iterEff, fmt.Sprintf("depth toData loop%d", ii), c.Pos(it.Node))
			if e == nil || !ok {
				okIt = false
				break
			}
			if per != nil && per.String() != e.String() {
				r.fail(fmt.Sprintf("depth toData loop%d", ii), c.Pos(it.Node), fmt.Sprintf("toData: one iteration of the loop at %s changes the stack depth by %s on one path and by %s on another", c.Pos(it.Node), per, e))
				okIt = false
				break
			}
			per = e
		}
		if !okIt || per == nil {
			continue
		}
		total := lconst(0)
		if k, isC := per.isConst(); !isC || k != 0 {
			trip, div, err := d.tripCount(it)
			kk, isC := per.isConst()
			if err != nil || !isC || kk%div != 0 {
				r.undecided(fmt.Sprintf("depth toData loop%d", ii), c.Pos(it.Node), "per-iteration effect "+per.String()+": trip count not known")
				continue
			}
			total = trip.scale(kk / div)
		}
		if it.IncludesBefore && len(it.Before) > 0 {
			pre := &layoutPath{Atoms: it.Before, St: it.Exits[0].St}
			if e, ok := d.seqEffect(pre, it.Before, iterEff, fmt.Sprintf("depth toData loop%d prefix", ii), c.Pos(it.Node)); e != nil && ok {
				total = total.add(e, 1)
			}
		}
		iterEff[it] = total
	}
	for pi, p := range cl.Paths {
		atoms := m.live(p)
		pkey := fmt.Sprintf("depth toData path%d", pi)
		e, ok := d.seqEffect(p, atoms, iterEff, pkey, c.Pos(fd))
		if e == nil || !ok {
			continue
		}
		*judged++
		got := m.applyZero(p.St, e)
		r.check(got.String() == "1", pkey, c.Pos(fd), "a literal leaves one value",
			fmt.Sprintf("compiler.toData emits code that leaves %s values for a literal on the path [%s] (one is required): the element count handed to NEWSLICE/NEWMAP/NEWSTRUCT does not match the elements pushed, so the constructor eats a neighbouring stack entry or leaves elements behind", got, condStrings(p.St)))
	}
}

func loopReturns2(c *Ctx, callee types.Object) bool {
	fd := c.DeclOf(callee)
	return fd == nil || fd.Body == nil || loopReturns(fd)
}

var helperEffectCache = map[string]*linForm{}

// helperEffect: the net effect of the instructions a new helper returns, when it is the same
// constant on every returning path.
func (d *depthJudge) helperEffect(name string) (*linForm, bool) {
	if e, ok := helperEffectCache[name]; ok {
		return e, e != nil
	}
	helperEffectCache[name] = nil
	fd := d.c.Func(name)
	if fd == nil || fd.Body == nil {
		return nil, false
	}
	if o := d.c.Info.Defs[fd.Name]; o == nil || !d.c.isNewHelper(o) {
		return nil, false
	}
	m := newLayMachine(d.c)
	cl, err := m.runFunc(fd)
	if err != nil || len(cl.Iters) > 0 {
		return nil, false
	}
	sub := &depthJudge{c: d.c, r: newR("tmp", 0), nets: d.nets, m: m, label: "helper"}
	var eff *linForm
	for _, p := range cl.Paths {
		e, ok := sub.seqEffect(p, m.live(p), map[*loopIter]*linForm{}, "helper", "-")
		if e == nil || !ok {
			return nil, false
		}
		if eff != nil && eff.String() != e.String() {
			return nil, false
		}
		eff = e
	}
	helperEffectCache[name] = eff
	return eff, eff != nil
}
