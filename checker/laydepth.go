package main

// LAY-DEPTH — operand-stack effect typing of the code the compiler emits.
//
// Every VM handler has a net effect on len(v.stack) that is a linear expression over its
// instruction operands (handlerNets, computed with the stack-length model).  Every
// compile-case emits, on every path, a sequence of child segments and literal
// instructions; with the effect class of each child position taken from the grammar
// table below, the net effect of the sequence must be the effect class of the node kind
// itself, and the depth at the source and at the target of every jump must agree.

import (
	"fmt"
	"go/ast"
	"go/types"
	"regexp"
	"sort"
	"strings"
)

type netPath struct {
	Cond  string
	Delta *linForm // fall-through effect on len(v.stack)
	Jump  bool     // this path leaves by a jump (pc change)
	Exit  bool     // this path leaves exec (return)
	Panic bool
}

var insFieldRe = regexp.MustCompile(`\(?\*?&?codes\[v\.frame\.N\]\)?\.`)

// handlerNets: for every opcode with a handler, the paths of the handler with their net
// effect on the operand stack length as a linear form over I.A / I.B / I.C.
func (c *Ctx) handlerNets() (map[string][]netPath, error) {
	sw, err := c.execSwitch()
	if err != nil {
		return nil, err
	}
	fd := sw.Fn
	recv := fd.Recv.List[0].Names[0].Name
	pk, rd := c.callProtocol()
	out := map[string][]netPath{}
	for _, sc := range sw.Cases {
		for _, label := range sc.Labels {
			m := newLenMachine(c, recv)
			inner := m.in.H.Call
			m.in.H.Call = func(in *Interp, st *State, call *ast.CallExpr, name string, rcv *T, args []*T) *T {
				callee := c.Callee(call)
				isProto := false
				if callee != nil {
					if pk != nil && c.Info.Defs[pk.Name] == callee {
						isProto = true
					}
					if rd != nil && c.Info.Defs[rd.Name] == callee {
						isProto = true
					}
				}
				if isProto && len(args) == 4 {
					// axiom (FRM-CHECKS): the call protocol replaces xArgs arguments by xRets results
					cur := m.cur(st)
					n := cur.add(linOf(args[2]), -1).add(linOf(args[3]), 1)
					st.X = &lstk{Len: n}
					return tOpaque("protocol-call")
				}
				if callee != nil && !c.stackTouchers()[callee] {
					if _, isFn := callee.(*types.Func); isFn {
						// a module function that (transitively) never assigns a VM's stack nor
						// invokes a function value with the VM: stack-neutral
						all := args
						if rcv != nil {
							all = append([]*T{rcv}, args...)
						}
						return &T{Op: "call", Name: name, Args: all, Obj: callee, Node: call}
					}
				}
				return inner(in, st, call, name, rcv, args)
			}
			st := newState()
			m.in.bindParams(st, fd.Recv, fd.Type, nil)
			m.in.fnStack = append(m.in.fnStack, fd.Type)
			res := m.in.execStmts(sc.Clause.Body, []*State{st})
			m.in.fnStack = m.in.fnStack[:len(m.in.fnStack)-1]
			for _, r := range res {
				np := netPath{Cond: normIns(condStrings(r))}
				fin := m.finalLen(r)
				d := fin.add(func() *linForm { l := newLin(); l.Coef["L"] = 1; l.Atom["L"] = tVar(nil, "L"); return l }(), -1)
				np.Delta = d
				switch r.Done {
				case "return":
					np.Exit = true
				case "panic":
					np.Panic = true
				}
				for _, e := range r.Eff {
					if e.Kind == "store" && e.Target != nil && strings.HasSuffix(e.Target.String(), ".frame.N") {
						np.Jump = true
					}
				}
				out[label] = append(out[label], np)
			}
		}
	}
	return out, nil
}

func normIns(s string) string {
	s = insFieldRe.ReplaceAllString(s, "I.")
	s = strings.ReplaceAll(s, "i.A", "I.A")
	s = strings.ReplaceAll(s, "i.B", "I.B")
	s = strings.ReplaceAll(s, "i.C", "I.C")
	return s
}

func debugNets(c *Ctx) {
	nets, err := c.handlerNets()
	if err != nil {
		fmt.Println(err)
		return
	}
	var ops []string
	for k := range nets {
		ops = append(ops, k)
	}
	sort.Strings(ops)
	for _, op := range ops {
		for _, p := range nets[op] {
			fmt.Printf("%-22s %-30s jump=%v exit=%v panic=%v [%s]\n", op, normIns(p.Delta.String()), p.Jump, p.Exit, p.Panic, p.Cond)
		}
	}
	_ = types.Typ
}

var stackTouchersCache map[types.Object]bool

// stackTouchers: the module functions that may change a VM's operand stack — they assign
// `.stack` of a VM, or invoke a function value / interface method handing it a *VM, or
// call such a function.
func (c *Ctx) stackTouchers() map[types.Object]bool {
	if stackTouchersCache != nil {
		return stackTouchersCache
	}
	isVM := func(t types.Type) bool {
		if t == nil {
			return false
		}
		if p, ok := t.Underlying().(*types.Pointer); ok {
			t = p.Elem()
		}
		return isNamed(t, "VM")
	}
	touch := map[types.Object]bool{}
	calls := map[types.Object][]types.Object{}
	for _, name := range c.FuncNames() {
		fd := c.Func(name)
		o := c.Info.Defs[fd.Name]
		if fd.Body == nil || o == nil {
			continue
		}
		ast.Inspect(fd.Body, func(n ast.Node) bool {
			switch x := n.(type) {
			case *ast.FuncLit:
				return false // runs when the function value is invoked, which is judged at that call
			case *ast.AssignStmt:
				for _, l := range x.Lhs {
					root := l
					for {
						if ix, ok := unparen(root).(*ast.IndexExpr); ok {
							root = ix.X
							continue
						}
						if sx, ok := unparen(root).(*ast.SliceExpr); ok {
							root = sx.X
							continue
						}
						break
					}
					if sel, ok := unparen(root).(*ast.SelectorExpr); ok && sel.Sel.Name == "stack" && isVM(c.TypeOf(sel.X)) {
						if unparen(root) == unparen(l) { // the slice header itself is assigned
							touch[o] = true
						}
					}
				}
			case *ast.CallExpr:
				callee := c.Callee(x)
				if fn, ok := callee.(*types.Func); ok && fn.Pkg() != nil && fn.Pkg().Path() == modPath {
					// interface methods are dynamic
					if sig, ok := fn.Type().(*types.Signature); ok && sig.Recv() != nil {
						if _, isIface := sig.Recv().Type().Underlying().(*types.Interface); isIface {
							for _, a := range x.Args {
								if isVM(c.TypeOf(a)) {
									touch[o] = true
								}
							}
							return true
						}
					}
					calls[o] = append(calls[o], callee)
					return true
				}
				if callee == nil || func() bool { _, isVar := callee.(*types.Var); return isVar }() {
					// a function value: dynamic
					if _, isConv := c.IsConversion(x); isConv {
						return true
					}
					for _, a := range x.Args {
						if isVM(c.TypeOf(a)) {
							touch[o] = true
						}
					}
				}
			}
			return true
		})
	}
	for changed := true; changed; {
		changed = false
		for f, cs := range calls {
			if touch[f] {
				continue
			}
			for _, g := range cs {
				if touch[g] {
					touch[f] = true
					changed = true
					break
				}
			}
		}
	}
	stackTouchersCache = touch
	return touch
}
